#!/usr/bin/env python3
"""T1: small pure C++ functions -> the deep-embedded IR of coq/CxxIR.v, from clang's JSON AST.
Accepted subset: switch/case/default with fall-through, break, return, if/else, blocks, local variable
declarations with initialisers, assignment to locals/parameters, == != < <= > >= && || !, enumerator and
integer constants, calls to other translated functions.  Anything else raises TranslationError."""
import json, os, subprocess, sys
sys.path.insert(0, os.path.dirname(os.path.abspath(__file__)))
from common import *


def dump(rel, flt, extra=()):
    src = os.path.join(REPO, rel)
    cmd = ["clang++", "-std=c++17", "-fsyntax-only", "-DNDEBUG", "-w", "-I" + REPO, "-I" + os.path.join(REPO, "C"),
           "-Xclang", "-ast-dump=json", "-Xclang", "-ast-dump-filter=" + flt, *extra, src]
    p = subprocess.run(cmd, stdout=subprocess.PIPE, stderr=subprocess.PIPE, universal_newlines=True, timeout=300)
    if p.returncode != 0:
        raise TranslationError("clang failed on %s: %s" % (rel, p.stderr[-800:]))
    out, dec, i, docs = p.stdout, json.JSONDecoder(), 0, []
    while i < len(out):
        while i < len(out) and out[i].isspace():
            i += 1
        if i >= len(out):
            break
        d, j = dec.raw_decode(out, i)
        docs.append(d)
        i = j
    return docs


def enum_from_ast(rel, name):
    for d in dump(rel, name):
        if d.get("kind") == "EnumDecl" and d.get("name") == name and d.get("inner"):
            vals, v = [], 0
            for c in d["inner"]:
                if c["kind"] == "EnumConstantDecl":
                    if c.get("inner"):
                        e = c["inner"][0]
                        while e.get("kind") in ("ImplicitCastExpr", "ConstantExpr") and "value" not in e:
                            e = e["inner"][0]
                        if "value" in e:
                            v = int(e["value"])
                        else:
                            raise TranslationError("enumerator initialiser of %s::%s not understood" % (name, c["name"]))
                    vals.append((c["name"], v))
                    v += 1
            return vals
    raise TranslationError("enum %s not found in %s" % (name, rel))


def anon_enum_in_namespace(rel, ns):
    """enumerators of the (anonymous) enum declared inside namespace `ns`"""
    for d in dump(rel, ns):
        stack = [d]
        while stack:
            n = stack.pop()
            if n.get("kind") == "EnumDecl" and n.get("inner"):
                vals, v = [], 0
                for c in n["inner"]:
                    if c["kind"] == "EnumConstantDecl":
                        if c.get("inner"):
                            e = c["inner"][0]
                            while "value" not in e and e.get("inner"):
                                e = e["inner"][0]
                            v = int(e["value"])
                        vals.append((c["name"], v)); v += 1
                return vals
            stack.extend(x for x in n.get("inner", []) if isinstance(x, dict))
    raise TranslationError("no enum found in namespace %s of %s" % (ns, rel))


def find_functions(rel, filters, want, scope=None):
    fns = {}
    for flt in filters:
        for d in dump(rel, flt):
            stack = [d]
            while stack:
                n = stack.pop()
                if n.get("kind") in ("CXXMethodDecl", "FunctionDecl") and n.get("name") in want \
                        and any(c.get("kind") == "CompoundStmt" for c in n.get("inner", [])) \
                        and (scope is None or scope in n.get("mangledName", "")):
                    fns.setdefault(n["name"], n)
                elif n.get("kind") in ("NamespaceDecl", "CXXRecordDecl", "LinkageSpecDecl", "TranslationUnitDecl"):
                    stack.extend(n.get("inner", []))
    missing = [w for w in want if w not in fns]
    if missing:
        raise TranslationError("functions not found in %s: %s" % (rel, missing))
    return fns


class Tr:
    def __init__(s, fn, fidx, enums):
        s.name = fn["name"]
        s.vars, s.fidx, s.enums = {}, fidx, enums
        for c in fn["inner"]:
            if c["kind"] == "ParmVarDecl":
                s.vars[c["id"]] = len(s.vars)
        s.body = [c for c in fn["inner"] if c["kind"] == "CompoundStmt"][0]

    def fail(s, what, n):
        loc = n.get("range", {}).get("begin", {})
        raise TranslationError("%s: %s (%s, line %s)" % (s.name, what, n.get("kind"), loc.get("line", loc.get("spellingLoc", {}).get("line", "?"))))

    def unwrap(s, e):
        while e["kind"] in ("ImplicitCastExpr", "ParenExpr", "ExprWithCleanups", "ConstantExpr", "CXXFunctionalCastExpr",
                            "MaterializeTemporaryExpr", "CXXStaticCastExpr"):
            if e["kind"] == "ConstantExpr" and "value" in e:
                return {"kind": "IntegerLiteral", "value": e["value"]}
            e = e["inner"][0]
        return e

    def expr(s, e):
        e = s.unwrap(e)
        k = e["kind"]
        if k == "IntegerLiteral":
            return "(EConst %s)" % e["value"]
        if k == "CXXBoolLiteralExpr":
            return "(EConst %d)" % (1 if e["value"] else 0)
        if k == "DeclRefExpr":
            r = e["referencedDecl"]
            if r["kind"] == "EnumConstantDecl":
                if r["name"] not in s.enums:
                    s.fail("unknown enumerator " + r["name"], e)
                return "(EConst %d)" % s.enums[r["name"]]
            if r["id"] in s.vars:
                return "(EVar %d)" % s.vars[r["id"]]
            s.fail("reference to %s" % r.get("name"), e)
        if k == "BinaryOperator":
            ops = {"==": "OEq", "!=": "ONe", "<": "OLt", "<=": "OLe", ">": "OGt", ">=": "OGe", "&&": "OAnd", "||": "OOr"}
            if e["opcode"] not in ops:
                s.fail("operator " + e["opcode"], e)
            return "(EBin %s %s %s)" % (ops[e["opcode"]], s.expr(e["inner"][0]), s.expr(e["inner"][1]))
        if k == "UnaryOperator" and e["opcode"] == "!":
            return "(ENot %s)" % s.expr(e["inner"][0])
        if k == "CXXMemberCallExpr":
            me = e["inner"][0]
            if me.get("kind") == "MemberExpr" and me.get("name") == "kind" and len(e["inner"]) == 1:
                obj = s.unwrap(me["inner"][0])
                if obj.get("kind") == "DeclRefExpr" and obj["referencedDecl"]["id"] in s.vars:
                    return "(EVar %d)" % s.vars[obj["referencedDecl"]["id"]]
        if k in ("CallExpr", "CXXMemberCallExpr", "CXXOperatorCallExpr"):
            callee = e["inner"][0]
            while callee["kind"] in ("ImplicitCastExpr",):
                callee = callee["inner"][0]
            name = callee.get("referencedDecl", {}).get("name") or callee.get("name")
            if name not in s.fidx:
                if name:
                    raise NeedFunction(name)
                s.fail("call to untranslated function %s" % name, e)
            return "(ECall %d [%s])" % (s.fidx[name], "; ".join(s.expr(a) for a in e["inner"][1:]))
        s.fail("expression", e)

    def seq(s, l):
        out = "SSkip"
        for x in reversed(l):
            out = "(SSeq %s %s)" % (x, out)
        return out

    def stmt(s, n):
        k = n["kind"]
        if k == "CompoundStmt":
            return s.seq([s.stmt(c) for c in n.get("inner", [])])
        if k == "ReturnStmt":
            return "(SReturn %s)" % s.expr(n["inner"][0])
        if k == "BreakStmt":
            return "SBreak"
        if k == "NullStmt":
            return "SSkip"
        if k == "DoStmt":
            # PSY_ASSERT_* under NDEBUG: do {} while (0)
            body = n["inner"][0]
            if body.get("kind") == "CompoundStmt" and not body.get("inner"):
                return "SSkip"
            s.fail("do statement", n)
        if k == "IfStmt":
            inner = n["inner"]
            return "(SIf %s %s %s)" % (s.expr(inner[0]), s.stmt(inner[1]), s.stmt(inner[2]) if len(inner) > 2 else "SSkip")
        if k == "BinaryOperator" and n["opcode"] == "=":
            lhs = s.unwrap(n["inner"][0])
            if lhs["kind"] != "DeclRefExpr" or lhs["referencedDecl"]["id"] not in s.vars:
                s.fail("assignment target", n)
            return "(SAssign %d %s)" % (s.vars[lhs["referencedDecl"]["id"]], s.expr(n["inner"][1]))
        if k == "DeclStmt":
            outs = []
            for v in n["inner"]:
                if v["kind"] != "VarDecl":
                    s.fail("declaration", v)
                s.vars[v["id"]] = len(s.vars)
                if "inner" in v:
                    outs.append("(SAssign %d %s)" % (s.vars[v["id"]], s.expr(v["inner"][0])))
            return s.seq(outs)
        if k == "SwitchStmt":
            cond = s.expr(n["inner"][0])
            body = n["inner"][1]
            blocks = []

            def add_case(c, labels):
                if c["kind"] == "CaseStmt":
                    lab = s.unwrap(c["inner"][0])
                    if lab["kind"] == "DeclRefExpr" and lab["referencedDecl"]["kind"] == "EnumConstantDecl":
                        labels.append("Some (%d)" % s.enums[lab["referencedDecl"]["name"]])
                    elif "value" in lab:
                        labels.append("Some (%s)" % lab["value"])
                    else:
                        s.fail("case label", c)
                    sub = c["inner"][1]
                else:
                    labels.append("None")
                    sub = c["inner"][0]
                if sub["kind"] in ("CaseStmt", "DefaultStmt"):
                    return add_case(sub, labels)
                return labels, sub
            for c in body.get("inner", []):
                if c["kind"] in ("CaseStmt", "DefaultStmt"):
                    labels, sub = add_case(c, [])
                    blocks.append((labels, [s.stmt(sub)]))
                else:
                    if not blocks:
                        s.fail("statement before the first case label", c)
                    blocks[-1][1].append(s.stmt(c))
            return "(SSwitch %s [%s])" % (cond, "; ".join("([%s], %s)" % ("; ".join(ls), s.seq(sts)) for ls, sts in blocks))
        s.fail("statement", n)


class NeedFunction(Exception):
    def __init__(s, name):
        s.name = name


def translate_functions(fns, order, enums, rel=None):
    """translate `order` (indices fixed); callees not in the list are looked up in the same translation unit
    and appended (their indices follow), so that a helper introduced by a refactoring is followed automatically"""
    order = list(order)
    while True:
        fidx = {n: i for i, n in enumerate(order)}
        out = []
        try:
            for n in order:
                t = Tr(fns[n], fidx, enums)
                out.append("Definition f_%s : stmt := %s." % (n, t.stmt(t.body)))
            return out, order
        except NeedFunction as e:
            if rel is None or e.name in order or len(order) > 40:
                raise TranslationError("call to untranslated function %s" % e.name)
            fns.update(find_functions(rel, [e.name], [e.name]))
            order.append(e.name)
