(** C13 — the implementation side: the conversion functions and predicates are the
    IR programs regenerated from the source (gen/Gen_C13.v), run by the interpreter
    of CxxIR.v; the operator dispatch of visitBinaryExpression_* and the loop of
    selectTypeForValue are transcribed by hand (tied by correspondence). *)
From Coq Require Import List ZArith Bool.
From PV Require Import CxxIR C13Spec.
From PV.gen Require Import Gen_C13.
Import ListNotations.
Local Open Scope Z_scope.

Definition code (k : bk) : Z :=
  match k with
  | Char => BK_Char | SChar => BK_Char_S | UChar => BK_Char_U | Short => BK_Short_S | UShort => BK_Short_U
  | Int => BK_Int_S | UInt => BK_Int_U | Long => BK_Long_S | ULong => BK_Long_U | LLong => BK_LongLong_S
  | ULLong => BK_LongLong_U | Bool => BK_Bool | Float => BK_Float | Double => BK_Double | LDouble => BK_LongDouble
  | FloatC => BK_FloatComplex | DoubleC => BK_DoubleComplex | LDoubleC => BK_LongDoubleComplex
  end.

Definition FUEL := 8%nat.
Definition call (f : nat) (args : list Z) : option Z := callf FUEL prog13 f args.
Definition i_promo (a : Z) := call 0 [a].
Definition i_signconv (a b : Z) := call 1 [a; b].
Definition i_conv (a b : Z) := call 2 [a; b].
Definition i_signed (a : Z) := call 3 [a].
Definition i_unsigned (a : Z) := call 4 [a].
Definition i_integer (a : Z) := call 5 [a].
Definition i_real (a : Z) := call 6 [a].

(** outcome of type-checking [a op b] on two basic (arithmetic) operands *)
Inductive res := RErr (* interpreter stuck / out of fuel *) | RReject | RType (k : Z).

Definition lift (o : option Z) : res := match o with Some k => RType k | None => RErr end.
Definition guard2 (c1 c2 : option Z) (r : res) : res :=
  match c1, c2 with
  | Some x, Some y => if negb (x =? 0) && negb (y =? 0) then r else RReject
  | _, _ => RErr
  end.

(** visitBinaryExpression's switch + the visitBinaryExpression_X it selects, for Basic operands
    (isArithmeticType = "is a BasicType"; isIntegerType/isRealType = the kind predicates) *)
Definition impl_binop (op : bop) (a b : Z) : res :=
  match op with
  | Mul | Div | Add | Sub => lift (i_conv a b)
  | Rem => guard2 (i_integer a) (i_integer b) (lift (i_conv a b))
  | Shl | Shr => guard2 (i_integer a) (i_integer b) (lift (i_promo a))
  | Lt | Le | Gt | Ge => guard2 (i_real a) (i_real b) (RType BK_Int_S)
  | Eq | Ne => RType BK_Int_S
  end.

Definition enc (o : option bk) : res := match o with Some k => RType (code k) | None => RReject end.

(** selectTypeForValue: the first N-1 candidates are tried in order, the last one is the fallback *)
Fixpoint select (maxof : Z -> Z) (cands : list Z) (v : Z) : option Z :=
  match cands with
  | [] => None
  | [k] => Some k
  | k :: rest => if v <=? maxof k then Some k else select maxof rest v
  end.

Definition sfx_index (s : isuffix) : Z :=
  match s with SfxNone => 0 | SfxU => 1 | SfxL => 2 | SfxUL => 3 | SfxLL => 4 | SfxULL => 5 end.

Fixpoint assocZb (k : Z * bool) (l : list ((Z * bool) * list Z)) : option (list Z) :=
  match l with
  | [] => None
  | (k', v) :: l' => if (fst k =? fst k') && Bool.eqb (snd k) (snd k') then Some v else assocZb k l'
  end.

Definition impl_candidates (s : isuffix) (octhex : bool) : option (list Z) :=
  assocZb (sfx_index s, octhex) const_candidates.

(** PlatformOptions::maxValueOf through selectTypeForValue's switch: kind code -> maximum *)
Definition maxof (p : platform) (c : Z) : Z :=
  match find (fun k => code k =? c) all_bk with Some k => p k | None => 0 end.

Definition impl_const (p : platform) (s : isuffix) (octhex : bool) (v : Z) : option Z :=
  match impl_candidates s octhex with
  | Some c => select (maxof p) c v
  | None => None
  end.
