// lex <opts> <hex text>  -> "n | kind bs be cs ce flags hex(valueText) | ..." for every token incl. index 0 marker? (index 1..n-1)
// kw <opts> <hex word>   -> kind of the first real token and number of real tokens (excluding EOF)
#include "opts.h"
#include "C/syntax/SyntaxTree.h"
#include "C/syntax/SyntaxToken.h"
#include "C/syntax/Lexeme_ALL.h"
#include "C/parser/Lexer.h"
#include "C/parser/TextCompleteness.h"
#include "C/parser/TextPreprocessingState.h"
#include "handlers.h"
using namespace psy; using namespace psy::C;

static std::unique_ptr<SyntaxTree> lexOnly(const std::string& text, const ParseOptions& po)
{
    std::unique_ptr<SyntaxTree> tree(new SyntaxTree(SourceText(text), TextPreprocessingState::Unknown,
                                                    TextCompleteness::Unknown, po, ""));
    Lexer lexer(tree.get());
    lexer.lex();
    return tree;
}

HANDLER(lex)
{
    std::string o, h; in >> o >> h;
    if (h == "-") h = "";
    auto tree = lexOnly(unhex(h), makeOpts(o));
    std::ostringstream out;
    auto n = tree->tokenCount();
    out << n;
    for (unsigned i = 0; i < n; ++i) {
        const SyntaxToken& tk = tree->tokenAt(i);
        out << " | " << (unsigned)tk.kind() << " " << tk.byteStart() << " " << tk.byteEnd() << " "
            << tk.charStart() << " " << tk.charEnd() << " " << (unsigned)(tk.BF_all_ & 0x3f) << " ";
        const char* s = (tk.kind() == SyntaxKind::EndOfFile) ? "" : tk.valueText_c_str();
        out << "x" << tohex(s ? s : "");
    }
    return out.str();
}

HANDLER(kw)
{
    std::string o, h; in >> o >> h;
    auto tree = lexOnly(unhex(h), makeOpts(o));
    auto n = tree->tokenCount();
    // token 0 is the initial EOF marker, the last is the final EOF
    if (n < 3) return "0 -1";
    return std::to_string(n - 2) + " " + std::to_string((unsigned)tree->tokenAt(1).kind());
}
