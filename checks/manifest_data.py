SERVED = ["C01", "C02", "C03", "C04", "C05", "C06", "C07", "C08", "C09", "C10", "C11", "C12", "C15", "C13", "C14", "C16", "C17", "C18", "C19", "C20"]
HOOKS = {
    "guard": "PSYCHEC_VERIF",
    "enable": "harness/Makefile compiles /repo's sources with -DPSYCHEC_VERIF into /verif/.cache/build-<flavour>/; "
              "so far no source change in /repo is needed: harness translation units reach non-public members "
              "through an access override local to the harness (harness/access.h)",
    "baseline_off_cmd": "cmake --build /repo/_build && cd /repo/_build && ./test-suite",
    "source_commits": [],
    "add_only": True,
}
ENGINES = [
    {"name": "coq", "path": "coq/", "serves_properties": SERVED,
     "kind_free_text": "Coq 8.16.1 development: models, specifications, proofs; Properties_<id>.v hold the property theorems"},
    {"name": "modelrun", "path": "ocaml/driver.ml", "serves_properties": SERVED,
     "kind_free_text": "models extracted with ExtrOcamlBasic and run on the same requests as the implementation"},
    {"name": "psyverif", "path": "harness/", "serves_properties": SERVED,
     "kind_free_text": "C++ correspondence harness compiled from /repo's working tree"},
]
NOTES = ("All checks: bin/check <id>; exit 1 + VIOLATION line on a violation not listed in known_findings.json; "
         "KNOWN-FINDING lines for listed ones.  See DESIGN.md.")
NOT_APPLICABLE = {}
CHECKS = {
    "C20": {
        "text": "Refinement theorem in Coq, for histories of any length with arbitrary branching: the model of VersionedMap "
                "(transcribed from the header) shows after every operation exactly the snapshot of the current revision, "
                "applyRevision(r) restores snapshot r for every existing r including 0, insertions create revision cnt+1 and "
                "change no other snapshot.  The hand-written model is tied to the header by running both on all valid histories "
                "of 5 (quick) / 6 (thorough) operations and on long random branching histories.",
        "design_ref": "DESIGN.md section 6, C20",
        "note": "Trusted: Coq kernel; the hand transcription coq/C20Model.v (unordered_map as association list observed via lookup; "
                "32-bit revision counter not modelled); extraction (ExtrOcamlBasic only) and the harness. Theorems closed under the global context.",
        "technique": "Coq refinement proof (invariant by induction over operation histories) + model/implementation correspondence",
    },
    "C17": {
        "text": "Theorem C17_all_words: for every byte string of every length, every standard and every valuation of the 22 switches, "
                "keyword recognition on or off, the kind computed by the decision programs regenerated from Keywords.cpp on this run equals "
                "the kind of the oracle-table row spelled exactly like the word whose gate holds, else IdentifierToken, and no s[i] beyond the "
                "word is read.  Proved by a symbolic checker over the trie (constraint store per path) whose soundness is proved once in Coq and "
                "which the kernel evaluates (vm_compute) on the regenerated trie.  Rows where the pinned implementation's gate differs from the "
                "cited oracle are listed as known findings; the proved table differs from the oracle at exactly those (still active) words. "
                "Translation validation: extracted interpreter vs compiled lexer on ~290k (word, options) cases per run.",
        "design_ref": "DESIGN.md section 6, C17 and Appendix A",
        "note": "Trusted: Coq kernel incl. vm_compute; translate/kw.py (validated on every run against the compiled lexer); the oracle table KwSpec.v "
                "(citations per row); extraction (ExtrOcamlBasic); harness. Modelled not verified: lexIdentifier passing exactly the word to recognize/translate. "
                "Print Assumptions: closed under the global context.",
        "technique": "Coq proof by verified symbolic checker (reflection, vm_compute) on a model regenerated from the source + translation validation",
    },
    "C09": {
        "text": "Theorems: C09_all_slots_replaced (reflective, over the table regenerated on this run from the node headers and Disambiguator.cpp): every member of every node class that can hold an ambiguity node is "
                "passed to visitMaybeAmbiguous*, and every other child of a class with a visit function is descended into; C09_no_ambiguity_left: on ANY tree whose ambiguity nodes have ordinary alternatives, when every "
                "slot is handled and decisions are conclusive the traversal completes and the result contains no ambiguity node, wherever they were (C09_unhandled_slot_keeps_ambiguity: one unhandled slot keeps "
                "the node silently); C09_block_catalogue: for EVERY block and start catalogue, after the block's own mentions a name is catalogued as a type iff the block mentions it as a type or it was one before and "
                "the block does not mention it as a non-type (and symmetrically) — the erase-on-shadowing rule with nesting depths does what block scoping requires; hence C09_own_declaration_wins (shadowing), "
                "C09_unmentioned_is_inherited, and their composition over ANY nesting: C09_sites_follow_scoping / C09_decisions_are_the_scoping_reading — every ambiguity site of a unit in which no "
                "block mentions a name in both categories is decided exactly as the scoping environment reads the name (enclosing blocks' mentions up to the point of entry plus all of the site's own block).  C09_late_redeclaration_refuted shows the catalogue is per block, not per position (C10's known finding).  Correspondence: generated programs placing every "
                "ambiguity form in every statement/expression context with every way of declaring the names, under the four disambiguation modes: reading vs a positional symbol table, no node left in the default/"
                "Heuristic modes, node only with its diagnostic in mode Algorithmic, one diagnostic per node and equal token coverage of both alternatives in mode None.",
        "design_ref": "DESIGN.md section 6, C09",
        "note": "Trusted: Coq kernel incl. vm_compute; translate/disamb.py (regular expressions over headers and Disambiguator.cpp; cross-checked behaviourally); hand-written catalogue/decision model C09Model.v; reference "
                "symbol table gen/ambig.py; harness. Not modelled: the heuristic (guideline-imposition) strategy, the parser's creation of ambiguity nodes. Print Assumptions: closed under the global context.",
        "technique": "Coq proofs (nested induction over arbitrary trees; induction over block items with a depth invariant) + reflective coverage check on a table regenerated from the source + correspondence with a reference symbol table",
    },
    "C11": {
        "text": "PARTIAL: the property quantifies over every well-typed program and the whole type checker; it is decided by differential testing against gcc with the property's flags: typed templates (typedef "
                "chains, struct/union/enum, every pair of arithmetic operand types under every operator, pointer arithmetic and comparison incl. qualified/void/typedef'd pointees, member access, calls incl. "
                "function pointers and variadics, assignments and initialisers incl. null pointer constants and void*, casts, conditionals, compound assignment) and the grammar-directed units of C04, kept when gcc "
                "accepts them, must get no Error diagnostic from binder, resolver or type checker; failures are shrunk under the oracle.  Theorems, for the models of TypeChecker::typesAreCompatible and "
                "isTypeAssignableFromOtherType over type terms with typedef names on either side (tied to the compiled functions on every ordered pair of declared objects of generated programs): "
                "C11_compatibility_symmetric and C11_compatibility_reflexive in all four flag settings; COMPLETENESS — C11_compatibility_complete: whatever C11 6.2.7 calls compatible the relation accepts; "
                "C11_assignability_complete: whatever 6.5.16.1-1 allows in a simple assignment (arithmetic operands, compatible structures, pointers to compatible types with qualifier inclusion, void "
                "pointers, the null pointer constant, pointer to _Bool, array-to-pointer conversion of the right operand) the assignability test accepts — these two functions cannot reject a well-typed "
                "assignment, initialisation or argument of these forms.  The laws and the completeness were false of the pinned tree (typedef name on the left; void vs tag; a const pointer against "
                "itself; no array decay; _Bool from pointer).",
        "design_ref": "DESIGN.md section 6, C11 and section 12",
        "note": "Trusted: gcc 12 as oracle of well-typedness; generators; Coq kernel; hand-written model C11Model.v (function parameter list forms reduced to empty/non-empty; enumerated types absent); the "
                "specification relations compat_spec / assignable_spec transcribed from 6.2.7 and 6.5.16.1; extraction; harness. Not modelled: operator constraints. Print Assumptions: closed under the global context.",
        "technique": "Coq proofs by structural induction: algebraic laws and completeness of the compatibility and assignability models against inductive specifications of C11 6.2.7 / 6.5.16.1 + differential testing against gcc",
    },
    "C12": {
        "text": "PARTIAL. Theorems about the model of TypedefNameTypeResolver::resolve over type terms, for EVERY environment of typedef declarations (any number, any chain length, any nesting of pointer/array/"
                "function/qualified types, names redeclared any number of times) and every type: C12_resolve_is_denotation — the resolver terminates and returns exactly what the chain denotes; "
                "C12_resolved_is_typedef_free; C12_derivations_preserved; C12_qualifiers_preserved — the top-level qualifiers of the result are the union of those written along the chain of names; "
                "C12_most_recent_declaration — the latest visible declaration of a name is the one used.  Decided by correspondence only: which declaration the canonicaliser binds a name to (block scoping), "
                "tag references, in-place mutation and sharing of type objects, pointer identity of basic types and void with the compilation's canonical objects — on generated complete programs "
                "(typedef chains up to 200/1000 long, derivations, qualifiers, shadowing in nested blocks, structs) against a reference interpreter, with the extracted Coq resolver run on every typedef's environment.",
        "design_ref": "DESIGN.md section 6, C12",
        "note": "Trusted: Coq kernel; hand-written model C12Model.v (immutable terms, well-scoped environments: a typedef sees only earlier ones, so the cycles of incomplete code are outside it); reference interpreter "
                "gen/tdprog.py; extraction; harness. Not observed: typedef names in casts/sizeof. Print Assumptions: closed under the global context.",
        "technique": "Coq proof by induction on fuel/type structure (nested induction principle) against a denotational specification + correspondence with a reference interpreter on generated programs",
    },
    "C13": {
        "text": "Theorems over the conversion functions as regenerated from TypeChecker.cpp on this run (IR + interpreter): C13_binary_types — for all 13 operators "
                "and all 18x18 ordered operand kinds the recorded type (or rejection) equals C11 6.3.1.1/6.3.1.8/6.5.5-6.5.9 on LP64, except at the recorded, "
                "still-active findings; C13_promotions; C13_predicates; C13_integer_constant — for EVERY value v (unbounded Z), suffix and base class, "
                "selectTypeForValue over the regenerated candidate arrays returns the first type of the 6.4.4.1p5 list that represents v whenever one does "
                "(induction on the candidate list), and C13_integer_constant_total for v < 2^64.  Floating/character constant types, the operator dispatch, "
                "std::stoull and the compound assignments are tied/decided by exhaustive correspondence (all pairs x 20 operators as programs; boundary constants x bases x suffix spellings).",
        "design_ref": "DESIGN.md section 6, C13 and Appendix C",
        "note": "Trusted: Coq kernel incl. vm_compute; translators cxx2ir.py/c13.py + IR semantics (validated each run against the compiled functions over their whole domain); "
                "hand-written dispatch/selectTypeForValue models (tied by correspondence); spec C13Spec.v; LP64 only (the implementation's conversions never consult PlatformOptions). "
                "Print Assumptions: closed under the global context.",
        "technique": "Coq proof: finite sweeps lifted to forall over enumerated kinds (vm_compute) on a model regenerated from the source + induction for all constant values; exhaustive correspondence",
    },
    "C08": {
        "text": "Theorem C08_all_sequences: for EVERY non-empty sequence of the 11 type-specifier keywords, of any length, the model of the specifier state machine "
                "binds the row's type with no invalid-type report exactly when the multiset of the sequence is a row of 6.7.2p2 (plus GNU lone _Complex), and reports an invalid "
                "type otherwise.  Proved by a generic bisimulation lemma between the machine and a multiset-counting automaton (proved equal to the multiset definition), "
                "the relation (44 reachable product states) computed and checked by the kernel.  Corollaries: permutation invariance, qualifiers/storage classes irrelevant, "
                "implicit int.  The hand-written model is tied to the code by exhaustive correspondence over all 177,155 sequences of length <=5 (which exercises every "
                "transition of the product) in variable position and shorter sweeps in parameter/field/typedef position with interleaved const/static.",
        "design_ref": "DESIGN.md section 6, C08 and Appendix B",
        "note": "Trusted: Coq kernel incl. vm_compute; hand transcription C08Model.v of DeclarationBinder_Specifiers.cpp (tied by exhaustive correspondence, not regenerated: "
                "deviation from the design's T1 plan, see DESIGN.md); the row table; extraction; harness. Print Assumptions: closed under the global context.",
        "technique": "Coq bisimulation proof (generic lemma + kernel-checked finite relation) for sequences of any length + exhaustive model/implementation correspondence",
    },
    "C18": {
        "text": "Theorems C18_identity / C18_inv (induction over call histories of any length, hence any number of growth steps and rehashes; proved for every hash "
                "function and instantiated with the transcribed hashCode): two findOrInsert calls with NUL-free words return the same element exactly when the words are "
                "byte-for-byte equal; stored texts are only ever appended, never changed; the invariant (every element is in the chain of its bucket, no duplicates) holds after "
                "every history.  C18_identity_with_NUL_refuted shows the NUL-freeness hypothesis is needed (strncmp).  The hand-written model is tied to TextElementTable by comparing "
                "results AND every bucket's chain on exhaustive short histories, threshold-straddling, colliding and random histories; the implementation is also compared with the "
                "first-occurrence reference on a history of 40,000 (thorough 400,000) distinct words, and lexeme pointer identity with token text on generated sources.",
        "design_ref": "DESIGN.md section 6, C18",
        "note": "Trusted: Coq kernel; hand transcription C18Model.v (chains as index lists, object identity as element index, int arithmetic unbounded: < 2^28 elements); extraction; harness. "
                "That tokens are NUL-free is C01/C05's business. Print Assumptions: closed under the global context.",
        "technique": "Coq invariant proof by induction over operation histories (any hash function) + model/implementation correspondence incl. internal chains",
    },
    "C01": {
        "text": "PARTIAL. Theorems, for EVERY text (any bytes: embedded NULs, truncated or invalid UTF-8) and EVERY token vector ending in EndOfFile: C01_lexer_cursor_in_bounds / C01_lexer_scan_total — the "
                "model of Lexer::yyinput_CORE reads only inside the NUL-terminated buffer, strictly advances and never passes the terminating NUL; C01_recovery_cursor_safe — the four panic-mode recovery loops, "
                "as regenerated from Parser.cpp on this run, return with the cursor in range, never read tokenAt() out of range and never pass EndOfFile; C01_skipTo_safe, C01_match_safe, "
                "C01_backtrack_in_range, C01_peek_in_bounds (the exact side condition for k-token look-ahead), C01_depth_bounded / C01_depth_no_spurious_error for the nesting counter with the limits read from "
                "Parser__IMPL__.inc; C01_member_loop_terminates — the member loop of a struct/union/enum specifier ends on every token vector for ANY member parser that stays in range and moves forward when it "
                "succeeds (and C01_member_loop_unguarded_diverges: without the progress guard it does not — the hang `enum { enum x` of the pinned tree).  The models are tied to the compiled code by correspondence (positions visited on random byte strings; cursor after each recovery/skipTo/match/backtrack call at every cursor "
                "position of lexed texts).  NOT a theorem: the sub-lexers and the grammar productions that drive the cursors, the reparser, memory management — these are explored: parseText in all four syntax "
                "categories and five option sets on the repository's test snippets, token mutants, truncation at every byte, byte damage, random bytes, punctuation soup, nesting up to and just beyond the declared "
                "limits, unterminated constructs, in the NDEBUG build and under ASan+UBSan with and without NDEBUG; failing inputs are shrunk and reported.",
        "design_ref": "DESIGN.md section 6, C01",
        "note": "Trusted: Coq kernel incl. vm_compute; hand-written cursor models C01Model.v; translate/recov.py (validated each run); extraction; harness; sanitizers (ASan+UBSan of g++ 12). "
                "Runtime residue the model cannot exhibit: stack exhaustion, allocator behaviour, the productions' own progress. Print Assumptions: closed under the global context.",
        "technique": "Coq proofs by induction over arbitrary texts / token vectors for the cursor and counter models (one regenerated from the source) + correspondence; sanitizer exploration for the unmodelled productions",
    },
    "C02": {
        "text": "PARTIAL. Theorem C02_resolve_total: for EVERY declaration graph of typedefs (a typedef's type may name any typedef, itself included, or an undefined name; any nesting of pointer/array/function/"
                "qualified types) and every type, the model of TypedefNameTypeResolver::resolve with its under-resolution set terminates within an explicit bound and returns a type (the error type on a cycle); "
                "C02_unguarded_resolve_diverges: without the set no amount of fuel suffices for `typedef T T;` (the hang of the pinned tree; the termination measure — unvisited names, then size — is what the repair "
                "had to supply).  Everything else the property states — no crash in binder, canonicaliser, resolver and type checker on any unit the parser produced, and every symbol, scope and type reachable "
                "through the semantic-model API being a live object — is explored: parse + computeSemanticModel + a full walk (every declarator's symbol and type, tag members, parameters, enumerators, fields, "
                "TypeInfo of every expression, scopeOf and a lookup per identifier use, declaration and resolved type of every typedef-name type) on the test suite's units, mutants, generated typedef programs, "
                "generated cyclic typedef graphs and incomplete programs, in the NDEBUG build and under ASan+UBSan with and without NDEBUG; failures are shrunk.",
        "design_ref": "DESIGN.md section 6, C02",
        "note": "Trusted: Coq kernel; hand-written model C02Model.v (immutable terms: the in-place rewriting and object ownership of the real code are outside it and were where two of the repaired defects lived); "
                "extraction; harness walk; sanitizers. Print Assumptions: closed under the global context.",
        "technique": "Coq termination proof with an explicit lexicographic measure for the typedef resolver over arbitrary (cyclic) declaration graphs + correspondence; sanitizer exploration with a full API walk for memory safety",
    },
    "C04": {
        "text": "PARTIAL: the property quantifies over every valid C11 program and thousands of lines of productions; it is decided by differential testing against gcc: grammar-directed units (all declaration, "
                "declarator, initialiser, statement and expression forms; one in four with GNU attributes/asm/typeof/statement expressions/K&R definitions) that gcc -std=c11|gnu11 -fsyntax-only accepts must "
                "parse to completion with no Error diagnostic, as written and again with their typedef declarations removed from view; failures are shrunk line by line.  What is a theorem is the one place where "
                "the parser decides WITHOUT a symbol table whether an identifier is a typedef name, the model of Parser::guessRoleOfIdentifier (tied to the compiled function at every identifier of generated and "
                "corpus texts): C04_guess_total_in_bounds — on every token vector ending in EndOfFile it answers and reads only inside the vector; C04_identifier_then_identifier and "
                "C04_identifier_then_specifier_or_star — `T x`, `T *`, `T const` ... are typedef-name readings whatever surrounds them; kernel-evaluated shapes of the parenthesis heuristic, and "
                "C04_parenthesised_array_declarator_refuted (the known finding).",
        "design_ref": "DESIGN.md section 6, C04",
        "note": "Trusted: gcc 12 as oracle of validity; generator gen/cgen.py; Coq kernel; hand-written model C04Model.v; extraction; harness. A machine-checked proof cannot reach the statement itself here (no formal "
                "C11 grammar/semantics of validity is available in the sandbox and the productions are not modelled); this is stated in DESIGN.md. Print Assumptions: closed under the global context.",
        "technique": "Coq proofs about the model of the typedef-name guess (totality, bounds, unconditional cases) + differential testing against gcc on generated programs",
    },
    "C05": {
        "text": "PARTIAL. Theorem C05_punctuator_maximal_munch, over the punctuator cases of Lexer::yylex_CORE as regenerated from Lexer.cpp on this run (decision statements: kind assignment, yyinput(), "
                "test of yychar_): for every translated first byte and EVERY input that follows it (any bytes, any length; '??' excluded as translation phase 1), the lexer assigns the kind of the LONGEST "
                "row of the 6.4.6 table (digraphs included) that is a prefix of the input, consumes exactly that row, and never calls yyinput() at the terminating NUL.  Proved by a kernel-evaluated sweep "
                "over all continuations of up to 3 bytes over the alphabet the statements and the table mention, lifted to all inputs by a proved reduction (bytes outside the alphabet are indistinguishable, "
                "no statement looks more than 3 bytes ahead, no row is longer than 4).  Since the statements also cover tests of yytext_[1], isdigit and the hand-over to a sub-lexer, every punctuator of 6.4.6 except '/' and '/=' is inside the theorem ('.' followed by a digit excluded: a floating constant).  Everything else the property states — '/' and comments, identifiers, "
                "every constant and literal form, comments and splices as separators, spelling, byte and UTF-16 extents, increasing extents, exactly one final EOF — is decided by correspondence with an "
                "independently written C11 tokenizer (gen/reflex.py): exhaustively all ordered pairs of punctuators with no and with every separator (thorough: all triples), every punctuator against every "
                "other token class, generated constants/literals over all bases, suffixes, exponents, prefixes and escapes, and random token sequences.",
        "design_ref": "DESIGN.md section 6, C05",
        "note": "Trusted: Coq kernel incl. vm_compute; translate/punct.py (validated each run: extracted interpreter vs compiled lexer on every first byte x continuations); table PunctSpec.v; reference tokenizer gen/reflex.py; "
                "extraction; harness. Modelled not verified: yyinput() as 'advance one byte' (multi-byte stepping is C01's), the sub-lexers. Print Assumptions: closed under the global context.",
        "technique": "Coq proof: finite sweep (vm_compute) lifted to all inputs by a proved reduction, on a model regenerated from the source + differential correspondence with an independent tokenizer",
    },
    "C06": {
        "text": "Theorems: C06_tables (reflective over EVERY SyntaxKind, on the functions regenerated from the source): precedenceOf is defined exactly on the 31 N-ary operator tokens and orders them as the levels "
                "of C11 6.5.5-6.5.17, isRightAssociative holds exactly for '?' and the assignment operators, isNAryOperatorSyntax exactly on the operators, each operator token maps to the node kind of its "
                "operation.  C06_climb_shape (unbounded: every token string, every nesting): in the tree the climbing loop returns every operator node's left operand binds at least as tightly as the node "
                "(strictly for the right-associative operators) and its right operand strictly tighter (at least as tightly for those) — the grouping the grammar prescribes — and C03_expr_lossless: the tree's "
                "in-order token string is the input.  PARTIAL: that the tree EQUALS the one of the recursive-descent reference is kernel-evaluated only on all strings of length <=5 over a representative "
                "alphabet and all 31^3 operator triples (labelled as bounded); the implementation is compared with loop and grammar on all operator pairs and triples, random trees through three "
                "printers, and every unary/postfix/cast operator against every N-ary operator.",
        "design_ref": "DESIGN.md section 6, C06 and section 12",
        "note": "Trusted: Coq kernel incl. vm_compute; T1 translator + IR semantics; operator table C06Spec.v (C11 6.5.5-6.5.17); hand-written climb model (tables taken as empty outside the SyntaxKind values) and "
                "reference parser; extraction; harness. Not proved: uniqueness of the well-shaped tree / equality with the reference for unbounded inputs. Print Assumptions: closed under the global context.",
        "technique": "Coq reflective proof of the regenerated operator tables + unbounded invariant proof of the loop's tree shape (mutual induction on fuel) + executable loop/grammar models with exhaustive correspondence",
    },
    "C16": {
        "text": "Theorems for EVERY text (lists of characters with UTF-16 widths, any length): C16_position — the model of the line-start table + computePosition reports, for the offset "
                "reached by a prefix, (number of line breaks in the prefix, width since the last one); hence C16_suffix_irrelevant, C16_newlines_shift (k line breaks before the token's line: "
                "line+k, column unchanged), C16_blanks_shift (k blanks before it on its line: column+k), C16_directive_rebases (a line directive names the number of the next line whatever precedes "
                "it) and C16_excerpt (the excerpt is the token's line, the caret column the width before the token).  The hand-written model is tied to the code by comparing every token's "
                "computePosition, every token's location() and every diagnostic's line, column and excerpt on generated texts (multi-byte identifiers, comments, continuations, directives, errors), "
                "plus metamorphic pairs on the implementation itself.",
        "design_ref": "DESIGN.md section 6, C16",
        "note": "Trusted: Coq kernel; hand transcription C16Model.v (std::upper_bound as a linear scan over the sorted table); directive recognition by regular expression in the check; extraction; harness. "
                "Valid UTF-8 assumed. Print Assumptions: closed under the global context.",
        "technique": "Coq proof by induction over arbitrary texts (closed form of the position arithmetic, relational laws as corollaries) + model/implementation correspondence",
    },
    "C19": {
        "text": "Theorems over the hand-transcribed driver model: C19_exit_iff_clean — for every argument vector that decodes to documented option values (any number of files, any per-file "
                "outcome, any preprocessing outcome), the exit status is 0 exactly when preprocessing succeeded (or was skipped) and no file has a syntax error nor, unless -fsyntax-only, a "
                "semantic error; C19_malformed_rejected — every argument vector the decoder rejects exits 1 with its message; C19_documented_values_accepted — the full cross product of "
                "documented values (6 x 4 x 3 x 3 x 2 x 2) decodes to those values and passes every configuration ladder.  The model is tied to the code by running the real cnip executable "
                "(built from /repo on every run) on that cross product x 10 files and on malformed/random argument vectors, comparing exit status, termination by signal, driver messages and the "
                "number of printed diagnostics against the model fed with the library's own diagnostics for the same file and configuration.",
        "design_ref": "DESIGN.md section 6, C19",
        "note": "Trusted: Coq kernel; hand transcription C19Model.v; extraction; the harness' diag request mirroring Driver::runCFrontEnd's ParseOptions; gcc as external preprocessor for the few -pp s/r runs. "
                "Plug-in loading and sub-command execution are oracles of the model. 'Never terminates by a signal' is observed, not proved.",
        "technique": "Coq proof over a driver model (decision logic as implications, finite cross product by vm_compute) + end-to-end correspondence with the real executable",
    },
    "C14": {
        "text": "Theorems for EVERY tree shape (mutual induction; null children, null list entries, missing tokens, empty lists included): C14_extent_is_hull — the model of "
                "firstToken()/lastToken()/findValidToken and of the lists' firstToken()/lastToken() returns the first and the last token slot in order, and a valid one whenever the node "
                "owns a token; under the parser's obligation that slots increase in order: C14_extent_encloses, C14_nesting (a child's extent lies within its parent's), "
                "C14_siblings_ordered (no overlap, source order).  C14_child_lists (reflective, regenerated from the node headers each run): every class's child list names no member twice "
                "and names every token/node/list member it declares.  Tie: every tree dumped from the implementation (the repository's 1,166 test snippets, concatenations, token-level mutants; "
                "disambiguation modes) is fed to the extracted model and every node's extent compared; slots-increasing, enclosure, visit-exactly-once (counting visitor vs an independent "
                "enumeration through child lists and next links), only-this-tree and family downcasts are checked on every node.",
        "design_ref": "DESIGN.md section 6, C14",
        "note": "Trusted: Coq kernel incl. vm_compute; hand transcription C14Model.v; regex-based schema extraction translate/schema.py; extraction; harness (tree.h knows the 14 list instantiations). "
                "The traversal protocol (Visit/Skip/Quit) is not modelled: visit-once is correspondence only. Print Assumptions: closed under the global context.",
        "technique": "Coq proof by mutual structural induction over arbitrary trees + reflective check of the regenerated class schema + per-node correspondence",
    },
    "C03": {
        "text": "PARTIAL.  Theorem C03_expr_lossless (induction on fuel, for every token string and every operator table): the model of the parser's N-ary expression layer stores every token "
                "it consumes exactly once and in order — printing the returned tree in order, followed by the unconsumed rest, is the input.  For the whole language (every node class through "
                "SyntaxDumper/Unparser) the statement is checked, not proved: on every corpus input that parses without diagnostics (the repository's 1,166 test snippets in their categories, "
                "concatenations, hand-picked list/literal/digraph forms) the token indices the dumper emits are exactly 1..n in order, the unparsed text lexes to the same (kind, spelling) "
                "sequence, and its re-parse lists the same node kinds.  The per-class dumper-coverage theorem of the design (T2 over SyntaxDumper.h) was not built.",
        "design_ref": "DESIGN.md section 6, C03",
        "note": "Trusted: Coq kernel; C06Model.v (tied by C06's correspondence); the harness' recording SyntaxDumper subclass. Whole-language losslessness is correspondence over a corpus, "
                "i.e. sampling. Print Assumptions: closed under the global context.",
        "technique": "Coq proof (token preservation of the modelled expression parser, all inputs) + corpus-wide parse/unparse/re-lex/re-parse correspondence",
    },
    "C07": {
        "text": "Theorem C07_declarator_type (induction over declarators incl. the declarators of parameters, any nesting depth): for every declarator — pointers with any qualifier lists, arrays, "
                "functions with named/unnamed/variadic parameters whose declarators nest again, redundant parentheses — in ordinary and parameter context and over any specifier type, the model of "
                "the binder's type-stack machine names the symbol and gives it exactly the type C11 6.7.6 spells (with the 6.7.6.3p7-8 adjustment and decay flags), and pops back to exactly the "
                "specifier type; C07_multi: several declarators of one declaration are typed independently; C07_parens_irrelevant.  The hand-written machine is tied to the code by comparing the "
                "bound symbol's type on random declarations in file, block, field, parameter and typedef context (1,500 quick / 20,000 thorough).",
        "design_ref": "DESIGN.md section 6, C07",
        "note": "Trusted: Coq kernel; hand transcription C07Model.v (types as values: mutation of a FunctionType through sharing modelled as construction); the reading of 6.7.6 as ctype_of; "
                "extraction; harness. Typedef-name/declarator ambiguities such as `T (x)` and `(T)` are kept out of the generator (C04/C09). Print Assumptions: closed under the global context.",
        "technique": "Coq proof by structural induction over declarators (stack-machine invariant) + model/implementation correspondence on generated declarations",
    },
    "C10": {
        "text": "Theorem C10_lookup_innermost (structural induction over programs of any nesting; custom induction through nested item lists): the frame model of what the binder records "
                "(one frame per scope holding every declaration made directly in it, first declaration wins, walk outwards) resolves every ordinary-identifier use exactly as C11 6.2.1 "
                "positional scoping does — innermost enclosing block, parameters visible in the whole body, the function's own name visible in its body, other name spaces and sibling/inner "
                "blocks never consulted — whenever no declaration that appears later in a scope matters for an earlier use (ok_items).  The two ways the hypothesis / the faithful model fail "
                "are proved as refutations with witnesses and recorded as known findings (enumerators registered as members; a later declaration found for an earlier use).  Tie: for every use "
                "of generated programs (5 names reused across scopes and name spaces) the declaration found through scopeOf()->searchForDeclaration() is compared with the model and with C11.",
        "design_ref": "DESIGN.md section 6, C10",
        "note": "Trusted: Coq kernel; the functional frame model abstracts the push/pop/stash protocol (its RESULT is modelled; a protocol error shows as a correspondence failure); "
                "extraction; harness. Tag and member look-ups are only decoys. Print Assumptions: closed under the global context.",
        "technique": "Coq proof by structural induction over abstract programs (frame model = positional scoping under a named hypothesis, refutations for the rest) + correspondence",
    },
    "C15": {
        "text": "PARTIAL.  Theorems over the model of Compilation's bookkeeping (induction over call histories of any length over any number of trees): C15_history_independent — whatever the "
                "history, the model recorded for a tree is never anything but the analysis of that tree; C15_idempotent — once computed it is unchanged by any later additions, computations "
                "or queries.  The analysis itself is a section variable: that analysing one tree reads nothing another tree's analysis wrote is not proved but tested — every tree's parse dump "
                "and semantic dump (symbols with types, expression types, diagnostics) in histories of parse/add/compute/query over 2..4 trees in one Compilation (all orders of a fixed triple, "
                "random valid interleavings, repeated computes) must equal the dump obtained alone, and the same requests in three processes with different heap layouts must answer identically.",
        "design_ref": "DESIGN.md section 6, C15",
        "note": "Trusted: Coq kernel; C15Model.v; section variable analyse : tree -> result (named in the evidence); the harness' canonical dumps. Cross-process determinism and independence are "
                "exploration, reported as such. Print Assumptions: closed under the global context.",
        "technique": "Coq invariant proof over operation histories modulo a section variable + history/process correspondence sweep",
    },
}


# ---- additions of the last build round (appended to the texts above by bin/mkmanifest)
EXTRA = {
 "C01": " ALSO: the model's nesting counter (C01Model.depth_run, limit read from Parser__IMPL__.inc) is compared with the implementation on nests around the limit (the limit was never enforced: repaired); inputs include gen/declgen.py units and fragments, '#' lines (line directives and expansion markers with random arguments: two defects repaired) and the witnesses of every repaired defect.",
 "C02": " ALSO: gen/declgen.py units (specifiers of every form in every position, nested declarators, bit-fields, anonymous members, tags declared in parameter lists and type names, attributes, statement expressions) and structure graphs with cycles; failures are shrunk by delta debugging; null results are demanded of units without syntax errors only; the witnesses of every repaired defect run first.",
 "C03": " ALSO: every grammatical adjacency of two operator tokens that would merge without a blank; GNU forms (extension keyword in front of every expression and declaration kind, alternate keywords) parsed with the GNU switches.",
 "C05": " ALSO (Properties_C05_Tokens.v): theorems C05_next_token / C05_next_token_fetch / C05_end_of_file about coq/LexModel.v, a hand transcription of Lexer::yylex (white-space loop, switch, every sub-lexer) and Lexer::lex with the punctuator cases plugged in from the regenerated programs: after ANY separator (white space, block comments incl. the doc-comment openers, line comments, line splices) a valid token of ANY class of C11 6.4 over the basic source character set (identifier; decimal, octal, hexadecimal integer constant with any 6.4.4.1 suffix; decimal and hexadecimal floating constant with exponent and suffix; character constant and string literal with every prefix and escape; punctuator; '/' and '/=') followed by anything the class allows next to it is answered by ONE call of yylex with exactly its kind, first byte and last byte; at the end of the text the answer is EndOfFile; and C05_token_sequence: for a WHOLE text made of such tokens and separators (no '#' token), the token loop of Lexer::lex delivers exactly those tokens in order, each with its kind, first and last byte, followed by exactly one end-of-file token with an empty extent at the end.  The model is tied on every run: extracted and run against the compiled lexer on whole token vectors (kind, byte extent, UTF-16 extent, line flags) for generated token texts, the repository's test texts and byte soup, with comments discarded and kept.  UTF-8, keyword recognition, raw strings and the directive loop are in the model (correspondence) but not in the theorems.",
 "C09": " ALSO: an ambiguity in operand position of another; declarations with several declarators (known finding).",
 "C12": " ALSO: several declarators per declaration in the generated programs.",
 "C14": " ALSO: GNU units parsed with the GNU switches and the extension keyword in front of every kind of node; parenthesised declarators with initializers (known finding).",
 "C15": " ALSO: texts that touch what a Compilation shares between its trees: every basic type under every order of its specifiers, unnamed structures/unions/enumerations (synthetic tag numbering).",
 "C19": " ALSO: files on which the external preprocessor fails by itself (#error, unterminated #if) under -pp s and -pp r, with the outcome known independently of the driver.",
}
for _k, _v in EXTRA.items():
    CHECKS[_k]["text"] = CHECKS[_k]["text"] + _v
