Require Import ExtrOcamlBasic.
From PV Require Import Entry_C20.
Extraction "model.ml" run.
