(** C08 — the type-specifier state machine of DeclarationBinder::visitBasicTypeSpecifier /
    visitVoidTypeSpecifier and the wrapper visit_AtSpecifiers_COMMON, transcribed by hand from
    C/sema/DeclarationBinder_Specifiers.cpp (tied to the code by exhaustive correspondence), and
    the specification: the table of C11 6.7.2p2 as multisets.  No proofs here. *)
From Coq Require Import List Arith Bool.
From PV Require Import C13Spec.
Import ListNotations.

Inductive kw := KVoid | KChar | KShort | KInt | KLong | KFloat | KDouble | KSigned | KUnsigned | KBool | KComplex.
Definition all_kw := [KVoid; KChar; KShort; KInt; KLong; KFloat; KDouble; KSigned; KUnsigned; KBool; KComplex].
Definition kw_index (k : kw) : nat :=
  match k with KVoid => 0 | KChar => 1 | KShort => 2 | KInt => 3 | KLong => 4 | KFloat => 5 | KDouble => 6
             | KSigned => 7 | KUnsigned => 8 | KBool => 9 | KComplex => 10 end.

(* ------------------------------------------------------------------ implementation *)
Inductive top := TEmpty | TVoid | TBasic (k : bk).
Record st := { tp : top; fI : bool (* inImplicitIntTySpec_ *); fD : bool (* inImplicitDoubleTySpec_ *);
               fS : bool (* inExplicitSignedOrUnsignedTySpec_ *); bad : bool (* InvalidType reported *) }.
Definition init : st := {| tp := TEmpty; fI := false; fD := false; fS := false; bad := false |}.

Definition set_tp (s : st) (k : bk) : st := {| tp := TBasic k; fI := fI s; fD := fD s; fS := fS s; bad := bad s |}.
Definition invalid (s : st) : st := {| tp := tp s; fI := fI s; fD := fD s; fS := fS s; bad := true |}.

(** tys_.empty(): the first specifier *)
Definition first (s : st) (k : kw) : st :=
  let mk t i d g := {| tp := TBasic t; fI := i; fD := d; fS := g; bad := bad s |} in
  match k with
  | KVoid => {| tp := TVoid; fI := fI s; fD := fD s; fS := fS s; bad := bad s |}
  | KChar => mk Char (fI s) (fD s) (fS s)
  | KShort => mk Short true (fD s) (fS s)
  | KInt => mk Int (fI s) (fD s) (fS s)
  | KLong => mk Long true (fD s) (fS s)
  | KFloat => mk Float (fI s) (fD s) (fS s)
  | KDouble => mk Double (fI s) (fD s) (fS s)
  | KBool => mk Bool (fI s) (fD s) (fS s)
  | KComplex => mk DoubleC (fI s) true (fS s)
  | KSigned => mk Int true (fD s) true
  | KUnsigned => mk UInt true (fD s) true
  end.

(** the top of the stack is a BasicType of kind [c] *)
Definition next_basic (s : st) (c : bk) (k : kw) : st :=
  match k with
  | KVoid => invalid s
  | KChar =>
      match c with
      | Int => if fI s then set_tp s SChar else invalid s
      | UInt => if fI s then set_tp s UChar else invalid s
      | _ => invalid s
      end
  | KShort =>
      match c with Int => set_tp s Short | UInt => set_tp s UShort | _ => invalid s end
  | KInt =>
      let allow := fI s in
      let s' := {| tp := tp s; fI := false; fD := fD s; fS := fS s; bad := bad s |} in
      match c with
      | Short | UShort | Int | UInt | Long | ULong | LLong | ULLong => if allow then s' else invalid s'
      | _ => invalid s'
      end
  | KLong =>
      match c with
      | Int => set_tp s Long | UInt => set_tp s ULong | Long => set_tp s LLong | ULong => set_tp s ULLong
      | Double => set_tp s LDouble | DoubleC => set_tp s LDoubleC
      | _ => invalid s
      end
  | KFloat =>
      if negb (fS s) then
        match c with
        | DoubleC => if fD s then set_tp s FloatC else invalid s
        | _ => invalid s
        end
      else invalid s
  | KDouble =>
      let allow := fD s in
      let s' := {| tp := tp s; fI := fI s; fD := false; fS := fS s; bad := bad s |} in
      if negb (fS s) then
        match c with
        | Long => if fI s then set_tp s' LDouble else invalid s'
        | DoubleC | LDoubleC => if allow then s' else invalid s'
        | _ => invalid s'
        end
      else invalid s'
  | KBool => invalid s
  | KComplex =>
      match c with
      | Long => if fI s && negb (fS s)
                then {| tp := TBasic LDoubleC; fI := fI s; fD := true; fS := fS s; bad := bad s |}
                else invalid s
      | LDouble => set_tp s LDoubleC
      | Float => set_tp s FloatC
      | Double => set_tp s DoubleC
      | _ => invalid s
      end
  | KSigned =>
      if negb (fS s) then
        let s' := {| tp := tp s; fI := fI s; fD := fD s; fS := true; bad := bad s |} in
        match c with
        | Char => set_tp s' SChar | Short => set_tp s' Short | Int => set_tp s' Int
        | Long => set_tp s' Long | LLong => set_tp s' LLong
        | _ => invalid s'
        end
      else invalid s
  | KUnsigned =>
      if negb (fS s) then
        let s' := {| tp := tp s; fI := fI s; fD := fD s; fS := true; bad := bad s |} in
        match c with
        | Char => set_tp s' UChar | Short => set_tp s' UShort | Int => set_tp s' UInt
        | Long => set_tp s' ULong | LLong => set_tp s' ULLong
        | _ => invalid s'
        end
      else invalid s
  end.

Definition step (s : st) (k : kw) : st :=
  match tp s with
  | TEmpty => first s k
  | TBasic c => next_basic s c k
  | TVoid => invalid s            (* top is not a BasicType; void itself: !tys_.empty() *)
  end.

(** result of a declaration: the type bound, was an invalid type reported, was the missing-specifier
    diagnostic reported *)
Inductive rty := RVoid | RBasic (k : bk).
Record verdict := { v_ty : rty; v_invalid : bool; v_missing : bool }.

Definition finish (s : st) : verdict :=
  match tp s with
  | TEmpty => {| v_ty := RBasic Int; v_invalid := bad s; v_missing := true |}
  | TVoid => {| v_ty := RVoid; v_invalid := bad s; v_missing := false |}
  | TBasic k =>
      {| v_ty := RBasic k;
         v_invalid := bad s || (fD s && match k with LDoubleC => true | _ => false end);
         v_missing := false |}
  end.

Definition run_kws (l : list kw) : verdict := finish (fold_left step l init).

(** declaration specifiers with qualifiers and storage classes interleaved: first pass over everything
    that is not a qualifier (a storage-class specifier does not touch the type stack), qualifiers second *)
Inductive spec_item := SType (k : kw) | SQual (q : nat) | SStorage (c : nat).
Definition step_item (s : st) (i : spec_item) : st :=
  match i with SType k => step s k | SQual _ => s | SStorage _ => s end.
Definition run_decl (l : list spec_item) : verdict := finish (fold_left step_item l init).
Definition type_kws (l : list spec_item) : list kw :=
  flat_map (fun i => match i with SType k => [k] | _ => [] end) l.

(* ------------------------------------------------------------------ specification: 6.7.2p2 *)
Definition rows : list (list kw * rty) := [
  ([KVoid], RVoid); ([KChar], RBasic Char); ([KSigned; KChar], RBasic SChar); ([KUnsigned; KChar], RBasic UChar);
  ([KShort], RBasic Short); ([KSigned; KShort], RBasic Short); ([KShort; KInt], RBasic Short); ([KSigned; KShort; KInt], RBasic Short);
  ([KUnsigned; KShort], RBasic UShort); ([KUnsigned; KShort; KInt], RBasic UShort);
  ([KInt], RBasic Int); ([KSigned], RBasic Int); ([KSigned; KInt], RBasic Int);
  ([KUnsigned], RBasic UInt); ([KUnsigned; KInt], RBasic UInt);
  ([KLong], RBasic Long); ([KSigned; KLong], RBasic Long); ([KLong; KInt], RBasic Long); ([KSigned; KLong; KInt], RBasic Long);
  ([KUnsigned; KLong], RBasic ULong); ([KUnsigned; KLong; KInt], RBasic ULong);
  ([KLong; KLong], RBasic LLong); ([KSigned; KLong; KLong], RBasic LLong); ([KLong; KLong; KInt], RBasic LLong);
  ([KSigned; KLong; KLong; KInt], RBasic LLong);
  ([KUnsigned; KLong; KLong], RBasic ULLong); ([KUnsigned; KLong; KLong; KInt], RBasic ULLong);
  ([KFloat], RBasic Float); ([KDouble], RBasic Double); ([KLong; KDouble], RBasic LDouble); ([KBool], RBasic Bool);
  ([KFloat; KComplex], RBasic FloatC); ([KDouble; KComplex], RBasic DoubleC); ([KLong; KDouble; KComplex], RBasic LDoubleC);
  ([KComplex], RBasic DoubleC)   (* the GNU reading of a lone _Complex, stated in the property *)
].

(** the multiset of a keyword list: occurrences per keyword *)
Definition count (k : kw) (l : list kw) : nat := length (filter (fun x => Nat.eqb (kw_index x) (kw_index k)) l).
Definition same_multiset (a b : list kw) : bool := forallb (fun k => Nat.eqb (count k a) (count k b)) all_kw.

Fixpoint lookup_row (l : list kw) (rs : list (list kw * rty)) : option rty :=
  match rs with
  | [] => None
  | (r, t) :: rs' => if same_multiset l r then Some t else lookup_row l rs'
  end.
(** the type the keyword list denotes, or None if its multiset is no row of the table *)
Definition spec (l : list kw) : option rty := lookup_row l rows.
