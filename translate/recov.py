#!/usr/bin/env python3
"""C01: the four panic-mode recovery loops of C/parser/Parser.cpp
   bool Parser::ignoreX() { while (true) { switch (peek().kind()) { case ..: return false; case ..: consume(); return false; default: consume(); } } }
-> per function the list of kinds at which it returns, the list of kinds it consumes and then returns, (everything else: consume and go on).
Anything else in such a function is outside the subset and fails the translation.  Writes coq/gen/Gen_Recover.v"""
import os, sys
sys.path.insert(0, os.path.dirname(os.path.abspath(__file__)))
from common import *
import cxx2ir

FUNS = ["ignoreDeclarator", "ignoreDeclarationOrDefinition", "ignoreMemberDeclaration", "ignoreStatement"]


def unwrap(e):
    while e.get("kind") in ("ImplicitCastExpr", "ParenExpr", "ExprWithCleanups", "ConstantExpr", "CXXFunctionalCastExpr", "MaterializeTemporaryExpr"):
        e = e["inner"][0]
    return e


def walk(n):
    yield n
    for c in n.get("inner", []) or []:
        if isinstance(c, dict):
            yield from walk(c)


def is_call(n, name, nargs=0):
    n = unwrap(n)
    if n.get("kind") != "CXXMemberCallExpr":
        return False
    me = n["inner"][0]
    return me.get("kind") == "MemberExpr" and me.get("name") == name and len([a for a in n["inner"][1:] if a.get("kind") != "CXXDefaultArgExpr"]) == nargs


def action(body, fname):
    """list of statements after the labels -> 'ret' | 'cret' | 'cons'"""
    flat = []
    for b in body:
        if b["kind"] == "CompoundStmt":
            flat += b.get("inner", [])
        else:
            flat.append(b)
    sig = []
    for s in flat:
        if is_call(s, "consume"):
            sig.append("c")
        elif s["kind"] == "ReturnStmt":
            v = unwrap(s["inner"][0]) if s.get("inner") else None
            if v is None or v.get("kind") != "CXXBoolLiteralExpr":
                raise TranslationError("%s: return of a non-literal" % fname)
            sig.append("r")
        else:
            raise TranslationError("%s: statement outside the subset: %s" % (fname, s["kind"]))
    sig = "".join(sig)
    if sig == "r":
        return "ret"
    if sig == "cr":
        return "cret"
    if sig == "c":
        return "cons"
    raise TranslationError("%s: case body shape %r outside the subset" % (fname, sig))


def one(fn, kinds):
    name = fn["name"]
    body = [c for c in fn["inner"] if c["kind"] == "CompoundStmt"][0]
    st = body.get("inner", [])
    if len(st) != 1 or st[0]["kind"] != "WhileStmt":
        raise TranslationError("%s: body is not a single while loop" % name)
    cond = unwrap(st[0]["inner"][0])
    if cond.get("kind") != "CXXBoolLiteralExpr" or cond.get("value") is not True:
        raise TranslationError("%s: loop condition is not `true`" % name)
    lb = st[0]["inner"][1]
    inner = lb.get("inner", []) if lb["kind"] == "CompoundStmt" else [lb]
    if len(inner) != 1 or inner[0]["kind"] != "SwitchStmt":
        raise TranslationError("%s: loop body is not a single switch" % name)
    sw = inner[0]
    c = unwrap(sw["inner"][0])
    ok = c.get("kind") == "CXXMemberCallExpr" and c["inner"][0].get("name") == "kind" and is_call(c["inner"][0]["inner"][0], "peek")
    if not ok:
        raise TranslationError("%s: switch operand is not peek().kind()" % name)
    groups, cur = [], None

    def add_case(cs):
        nonlocal cur
        # nested `case A: case B: stmt`
        labs = []
        while cs["kind"] in ("CaseStmt", "DefaultStmt"):
            if cs["kind"] == "CaseStmt":
                refs = [r for r in walk(cs["inner"][0]) if r.get("kind") == "DeclRefExpr" and r["referencedDecl"]["kind"] == "EnumConstantDecl"]
                if len(refs) != 1:
                    raise TranslationError("%s: case label is not a SyntaxKind enumerator" % name)
                labs.append(kinds[refs[0]["referencedDecl"]["name"]])
                cs = cs["inner"][1]
            else:
                labs.append("default")
                cs = cs["inner"][0]
        cur = [labs, [cs]]
        groups.append(cur)
    for c in sw["inner"][1].get("inner", []):
        if c["kind"] in ("CaseStmt", "DefaultStmt"):
            add_case(c)
        else:
            if cur is None:
                raise TranslationError("%s: statement before the first case" % name)
            cur[1].append(c)
    ret, cret, default = [], [], None
    for labs, body in groups:
        a = action(body, name)
        for l in labs:
            if l == "default":
                default = a
            elif a == "ret":
                ret.append(l)
            elif a == "cret":
                cret.append(l)
            else:
                pass      # an explicit case that consumes and goes on: same as the default below
    if default != "cons":
        raise TranslationError("%s: default case must consume and continue (found %r)" % (name, default))
    return ret, cret


def generate():
    kinds = dict(enum_values("C/syntax/SyntaxKind.h", "SyntaxKind"))
    fns = cxx2ir.find_functions("C/parser/Parser.cpp", FUNS, FUNS)
    out = ["(* generated by translate/recov.py from C/parser/Parser.cpp — do not edit *)",
           "From Coq Require Import List NArith ZArith.", "Import ListNotations.", "Local Open Scope N_scope.", ""]
    res = {}
    for f in FUNS:
        ret, cret = one(fns[f], kinds)
        res[f] = (ret, cret)
        out.append("Definition %s_ret : list N := [%s]." % (f, "; ".join(map(str, ret))))
        out.append("Definition %s_cret : list N := [%s]." % (f, "; ".join(map(str, cret))))
    out.append("Definition recover_tables : list (list N * list N) := [%s]." % "; ".join("(%s_ret, %s_cret)" % (f, f) for f in FUNS))
    out.append("Definition EOF_kind : N := %d." % kinds["EndOfFile"])
    import re
    inc = open(os.path.join(REPO, "C/parser/Parser__IMPL__.inc")).read()
    for nm in ("MAX_DEPTH_OF_EXPRS", "MAX_DEPTH_OF_STMTS"):
        m = re.search(r"#define\s+%s\s+(\d+)" % nm, inc)
        if not m:
            raise TranslationError("%s not found in Parser__IMPL__.inc" % nm)
        out.append("Definition %s : nat := Z.to_nat %s." % (nm, m.group(1)))
    write_if_changed(os.path.join(GEN, "Gen_Recover.v"), "\n".join(out) + "\n")
    return res


if __name__ == "__main__":
    for k, v in generate().items():
        print(k, v)
