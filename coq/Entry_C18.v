(** Request decoder for the C18 model: [n1; b11..b1n1; n2; ...] (a history of words) ->
    results, -1, number of elements, -1, then every bucket chain as [len; i1; ...]. *)
From Coq Require Import ZArith NArith List Bool.
From PV Require Import C18Model.
Import ListNotations.
Local Open Scope Z_scope.

Fixpoint take_word (n : nat) (l : list Z) (acc : list N) : list N * list Z :=
  match n, l with
  | S n', b :: l' => take_word n' l' (Z.to_N b :: acc)
  | _, _ => (rev acc, l)
  end.
Fixpoint decode (fuel : nat) (l : list Z) : list word :=
  match fuel with
  | O => []
  | S f => match l with
           | [] => []
           | n :: l' => let (w, rest) := take_word (Z.to_nat n) l' [] in w :: decode f rest
           end
  end.
Definition hashN (w : word) : N := hash_code w.
Definition run (req : list Z) : list Z :=
  let ws := decode (length req) req in
  let (t, rs) := run_table hashN empty ws in
  map Z.of_nat rs ++ [-1; Z.of_nat (length (elems t)); -1] ++
  flat_map (fun b => Z.of_nat (length b) :: map Z.of_nat b) (buckets t).
