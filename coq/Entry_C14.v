(** Request decoder for the C14 model.  The tree comes in postfix form, decoded with a stack:
    [2; idx] token item; [4] null item; [3] the tree on top becomes a child item; [7] null list element;
    [6] the tree on top becomes a list element; [5; n] the n elements on top become a list item;
    [1; kind; n] the n items on top become a node.
    Answer: 1, then (kind, first, last) for every node in pre-order. *)
From Coq Require Import ZArith List Bool Arith.
From PV Require Import C14Model.
Import ListNotations.
Local Open Scope Z_scope.

Inductive sv := VT (t : tree) | VI (i : item) | VE (e : elem).

Fixpoint pop_items (n : nat) (st : list sv) (acc : items) : option (items * list sv) :=
  match n with
  | O => Some (acc, st)
  | S n' => match st with VI i :: st' => pop_items n' st' (ICons i acc) | _ => None end
  end.
Fixpoint pop_elems (n : nat) (st : list sv) (acc : elems) : option (elems * list sv) :=
  match n with
  | O => Some (acc, st)
  | S n' => match st with VE e :: st' => pop_elems n' st' (ECons e acc) | _ => None end
  end.

Fixpoint decode (f : nat) (l : list Z) (st : list sv) : option tree :=
  match f with
  | O => None
  | S f' =>
      match l with
      | [] => match st with [VT t] => Some t | _ => None end
      | 2 :: idx :: r => decode f' r (VI (Tok (Z.to_nat idx)) :: st)
      | 4 :: r => decode f' r (VI Null :: st)
      | 3 :: r => match st with VT t :: st' => decode f' r (VI (Sub t) :: st') | _ => None end
      | 7 :: r => decode f' r (VE ENone :: st)
      | 6 :: r => match st with VT t :: st' => decode f' r (VE (ESome t) :: st') | _ => None end
      | 5 :: n :: r => match pop_elems (Z.to_nat n) st ENil with Some (es, st') => decode f' r (VI (Lst es) :: st') | None => None end
      | 1 :: k :: n :: r => match pop_items (Z.to_nat n) st INil with Some (cs, st') => decode f' r (VT (Node (Z.to_nat k) cs) :: st') | None => None end
      | _ => None
      end
  end.

Definition run (req : list Z) : list Z :=
  match decode (S (length req)) req [] with
  | Some t => 1 ::
              flat_map (fun e => [Z.of_nat (fst (fst e)); Z.of_nat (snd (fst e)); Z.of_nat (snd e)]) (extents_tree t)
  | None => [-1]
  end.
