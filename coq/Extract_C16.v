Require Import ExtrOcamlBasic.
From PV Require Import Entry_C16.
Extraction "model.ml" run.
