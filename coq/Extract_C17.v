Require Import ExtrOcamlBasic.
From PV Require Import Entry_C17.
Extraction "model.ml" run.
