// Access to non-public members of psychec classes from the harness only: every
// standard header the library headers use is included first, then `private`
// and `protected` are re-defined for the library headers that follow.  The
// library objects themselves are compiled from /repo unchanged.
#ifndef PSYVERIF_ACCESS_H
#define PSYVERIF_ACCESS_H
#include <algorithm>
#include <array>
#include <bitset>
#include <cstddef>
#include <cstdint>
#include <cstdio>
#include <cstdlib>
#include <cstring>
#include <fstream>
#include <functional>
#include <iomanip>
#include <iostream>
#include <limits>
#include <list>
#include <map>
#include <memory>
#include <ostream>
#include <set>
#include <sstream>
#include <stack>
#include <stdexcept>
#include <string>
#include <tuple>
#include <type_traits>
#include <unordered_map>
#include <unordered_set>
#include <utility>
#include <variant>
#include <vector>
#include <iterator>
#include <numeric>
#include <cassert>
#include <cctype>
#include <climits>
#include <typeinfo>
#include <initializer_list>
#include <optional>
#include <deque>
#include <queue>
#define private public
#define protected public
#include "common/infra/AccessSpecifiers.h"
#undef PSY_INTERNAL
#define PSY_INTERNAL public
#endif
