From Coq Require Import List NArith Bool Arith Lia.
From PV Require Import C12Model C12Proofs C11Model.
Import ListNotations.

(** symmetry: for every pair of terms *)
Lemma cmp_sym : forall t1 v t2, cmp v t1 t2 = cmp v t2 t1.
Proof.
  induction t1 using ty_ind'; intros v t2; destruct t2 as [k2| | |b|b|r2 ps2|q2 u2|n2|g2]; cbn [cmp]; try reflexivity;
    try apply IHt1; try apply N.eqb_sym.
  - rewrite (IHt1 false r2). f_equal.
    revert ps2. induction ps as [|x l IHl]; intros [|y l2]; try reflexivity.
    inversion H as [|? ? Hx Hl]; subst. rewrite (Hx v y), (IHl Hl l2). reflexivity.
  - rewrite (N.eqb_sym q q2), (IHt1 v u2). reflexivity.
Qed.

Lemma compat_tf_sym v q t1 t2 : compat_tf v q t1 t2 = compat_tf v q t2 t1.
Proof. unfold compat_tf. destruct q; apply cmp_sym. Qed.

(** reflexivity on error-free terms *)
Lemma cmp_refl : forall t, clean t = true -> forall v, cmp v t t = true.
Proof.
  induction t using ty_ind'; intros Hc v; cbn [clean] in Hc; try discriminate; cbn [cmp].
  - apply N.eqb_refl.
  - reflexivity.
  - apply IHt; exact Hc.
  - apply IHt; exact Hc.
  - apply andb_true_iff in Hc as [Hr Hps]. rewrite (IHt Hr). cbn.
    induction ps as [|p l IHl]; [reflexivity|].
    inversion H as [|? ? Hp Hl]; subst. cbn [forallb] in Hps. apply andb_true_iff in Hps as [Cp Cl].
    rewrite (Hp Cp). cbn. apply IHl; assumption.
  - rewrite N.eqb_refl. cbn. apply IHt; exact Hc.
  - apply N.eqb_refl.
Qed.

Lemma erase_clean t : clean t = true -> clean (erase t) = true.
Proof.
  induction t using ty_ind'; cbn [clean erase]; intros Hc; try discriminate; auto.
  apply andb_true_iff in Hc as [Hr Hps]. rewrite (IHt Hr). cbn.
  apply forallb_forall. intros y Hy. apply in_map_iff in Hy as [x [<- Hx]].
  rewrite Forall_forall in H. rewrite forallb_forall in Hps. apply H; [exact Hx|apply Hps; exact Hx].
Qed.

Lemma compat_tf_refl v q t : clean t = true -> compat_tf v q t t = true.
Proof. intros Hc. unfold compat_tf. destruct q; apply cmp_refl; [apply erase_clean|]; exact Hc. Qed.

(* ------------------------------------------------------------------ completeness w.r.t. C11's relations *)
(** whatever 6.2.7 calls compatible, the checker's relation accepts, with void special-cased or not *)
Lemma cmp_complete : forall a b, compat_spec a b -> forall v, cmp v a b = true.
Proof.
  induction a using ty_ind'; intros b Hc v; inversion Hc; subst; cbn [cmp]; try apply N.eqb_refl; try reflexivity; auto.
  - (* functions *)
    match goal with Hr : compat_spec a ?r2, HF : Forall2 compat_spec ps ?l |- _ =>
      rewrite (IHa _ Hr false); cbn [andb]; clear Hc; revert H; induction HF as [|x y l1 l2 Hxy Hl IHl]; intros HA; [reflexivity|] end.
    inversion HA as [|? ? Hx HA']; subst. rewrite (Hx _ Hxy v). cbn [andb]. apply IHl. exact HA'.
  - rewrite N.eqb_refl. cbn [andb]. auto.
Qed.

(** erasing qualifiers keeps compatible types compatible *)
Lemma erase_compat : forall a b, compat_spec a b -> compat_spec (erase a) (erase b).
Proof.
  induction a using ty_ind'; intros b Hc; inversion Hc; subst; cbn [erase]; try constructor; auto.
  match goal with HF : Forall2 compat_spec ps ?l |- _ => clear Hc; revert H; induction HF as [|x y l1 l2 Hxy Hl IHl]; intros HA; [constructor|] end.
  inversion HA as [|? ? Hx HA']; subst. cbn [map]. constructor; [apply Hx; exact Hxy|apply IHl; exact HA'].
Qed.

Lemma compat_tf_complete a b v q : compat_spec a b -> compat_tf v q a b = true.
Proof. intros Hc. unfold compat_tf. destruct q; apply cmp_complete; [apply erase_compat|]; exact Hc. Qed.

(** the pointee comparison of assignments ignores qualifiers and treats void as any type: it accepts
    every pair 6.5.16.1 allows *)
Lemma erase_unq a : erase (unq a) = erase a.
Proof. destruct a; reflexivity. Qed.
Lemma erase_top t : match erase t with TQual _ _ => False | _ => True end.
Proof. induction t using ty_ind'; cbn [erase]; auto. Qed.
Lemma cmp_void_l x : clean x = true -> cmp true TVoid (erase x) = true.
Proof.
  intros Hc. pose proof (erase_clean x Hc) as Hce. pose proof (erase_top x) as Ht.
  destruct (erase x); cbn [clean] in Hce; try discriminate; try reflexivity; contradiction.
Qed.
Lemma cmp_void_r x : clean x = true -> cmp true (erase x) TVoid = true.
Proof. intros Hc. rewrite cmp_sym. apply cmp_void_l. exact Hc. Qed.

Lemma assignable_complete : forall l r nc, assignable_spec l r nc -> clean l = true -> clean r = true -> assignable l r nc = true.
Proof.
  intros l r nc H. induction H; intros Hl Hr; cbn [clean] in *.
  - reflexivity.
  - unfold assignable. cbn. apply N.eqb_refl.
  - unfold assignable. cbn [strip]. unfold compat_tf. rewrite <- (erase_unq a), <- (erase_unq b). apply cmp_complete. apply erase_compat. assumption.
  - unfold assignable. cbn [strip]. unfold compat_tf. rewrite <- (erase_unq a), H. cbn [erase]. apply cmp_void_l. exact Hr.
  - unfold assignable. cbn [strip]. unfold compat_tf. rewrite <- (erase_unq b), H. cbn [erase]. apply cmp_void_r. exact Hl.
  - reflexivity.
  - reflexivity.
  - specialize (IHassignable_spec Hl Hr). unfold assignable in *. cbn [strip] in *. exact IHassignable_spec.
  - specialize (IHassignable_spec Hl Hr). unfold assignable in *. cbn [strip] in *. exact IHassignable_spec.
  - specialize (IHassignable_spec Hl Hr). unfold assignable in *. cbn [strip] in *. exact IHassignable_spec.
Qed.
