# C03 — The syntax tree is lossless: unparsing reproduces the source tokens.
import json, os, sys
from lib import pv
sys.path.insert(0, os.path.join(pv.ROOT, "gen"))
import corpus


def parse_unparse(ans):
    if not ans.startswith("OK"):
        return None
    body, _, dg = ans.rpartition(" |")
    parts = body.split(" | ") + [dg]
    head = parts[0].split()
    E = [int(x) for x in parts[1].split()[1:]]
    U = bytes.fromhex(parts[2].split()[1][1:]) if len(parts[2].split()) > 1 else b""
    K = [int(x) for x in parts[3].split()[1:]]
    diags = parts[4].split() if len(parts) > 4 else []
    return {"ntok": int(head[1]), "full": head[2] == "FULL", "E": E, "U": U, "K": K, "diags": diags}


def lex_tokens(ans):
    """[(kind, text)] of the real tokens of a `lex` answer"""
    out = []
    for p in ans.split(" | ")[1:]:
        f = p.split()
        out.append((int(f[0]), bytes.fromhex(f[-1][1:])))
    return [t for t in out[1:] if t[0] != 0]


def gcc_syntax_ok(text):
    import subprocess
    try:
        return subprocess.run(["gcc", "-std=gnu11", "-fsyntax-only", "-w", "-x", "c", "-"], input=text, capture_output=True, universal_newlines=True, timeout=20).returncode == 0
    except Exception:
        return True


def adjacency_family():
    """every grammatical adjacency of two operator tokens whose spellings would merge into another token (or a comment) if written without
    a blank: prefix-prefix, binary-prefix, postfix-binary, cast-prefix, sizeof-prefix, declarator stars, conditional arms"""
    P = ["-", "+", "&", "*", "~", "!", "++", "--", "sizeof"]
    B = ["*", "/", "%", "+", "-", "<<", ">>", "<", ">", "<=", ">=", "==", "!=", "&", "^", "|", "&&", "||", "=", "+=", "-=", "*=", "/=", "%=", "<<=", ">>=", "&=", "^=", "|=", ","]
    out = []
    for p1 in P:
        for p2 in P:
            out.append((2, "%s %s x" % (p1, p2)))
            out.append((3, "y = %s %s x ;" % (p1, p2)))
        for p3 in ("-", "+", "&", "--", "++"):
            out.append((2, "%s %s %s x" % (p1, p3, p3)))
    for b in B:
        for p in P:
            out.append((2, "a %s %s x" % (b, p)))
        out.append((2, "a ++ %s b" % b)); out.append((2, "a -- %s b" % b))
        out.append((2, "a ++ %s ++ b" % b)); out.append((2, "a -- %s -- b" % b))
    for p in P:
        out.append((2, "( int ) %s x" % p)); out.append((2, "a ? %s b : %s c" % (p, p))); out.append((2, "a [ %s i ]" % p)); out.append((2, "f ( %s x , %s y )" % (p, p)))
        out.append((0, "int g ( int x ) { return %s %s x ; }" % (p, p)))
    out += [(0, "int * * p ; int * const * volatile * q ; int ( * * r ) ( void ) ;"), (2, "a / * p"), (2, "a & & b"), (2, "a - - - b"), (2, "a + + + b"), (2, "a - -- b"), (2, "a -- - b"),
            (2, "a + ++ b"), (2, "a ++ + b"), (2, "a < - b"), (2, "a > - b"), (2, "a . b . c"), (2, "a -> b -> c"), (2, "a . b ++ + c"), (2, "p -> q -- - r"), (2, "* * * p"), (2, "& * & * p"),
            (2, "1 - - 1"), (2, "1 + + 1"), (2, "1 . 0 + x") , (2, "x = = y"), (2, "sizeof ( int ) - 1"), (2, "- sizeof x"), (2, "! ! x"), (2, "~ ~ x"), (2, "x % : y")]
    return out


def run(chk, only=None):
    chk.coverage["trusted_base"] = pv.TRUSTED_COMMON + [
        "C03_expr_lossless is about the hand-written model coq/C06Model.v of the N-ary expression layer (tied to the parser by C06's correspondence), instantiated with the regenerated operator tables",
        "for the whole language the statement is CHECKED, not proved: on every corpus tree the token indices emitted by SyntaxDumper (recorded by a subclass in the harness) must be exactly 1..n in order, "
        "the Unparser's text must lex to the same (kind, spelling) sequence, and its re-parse must list the same node kinds"]
    chk.assumptions = ["inputs that parse without diagnostics; default (and Heuristic) disambiguation mode"]
    res = chk.prove(["Properties_C03.v"])
    proof_ok = all(ok for ok, _ in res.values())
    quick = chk.tier == "quick"
    rng = chk.rng
    snippets = corpus.test_snippets()
    inputs = list(snippets)
    tus = [t for c, t in snippets if c == 0]
    for _ in range(150 if quick else 1500):
        inputs.append((0, "\n".join(rng.choice(tus) for _ in range(rng.randint(2, 6)))))
    import random as _random
    import cgen, ambig
    for _i in range(150 if chk.tier == 'quick' else 3000):
        inputs.append((0, cgen.G(_random.Random(rng.getrandbits(40)), gnu=False).unit()))
    for _i in range(60 if chk.tier == 'quick' else 1000):
        inputs.append((0, ambig.P(_random.Random(rng.getrandbits(40))).generate().text()))
    inputs += [(0, "int x; ; int y;"), (0, "char *s = \"a\" \"b\" L\"c\";"), (0, "int f(a, b, c) int a; char b; long c; { return a; }"),
               (0, "struct s { int b : 3 __attribute__((packed)); };"), (2, "__builtin_va_arg(ap, int)"), (0, "void f(void) { x <: 1 :> = 2; <% %> }"),
               (0, "__inline__ __volatile__ int __attribute__((unused)) v;"), (2, "a ? b : c ? d : e = f"), (3, "for (int i = 0; i < 3; ++i) { continue; }")]
    inputs += adjacency_family()
    # GNU forms (parsed with the GNU switches on): the extension keyword in front of every kind of expression and declaration, alternate keywords, and generated GNU units
    gnu_texts = set()
    gl = [(2, "__extension__ f ( 1 )"), (2, "__extension__ ( int ) { 1 }"), (2, "__extension__ ( { 1 ; } )"), (2, "__extension__ __real__ z"), (2, "__extension__ __builtin_offsetof ( struct s , a )"),
          (2, "__extension__ __builtin_va_arg ( ap , int )"), (2, "__extension__ __builtin_choose_expr ( 1 , a , b )"), (2, "__extension__ ( k + 1 )"), (2, "__extension__ x ++"), (2, "__extension__ a [ 1 ]"),
          (2, "__extension__ sizeof ( int )"), (2, "__extension__ - x"), (2, "__extension__ \"s\""), (2, "__extension__ 1"), (2, "__extension__ a . b"), (2, "__extension__ ( int ) x"),
          (0, "__extension__ int k = 2 ;"), (0, "__extension__ typedef long long ll_t ;"), (0, "struct s { __extension__ int b ; __extension__ union { int c ; } ; } ;"),
          (3, "__extension__ int j = 1 ;"), (0, "void f ( void ) { __asm__ __volatile__ ( \"nop\" ) ; }"), (0, "__inline int g ( void ) { return 1 ; } __typeof ( g ) h ;"),
          (0, "int ( x ) = 1 ;"), (0, "int ( * z ) = 0 , ( ( y ) ) = 2 ;")]
    for _i in range(60 if quick else 1500):
        gl.append((0, cgen.G(_random.Random(rng.getrandbits(40)), gnu=True).unit()))
    for c_, t_ in gl:
        inputs.append((c_, t_)); gnu_texts.add(t_)
    modes = [2] if quick else [2, 3]
    if only:
        inputs, modes = only, [2, 3]
        gnu_texts = {t_ for _c, t_ in only if "__" in t_}
    reqs, meta = [], []
    for c, t in inputs:
        for dm in modes:
            reqs.append("unparse %d 2:1:%s:0:%d %s" % (c, "20003f" if t in gnu_texts else "0", dm, t.encode("utf-8", "replace").hex() if t else "-")); meta.append((c, t, dm))
    impl = pv.run_impl(reqs, shards=pv.NCPU)
    parsed = [parse_unparse(a) if not a.startswith("CRASH") else "crash" for a in impl]
    # second round: lex source and unparsed text; reparse unparsed text
    lexreq, rereq, idx = [], [], []
    for i, (m, p) in enumerate(zip(meta, parsed)):
        if p in (None, "crash") or p["diags"] or not p["full"]:
            continue
        idx.append(i)
        ext_ = "20003f" if m[1] in gnu_texts else "0"
        lexreq.append("lex 2:1:%s " % ext_ + (m[1].encode("utf-8", "replace").hex() or "-"))
        lexreq.append("lex 2:1:%s " % ext_ + (p["U"].hex() or "-"))
        rereq.append("unparse %d 2:1:%s:0:%d %s" % (m[0], ext_, m[2], p["U"].hex() or "-"))
    lexans = pv.run_impl(lexreq, shards=pv.NCPU)
    reans = pv.run_impl(rereq, shards=pv.NCPU)
    bad, n_clean, kinds_seen, crashes = [], 0, set(), 0
    for j, i in enumerate(idx):
        m, p = meta[i], parsed[i]
        n_clean += 1
        kinds_seen |= set(p["K"])
        want = list(range(1, p["ntok"] - 1))
        if p["E"] != want:
            missing = [x for x in want if x not in p["E"]]
            dup = sorted({x for x in p["E"] if p["E"].count(x) > 1})
            why_ = "tokens-emitted"
            if missing and not dup and m[0] == 0 and not gcc_syntax_ok(m[1]):
                # the text is not a C program and the parser dropped part of it WITHOUT a diagnostic: the silent rejection recorded under C01
                why_ = "tokens-missing:invalid-input-dropped-silently"
            bad.append((m, why_, {"missing": missing[:8], "duplicated": dup[:8], "out_of_order": (not missing and not dup)}))
            continue
        src, out = lex_tokens(lexans[2 * j]), lex_tokens(lexans[2 * j + 1])
        if src != out:
            k = next((q for q in range(min(len(src), len(out))) if src[q] != out[q]), min(len(src), len(out)))
            bad.append((m, "spelling", {"source": str(src[k:k + 1]), "unparsed": str(out[k:k + 1]), "unparsed_text": p["U"].decode("utf-8", "replace")[:200]}))
            continue
        rp = parse_unparse(reans[j]) if not reans[j].startswith("CRASH") else None
        if rp is None or rp["diags"] or rp["K"] != p["K"]:
            bad.append((m, "reparse-shape", {"unparsed_text": p["U"].decode("utf-8", "replace")[:200], "diags": rp["diags"][:3] if rp else "crash"}))
    crashes = sum(1 for p in parsed if p == "crash")
    chk.coverage["evaluations"] = len(reqs)
    chk.coverage["distinct_nontrivial"] = len({(meta[i][0], meta[i][1]) for i in idx if parsed[i]["ntok"] > 6})
    chk.coverage["rule"] = ("the %d snippets of the repository's own tests in their syntax category and %d random concatenations and generated units (grammar-directed programs of gen/cgen.py, ambiguity programs of gen/ambig.py, and the family of every grammatical adjacency of two operator tokens that would merge if written without a blank), under disambiguation modes %s; only inputs that parse completely without "
                            "diagnostics count (%d); for each: emitted token indices == 1..n, lex(unparse) == lex(source) on (kind, spelling), node kinds of the re-parse identical. "
                            "non-trivial = more than five tokens" % (len(snippets), len(inputs) - len(snippets) - 9, modes, n_clean))
    chk.coverage["samples"] = [inputs[7][1], inputs[len(snippets) + 1][1][:160]] if not only else [inputs[0][1][:200]]
    chk.coverage["distribution"] = {"inputs": len(inputs), "clean_parses": n_clean, "node_kinds_seen": len(kinds_seen), "front_end_crashes_skipped": crashes}
    seen = set()
    bad.sort(key=lambda b: len(b[0][1]))
    import re as _re
    PAREN_DECL_INIT = _re.compile(r"\(\s*\**\s*\(*\s*\**\s*[A-Za-z_]\w*\s*\)*\s*\)\s*(\[[^\]]*\]\s*)*=[^=]")
    ALT_KW = _re.compile(r"__(asm|asm__|volatile__|volatile|inline|inline__|typeof|const|const__|restrict|restrict__|signed__|signed|alignof|alignof__|attribute|complex__|complex|real|imag|thread)\b")
    for m, why, det in bad:
        if why in ("tokens-emitted", "spelling", "reparse-shape") and PAREN_DECL_INIT.search(m[1]):
            why = "initializer-attached-inside-parenthesised-declarator"
        elif why == "spelling" and ALT_KW.search(str(det.get("source"))):
            why = "spelling:alternate-keyword"
        key = why if why.startswith("tokens-missing:") else why + ":" + (str(det.get("missing") or det.get("duplicated") or "")[:20] if why == "tokens-emitted" else str(det.get("source"))[:40] if why == "spelling" else "")
        fam = why if why != "spelling" else "spelling:" + str(det.get("source"))[:40]
        if fam in seen:
            continue
        seen.add(fam)
        chk.report(fam if why == "spelling" else why if why.startswith(("tokens-missing:", "initializer-attached", "spelling:alternate")) else why + ":" + m[1][:40],
                   {"request": "unparse %d 2:1:0:0:%d %s" % (m[0], m[2], m[1].encode("utf-8", "replace").hex()), "category": m[0], "text": m[1], "why": why, "detail": det,
                    "count_failing_same_kind": sum(1 for b in bad if b[1] == why)}, found=True, what="unparse(parse(text)) is not the token sequence of text")
        if len(seen) > 10:
            break
    if not proof_ok and not bad:
        for f, (ok, out) in res.items():
            if not ok:
                chk.report("proof-" + f, {"unchecked": f + " (theorems: %s)" % ", ".join(pv.theorem_names(f)), "coq_output": out[-3000:]}, found=False)


def replay(chk, path):
    r = json.load(open(path))
    if r.get("text") is not None and "category" in r:
        print("implementation:", pv.run_impl([r["request"]])[0][:1500])
        return run(chk, only=[(r["category"], r["text"])])
    run(chk)
