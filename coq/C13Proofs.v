(** C13 — proofs: selectTypeForValue is first-fit whenever some candidate fits (all values),
    and the finite sweeps lifted to [forall] over the enumerated types. *)
From Coq Require Import List ZArith Bool Lia.
From PV Require Import CxxIR C13Spec C13Model.
From PV.gen Require Import Gen_C13.
Import ListNotations.
Local Open Scope Z_scope.

Lemma all_bk_complete : forall k : bk, In k all_bk.
Proof. destruct k; cbn; tauto. Qed.
Lemma all_bop_complete : forall o : bop, In o all_bop.
Proof. destruct o; cbn; tauto. Qed.
Lemma all_isuffix_complete : forall s : isuffix, In s all_isuffix.
Proof. destruct s; cbn; tauto. Qed.

(** lifting a boolean sweep over the enumerations to a universally quantified statement *)
Lemma sweep1 (P : bk -> bool) : forallb P all_bk = true -> forall k, P k = true.
Proof. intros H k. rewrite forallb_forall in H. apply H, all_bk_complete. Qed.
Lemma sweep3 (P : bop -> bk -> bk -> bool) :
  forallb (fun o => forallb (fun a => forallb (P o a) all_bk) all_bk) all_bop = true ->
  forall o a b, P o a b = true.
Proof.
  intros H o a b. rewrite forallb_forall in H. specialize (H o (all_bop_complete o)).
  rewrite forallb_forall in H. specialize (H a (all_bk_complete a)).
  rewrite forallb_forall in H. exact (H b (all_bk_complete b)).
Qed.

(** the enumerator values are pairwise distinct (so [maxof] inverts [code]) *)
Definition codes_distinct : bool :=
  forallb (fun a => forallb (fun b => bk_eqb a b || negb (code a =? code b)) all_bk) all_bk.

Lemma maxof_code p : codes_distinct = true -> forall k, maxof p (code k) = p k.
Proof.
  intros H k. unfold maxof.
  assert (Hf : forall l, (forall x, In x l -> code x = code k -> x = k) -> In k l ->
            match find (fun k0 => code k0 =? code k) l with Some k0 => p k0 | None => 0 end = p k).
  { induction l as [|x l IH]; cbn; intros Hinj Hin; [tauto|].
    destruct (code x =? code k) eqn:E.
    - apply Z.eqb_eq in E. rewrite (Hinj x (or_introl eq_refl) E). reflexivity.
    - destruct Hin as [->|Hin]; [rewrite Z.eqb_refl in E; discriminate|].
      apply IH; auto. }
  apply Hf; [|apply all_bk_complete].
  intros x _ Hx. unfold codes_distinct in H. rewrite forallb_forall in H.
  specialize (H x (all_bk_complete x)). rewrite forallb_forall in H. specialize (H k (all_bk_complete k)).
  apply orb_true_iff in H as [H|H].
  - destruct x, k; cbn in H; try discriminate; reflexivity.
  - rewrite Hx, Z.eqb_refl in H. discriminate.
Qed.

(** selectTypeForValue = first fit, for every value, whenever some candidate can represent it *)
Lemma select_first_fit p : codes_distinct = true ->
  forall (cands : list bk) (v : Z),
    (exists k, In k cands /\ v <= p k) ->
    select (maxof p) (map code cands) v = option_map code (first_fit p cands v).
Proof.
  intros Hd cands v. induction cands as [|k rest IH]; intros [k0 [Hin Hfit]]; [destruct Hin|].
  destruct rest as [|k' rest'].
  - (* the single (last) candidate *)
    destruct Hin as [->|[]]. cbn. apply Z.leb_le in Hfit. rewrite Hfit. reflexivity.
  - cbn [map select first_fit]. cbn [map] in IH. rewrite (maxof_code p Hd).
    destruct (v <=? p k) eqn:E; [reflexivity|].
    apply IH. destruct Hin as [->|Hin]; [apply Z.leb_le in Hfit; congruence|].
    exists k0. split; assumption.
Qed.

(** when nothing fits the implementation falls back to the last candidate; C11 assigns no type *)
Lemma select_fallback p : codes_distinct = true ->
  forall (cands : list bk) (v : Z), cands <> [] -> (forall k, In k cands -> p k < v) ->
    select (maxof p) (map code cands) v = Some (code (last cands Int)) /\ first_fit p cands v = None.
Proof.
  intros Hd cands v. induction cands as [|k rest IH]; intros Hne Hall; [congruence|].
  destruct rest as [|k' rest'].
  - cbn. assert (H := Hall k (or_introl eq_refl)). destruct (v <=? p k) eqn:E; [apply Z.leb_le in E; lia|]. auto.
  - cbn [map select first_fit last]. cbn [map] in IH. rewrite (maxof_code p Hd).
    assert (H := Hall k (or_introl eq_refl)). destruct (v <=? p k) eqn:E; [apply Z.leb_le in E; lia|].
    apply IH; [discriminate|]. intros k0 Hk0. apply Hall. right. exact Hk0.
Qed.
