(* Generic driver for an extracted model: Model.run : z list -> z list.
   One request per line (space-separated decimal integers), one answer line. *)
open Model

let rec pos_of_int (n : int) : positive =
  if n = 1 then XH
  else if n land 1 = 0 then XO (pos_of_int (n lsr 1))
  else XI (pos_of_int (n lsr 1))

let z_of_int (n : int) : z =
  if n = 0 then Z0 else if n > 0 then Zpos (pos_of_int n) else Zneg (pos_of_int (-n))

let rec int_of_pos (p : positive) : int =
  match p with XH -> 1 | XO q -> 2 * int_of_pos q | XI q -> 2 * int_of_pos q + 1

let int_of_z (x : z) : int =
  match x with Z0 -> 0 | Zpos p -> int_of_pos p | Zneg p -> - (int_of_pos p)

let () =
  let buf = Buffer.create 4096 in
  (try
    while true do
      let line = input_line stdin in
      let toks = List.filter (fun s -> s <> "") (String.split_on_char ' ' line) in
      let req = List.map (fun s -> z_of_int (int_of_string s)) toks in
      let ans = run req in
      Buffer.clear buf;
      List.iter (fun x -> Buffer.add_string buf (string_of_int (int_of_z x)); Buffer.add_char buf ' ') ans;
      print_string (Buffer.contents buf);
      print_newline ()
    done
  with End_of_file -> ())
