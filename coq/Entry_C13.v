(** Request decoder for the C13 model.
    [0; f; a; b]          -> translated function f on (a[, b]) : result or -1
    [1; op; a; b]         -> [impl_binop; proved table; C11 table; C11 compound-assignment type]   (-1 stuck, -2 rejected)
    [2; sfx; oh; hi; lo]  -> [impl_const; first-fit spec] for v = hi*2^32+lo   (-1 none)
    [3; f]                -> floating suffix class f (0 none, 1 f/F, 2 l/L) -> C11 kind code
    [4; p]                -> character prefix p (0 none, 1 L, 2 u, 3 U) -> C11 kind code on LP64 *)
From Coq Require Import ZArith List Bool.
From PV Require Import CxxIR C13Spec C13Model C13Findings.
From PV.gen Require Import Gen_C13.
Import ListNotations.
Local Open Scope Z_scope.

Definition decode_bk (c : Z) : option bk := find (fun k => code k =? c) all_bk.
Definition nth_bop (i : Z) : option bop := nth_error all_bop (Z.to_nat i).
Definition nth_sfx (i : Z) : option isuffix := nth_error all_isuffix (Z.to_nat i).
Definition enc_res (r : res) : Z := match r with RErr => -1 | RReject => -2 | RType k => k end.
Definition enc_o (o : option Z) : Z := match o with Some k => k | None => -1 end.

Definition float_suffix_type (f : Z) : bk := if f =? 1 then Float else if f =? 2 then LDouble else Double.
(** 6.4.4.4p10-11 with wchar_t = int, char16_t = unsigned short, char32_t = unsigned int (LP64 / glibc) *)
Definition char_prefix_type (p : Z) : bk := if p =? 1 then Int else if p =? 2 then UShort else if p =? 3 then UInt else Int.

Definition run (req : list Z) : list Z :=
  match req with
  | [0; f; a; b] => [enc_o (call (Z.to_nat f) (if f <? 3 then (if f =? 0 then [a] else [a; b]) else [a]))]
  | [1; op; a; b] =>
      match nth_bop op, decode_bk a, decode_bk b with
      | Some o, Some x, Some y =>
          [enc_res (impl_binop o a b); enc_res (enc (c11_binop_eff o x y)); enc_res (enc (c11_binop LP64 o x y));
           enc_res (enc (c11_compound o x y))]
      | _, _, _ => []
      end
  | [2; sfx; oh; hi; lo] =>
      match nth_sfx sfx with
      | Some s => let v := hi * 4294967296 + lo in
                  [enc_o (impl_const LP64 s (negb (oh =? 0)) v);
                   enc_o (option_map code (first_fit LP64 (const_list s (negb (oh =? 0))) v))]
      | None => []
      end
  | [3; f] => [code (float_suffix_type f)]
  | [4; p] => [code (char_prefix_type p)]
  | [5; k] => match decode_bk k with Some x => [LP64 x / 4294967296; LP64 x mod 4294967296] | None => [] end
  | _ => []
  end.
