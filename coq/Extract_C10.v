Require Import ExtrOcamlBasic.
From PV Require Import Entry_C10.
Extraction "model.ml" run.
