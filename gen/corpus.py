# the C snippets of the repository's own parser tests, as a corpus: (category, text)
import os, re
REPO = os.environ.get("PSY_REPO", "/repo")
_CALL = re.compile(r'\b(parse|parseDeclaration|parseExpression|parseStatement)\(\s*((?:"(?:\\.|[^"\\])*"\s*)+)', re.S)
_CAT = {"parse": 0, "parseDeclaration": 1, "parseExpression": 2, "parseStatement": 3}


def _unescape(s):
    return bytes(s, "utf-8").decode("unicode_escape").encode("latin-1").decode("utf-8", "replace")


def test_snippets():
    out, seen = [], set()
    d = os.path.join(REPO, "C", "tests")
    for fn in sorted(os.listdir(d)):
        if not (fn.startswith(("ParserTester_", "ReparserTester", "DeclarationBinderTester_", "TypeCheckerTester", "SemanticModelTester",
                               "TypeCanonicalizerAndResolverTester")) and fn.endswith(".cpp")):
            continue
        src = open(os.path.join(d, fn), errors="replace").read()
        for m in _CALL.finditer(src):
            parts = re.findall(r'"((?:\\.|[^"\\])*)"', m.group(2))
            try:
                text = "".join(_unescape(p) for p in parts)
            except Exception:
                continue
            key = (_CAT[m.group(1)], text)
            if text.strip() and key not in seen:
                seen.add(key); out.append(key)
        for m in re.finditer(r'(?:auto|std::string)\s+s\s*=\s*(R"\((.*?)\)"|(?:"(?:\\.|[^"\\])*"\s*)+);', src, re.S):
            if m.group(2) is not None:
                text = m.group(2)
            else:
                try:
                    text = "".join(_unescape(p) for p in re.findall(r'"((?:\\.|[^"\\])*)"', m.group(1)))
                except Exception:
                    continue
            key = (0, text)
            if text.strip() and key not in seen:
                seen.add(key); out.append(key)
    return out


if __name__ == "__main__":
    s = test_snippets()
    print(len(s)); print(s[:3]); print(s[-3:])
