Require Import ExtrOcamlBasic.
From PV Require Import Entry_C11.
Extraction "model.ml" run.
