import os, re, sys
sys.path.insert(0, os.path.join(os.path.dirname(os.path.abspath(__file__)), ".."))
from lib import pv

REPO = pv.REPO
GEN = os.path.join(pv.COQ, "gen")
write_if_changed = pv.write_if_changed


class TranslationError(Exception):
    pass


def strip_comments(s):
    s = re.sub(r"/\*.*?\*/", lambda m: "\n" * m.group(0).count("\n"), s, flags=re.S)
    return re.sub(r"//[^\n]*", "", s)


def read(rel):
    return open(os.path.join(REPO, rel)).read()


def enum_values(rel, enum_name):
    """[(enumerator, value)] in declaration order, evaluating `A = B`, `A = 12`, and implicit increments"""
    src = strip_comments(read(rel))
    m = re.search(r"enum\s+class\s+(?:[A-Z_]+\s+)?" + enum_name + r"\b[^{]*\{(.*?)\}\s*;", src, re.S)
    if not m:
        raise TranslationError("enum %s not found in %s" % (enum_name, rel))
    vals, out, nxt = {}, [], 0
    for item in m.group(1).split(","):
        item = item.strip()
        if not item:
            continue
        mm = re.match(r"^([A-Za-z_]\w*)\s*(?:=\s*(.+))?$", item, re.S)
        if not mm:
            raise TranslationError("enumerator not understood in %s: %r" % (rel, item))
        name, init = mm.group(1), mm.group(2)
        if init is not None:
            init = init.strip()
            if re.match(r"^\d+$", init):
                v = int(init)
            elif init in vals:
                v = vals[init]
            else:
                raise TranslationError("initialiser not understood in %s: %r" % (rel, item))
        else:
            v = nxt
        vals[name] = v
        out.append((name, v))
        nxt = v + 1
    return out
