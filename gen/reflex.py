"""An independently written tokenizer for the C11 lexical grammar (6.4), used as the oracle of C05.
Works on bytes.  tokenize(text) -> list of (cls, start, end) or None when the text is not made of valid C tokens
(a pp-number that is not a constant, an unterminated literal/comment, a stray character).
cls: 'id' | 'int' | 'float' | ('char', prefix) | ('str', prefix) | ('p', spelling)
Separators: white space, comments, backslash-newline between tokens."""
import re

PUNCT = {
    b"[": "OpenBracketToken", b"]": "CloseBracketToken", b"(": "OpenParenToken", b")": "CloseParenToken",
    b"{": "OpenBraceToken", b"}": "CloseBraceToken", b".": "DotToken", b"->": "ArrowToken",
    b"++": "PlusPlusToken", b"--": "MinusMinusToken", b"&": "AmpersandToken", b"*": "AsteriskToken",
    b"+": "PlusToken", b"-": "MinusToken", b"~": "TildeToken", b"!": "ExclamationToken",
    b"/": "SlashToken", b"%": "PercentToken", b"<<": "LessThanLessThanToken", b">>": "GreaterThanGreaterThanToken",
    b"<": "LessThanToken", b">": "GreaterThanToken", b"<=": "LessThanEqualsToken", b">=": "GreaterThanEqualsToken",
    b"==": "EqualsEqualsToken", b"!=": "ExclamationEqualsToken", b"^": "CaretToken", b"|": "BarToken",
    b"&&": "AmpersandAmpersandToken", b"||": "BarBarToken", b"?": "QuestionToken", b":": "ColonToken",
    b";": "SemicolonToken", b"...": "EllipsisToken", b"=": "EqualsToken", b"*=": "AsteriskEqualsToken",
    b"/=": "SlashEqualsToken", b"%=": "PercentEqualsToken", b"+=": "PlusEqualsToken", b"-=": "MinusEqualsToken",
    b"<<=": "LessThanLessThanEqualsToken", b">>=": "GreaterThanGreaterThanEqualsToken", b"&=": "AmpersandEqualsToken",
    b"^=": "CaretEqualsToken", b"|=": "BarEqualsToken", b",": "CommaToken", b"#": "HashToken", b"##": "HashHashToken",
    # digraphs 6.4.6-3
    b"<:": "OpenBracketToken", b":>": "CloseBracketToken", b"<%": "OpenBraceToken", b"%>": "CloseBraceToken",
    b"%:": "HashToken",
}
# %:%: is ## in 6.4.6-3; listed separately because psychec's kind table has no digraph-specific kinds
PUNCT_EXTRA = {b"%:%:": "HashHashToken"}

ID_START = b"A-Za-z_$\x80-\xff"
ID_CONT = b"A-Za-z0-9_$\x80-\xff"
RE_ID = re.compile(b"[" + ID_START + b"][" + ID_CONT + b"]*")
ISUF = b"(?:[uU](?:ll|LL|l|L)?|(?:ll|LL|l|L)[uU]?)?"
RE_INT = re.compile(b"(?:0[xX][0-9a-fA-F]+|0[0-7]*|[1-9][0-9]*)" + ISUF)
FSUF = b"[flFL]?"
RE_FLOAT = re.compile(b"(?:(?:[0-9]*\\.[0-9]+|[0-9]+\\.)(?:[eE][+-]?[0-9]+)?|[0-9]+[eE][+-]?[0-9]+"
                      b"|0[xX](?:[0-9a-fA-F]*\\.[0-9a-fA-F]+|[0-9a-fA-F]+\\.?)[pP][+-]?[0-9]+)" + FSUF)
ESC = b"\\\\(?:['\"?\\\\abfnrtv]|[0-7]{1,3}|x[0-9a-fA-F]+|u[0-9a-fA-F]{4}|U[0-9a-fA-F]{8})"
RE_CHAR = re.compile(b"(L|u|U)?'(?:[^'\\\\\n]|" + ESC + b")+'")
RE_STR = re.compile(b"(u8|L|u|U)?\"(?:[^\"\\\\\n]|" + ESC + b")*\"")
RE_WS = re.compile(b"[ \t\n\v\f\r]+|\\\\\n")
PUNCTS_BY_LEN = sorted(list(PUNCT) + list(PUNCT_EXTRA), key=lambda s: -len(s))


def tokenize(text, percent_colon2=False):
    i, n, out = 0, len(text), []
    while i < n:
        m = RE_WS.match(text, i)
        if m:
            i = m.end(); continue
        if text.startswith(b"//", i):
            j = i
            while True:
                k = text.find(b"\n", j)
                if k < 0:
                    j = n; break
                if text[k - 1:k] == b"\\":
                    j = k + 1; continue
                j = k; break
            i = j; continue
        if text.startswith(b"/*", i):
            k = text.find(b"*/", i + 2)
            if k < 0:
                return None
            i = k + 2; continue
        m = RE_STR.match(text, i)
        if m:
            out.append((("str", (m.group(1) or b"").decode()), i, m.end())); i = m.end(); continue
        m = RE_CHAR.match(text, i)
        if m:
            out.append((("char", (m.group(1) or b"").decode()), i, m.end())); i = m.end(); continue
        m = RE_ID.match(text, i)
        if m:
            out.append(("id", i, m.end())); i = m.end(); continue
        c = text[i:i + 1]
        if c.isdigit() or (c == b"." and text[i + 1:i + 2].isdigit()):
            mf, mi = RE_FLOAT.match(text, i), RE_INT.match(text, i)
            best = None
            if mf and (not mi or mf.end() > mi.end()):
                best = ("float", mf.end())
            elif mi:
                best = ("int", mi.end())
            if best is None:
                return None
            e = best[1]
            # a pp-number continues over identifier characters, '.', and signed exponents: then it is not a constant
            if re.match(b"[" + ID_CONT + b".]", text[e:e + 1] or b" "):
                return None
            out.append((best[0], i, e)); i = e; continue
        for p in PUNCTS_BY_LEN:
            if text.startswith(p, i):
                if p == b"%:%:" and not percent_colon2:
                    continue
                out.append((("p", p), i, i + len(p))); i += len(p); break
        else:
            return None
    return out


def utf16_units(b):
    """number of UTF-16 code units of well-formed UTF-8 bytes b"""
    s = b.decode("utf-8")
    return sum(2 if ord(ch) >= 0x10000 else 1 for ch in s)
