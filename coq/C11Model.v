(** C11 — TypeChecker::typesAreCompatible over type terms.  [compat_tf v q t1 t2]: [v] = treatVoidAsAny,
    [q] = ignoreQualifier, on typedef-free terms; the function resolves typedef names on either side
    as it meets them, which on terms is resolution first ([den], C12). *)
From Coq Require Import List NArith Bool Arith.
From PV Require Import C12Model.
Import ListNotations.

(** with ignoreQualifier the relation strips qualifiers on either side wherever it meets them: on terms, it compares the
    terms with every qualifier erased *)
Fixpoint erase (t : ty) : ty :=
  match t with
  | TQual _ u => erase u
  | TPtr u => TPtr (erase u)
  | TArr u => TArr (erase u)
  | TFun r ps => TFun (erase r) (map erase ps)
  | _ => t
  end.

(** qualifiers respected; [v] = treatVoidAsAny *)
Fixpoint cmp (v : bool) (t1 t2 : ty) {struct t1} : bool :=
  match t1, t2 with
  | TName _, _ | _, TName _ => false                    (* resolved away before *)
  | TErr, _ => false
  | TQual q1 u1, TQual q2 u2 => N.eqb q1 q2 && cmp v u1 u2
  | TQual _ _, TVoid => v
  | TQual _ _, _ => false
  | TVoid, TQual _ _ => v
  | _, TQual _ _ => false
  | TArr a, TArr b | TArr a, TPtr b | TPtr a, TArr b | TPtr a, TPtr b => cmp v a b
  | TArr _, TVoid | TPtr _, TVoid | TBasic _, TVoid | TFun _ _, TVoid | TTag _, TVoid => v
  | TVoid, TVoid => true
  | TVoid, TErr => false
  | TVoid, _ => v
  | TBasic k1, TBasic k2 => N.eqb k1 k2
  | TTag n1, TTag n2 => N.eqb n1 n2
  | TFun r1 ps1, TFun r2 ps2 =>
      cmp false r1 r2 &&
      (fix go (l1 l2 : list ty) : bool :=
         match l1, l2 with
         | [], [] => true
         | a :: l1', b :: l2' => cmp v a b && go l1' l2'
         | _, _ => false
         end) ps1 ps2
  | _, _ => false
  end.

Definition compat_tf (v q : bool) (t1 t2 : ty) : bool :=
  if q then cmp v (erase t1) (erase t2) else cmp v t1 t2.

Definition compat (d : list (N * ty)) (v q : bool) (t1 t2 : ty) : bool := compat_tf v q (den d t1) (den d t2).

(** types the relation is meant for: no error type inside *)
Fixpoint clean (t : ty) : bool :=
  match t with
  | TErr | TName _ => false
  | TPtr u | TArr u | TQual _ u => clean u
  | TFun r ps => clean r && forallb clean ps
  | _ => true
  end.

(* ------------------------------------------------------------------ assignability *)
(** TypeChecker::unqualifiedAndResolved on typedef-free terms: the top-level qualifiers go *)
Fixpoint strip (t : ty) : ty := match t with TQual _ u => strip u | _ => t end.

Definition BOOL_KIND : N := 11.      (* BasicTypeKind::Bool *)
Definition INT_KIND : N := 5.        (* BasicTypeKind::Int_S *)

(** TypeChecker::isTypeAssignableFromOtherType(ty, otherTy, node) on typedef-free terms; [nullc]: node is the constant 0 *)
Definition assignable (l r : ty) (nullc : bool) : bool :=
  let l' := strip l in let r' := strip r in
  match r' with
  | TArr e =>
      match l' with
      | TPtr p => compat_tf true true p e
      | TArr e2 => compat_tf false true e2 e
      | _ => false
      end
  | _ =>
      match l', r' with
      | TBasic k, TPtr _ => N.eqb k BOOL_KIND
      | TBasic _, TBasic _ => true
      | TTag _, _ => compat_tf false false l' r'
      | TPtr p, TPtr q => compat_tf true true p q
      | TPtr _, TBasic k => N.eqb k INT_KIND && nullc
      | _, _ => false
      end
  end.

(** the specification: C11 6.2.7 (compatible types) and 6.5.16.1-1 (simple assignment), on typedef-free terms
    without enumerated types (the checker has no arithmetic enumerated types: C11's known finding) *)
Inductive compat_spec : ty -> ty -> Prop :=
| cs_basic k : compat_spec (TBasic k) (TBasic k)
| cs_void : compat_spec TVoid TVoid
| cs_tag n : compat_spec (TTag n) (TTag n)
| cs_ptr a b : compat_spec a b -> compat_spec (TPtr a) (TPtr b)
| cs_arr a b : compat_spec a b -> compat_spec (TArr a) (TArr b)
| cs_qual q a b : compat_spec a b -> compat_spec (TQual q a) (TQual q b)
| cs_fun r1 r2 ps1 ps2 : compat_spec r1 r2 -> Forall2 compat_spec ps1 ps2 -> compat_spec (TFun r1 ps1) (TFun r2 ps2).

Definition quals_of (t : ty) : N := match t with TQual q _ => q | _ => 0%N end.
Definition unq (t : ty) : ty := match t with TQual _ u => u | _ => t end.
Definition includes (q1 q2 : N) : Prop := N.lor q1 q2 = q1.

Inductive assignable_spec : ty -> ty -> bool -> Prop :=
| as_arith k1 k2 nc : assignable_spec (TBasic k1) (TBasic k2) nc
| as_struct n nc : assignable_spec (TTag n) (TTag n) nc
| as_ptr a b nc : compat_spec (unq a) (unq b) -> includes (quals_of a) (quals_of b) -> assignable_spec (TPtr a) (TPtr b) nc
| as_voidptr_l a b nc : unq a = TVoid -> includes (quals_of a) (quals_of b) -> assignable_spec (TPtr a) (TPtr b) nc
| as_voidptr_r a b nc : unq b = TVoid -> includes (quals_of a) (quals_of b) -> assignable_spec (TPtr a) (TPtr b) nc
| as_null a : assignable_spec (TPtr a) (TBasic INT_KIND) true
| as_bool a nc : assignable_spec (TBasic BOOL_KIND) (TPtr a) nc
| as_decay a e nc : assignable_spec (TPtr a) (TPtr e) nc -> assignable_spec (TPtr a) (TArr e) nc      (* array-to-pointer conversion of the right operand *)
| as_lqual q l r nc : assignable_spec l r nc -> assignable_spec (TQual q l) r nc                       (* qualifiers of the left operand other than const do not matter here *)
| as_rqual q l r nc : assignable_spec l r nc -> assignable_spec l (TQual q r) nc.                      (* lvalue conversion drops the qualifiers of the right operand *)
