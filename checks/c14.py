# C14 — Node extents nest and traversal reaches every node exactly once.
import json, os, sys
from lib import pv, sexp
sys.path.insert(0, os.path.join(pv.ROOT, "gen"))
import corpus, mutate

import re
PAREN_DECL_INIT = re.compile(r"\(\s*\**\s*\(*\s*\**\s*[A-Za-z_]\w*\s*\)*\s*\)\s*(\[[^\]]*\]\s*)*=[^=]")
AMBIG = ("AmbiguousCastOrBinaryExpression", "AmbiguousTypeNameOrExpressionAsTypeReference", "AmbiguousCallOrVariableDeclaration", "AmbiguousMultiplicationOrPointerDeclaration")


def kinds():
    sys.path.insert(0, os.path.join(pv.ROOT, "translate"))
    from common import enum_values
    return dict(enum_values("C/syntax/SyntaxKind.h", "SyntaxKind"))


def postfix(node, amb):
    """dump structure -> postfix encoding of Entry_C14; pre-order list of nodes (kind) as the model will see them.
    Under an ambiguity node only the first alternative is kept (the alternatives share tokens by design)."""
    out = []

    def tree(x):
        k, ch = x[1], x[2]
        n = 0
        first_alt_done = False
        for c in ch:
            if c is None:
                out.append(4); n += 1
            elif c[0] == "t":
                out.extend([2, c[1]]); n += 1
            elif c[0] == "N":
                if k in amb and first_alt_done:
                    continue
                tree(c); out.append(3); n += 1
                first_alt_done = True
            elif c[0] == "L":
                m = 0
                for e in c[1]:
                    if e is None:
                        out.append(7); m += 1
                    elif e[0] == "N":
                        tree(e); out.append(6); m += 1
                    # delimiters are not part of the child list
                out.extend([5, m]); n += 1
        out.extend([1, k, n])
    tree(node)
    return out


def walk(node, amb, under=False, inamb=False):
    """pre-order of (node, under_second_alternative?, under_any_ambiguity_node?) matching the harness N entries (which list every alternative)"""
    res = [(node, under, inamb)]
    seen_alt = False
    for c in node[2]:
        if c is None or c[0] in "td?":
            continue
        if c[0] == "N":
            u = under or (node[1] in amb and seen_alt)
            res += walk(c, amb, u, inamb or node[1] in amb)
            seen_alt = True
        elif c[0] == "L":
            for e in c[1]:
                if e is not None and e[0] == "N":
                    res += walk(e, amb, under, inamb or node[1] in amb)
    return res


def toks_of(node, amb=frozenset()):
    out, alt = [], False
    for c in node[2]:
        if c is None:
            continue
        if c[0] == "t" and c[1] != 0:
            out.append(c[1])
        elif c[0] == "N":
            if node[1] in amb and alt:
                continue
            out += toks_of(c, amb); alt = True
        elif c[0] == "L":
            for e in c[1]:
                if e is not None and e[0] == "N":
                    out += toks_of(e, amb)
    return out


def run(chk, only=None):
    chk.coverage["trusted_base"] = pv.TRUSTED_COMMON + [
        "hand-written model coq/C14Model.v of SyntaxNode::firstToken/lastToken/findValidToken and CoreSyntaxNodeList::firstToken/lastToken over the generic tree shape "
        "(tied by feeding every dumped tree to the model and comparing the extent of every node)",
        "the two hypotheses of the theorems (token slots strictly increasing in order; a list owning a token owns one in its first and last element) are the parser's obligations: checked on every tree, not proved",
        "visit-once, only-this-tree and the family downcasts are checked by correspondence only (the traversal protocol is not modelled)"]
    chk.assumptions = ["the tree shape is what childNodesAndTokens() and the lists' next links expose (harness/tree.h knows the 14 list instantiations)"]
    terr = None
    try:
        sys.path.insert(0, os.path.join(pv.ROOT, "translate"))
        import schema
        schema.generate()
    except Exception as e:
        terr = "%s: %s" % (type(e).__name__, e)
    res = chk.prove(["Properties_C14.v"], extra_targets=["Entry_C14.vo"])
    proof_ok = all(ok for ok, _ in res.values()) and terr is None
    if terr is not None:
        chk.coverage["discharged"] = 0
    pv.build_model("C14")
    SK = kinds()
    NAME = {v: k for k, v in SK.items()}
    amb = {SK[a] for a in AMBIG}
    quick = chk.tier == "quick"
    rng = chk.rng
    snippets = corpus.test_snippets()
    inputs = [(c, t) for c, t in snippets]
    tus = [t for c, t in snippets if c == 0]
    for _ in range(100 if quick else 1000):
        inputs.append((0, "\n".join(rng.choice(tus) for _ in range(rng.randint(2, 6)))))
    import random as _random
    import cgen, ambig
    gnu_texts = set()
    for _i in range(100 if quick else 2000):
        g_ = cgen.G(_random.Random(rng.getrandbits(40)), gnu=(_i % 3 == 0))
        u_ = g_.unit()
        inputs.append((0, u_))
        if g_.gnu:
            gnu_texts.add(u_)
    # __extension__ in front of declarations and expressions of every shape (the keyword is a child inherited from the base class), and parenthesised declarators with initializers
    for u_ in ["__extension__ int k = 2;", "__extension__ typedef long long ll_t; ll_t v;", "struct s { __extension__ int b; __extension__ union { int c; }; };",
               "void f(int k) { __extension__ int j = 1; k = __extension__ (k + 1); k = __extension__ g(k, 1); __extension__ k++; k = __extension__ 1; for (__extension__ int i = 0; i < 2; ++i) ; }",
               "int r = __extension__ ({ int t = 1; t; });", "__extension__ struct q { int a; } qq, *pq; __extension__ enum e { A, B } ee;", "__extension__ void h(void) { }",
               "void f(void) { __extension__ __builtin_offsetof(struct s, a); x = __extension__ (int){ 1 }; y = __extension__ __real__ z; }"]:
        inputs.append((0, u_)); gnu_texts.add(u_)
    inputs += [(0, "int (x) = 1;"), (0, "int ((y)) = 2, (*z) = 0;"), (0, "void f(void) { int (a) = 1, (*b)[2] = 0, ((c))[1] = { 0 }; }"), (0, "int (*fp)(int) = 0, (g)(int);")]
    for _i in range(50 if quick else 1000):
        inputs.append((0, ambig.P(_random.Random(rng.getrandbits(40))).generate().text()))
    valid_n = len(inputs)
    for c, t in rng.sample(snippets, 250 if quick else len(snippets)):
        for m in mutate.mutants(rng, t, 3 if quick else 8):
            inputs.append((c, m))
    inputs += [(0, "int x; ; int y;"), (0, "; int x;"), (0, "struct s { int a; + ; int b; int c; };"), (0, ""), (0, ";"), (1, "int"), (2, ""), (3, "{")]
    modes = [2, 0] if quick else [2, 0, 1, 3]
    if only:
        inputs, valid_n, modes = only, len(only), [2, 0, 1, 3]
        gnu_texts = {t_ for _c, t_ in only if "__" in t_}
    reqs, meta = [], []
    for (c, t) in inputs:
        for dm in modes:
            reqs.append("nodes %d 2:1:%s:0:%d %s" % (c, "20003f" if t in gnu_texts else "0", dm, t.encode("utf-8", "replace").hex() if t else "-"))
            meta.append((c, t, dm))
    impl = pv.run_impl(reqs, shards=pv.NCPU, fork=False)
    parsed, mreqs = [], []
    crashes = [(r, a) for r, a in zip(reqs, impl) if a.startswith("CRASH")]
    for a in impl:
        if a.startswith("CRASH"):
            parsed.append("crash"); mreqs.append(""); continue
        try:
            head, _, rest = a.partition(" | N")
            nent, _, rest2 = rest.partition(" | V ")
            sa = sexp.split_answer(head + " |")
            root = sexp.parse_dump(sa[2]) if sa and sa[2].strip() != "~" else None
            ents = [tuple(int(x) for x in e.split(":")) for e in nent.split()]
            total = int(rest2.split()[0])
            parsed.append((root, ents, total))
            mreqs.append(" ".join(map(str, postfix(root, amb))) if root else "")
        except Exception as e:
            parsed.append(None); mreqs.append(""); chk.notes.append("unparsable: %r %s" % (e, a[:300]))
    model = pv.run_model("C14", mreqs, shards=pv.NCPU)
    bad, bad_model, notes = [], [], {"trees": 0, "nodes": 0, "ambiguity_nodes": 0}
    kinds_seen = set()
    for r, m, a, p, mo in zip(reqs, meta, impl, parsed, model):
        if p == "crash":
            continue          # a crash of the front end on this input is C01's business; counted in the distribution
        if p is None:
            bad.append((r, m, "unparsable-answer", a[:200])); continue
        root, ents, total = p
        if root is None:
            continue
        notes["trees"] += 1
        w = walk(root, amb)
        if len(w) != len(ents):
            bad.append((r, m, "node-enumeration-mismatch", (len(w), len(ents)))); continue
        notes["nodes"] += len(w)
        # model extents are given for the tree with first alternatives only: align by skipping nodes under second alternatives
        mext = [tuple(mo[i:i + 3]) for i in range(1, len(mo), 3)] if mo and mo[0] != -1 else None
        mi = 0
        counted = 0
        for (node, under, inamb), (k, f, l, v, fam) in zip(w, ents):
            kinds_seen.add(k)
            if node[1] in amb:
                notes["ambiguity_nodes"] += 1
            name = NAME.get(k, str(k))
            # (a) extents
            if not under and node[1] not in amb:
                ts = toks_of(node, amb)
                if ts:
                    if f == 0 or l == 0 or f == 999999 or l == 999999:
                        bad.append((r, m, "invalid-extent", (name, f, l, ts[:6])))
                    elif not (f <= min(ts) and max(ts) <= l):
                        bad.append((r, m, "extent-does-not-enclose", (name, f, l, min(ts), max(ts))))
                    if any(x >= y for x, y in zip(ts, ts[1:])):
                        bad.append((r, m, "slots-not-increasing", (name, ts[:12])))
            if not under and mext is not None:
                if mi < len(mext):
                    mk, mf, ml = mext[mi]
                    if mk == k and (mf, ml) != (f, l) and f != 999999 and l != 999999:
                        bad_model.append((r, m, (name, (f, l), (mf, ml))))
                mi += 1
            # (b) visit exactly once (alternatives under an ambiguity node exempt)
            if not inamb and v != 1:
                bad.append((r, m, "visited-%d-times" % v, name))
            if not under:
                counted += 1
            # (c) family downcast agrees with the kind's name
            want = (1 if name.endswith("Declaration") or name in ("FunctionDefinition", "TranslationUnit") and False else 0)
            if name.endswith("Expression") and not name.startswith("Ambiguous") and not (fam & 8):
                bad.append((r, m, "downcast", (name, fam)))
            if name.endswith("Statement") and not name.startswith("Ambiguous") and not (fam & 16):
                bad.append((r, m, "downcast", (name, fam)))
            if name.endswith("Declarator") and not (fam & 4):
                bad.append((r, m, "downcast", (name, fam)))
            if name.endswith(("Expression",)) and (fam & (1 | 2 | 4 | 16)) and not name.startswith("Ambiguous"):
                bad.append((r, m, "downcast", (name, fam)))
    chk.coverage["evaluations"] = len(reqs)
    chk.coverage["distinct_nontrivial"] = len({(m[0], m[1]) for m, p in zip(meta, parsed) if p and p != "crash" and p[0] is not None and len(p[1]) > 5})
    chk.coverage["rule"] = ("the %d snippets of the repository's own parser/binder/checker tests (every node kind they cover) in their syntax category, %d random concatenations and generated units (gen/cgen.py, gen/ambig.py), "
                            "and %d token-level mutants (deletion, duplication, swap, truncation, insertion, replacement) of them, each under disambiguation modes %s; for every node: extent vs the hull of "
                            "its token slots, extent vs the model, slots increasing, visit count, family downcast. non-trivial = a tree with more than five nodes"
                            % (len(snippets), 100 if quick else 1000, len(inputs) - valid_n, modes))
    chk.coverage["samples"] = [inputs[5][1], inputs[valid_n - 1][1][:200], inputs[-9][1][:200]] if not only else [inputs[0][1][:200]]
    chk.coverage["distribution"] = dict(notes, node_kinds_seen=len(kinds_seen), model_disagreements=len(bad_model), front_end_crashes_skipped=len(crashes))
    if crashes:
        chk.notes.append("front-end crashes (C01): " + "; ".join(bytes.fromhex(r.split()[3]).decode("utf-8", "replace")[:80] if r.split()[3] != "-" else "" for r, a in crashes[:5]))
    seen_keys = set()
    bad.sort(key=lambda x: len(x[1][1]))
    for r, m, why, det in bad:
        key = why + ":" + (det[0] if isinstance(det, tuple) and isinstance(det[0], str) else str(det)[:30] if why.startswith("visited") else "")
        if why.startswith("visited"):
            key = why + ":" + str(det)
        # ONE known cause, identified by the construct: the initializer of a parenthesised declarator is attached to the innermost declarator
        # ('int (x) = 1;' : the ParenthesizedDeclarator ends at ')' while its child runs to the end of the initializer), so the token slots of
        # the parenthesised declarator and of every node above it are out of order
        if why in ("slots-not-increasing", "extent-does-not-enclose") and PAREN_DECL_INIT.search(m[1]):
            key = "initializer-attached-inside-parenthesised-declarator"
        if key in seen_keys:
            continue
        seen_keys.add(key)
        chk.report(key, {"request": r, "category": m[0], "disambiguation_mode": m[2], "text": m[1], "why": why, "detail": str(det),
                         "count_failing_same_kind": sum(1 for b in bad if b[2] == why)}, found=True,
                   what="extent / traversal of a node violates the property")
        if len(seen_keys) > 12:
            break
    if bad_model and not bad:
        r, m, det = bad_model[0]
        chk.report("model-correspondence", {"unchecked": "correspondence C14Model extents vs firstToken()/lastToken()", "request": r, "text": m[1], "detail": str(det),
                                            "count": len(bad_model)}, found=False)
    if terr is not None and not bad:
        chk.report("translator", {"unchecked": "translate/schema.py rejects the node headers: " + terr}, found=False)
    if not proof_ok and terr is None and not bad:
        for f, (ok, out) in res.items():
            if not ok:
                chk.report("proof-" + f, {"unchecked": f + " (theorems: %s)" % ", ".join(pv.theorem_names(f)), "coq_output": out[-3000:]}, found=False)


def replay(chk, path):
    r = json.load(open(path))
    if r.get("text") is not None and "category" in r:
        print("implementation:", pv.run_impl([r["request"]])[0][:1500])
        return run(chk, only=[(r["category"], r["text"])])
    run(chk)
