(** C06 — the operator table of C11 6.5.5-6.5.17: for each N-ary operator token its level
    (1 = comma ... 13 = multiplicative), associativity, and the kind of the node it builds. *)
From Coq Require Import List ZArith Bool.
From PV.gen Require Import Gen_SyntaxKind.
Import ListNotations.
Local Open Scope Z_scope.

Record oprow := { o_tok : Z; o_level : Z; o_right : bool; o_node : Z }.
Definition mk (t : N) (l : Z) (r : bool) (n : N) : oprow := {| o_tok := Z.of_N t; o_level := l; o_right := r; o_node := Z.of_N n |}.

Definition optable : list oprow := [
  mk K_CommaToken 1 false K_SequencingExpression;                                   (* 6.5.17 *)
  mk K_EqualsToken 2 true K_BasicAssignmentExpression;                               (* 6.5.16 *)
  mk K_AsteriskEqualsToken 2 true K_MultiplyAssignmentExpression;
  mk K_SlashEqualsToken 2 true K_DivideAssignmentExpression;
  mk K_PercentEqualsToken 2 true K_ModuloAssignmentExpression;
  mk K_PlusEqualsToken 2 true K_AddAssignmentExpression;
  mk K_MinusEqualsToken 2 true K_SubtractAssignmentExpression;
  mk K_LessThanLessThanEqualsToken 2 true K_LeftShiftAssignmentExpression;
  mk K_GreaterThanGreaterThanEqualsToken 2 true K_RightShiftAssignmentExpression;
  mk K_AmpersandEqualsToken 2 true K_AndAssignmentExpression;
  mk K_CaretEqualsToken 2 true K_ExclusiveOrAssignmentExpression;
  mk K_BarEqualsToken 2 true K_OrAssignmentExpression;
  mk K_QuestionToken 3 true K_ConditionalExpression;                                 (* 6.5.15 *)
  mk K_BarBarToken 4 false K_LogicalORExpression;                                    (* 6.5.14 *)
  mk K_AmpersandAmpersandToken 5 false K_LogicalANDExpression;                       (* 6.5.13 *)
  mk K_BarToken 6 false K_BitwiseORExpression;                                       (* 6.5.12 *)
  mk K_CaretToken 7 false K_BitwiseXORExpression;                                    (* 6.5.11 *)
  mk K_AmpersandToken 8 false K_BitwiseANDExpression;                                (* 6.5.10 *)
  mk K_EqualsEqualsToken 9 false K_EqualsExpression;                                 (* 6.5.9 *)
  mk K_ExclamationEqualsToken 9 false K_NotEqualsExpression;
  mk K_LessThanToken 10 false K_LessThanExpression;                                  (* 6.5.8 *)
  mk K_GreaterThanToken 10 false K_GreaterThanExpression;
  mk K_LessThanEqualsToken 10 false K_LessThanOrEqualExpression;
  mk K_GreaterThanEqualsToken 10 false K_GreaterThanOrEqualExpression;
  mk K_LessThanLessThanToken 11 false K_LeftShiftExpression;                         (* 6.5.7 *)
  mk K_GreaterThanGreaterThanToken 11 false K_RightShiftExpression;
  mk K_PlusToken 12 false K_AddExpression;                                           (* 6.5.6 *)
  mk K_MinusToken 12 false K_SubstractExpression;
  mk K_AsteriskToken 13 false K_MultiplyExpression;                                  (* 6.5.5 *)
  mk K_SlashToken 13 false K_DivideExpression;
  mk K_PercentToken 13 false K_ModuleExpression
].

Definition find_op (k : Z) : option oprow := find (fun r => o_tok r =? k) optable.
Definition level (k : Z) : Z := match find_op k with Some r => o_level r | None => 0 end.
Definition is_assign_op (k : Z) : bool := level k =? 2.
Definition node_kind (k : Z) : Z := match find_op k with Some r => o_node r | None => -1 end.
