From Coq Require Import List NArith Bool Arith Lia.
From PV Require Import C01Model.
Import ListNotations.

Lemma byte_at_lt text i : i < length text -> exists b, byte_at text i = Some b /\ nth_error text i = Some b.
Proof.
  intros H. unfold byte_at. destruct (nth_error text i) eqn:E; [eauto|]. apply nth_error_None in E. lia.
Qed.
Lemma byte_at_le text i : i <= length text -> exists b, byte_at text i = Some b.
Proof.
  intros H. unfold byte_at. destruct (nth_error text i) eqn:E; [eauto|].
  apply nth_error_None in E. assert (i = length text) by lia. subst. rewrite Nat.eqb_refl. eauto.
Qed.
Lemma byte_at_end text : byte_at text (length text) = Some 0%N.
Proof. unfold byte_at. assert (E : nth_error text (length text) = None) by (apply nth_error_None; lia). rewrite E, Nat.eqb_refl. reflexivity. Qed.
Lemma byte_at_some_le text i b : byte_at text i = Some b -> i <= length text.
Proof.
  unfold byte_at. destruct (nth_error text i) eqn:E.
  - intros _. assert (i < length text) by (apply nth_error_Some; congruence). lia.
  - destruct (Nat.eqb_spec i (length text)); [lia|discriminate].
Qed.

Lemma skip_trail_safe text t : forall pos, pos <= length text ->
  exists p, skip_trail text t pos = Some p /\ pos <= p <= length text.
Proof.
  induction t as [|t IH]; intros pos Hp; cbn [skip_trail]; [exists pos; split; [reflexivity|lia]|].
  destruct (byte_at_le text pos Hp) as [b Hb]. rewrite Hb.
  destruct (N.eqb_spec b 0) as [->|Hnz]; [exists pos; split; [reflexivity|lia]|].
  assert (pos < length text).
  { destruct (Nat.eq_dec pos (length text)) as [->|]; [|lia]. rewrite byte_at_end in Hb. congruence. }
  destruct (IH (S pos)) as [p [E Hr]]; [lia|]. exists p. split; [exact E|lia].
Qed.

(** one step from a position that holds a non-NUL byte: in bounds, and strict progress *)
Lemma advance_safe text pos b : byte_at text pos = Some b -> b <> 0%N ->
  exists p, advance text pos = Some p /\ pos < p <= length text.
Proof.
  intros Hb Hnz. unfold advance. rewrite Hb.
  assert (Hlt : pos < length text).
  { pose proof (byte_at_some_le _ _ _ Hb). destruct (Nat.eq_dec pos (length text)) as [->|]; [|lia]. rewrite byte_at_end in Hb. congruence. }
  destruct (is_mb b).
  - destruct (skip_trail_safe text (trail b) (S pos)) as [p [E Hr]]; [lia|]. rewrite E.
    destruct (byte_at_le text p) as [c Hc]; [lia|]. rewrite Hc. exists p. split; [reflexivity|lia].
  - destruct (byte_at_le text (S pos)) as [c Hc]; [lia|]. rewrite Hc. exists (S pos). split; [reflexivity|lia].
Qed.

Lemma scan_safe text : forall fuel pos, pos <= length text -> length text - pos < fuel ->
  exists l, scan text fuel pos = Some l /\ Forall (fun p => pos < p <= length text) l.
Proof.
  induction fuel as [|f IH]; intros pos Hp Hf; [lia|]. cbn [scan].
  destruct (byte_at_le text pos Hp) as [b Hb]. rewrite Hb.
  destruct (N.eqb_spec b 0) as [->|Hnz]; [exists []; split; [reflexivity|constructor]|].
  destruct (advance_safe text pos b Hb Hnz) as [p [E Hr]]. rewrite E.
  destruct (IH p) as [l [El Hl]]; [lia|lia|]. rewrite El. exists (p :: l). split; [reflexivity|].
  constructor; [lia|]. eapply Forall_impl; [|exact Hl]. cbn. intros a Ha. lia.
Qed.

(* ------------------------------------------------------------------ token cursor *)
Definition ends_with (eof : N) (toks : list N) : Prop := nth_error toks (length toks - 1) = Some eof /\ 0 < length toks.

Lemma ignore_loop_safe eof ret cret toks : mem eof ret = true -> ends_with eof toks ->
  forall fuel cur, cur < length toks -> length toks - cur <= fuel ->
  exists cur', ignore_loop ret cret toks fuel cur = Some cur' /\ cur <= cur' < length toks /\
               (* every token skipped is neither a stop token nor a consume-and-stop token *)
               (forall i k, cur <= i < cur' - 1 -> nth_error toks i = Some k -> mem k ret = false /\ mem k cret = false).
Proof.
  intros He [Hlast Hpos]. induction fuel as [|f IH]; intros cur Hc Hf; [lia|]. cbn [ignore_loop].
  destruct (nth_error toks cur) as [k|] eqn:E; [|apply nth_error_None in E; lia].
  destruct (mem k ret) eqn:Er.
  - exists cur. split; [reflexivity|]. split; [lia|]. intros i k' Hi. lia.
  - assert (Hne : cur <> length toks - 1). { intros ->. rewrite Hlast in E. inversion E; subst. congruence. }
    destruct (mem k cret) eqn:Ec.
    + exists (S cur). split; [reflexivity|]. split; [lia|]. intros i k' Hi. lia.
    + destruct (IH (S cur)) as [c' [E' [Hr Hsk]]]; [lia|lia|]. exists c'. split; [exact E'|]. split; [lia|].
      intros i k' Hi Hk. destruct (Nat.eq_dec i cur) as [->|]; [rewrite E in Hk; inversion Hk; subst; auto|].
      apply (Hsk i k'); [lia|exact Hk].
Qed.

Lemma match_safe eof k toks cur : ends_with eof toks -> k <> eof -> cur < length toks ->
  exists cur', match_tok eof k toks cur = Some cur' /\ cur <= cur' < length toks.
Proof.
  intros [Hlast Hpos] Hk Hc. unfold match_tok.
  destruct (nth_error toks cur) as [c|] eqn:E; [|apply nth_error_None in E; lia].
  assert (Hne : c <> eof -> cur <> length toks - 1). { intros H ->. rewrite Hlast in E. congruence. }
  destruct (N.eqb_spec c k) as [->|].
  - exists (S cur). split; [reflexivity|]. specialize (Hne Hk). lia.
  - destruct (N.eqb_spec c eof).
    + exists cur. split; [reflexivity|lia].
    + exists (S cur). split; [reflexivity|]. specialize (Hne n0). lia.
Qed.

Lemma backtrack_safe toks ref cur : 0 < length toks -> ref < length toks -> (cur = ref \/ cur <> ref) ->
  backtrack toks ref cur < length toks.
Proof.
  intros Hp Hr _. unfold backtrack. destruct (Nat.eqb_spec cur ref); [lia|]. destruct (Nat.ltb_spec cur (length toks)); lia.
Qed.

(** eof occurs at no index in [1, length - 2] => a peek(LA) whose LA-1 predecessors are not eof is in bounds *)
Lemma peek_safe eof toks cur la : ends_with eof toks -> cur < length toks -> 1 <= la ->
  (forall j, j < la - 1 -> exists k, nth_error toks (cur + j) = Some k /\ k <> eof) ->
  exists k, peek toks cur la = Some k.
Proof.
  intros [Hlast Hpos] Hc Hla Hpre. unfold peek.
  destruct (nth_error toks (cur + la - 1)) as [k|] eqn:E; [eauto|]. apply nth_error_None in E.
  (* then the last token lies among the predecessors, and it is eof *)
  exfalso. destruct (Hpre (length toks - 1 - cur)) as [k [Hk Hne]]; [lia|].
  replace (cur + (length toks - 1 - cur)) with (length toks - 1) in Hk by lia. congruence.
Qed.

(* ------------------------------------------------------------------ depth counter *)
Lemma depth_bounded max : forall evs d, d <= S max ->
  match depth_run max d evs with Some d' => d' <= S max | None => True end.
Proof.
  induction evs as [|[|] r IH]; intros d Hd; cbn [depth_run]; [exact Hd| |].
  - destruct (Nat.ltb_spec max d); [exact I|]. apply IH. lia.
  - apply IH. lia.
Qed.

(** balance of a prefix: never more Leaves than Enters, and the nesting (max open Enters) *)
Fixpoint nesting (evs : list ev) (open : nat) : nat :=
  match evs with [] => open | Enter :: r => Nat.max (S open) (nesting r (S open)) | Leave :: r => Nat.max open (nesting r (open - 1)) end.
Lemma depth_no_throw max : forall evs d, nesting evs d <= S max -> exists d', depth_run max d evs = Some d'.
Proof.
  induction evs as [|[|] r IH]; intros d H; cbn [depth_run nesting] in *; [eauto| |].
  - destruct (Nat.ltb_spec max d); [lia|]. apply IH. lia.
  - apply IH. lia.
Qed.

(* ------------------------------------------------------------------ the member loop terminates *)
Section MemberLoopProof.
  Variables eof close_brace : N.
  Variables ret cret : list N.
  Variable toks : list N.
  Variable parse_member : nat -> bool * nat.
  Hypothesis Heof : mem eof ret = true.
  Hypothesis Hend : ends_with eof toks.
  Hypothesis Hneq : close_brace <> eof.
  (** what is asked of the member parser: it stays in range, never moves back, and moves forward when it succeeds *)
  Hypothesis Hpm : forall c, c < length toks -> c <= snd (parse_member c) < length toks /\ (fst (parse_member c) = true -> c < snd (parse_member c)).

  Lemma member_loop_terminates : forall fuel cur, cur < length toks -> 2 * (length toks - cur) < fuel ->
    exists r, member_loop true eof close_brace ret cret toks parse_member fuel cur = Some r.
  Proof.
    induction fuel as [|f IH]; intros cur Hc Hf; [lia|]. cbn [member_loop].
    destruct (nth_error toks cur) as [k|] eqn:E; [|apply nth_error_None in E; lia].
    destruct (N.eqb_spec k close_brace) as [->|Hk]; [eauto|].
    destruct (parse_member cur) as [ok c1] eqn:Ep. destruct (Hpm cur Hc) as [Hr Hs]. rewrite Ep in Hr, Hs. cbn [fst snd] in Hr, Hs.
    destruct ok.
    - apply IH; [lia|]. specialize (Hs eq_refl). lia.
    - destruct (ignore_loop_safe eof ret cret toks Heof Hend (S (length toks)) c1) as [c2 [E2 [Hr2 _]]]; [lia|lia|]. rewrite E2.
      destruct (nth_error toks c2) as [k2|] eqn:Ek2; [|apply nth_error_None in Ek2; lia].
      destruct (N.eqb_spec k2 eof) as [->|Hne]; [eauto|].
      assert (Hlast : c2 <> length toks - 1). { destruct Hend as [Hl _]. intros ->. rewrite Hl in Ek2. congruence. }
      destruct (Nat.eqb_spec c2 cur) as [->|Hmove]; cbn [andb].
      + (* neither the member nor the recovery moved: here the token is not the closing brace, so the guard skips it *)
        rewrite E in Ek2. inversion Ek2; subst k2. destruct (N.eqb_spec k close_brace) as [|_]; [contradiction|]. cbn [negb].
        apply IH; lia.
      + apply IH; lia.
  Qed.
End MemberLoopProof.

(** without the guard: a member parser that fails without moving, at a token where recovery stops, never lets the loop end *)
Lemma member_loop_unguarded_diverges :
  exists eof close_brace ret cret toks pm, mem eof ret = true /\ ends_with eof toks /\
    forall fuel, member_loop false eof close_brace ret cret toks pm fuel 1 = None.
Proof.
  exists 0%N, 9%N, [0%N; 7%N], [], [0%N; 7%N; 0%N], (fun c => (false, c)).
  split; [reflexivity|]. split; [split; [reflexivity|cbn; lia]|].
  induction fuel as [|f IH]; [reflexivity|]. cbn. cbn in IH. exact IH.
Qed.
