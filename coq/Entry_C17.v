(** Request decoder for the C17 model: [kr; std; mask; b0; b1; ...] ->
    [model answer (-1 = a read past the word); proved table; oracle table]. *)
From Coq Require Import ZArith NArith List Bool.
From PV Require Import KwDefs KwProofs KwModel KwSpec KwFindings.
From PV.gen Require Import Gen_SyntaxKind Gen_Keywords.
Import ListNotations.
Local Open Scope Z_scope.

Definition mk_opts (std mask : Z) : opts :=
  (Z.to_nat std, fun k => Z.testbit mask (Z.of_nat k)).

Definition run (req : list Z) : list Z :=
  match req with
  | kr :: std :: mask :: bytes =>
      let o := mk_opts std mask in
      let w := map Z.to_N bytes in
      let krb := negb (Z.eqb kr 0) in
      let m := match KwModel.lex_word K_IdentifierToken recognize_table translate_table O_Translate_operatorNames krb o w with
               | Some k => Z.of_N k | None => -1 end in
      [m;
       Z.of_N (KwModel.word_spec K_IdentifierToken kw_effective opname_oracle O_Translate_operatorNames krb o w);
       Z.of_N (KwModel.word_spec K_IdentifierToken kw_oracle opname_oracle O_Translate_operatorNames krb o w)]
  | _ => []
  end.

(** active findings as (index in kw_findings) list, for the orchestrator *)
Definition active_indices : list Z :=
  map (fun p => Z.of_nat (fst p))
      (filter (fun p => finding_active (snd p)) (combine (seq 0 (length kw_findings)) kw_findings)).
