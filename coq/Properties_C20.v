(** C20 — VersionedMap restores exactly the contents of any earlier revision.
    This file holds only the property theorems, each closed by [exact] of a
    lemma proved in C20Proofs.v, and their [Print Assumptions]. *)
From Coq Require Import NArith.
From PV Require Import C20Model C20Proofs.

Section P.
Variables K V : Type.
Variable keqb : K -> K -> bool.

(** For every valid history (switches only to existing revisions, revision 0
    included; insertions after switching back, i.e. branching, included) and
    every existing revision r: after applyRevision(r) the map answers every
    key exactly as the snapshot taken when r was created. *)
Theorem C20_refines : forall (ops : list (vop K V)) (r : nat),
  valid K V ops = true -> r <= cnt K V (vrun K V ops) ->
  forall k, lookup keqb k (vmap (apply_revision K V (vrun K V ops) r))
          = lookup keqb k (nth r (snaps (srun K V ops)) []).
Proof. exact (restore_exact K V keqb). Qed.

(** At every point of every valid history the map is the current snapshot. *)
Theorem C20_current_is_snapshot : forall ops : list (vop K V),
  valid K V ops = true ->
  vmap (vrun K V ops) = scontents K V (srun K V ops) /\
  cur (vrun K V ops) = scur (srun K V ops).
Proof.
  intros ops Hv. pose proof (vmap_refines_snapshots K V ops Hv) as I.
  split; [rewrite (inv_map _ _ _ _ I), (inv_cur _ _ _ _ I); reflexivity | exact (inv_cur _ _ _ _ I)].
Qed.

(** Each insertion creates revision cnt+1, makes it current and leaves what
    every existing revision restores unchanged. *)
Theorem C20_fresh_revision : forall (ops : list (vop K V)) (c : K * V),
  valid K V ops = true ->
  let s := vrun K V ops in let s' := insert_or_assign K V s c in
  cur s' = S (cnt K V s) /\ cnt K V s' = S (cnt K V s) /\
  (forall r, r <= cnt K V s ->
     nth r (snaps (srun K V (ops ++ [Ins c]))) [] = nth r (snaps (srun K V ops)) []).
Proof. exact (fresh_revision K V). Qed.

(** No later operation alters what an existing revision restores. *)
Theorem C20_history_monotone : forall (ops1 ops2 : list (vop K V)) (r : nat),
  valid K V ops1 = true -> r <= cnt K V (vrun K V ops1) ->
  nth r (snaps (srun K V (ops1 ++ ops2))) [] = nth r (snaps (srun K V ops1)) [].
Proof. exact (history_monotone K V). Qed.
End P.

(** Non-vacuity: a branching history that is valid and non-trivial. *)
Local Open Scope N_scope.
Example C20_nonvacuous :
  let ops := [Ins (1,10); Ins (2,20); App 1%nat; Ins (3,30); App 3%nat; App 0%nat; App 2%nat] in
  valid N N ops = true /\
  vmap (vrun N N ops) = [(2,20); (1,10)] /\
  nth 3 (snaps (srun N N ops)) [] = [(3,30); (1,10)].
Proof. vm_compute. repeat split; reflexivity. Qed.

Print Assumptions C20_refines.
Print Assumptions C20_current_is_snapshot.
Print Assumptions C20_fresh_revision.
Print Assumptions C20_history_monotone.
