"""C12: generator of complete programs with typedef chains, with a reference interpreter that knows, for every
declaration, the type C gives it.  Types (reference): ('B', k) | ('V',) | ('P', t) | ('A', t) | ('F', ret, [params]) |
('Q', frozenset(quals), t) | ('N', name, decl_id) | ('G', kind, tag, decl_id)
decl_id = byte offset of the declaring identifier (typedef) / tag token (tag) in the text."""
BASIC = {"char": 0, "signed char": 1, "unsigned char": 2, "short": 3, "unsigned short": 4, "int": 5, "unsigned": 6, "long": 7, "unsigned long": 8,
         "long long": 9, "unsigned long long": 10, "_Bool": 11, "float": 12, "double": 13, "long double": 14}
QORD = "cvra"
QWORD = {"c": "const", "v": "volatile"}


def mkq(qs, t):
    if not qs:
        return t
    if t[0] == "Q":
        return ("Q", frozenset(qs) | t[1], t[2])
    return ("Q", frozenset(qs), t)


class Prog:
    def __init__(self, rng):
        self.rng = rng
        self.text = ""
        self.scopes = [{}]          # name -> (decl_id, type as written)   (typedefs)
        self.tags = [{}]            # tag -> decl_id
        self.decls = []             # (kind 't'|'v', name, decl_id, type as written, scope snapshot id)
        self.counter = 0
        self.used = [set()]         # per open scope: names (typedef names, "struct tag") used so far in it or in its closed sub-blocks
        self.allow_late = False     # generate a redeclaration after a use in the same block (the known finding of C10)
        self.late = False

    # ---- reference semantics
    def lookup(self, name):
        for s in reversed(self.scopes):
            if name in s:
                return s[name]
        return None

    def den(self, t):
        k = t[0]
        if k in "BV":
            return t
        if k == "G":
            return t
        if k == "P":
            return ("P", self.den(t[1]))
        if k == "A":
            return ("A", self.den(t[1]))
        if k == "F":
            return ("F", self.den(t[1]), [self.den(p) for p in t[2]])
        if k == "Q":
            return mkq(t[1], self.den(t[2]))
        if k == "N":
            return self.dens[t[2]]
        raise ValueError(t)

    # ---- printing in the syntax of the harness
    def pr(self, t, keep_names):
        k = t[0]
        if k == "B":
            return "B%d" % t[1]
        if k == "V":
            return "V"
        if k == "P":
            return "P(%s)" % self.pr(t[1], keep_names)
        if k == "A":
            return "A(%s)" % self.pr(t[1], keep_names)
        if k == "F":
            return "F(%s;%s)" % (self.pr(t[1], keep_names), ",".join(self.pr(p, keep_names) for p in t[2]))
        if k == "Q":
            return "Q%s(%s)" % ("".join(q for q in QORD if q in t[1]), self.pr(t[2], keep_names))
        if k == "N":
            if keep_names:
                return "T:%s{D%d}{%s}" % (t[1], t[2], self.pr(self.dens[t[2]], False))
            return self.pr(self.dens[t[2]], False)
        if k == "G":
            return "G%d:%s{D%d}" % (t[1], t[2], t[3])
        raise ValueError(t)

    # ---- generation
    def fresh(self, p):
        self.counter += 1
        return "%s%d" % (p, self.counter)

    def emit(self, s):
        self.text += s

    def visible_typedefs(self):
        seen, out = set(), []
        for s in reversed(self.scopes):
            for n, v in s.items():
                if n not in seen:
                    seen.add(n); out.append((n, v))
        return out

    def visible_tags(self):
        seen, out = set(), []
        for s in reversed(self.tags):
            for n, v in s.items():
                if n not in seen:
                    seen.add(n); out.append((n, v))
        return out

    def base(self, avoid=None):
        """-> (text, type)"""
        rng = self.rng
        r = rng.random()
        tds = [x for x in self.visible_typedefs() if x[0] != avoid]
        tgs = self.visible_tags()
        if r < 0.5 and tds:
            n, (did, _) = rng.choice(tds)
            self.used[-1].add(n)
            return n, ("N", n, did)
        if r < 0.62 and tgs:
            n, did = rng.choice(tgs)
            self.used[-1].add("struct " + n)
            return "struct " + n, ("G", 0, n, did)
        if r < 0.67:
            return "void", ("V",)
        w = rng.choice(list(BASIC))
        return w, ("B", BASIC[w])

    def declaration(self, is_typedef, name=None):
        rng = self.rng
        btxt, bty = self.base(avoid=name)       # `typedef T *T;` in a block names the OUTER T in C; the implementation sees the inner one (C10's known finding)
        d = self.den(bty)
        dk = d[2][0] if d[0] == "Q" else d[0]
        quals = set()
        if dk not in "AF" and rng.random() < 0.4:
            quals = set(rng.sample("cv", rng.randint(1, 2)))
        shapes = ["ptr", "pp", "ptrq", "fptr"]
        if dk not in "FV":
            shapes += ["arr", "arrptr"] if dk != "A" else ["arrptr"]
        if dk not in "FA":
            if is_typedef or dk != "V":
                shapes += ["plain", "plain"]
            if is_typedef:
                shapes += ["func"]
        else:
            if is_typedef:
                shapes += ["plain"]
        if dk == "A" and not is_typedef:
            shapes += ["plain"]
        if dk == "F" and not is_typedef:
            shapes = ["ptr", "pp"]
        base = mkq(quals, bty) if quals else bty
        # a qualified typedef name keeps the name under the qualifier
        if quals and bty[0] == "N":
            base = ("Q", frozenset(quals), bty)
        qtxt = "".join(QWORD[q] + " " for q in sorted(quals))
        pre = ("typedef " if is_typedef else "") + qtxt + btxt + " "
        # several declarators may share the specifiers (each with a shape of its own): 'typedef B (*CB)(int, B), *PB, AB[3];'
        ndecl = 1 if name is not None or rng.random() < 0.6 else rng.randint(2, 3)
        if len(self.scopes) > 1 and not is_typedef and not quals and bty[0] == "N":
            ndecl = 1          # 'T *a, *b;' in a block is read as an expression (C09's known finding: several declarators are never made ambiguous)
        parts, recs, pos = [], [], 0
        for k in range(ndecl):
            shape = rng.choice(shapes)
            nm = name if (k == 0 and name) else self.fresh("T" if is_typedef else "v")
            ptxt, pty = None, None
            if shape in ("fptr", "func"):
                # one parameter of a visible type (not array/function/void)
                for _ in range(5):
                    ptxt, pty = self.base(avoid=nm)
                    pd = self.den(pty)
                    if (pd[2][0] if pd[0] == "Q" else pd[0]) not in "AFV":
                        break
                else:
                    ptxt, pty = "int", ("B", 5)
            if shape == "plain":
                decl, ty = nm, base
            elif shape == "ptr":
                decl, ty = "*" + nm, ("P", base)
            elif shape == "pp":
                decl, ty = "**" + nm, ("P", ("P", base))
            elif shape == "ptrq":
                decl, ty = "* const " + nm, ("Q", frozenset("c"), ("P", base))
            elif shape == "arr":
                decl, ty = nm + "[3]", ("A", base)
            elif shape == "arrptr":
                decl, ty = "*" + nm + "[2]", ("A", ("P", base))
            elif shape == "fptr":
                decl, ty = "(*" + nm + ")(int, " + ptxt + ")", ("P", ("F", base, [("B", 5), pty]))
            else:
                decl, ty = nm + "(" + ptxt + ")", ("F", base, [pty])
            recs.append((nm, ty, pos + decl.index(nm)))
            parts.append(decl)
            pos += len(decl.encode()) + 2
        start = len(self.text.encode()) + len(pre.encode())
        self.emit(pre + ", ".join(parts) + ";\n")
        for nm, ty, rel in recs:
            off = start + rel
            if is_typedef:
                self.dens[off] = self.den(ty)
                self.scopes[-1][nm] = (off, ty)
            self.decls.append(("t" if is_typedef else "v", nm, off, ty))

    def struct_def(self, tag=None):
        tag = tag or self.fresh("S")
        pre = "struct "
        off = len(self.text.encode()) + len(pre)
        self.emit(pre + tag + " { int m; };\n")
        self.tags[-1][tag] = off

    def block(self, depth):
        rng = self.rng
        self.emit("{\n")
        self.scopes.append({}); self.tags.append({}); self.used.append(set())
        for _ in range(rng.randint(1, 5)):
            r = rng.random()
            if r < 0.35:
                # possibly shadow a visible name
                cands = [n for n, _ in self.visible_typedefs() if n not in self.scopes[-1]]
                if not self.allow_late:
                    cands = [n for n in cands if n not in self.used[-1]]
                nm = rng.choice(cands) if cands and rng.random() < 0.5 else None
                if nm is not None and nm in self.used[-1]:
                    self.late = True
                self.declaration(True, nm)
            elif r < 0.75:
                self.declaration(False)
            elif r < 0.85 and self.visible_tags():
                tg = rng.choice(self.visible_tags())[0]
                if tg not in self.tags[-1] and ("struct " + tg) not in self.used[-1]:
                    self.struct_def(tg)
            elif depth < 3:
                self.block(depth + 1)
        self.scopes.pop(); self.tags.pop()
        u = self.used.pop()
        self.used[-1] |= u
        self.emit("}\n")

    def generate(self, blocks=True):
        rng = self.rng
        self.dens = {}
        for _ in range(rng.randint(0, 2)):
            self.struct_def()
        for _ in range(rng.randint(2, 10)):
            r = rng.random()
            if r < 0.6:
                self.declaration(True)
            elif r < 0.9:
                self.declaration(False)
            else:
                self.struct_def()
        if blocks and rng.random() < 0.7:
            self.emit("void %s(void)\n" % self.fresh("f"))
            self.block(1)
        for _ in range(rng.randint(0, 3)):
            self.declaration(False)
        return self

    def expected(self):
        """[(symbol kind char, name, decl offset, printed type)] in declaration order"""
        out = []
        for k, n, off, ty in self.decls:
            if k == "t":
                s = self.pr(ty, True) if ty[0] == "N" else self.pr(self.den(ty), False)
            else:
                s = self.pr(ty, True)
            out.append((k, n, off, s))
        return out

    # ---- for the Coq model: the typedefs of a straight-line prefix as an environment
    def enc(self, t, ids):
        k = t[0]
        if k == "B":
            return [0, t[1]]
        if k == "V":
            return [1]
        if k == "P":
            return [3] + self.enc(t[1], ids)
        if k == "A":
            return [4] + self.enc(t[1], ids)
        if k == "F":
            out = [5, len(t[2])] + self.enc(t[1], ids)
            for p in t[2]:
                out += self.enc(p, ids)
            return out
        if k == "Q":
            q = sum(1 << "cvra".index(x) for x in t[1])
            return [6, q] + self.enc(t[2], ids)
        if k == "N":
            return [7, t[2]]          # the declaration's id IS the name in the model (scoping already applied)
        if k == "G":
            return [8, t[3]]
        raise ValueError(t)
