# C08 — Type-specifier multisets map to the basic types of C11 6.7.2.
import itertools, json, os, sys
from lib import pv

KW = ["void", "char", "short", "int", "long", "float", "double", "signed", "unsigned", "_Bool", "_Complex"]
OPTS = "2:1:%x" % (1 << 21)      # _Bool needs the bool translation on the pinned tree (C17 known finding)
INVALID, MISSING = "6.7.2-2-B", "6.7.2-2-A"


def text(pos, seq, inter):
    """declaration text for a keyword index sequence in a position; inter: 0 none, 1 const inside, 2 storage class in front, 3 both"""
    ws = [KW[i] for i in seq]
    if inter in (1, 3) and ws:
        ws.insert(len(ws) // 2 + (len(ws) % 2), "const")
    elif inter in (1, 3):
        ws = ["const"]
    if pos == "var":
        return ("static " if inter >= 2 else "") + " ".join(ws) + " x;"
    if pos == "param":
        return "void f(" + ("register " if inter >= 2 else "") + " ".join(ws) + " x);"
    if pos == "field":
        return "struct s { " + " ".join(ws) + " x; };"
    if pos == "typedef":
        if inter >= 2 and len(ws) >= 2:      # typedef is itself a storage-class specifier: put it inside the list
            return ws[0] + " typedef " + " ".join(ws[1:]) + " x;"
        return "typedef " + " ".join(ws) + " x;"


SYMKIND = {"var": "5", "param": "6", "field": "4", "typedef": "7"}


def observe(ans, pos):
    """(type code | -1 void | str, invalid?, missing?) of symbol x"""
    if not ans.startswith("OK"):
        return (ans[:40], None, None)
    body, _, diags = ans.partition("|")
    ty = None
    for item in body.split()[1:]:
        if item.startswith(SYMKIND[pos] + ":x="):
            ty = item.split("=", 1)[1]
    if ty is None:
        return ("no-symbol " + body[:60], None, None)
    while ty.startswith("Q") and "(" in ty:      # strip qualifiers
        ty = ty[ty.index("(") + 1:-1]
    code = -1 if ty == "V" else (int(ty[1:]) if ty.startswith("B") and ty[1:].isdigit() else ty)
    return (code, INVALID in diags, MISSING in diags)


def run(chk, only=None):
    chk.coverage["trusted_base"] = pv.TRUSTED_COMMON + [
        "hand-written model coq/C08Model.v of visitBasicTypeSpecifier / visitVoidTypeSpecifier / visit_AtSpecifiers_COMMON "
        "(tied by exhaustive correspondence: every keyword sequence up to length 5, which reaches every state of the model's product with the specification: 44 reachable pairs)",
        "specification: the rows of C11 6.7.2p2 as multisets + the GNU lone _Complex (C08Model.rows)"]
    chk.assumptions = ["the type stack is empty when a declaration's specifiers are entered (C02's stack discipline)"]
    res = chk.prove(["Properties_C08.v"], extra_targets=["Entry_C08.vo"])
    proof_ok = all(ok for ok, _ in res.values())
    pv.build_model("C08")
    quick = chk.tier == "quick"
    cases = []
    allseq = {n: list(itertools.product(range(11), repeat=n)) for n in range(0, 6)}
    for n in range(0, 6):
        for s in allseq[n]:
            cases.append(("var", s, 0))
    deep = 5 if not quick else 3
    for pos in ("param", "field", "typedef"):
        for n in range(0, deep + 1):
            for s in allseq[n]:
                cases.append((pos, s, 0))
    for pos in ("var", "param", "field", "typedef"):
        for n in range(0, (4 if not quick else 3) + 1):
            for s in allseq[n]:
                for inter in ((1, 2, 3) if pos != "field" else (1,)):
                    cases.append((pos, s, inter))
    # no type specifier at all is only a declaration in variable position behind a qualifier or storage class
    cases = [c for c in cases if len(c[1]) > 0 or (c[0] == "var" and c[2] > 0)]
    if only:
        cases = only
    reqs = ["decls b %s %s" % (OPTS, text(*c).encode().hex()) for c in cases]
    impl = pv.run_impl(reqs, shards=pv.NCPU)
    model = pv.run_model("C08", [" ".join(map(str, c[1])) for c in cases], shards=pv.NCPU)
    bad_spec, bad_model = [], []
    for c, r, ia, mo in zip(cases, reqs, impl, model):
        ty, inv, mis = observe(ia, c[0])
        mty, minv, mmis, sp = mo
        if inv is None:
            bad_spec.append((c, r, ia[:200], "crash/no symbol")); continue
        if len(c[1]) == 0:
            ok = (ty == mty and mis and not inv)          # int + the missing-specifier report
            if not ok:
                bad_spec.append((c, r, (ty, inv, mis), "int with the missing-specifier diagnostic"))
            continue
        if sp == -2:
            if not inv:
                bad_spec.append((c, r, (ty, inv, mis), "invalid type must be reported"))
        else:
            if inv or ty != sp or mis:
                bad_spec.append((c, r, (ty, inv, mis), "type code %d, no diagnostic" % sp))
        if (inv != bool(minv)) or (not inv and ty != mty) or (mis != bool(mmis)):
            bad_model.append((c, r, (ty, inv, mis), (mty, minv, mmis)))
    chk.coverage["evaluations"] = len(cases)
    chk.coverage["distinct_nontrivial"] = len({(c[0], c[1], c[2]) for c, mo in zip(cases, model) if mo[3] != -2 and len(c[1]) > 1})
    chk.coverage["exhaustive"] = True
    chk.coverage["rule"] = ("every sequence of length 0..5 over the 11 keywords in variable position (%d), length 0..%d in parameter, field and typedef position, "
                            "length 0..%d in all positions with an interleaved const, a storage-class specifier, or both. non-trivial = a valid row spelled with at least two keywords"
                            % (sum(len(allseq[n]) for n in range(6)), deep, 4 if not quick else 3))
    chk.coverage["samples"] = [text(*cases[i]) for i in (5000, 100000, len(cases) - 7)] if not only else [text(*cases[0])]
    chk.coverage["distribution"] = {"cases": len(cases), "valid_rows_hit": sum(1 for mo in model if mo[3] != -2),
                                    "model_disagreements": len(bad_model)}
    if bad_spec:
        # shortest failing sequence first
        bad_spec.sort(key=lambda x: (len(x[0][1]), x[0][2], x[0][0] != "var"))
        c, r, got, want = bad_spec[0]
        chk.report("seq:" + "_".join(KW[i] for i in c[1]) + ":" + c[0] + ":" + str(c[2]),
                   {"request": r, "declaration": text(*c), "observed(type,invalid,missing)": got, "required": want,
                    "count_failing": len(bad_spec), "others": [text(*x[0]) for x in bad_spec[1:10]]}, found=True,
                   what="specifier sequence bound to a type / diagnostic that 6.7.2p2 does not give it")
    elif bad_model:
        c, r, got, m = bad_model[0]
        chk.report("model-correspondence", {"unchecked": "correspondence C08Model.step vs visitBasicTypeSpecifier", "request": r,
                                            "declaration": text(*c), "implementation": got, "model": m, "count": len(bad_model)}, found=False)
    if not proof_ok and not bad_spec:
        for f, (ok, out) in res.items():
            if not ok:
                chk.report("proof-" + f, {"unchecked": f + " (theorems: %s)" % ", ".join(pv.theorem_names(f)), "coq_output": out[-3000:]}, found=False)


def replay(chk, path):
    r = json.load(open(path))
    if r.get("request"):
        print("declaration:", r.get("declaration"))
        print("implementation:", pv.run_impl([r["request"]])[0])
    run(chk)
