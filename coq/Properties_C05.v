(** C05 — Tokenisation follows the C11 lexical grammar.  PARTIAL: what is a theorem here is the
    punctuator part of Lexer::yylex_CORE (every case of its switch that stays within kind assignments, yyinput(), tests of yychar_ / yytext_[1] / isdigit and a hand-over to a sub-lexer; regenerated from the source on every
    run as decision statements) against the table of 6.4.6 with maximal munch, for EVERY input;
    and that it never calls yyinput() at the terminating NUL. *)
From Coq Require Import List NArith Bool Arith Lia.
From PV Require Import PunctDefs PunctSpec.
From PV.gen Require Import Gen_SyntaxKind Gen_Punct.
Import ListNotations.
Local Open Scope N_scope.

(** the bytes that any translated test or any table row mentions *)
Definition digits : list N := [48; 49; 50; 51; 52; 53; 54; 55; 56; 57].
Fixpoint chars_stm (s : stm) : list N :=
  match s with
  | SIf c t e => c :: flat_map chars_stm t ++ flat_map chars_stm e
  | SIf2 c d t e => c :: d :: flat_map chars_stm t ++ flat_map chars_stm e
  | SIfDigit t e => digits ++ flat_map chars_stm t ++ flat_map chars_stm e
  | _ => []
  end.
Definition chars_of (ss : list stm) : list N := flat_map chars_stm ss.
Definition alphabet : list N :=
  Eval vm_compute in nodup N.eq_dec (flat_map (fun cs => chars_of (snd cs)) punct_cases ++ flat_map fst punct_table).
Definition norm (b : N) : N := if existsb (N.eqb b) alphabet then b else 0.

(** the model's answer and the specification's, on the input [c :: rest] *)
Definition impl_answer (c : N) (rest : list N) : option (option N * nat * bool) := lex_punct punct_cases c rest.
Definition spec_answer (c : N) (rest : list N) : option (option N * nat * bool) :=
  match munch (c :: rest) with
  | Some (l, k) => Some (Some k, Nat.pred l, false)
  | None => None
  end.

(** outside the theorem: trigraph territory ("??" is translation phase 1, not 6.4.6) and a period followed by a digit
    (the start of a floating constant, 6.4.4.2: the case hands over to a sub-lexer) *)
Definition trigraph (c : N) (rest : list N) : bool := (N.eqb c 63 && N.eqb (ahead rest) 63) || (N.eqb c 46 && isdigit (ahead rest)).

(** all lists of length <= n over the alphabet and 0 *)
Fixpoint lists (n : nat) : list (list N) :=
  match n with O => [[]] | S n' => [] :: flat_map (fun l => map (fun a => a :: l) (0 :: alphabet)) (lists n') end.

Definition firsts : list N := map fst punct_cases.

Definition agree (c : N) (rest : list N) : bool :=
  trigraph c rest ||
  match impl_answer c rest, spec_answer c rest with
  | Some (Some k, n, false), Some (Some k', n', false) => N.eqb k k' && Nat.eqb n n'
  | _, _ => false
  end.

(** the finite sweep: every translated first byte x every continuation of up to 3 bytes over the alphabet *)
Lemma C05_punct_sweep : forallb (fun c => forallb (agree c) (lists 3)) firsts = true.
Proof. vm_compute. reflexivity. Qed.

(* ---------------------------------------------------------------- lifting the sweep to every input *)
Lemma alphabet_no_nul : existsb (N.eqb 0) alphabet = false.
Proof. vm_compute. reflexivity. Qed.

Lemma norm_in b : In (norm b) (0 :: alphabet).
Proof.
  unfold norm. destruct (existsb (N.eqb b) alphabet) eqn:E; [|left; reflexivity].
  right. apply existsb_exists in E as [x [Hx E]]. apply N.eqb_eq in E. subst. exact Hx.
Qed.

Lemma norm_eqb b c : In c alphabet -> N.eqb (norm b) c = N.eqb b c.
Proof.
  intros Hc. unfold norm. destruct (existsb (N.eqb b) alphabet) eqn:E; [reflexivity|].
  assert (c <> 0). { intros ->. pose proof alphabet_no_nul as H0. assert (existsb (N.eqb 0) alphabet = true); [|congruence].
                     apply existsb_exists. exists 0. split; [exact Hc|reflexivity]. }
  assert (b <> c). { intros ->. assert (existsb (N.eqb c) alphabet = true); [|congruence]. apply existsb_exists. exists c. split; [exact Hc|apply N.eqb_refl]. }
  rewrite (proj2 (N.eqb_neq 0 c)) by congruence. rewrite (proj2 (N.eqb_neq b c)) by assumption. reflexivity.
Qed.

Lemma ahead_norm inp c : In c alphabet -> N.eqb (ahead (map norm inp)) c = N.eqb (ahead inp) c.
Proof.
  intros Hc. destruct inp as [|b inp]; cbn; [reflexivity|]. apply norm_eqb. exact Hc.
Qed.

Lemma lists_complete n : forall l, (length l <= n)%nat -> Forall (fun b => In b (0 :: alphabet)) l -> In l (lists n).
Proof.
  induction n as [|n IH]; intros l Hl Hf.
  - destruct l; [left; reflexivity|cbn in Hl; lia].
  - destruct l as [|b l]; [left; reflexivity|]. right. inversion Hf; subst. cbn in Hl.
    apply in_flat_map. exists l. split; [apply IH; [lia|assumption]|]. apply (in_map (fun a => a :: l)). assumption.
Qed.

(** every test of a program compares with a byte of the alphabet *)
Fixpoint tests_stmb (s : stm) : bool :=
  match s with
  | SIf c t e => existsb (N.eqb c) alphabet && forallb tests_stmb t && forallb tests_stmb e
  | SIf2 c d t e => existsb (N.eqb c) alphabet && existsb (N.eqb d) alphabet && forallb tests_stmb t && forallb tests_stmb e
  | SIfDigit t e => forallb (fun d => existsb (N.eqb d) alphabet) digits && forallb tests_stmb t && forallb tests_stmb e
  | _ => true
  end.
Definition tests_in (ss : list stm) : Prop := forallb tests_stmb ss = true.
Lemma tests_in_app a b : tests_in a -> tests_in b -> tests_in (a ++ b).
Proof. unfold tests_in. intros A B'. rewrite forallb_app, A, B'. reflexivity. Qed.

Lemma isdigit_digits b : isdigit b = true -> In b digits.
Proof.
  unfold isdigit. intros H. apply andb_true_iff in H as [A B']. apply N.leb_le in A. apply N.leb_le in B'.
  assert (b = 48 \/ b = 49 \/ b = 50 \/ b = 51 \/ b = 52 \/ b = 53 \/ b = 54 \/ b = 55 \/ b = 56 \/ b = 57) by lia.
  cbn. intuition.
Qed.
Lemma isdigit_norm b : forallb (fun d => existsb (N.eqb d) alphabet) digits = true -> isdigit (norm b) = isdigit b.
Proof.
  intros Hd. unfold norm. destruct (existsb (N.eqb b) alphabet) eqn:E; [reflexivity|].
  destruct (isdigit b) eqn:Eb; [|reflexivity]. apply isdigit_digits in Eb. rewrite forallb_forall in Hd. specialize (Hd b Eb).
  apply existsb_exists in Hd as [x [Hx E2]]. apply N.eqb_eq in E2. subst x.
  assert (existsb (N.eqb b) alphabet = true) by (apply existsb_exists; exists b; split; [exact Hx|apply N.eqb_refl]). congruence.
Qed.
Lemma ahead_norm_digit inp : forallb (fun d => existsb (N.eqb d) alphabet) digits = true -> isdigit (ahead (map norm inp)) = isdigit (ahead inp).
Proof. intros Hd. destruct inp as [|b inp]; [reflexivity|]. cbn [map ahead]. apply isdigit_norm. exact Hd. Qed.
Lemma tl_map_norm inp : tl (map norm inp) = map norm (tl inp).
Proof. destruct inp; reflexivity. Qed.

Lemma exec_norm f : forall ss k inp n oob, tests_in ss -> exec f ss k (map norm inp) n oob = exec f ss k inp n oob.
Proof.
  induction f as [|f IH]; intros ss k inp n oob Ht; [reflexivity|]. cbn [exec].
  destruct ss as [|[k0| |c t e|c d t e|t e|] r]; [reflexivity| | | | | |].
  - apply IH. exact Ht.
  - destruct inp as [|b inp]; cbn [map]; [reflexivity|apply IH; exact Ht].
  - unfold tests_in in Ht. cbn [forallb tests_stmb] in Ht. rewrite !andb_true_iff in Ht. destruct Ht as (((Hc & Htt) & Hte) & Htr).
    apply existsb_exists in Hc as [x [Hx E]]. apply N.eqb_eq in E. subst x.
    rewrite (ahead_norm inp c Hx).
    apply IH. destruct (N.eqb (ahead inp) c); apply tests_in_app; assumption.
  - unfold tests_in in Ht. cbn [forallb tests_stmb] in Ht. rewrite !andb_true_iff in Ht. destruct Ht as ((((Hc & Hd) & Htt) & Hte) & Htr).
    apply existsb_exists in Hc as [x [Hx E]]. apply N.eqb_eq in E. subst x.
    apply existsb_exists in Hd as [y [Hy E]]. apply N.eqb_eq in E. subst y.
    rewrite (ahead_norm inp c Hx), tl_map_norm, (ahead_norm (tl inp) d Hy).
    apply IH. destruct (N.eqb (ahead inp) c && N.eqb (ahead (tl inp)) d); apply tests_in_app; assumption.
  - unfold tests_in in Ht. cbn [forallb tests_stmb] in Ht. rewrite !andb_true_iff in Ht. destruct Ht as (((Hd & Htt) & Hte) & Htr).
    rewrite (ahead_norm_digit inp Hd).
    apply IH. destruct (isdigit (ahead inp)); apply tests_in_app; assumption.
  - reflexivity.
Qed.

(** how far any path looks into the input: yyinput() calls so far plus the reach of the test (1 for yychar_, 2 for yytext_[1]) *)
Fixpoint madv (f : nat) (ss : list stm) : nat :=
  match f with
  | O => 0%nat
  | S f' => match ss with
            | [] => 0%nat
            | SKind _ :: r => madv f' r
            | SAdv :: r => S (madv f' r)
            | SIf _ t e :: r | SIfDigit t e :: r => Nat.max 1 (Nat.max (madv f' (t ++ r)) (madv f' (e ++ r)))
            | SIf2 _ _ t e :: r => Nat.max 2 (Nat.max (madv f' (t ++ r)) (madv f' (e ++ r)))
            | SOut :: _ => 0%nat
            end
  end.

Lemma exec_firstn f : forall ss k inp n oob d, (madv f ss <= d)%nat -> exec f ss k (firstn d inp) n oob = exec f ss k inp n oob.
Proof.
  induction f as [|f IH]; intros ss k inp n oob d Hd; [reflexivity|]. cbn [exec]. cbn [madv] in Hd.
  destruct ss as [|[k0| |c t e|c c2 t e|t e|] r]; [reflexivity| | | | | |].
  - apply IH. exact Hd.
  - destruct d as [|d]; [lia|]. destruct inp as [|b inp]; cbn [firstn]; [apply (IH r k [] n true (S d)); lia|]. apply IH. lia.
  - assert (Ha : ahead (firstn d inp) = ahead inp) by (destruct d; [lia|]; destruct inp; reflexivity).
    rewrite Ha. apply IH. destruct (N.eqb (ahead inp) c); lia.
  - assert (Ha : ahead (firstn d inp) = ahead inp) by (destruct d; [lia|]; destruct inp; reflexivity).
    assert (Hb : ahead (tl (firstn d inp)) = ahead (tl inp)).
    { destruct d as [|[|d]]; [lia|lia|]. destruct inp as [|b [|b2 inp]]; reflexivity. }
    rewrite Ha, Hb. apply IH. destruct (N.eqb (ahead inp) c && N.eqb (ahead (tl inp)) c2); lia.
  - assert (Ha : ahead (firstn d inp) = ahead inp) by (destruct d; [lia|]; destruct inp; reflexivity).
    rewrite Ha. apply IH. destruct (isdigit (ahead inp)); lia.
  - reflexivity.
Qed.

Lemma prefix_eqb_norm row : Forall (fun r => In r alphabet) row -> forall inp, prefix_eqb row (map norm inp) = prefix_eqb row inp.
Proof.
  induction row as [|r row IH]; intros Hr inp; [reflexivity|]. inversion Hr; subst. destruct inp as [|b inp]; [reflexivity|].
  cbn. rewrite (N.eqb_sym r (norm b)), (N.eqb_sym r b), (norm_eqb b r H1). rewrite IH by assumption. reflexivity.
Qed.
Lemma prefix_eqb_firstn row : forall inp d, (length row <= d)%nat -> prefix_eqb row (firstn d inp) = prefix_eqb row inp.
Proof.
  induction row as [|r row IH]; intros inp d Hd; [reflexivity|]. cbn in Hd. destruct d as [|d]; [lia|].
  destruct inp as [|b inp]; [reflexivity|]. cbn. rewrite IH by lia. reflexivity.
Qed.

Lemma munch_ext tbl i1 i2 : (forall row, In row tbl -> prefix_eqb (fst row) i1 = prefix_eqb (fst row) i2) -> munch_of tbl i1 = munch_of tbl i2.
Proof.
  unfold munch_of. generalize (@None (nat * N)). induction tbl as [|row tbl IH]; intros best H; [reflexivity|]. cbn [fold_left].
  rewrite (H row (or_introl eq_refl)). apply IH. intros r Hr. apply H. right. exact Hr.
Qed.

Lemma table_rows_ok : forallb (fun row => Nat.leb (List.length (fst row)) 4 && forallb (fun r => existsb (N.eqb r) alphabet) (fst row)) punct_table = true.
Proof. vm_compute. reflexivity. Qed.
Lemma progs_ok : forallb (fun cs => Nat.leb (madv (size (snd cs)) (snd cs)) 3) punct_cases = true.
Proof. vm_compute. reflexivity. Qed.

Lemma progs_tests : forallb (fun cs => forallb tests_stmb (snd cs)) punct_cases = true.
Proof. vm_compute. reflexivity. Qed.
Lemma firsts_in_alphabet : forallb (fun c => existsb (N.eqb c) alphabet) firsts = true.
Proof. vm_compute. reflexivity. Qed.

Lemma impl_reduce c rest : In c firsts -> impl_answer c (map norm (firstn 3 rest)) = impl_answer c rest.
Proof.
  intros Hc. unfold impl_answer, lex_punct. destruct (find_case c punct_cases) as [ss|] eqn:E; [|reflexivity]. f_equal.
  assert (Hss : In (c, ss) punct_cases).
  { clear -E. induction punct_cases as [|[c' s'] l IH]; cbn in E; [discriminate|]. destruct (N.eqb c c') eqn:E2; [apply N.eqb_eq in E2; inversion E; subst; left; reflexivity|right; auto]. }
  pose proof progs_ok as P1. rewrite forallb_forall in P1. specialize (P1 _ Hss). cbn [snd] in P1. apply Nat.leb_le in P1.
  pose proof progs_tests as P2. rewrite forallb_forall in P2. specialize (P2 _ Hss). cbn [snd] in P2.
  rewrite exec_norm by exact P2. apply exec_firstn. exact P1.
Qed.

Lemma norm_fix c : In c alphabet -> norm c = c.
Proof. intros H. unfold norm. assert (E : existsb (N.eqb c) alphabet = true) by (apply existsb_exists; exists c; split; [exact H|apply N.eqb_refl]). rewrite E. reflexivity. Qed.

Lemma spec_reduce c rest : In c alphabet -> munch (c :: map norm (firstn 3 rest)) = munch (c :: rest).
Proof.
  intros Hcal. unfold munch. apply munch_ext. intros row Hrow.
  pose proof table_rows_ok as T. rewrite forallb_forall in T. specialize (T row Hrow). apply andb_true_iff in T as [T1 T2].
  apply Nat.leb_le in T1. rewrite forallb_forall in T2.
  assert (Hral : Forall (fun r => In r alphabet) (fst row)).
  { apply Forall_forall. intros r Hr. specialize (T2 r Hr). apply existsb_exists in T2 as [x [Hx E]]. apply N.eqb_eq in E. subst. exact Hx. }
  replace (c :: map norm (firstn 3 rest)) with (map norm (firstn 4 (c :: rest))) by (cbn [firstn map]; rewrite (norm_fix c Hcal); reflexivity).
  rewrite prefix_eqb_norm by exact Hral. apply prefix_eqb_firstn. exact T1.
Qed.

Lemma q_in_alphabet : existsb (N.eqb 63) alphabet = true.
Proof. vm_compute. reflexivity. Qed.
Lemma digits_in_alphabet : forallb (fun d => existsb (N.eqb d) alphabet) digits = true.
Proof. vm_compute. reflexivity. Qed.
Lemma tri_reduce c rest : trigraph c (map norm (firstn 3 rest)) = trigraph c rest.
Proof.
  unfold trigraph. destruct rest as [|b rest']; [reflexivity|]. cbn [firstn map ahead]. f_equal; f_equal.
  - apply norm_eqb. pose proof q_in_alphabet as Q. apply existsb_exists in Q as [x [Hx E]]. apply N.eqb_eq in E. subst. exact Hx.
  - apply isdigit_norm. exact digits_in_alphabet.
Qed.

Lemma sweep_inst c l : In c firsts -> In l (lists 3) -> agree c l = true.
Proof.
  intros Hc Hl. pose proof C05_punct_sweep as S. rewrite forallb_forall in S. specialize (S c Hc). rewrite forallb_forall in S. exact (S l Hl).
Qed.

Lemma agree_elim c l : agree c l = true -> trigraph c l = false ->
  exists k n, munch (c :: l) = Some (n, k) /\ impl_answer c l = Some (Some k, Nat.pred n, false).
Proof.
  unfold agree, spec_answer. intros S Htri. rewrite Htri in S.
  destruct (impl_answer c l) as [[[[k|] n] [|]]|]; try discriminate S;
    destruct (munch (c :: l)) as [[n' k']|]; try discriminate S.
  apply andb_true_iff in S as [S1 S2]. apply N.eqb_eq in S1. apply Nat.eqb_eq in S2. subst. exists k', n'. split; reflexivity.
Qed.

(** THE THEOREM: for every first byte of a translated case and EVERY input that follows it, the
    lexer's punctuator code yields the kind of the longest table entry that is a prefix of the
    input, consumes exactly that entry, and never calls yyinput() at the terminating NUL (outside
    trigraph territory "??") *)
Theorem C05_punctuator_maximal_munch : forall (c : N) (rest : list N), In c firsts -> trigraph c rest = false ->
  exists k l, munch (c :: rest) = Some (l, k) /\ impl_answer c rest = Some (Some k, Nat.pred l, false).
Proof.
  intros c rest Hc Htri.
  assert (Hin : In (map norm (firstn 3 rest)) (lists 3)).
  { apply lists_complete; [rewrite map_length, firstn_length; lia|]. apply Forall_forall. intros b Hb.
    apply in_map_iff in Hb as [x [<- _]]. apply norm_in. }
  assert (Hcal : In c alphabet).
  { pose proof firsts_in_alphabet as F. rewrite forallb_forall in F. specialize (F c Hc). apply existsb_exists in F as [x [Hx E]]. apply N.eqb_eq in E. subst. exact Hx. }
  rewrite <- (tri_reduce c rest) in Htri.
  destruct (agree_elim c _ (sweep_inst c _ Hc Hin) Htri) as [k [n [A B]]].
  rewrite (spec_reduce c rest Hcal) in A. rewrite (impl_reduce c rest Hc) in B. exists k, n. split; assumption.
Qed.

Example C05_nonvacuous :
  impl_answer 62 [62; 61; 120] = Some (Some K_GreaterThanGreaterThanEqualsToken, 2%nat, false) /\     (* >>=x *)
  impl_answer 60 [58] = Some (Some K_OpenBracketToken, 1%nat, false) /\                              (* <: *)
  impl_answer 45 [] = Some (Some K_MinusToken, 0%nat, false) /\                                      (* - at the end of the text *)
  Nat.leb 20 (length firsts) = true.                                                               (* the theorem covers at least 20 cases of the switch *)
Proof. vm_compute. repeat split; reflexivity. Qed.

Print Assumptions C05_punctuator_maximal_munch.
