(** C10 — name resolution.  The binder attaches to every identifier use the scope that is open
    at that point, adds every declaration to the scope open when it is finished (first
    declaration of a name in a name space wins), links every scope to the one enclosing it, and
    makes a function definition's prototype scope the scope of its body; a use is resolved
    afterwards by walking outwards from its scope (Scope::searchForDeclaration).  The result of
    that protocol on an abstract program is modelled functionally: the frame of a block is the
    set of all declarations made directly in it.  The specification is C11 6.2.1: a declaration
    is in scope only from its declarator onwards.  No proofs here. *)
From Coq Require Import List Arith Bool.
Import ListNotations.

(** name spaces *)
Definition NS_ORD := 0.  Definition NS_TAG := 1.  Definition NS_MEM := 2.

Inductive item :=
| IDecl (ns name id : nat)                  (* a declaration (object, function, typedef: ordinary; tag; field: member) *)
| IEnumerator (name id : nat)               (* an enumeration constant *)
| IUse (name uid : nat)                     (* an ordinary identifier used in an expression *)
| IBlock (b : list item)                    (* a compound statement *)
| IFun (name id : nat) (params : list (nat * nat)) (body : list item).   (* a function definition: (parameter name, id) *)

Definition frame := list (nat * nat * nat).          (* (name space, name, declaration id), first declaration first *)

Fixpoint lookup_frame (f : frame) (ns name : nat) : option nat :=
  match f with
  | [] => None
  | (ns', n', id) :: f' => if (ns' =? ns) && (n' =? name) then Some id else lookup_frame f' ns name
  end.
(** Scope::addDeclaration: the first declaration of a (name, name space) stays *)
Definition add_decl (f : frame) (ns name id : nat) : frame :=
  match lookup_frame f ns name with Some _ => f | None => f ++ [(ns, name, id)] end.
(** Scope::searchForDeclaration: this scope, else the enclosing one *)
Fixpoint lookup (env : list frame) (ns name : nat) : option nat :=
  match env with
  | [] => None
  | f :: env' => match lookup_frame f ns name with Some id => Some id | None => lookup env' ns name end
  end.

(* ------------------------------------------------------------------ the implementation's result *)
(** [enum_ns]: the name space enumerators are registered in (the implementation: members) *)
Section Impl.
Variable enum_ns : nat.

(** all declarations made directly in a block, in order *)
Fixpoint frame_of (items : list item) (f : frame) : frame :=
  match items with
  | [] => f
  | IDecl ns n id :: r => frame_of r (add_decl f ns n id)
  | IEnumerator n id :: r => frame_of r (add_decl f enum_ns n id)
  | IFun n id _ _ :: r => frame_of r (add_decl f NS_ORD n id)
  | _ :: r => frame_of r f
  end.
Definition params_frame (ps : list (nat * nat)) : frame :=
  fold_left (fun f p => add_decl f NS_ORD (fst p) (snd p)) ps [].

(** every use with the declaration found for it; [env]: the frames of the enclosing scopes, innermost first,
    the head being the (complete) frame of the block the item belongs to *)
Fixpoint resolve_item (env : list frame) (i : item) : list (nat * option nat) :=
  match i with
  | IUse n uid => [(uid, lookup env NS_ORD n)]
  | IBlock b =>
      (fix go (l : list item) : list (nat * option nat) :=
         match l with [] => [] | x :: l' => resolve_item (frame_of b [] :: env) x ++ go l' end) b
  | IFun _ _ ps body =>
      (fix go (l : list item) : list (nat * option nat) :=
         match l with [] => [] | x :: l' => resolve_item (frame_of body (params_frame ps) :: env) x ++ go l' end) body
  | _ => []
  end.
Definition resolve (env : list frame) (items : list item) : list (nat * option nat) := flat_map (resolve_item env) items.
End Impl.

Definition impl_resolve (prog : list item) : list (nat * option nat) :=
  resolve NS_MEM [frame_of NS_MEM prog []] prog.

(* ------------------------------------------------------------------ the specification: 6.2.1, positional *)
(** enumerators are ordinary identifiers (6.2.3); a declaration is visible from its declarator on:
    [cur] is the frame of the current block so far; the result is the uses resolved and the frame afterwards *)
Fixpoint spec_item (cur : frame) (env : list frame) (i : item) : list (nat * option nat) * frame :=
  match i with
  | IDecl ns n id => ([], add_decl cur ns n id)
  | IEnumerator n id => ([], add_decl cur NS_ORD n id)
  | IUse n uid => ([(uid, lookup (cur :: env) NS_ORD n)], cur)
  | IBlock b =>
      ((fix go (l : list item) (c : frame) : list (nat * option nat) :=
          match l with [] => [] | x :: l' => let (r, c') := spec_item c (cur :: env) x in r ++ go l' c' end) b [], cur)
  | IFun n id ps body =>
      let cur' := add_decl cur NS_ORD n id in          (* the function's own name is in scope in its body *)
      ((fix go (l : list item) (c : frame) : list (nat * option nat) :=
          match l with [] => [] | x :: l' => let (r, c') := spec_item c (cur' :: env) x in r ++ go l' c' end) body (params_frame ps), cur')
  end.
Fixpoint spec_items (cur : frame) (env : list frame) (l : list item) : list (nat * option nat) :=
  match l with [] => [] | x :: l' => let (r, c') := spec_item cur env x in r ++ spec_items c' env l' end.
Definition c_resolve (prog : list item) : list (nat * option nat) := spec_items [] [] prog.
