(** C05 — the lexical grammar of C11 (6.4) for the token classes the lexer's sub-lexers handle, written
    declaratively over bytes of the basic source character set (ASCII): integer constants (6.4.4.1),
    floating constants (6.4.4.2), identifiers (6.4.2.1), character constants and string literals
    (6.4.4.4, 6.4.5), comments (6.4.9) and white space as separators.  Punctuators (6.4.6) are
    PunctSpec.punct_table.  No proofs here. *)
From Coq Require Import List NArith Bool.
From PV Require Import C01Model PunctDefs LexModel.
Import ListNotations.
Local Open Scope N_scope.

Definition all (p : N -> bool) (l : list N) : Prop := Forall (fun b => p b = true) l.

(* ------------------------------------------------------------------ 6.4.4.1 integer constants *)
Definition nonzero_digit (b : N) : bool := (49 <=? b) && (b <=? 57).

Inductive int_body : list N -> Prop :=
| IB_dec d ds : nonzero_digit d = true -> all isdigit ds -> int_body (d :: ds)                     (* decimal-constant *)
| IB_oct ds : all isoct ds -> int_body (48 :: ds)                                                (* octal-constant *)
| IB_hex x h hs : in2 x 120 88 = true -> all isxdigit (h :: hs) -> int_body (48 :: x :: h :: hs). (* hexadecimal-constant *)

(** integer-suffix: unsigned-suffix long-suffix_opt | unsigned-suffix long-long-suffix | long-suffix unsigned-suffix_opt
    | long-long-suffix unsigned-suffix_opt;  u U = 117 85, l L = 108 76 *)
Definition int_suffixes : list (list N) :=
  [ [];
    [117]; [85];
    [117; 108]; [117; 76]; [85; 108]; [85; 76];
    [117; 108; 108]; [117; 76; 76]; [85; 108; 108]; [85; 76; 76];
    [108]; [76]; [108; 117]; [108; 85]; [76; 117]; [76; 85];
    [108; 108]; [76; 76]; [108; 108; 117]; [108; 108; 85]; [76; 76; 117]; [76; 76; 85] ].

Definition int_const (w : list N) : Prop := exists body suf, w = body ++ suf /\ int_body body /\ In suf int_suffixes.

(* ------------------------------------------------------------------ 6.4.4.2 floating constants *)
(** exponent-part: e sign_opt digit-sequence;  binary-exponent-part: p sign_opt digit-sequence *)
Inductive exponent (c1 c2 : N) : list N -> Prop :=
| Exp e sg d ds : in2 e c1 c2 = true -> (sg = [] \/ sg = [43] \/ sg = [45]) -> all isdigit (d :: ds) -> exponent c1 c2 (e :: sg ++ d :: ds).
Definition opt (P : list N -> Prop) (w : list N) : Prop := w = [] \/ P w.
Definition float_suffixes : list (list N) := [ []; [102]; [108]; [70]; [76] ].

Inductive float_const : list N -> Prop :=
(* fractional-constant exponent-part_opt floating-suffix_opt, the fractional constant starting with a digit *)
| F_frac d ds1 ds2 ex suf : all isdigit (d :: ds1) -> all isdigit ds2 -> opt (exponent 101 69) ex -> In suf float_suffixes ->
    float_const ((d :: ds1) ++ 46 :: ds2 ++ ex ++ suf)
(* fractional-constant that starts with the period: . digit-sequence *)
| F_dot d ds2 ex suf : all isdigit (d :: ds2) -> opt (exponent 101 69) ex -> In suf float_suffixes ->
    float_const (46 :: (d :: ds2) ++ ex ++ suf)
(* digit-sequence exponent-part floating-suffix_opt *)
| F_exp d ds1 ex suf : all isdigit (d :: ds1) -> exponent 101 69 ex -> In suf float_suffixes ->
    float_const ((d :: ds1) ++ ex ++ suf)
(* hexadecimal-prefix hexadecimal-fractional-constant binary-exponent-part floating-suffix_opt *)
| F_hexfrac x hs1 hs2 ex suf : in2 x 120 88 = true -> all isxdigit hs1 -> all isxdigit hs2 -> (hs1 <> [] \/ hs2 <> []) ->
    exponent 112 80 ex -> In suf float_suffixes ->
    float_const (48 :: x :: hs1 ++ 46 :: hs2 ++ ex ++ suf)
(* hexadecimal-prefix hexadecimal-digit-sequence binary-exponent-part floating-suffix_opt *)
| F_hex x h hs ex suf : in2 x 120 88 = true -> all isxdigit (h :: hs) -> exponent 112 80 ex -> In suf float_suffixes ->
    float_const (48 :: x :: (h :: hs) ++ ex ++ suf).

(** what may follow a numeric constant without a separator: nothing that continues a preprocessing number *)
Definition num_boundary (rest : list N) : Prop := isalnum_ (ahead rest) = false /\ ahead rest <> 46.

(* ------------------------------------------------------------------ 6.4.2.1 identifiers (basic source character set) *)
Definition isnondigit (b : N) : bool := isalpha b || (b =? 95).
Inductive ident_spelling : list N -> Prop :=
| Id c cs : isnondigit c = true -> all isalnum_ cs -> ident_spelling (c :: cs).
(** the words after which a quote starts a prefixed literal (6.4.4.4, 6.4.5; and the C++ raw-string prefixes the lexer also knows) *)
Definition literal_prefix_words : list (list N) :=
  [ [76]; [117]; [85]; [82]; [117; 56]; [76; 82]; [117; 82]; [85; 82]; [117; 56; 82] ].
Definition ident_boundary (w rest : list N) : Prop :=
  isidc (ahead rest) = false /\ (In w literal_prefix_words -> ahead rest <> 34 /\ ahead rest <> 39).

(* ------------------------------------------------------------------ 6.4.4.4 / 6.4.5 character constants and string literals *)
(** a c-char / s-char sequence for the quote [q], as bytes: any byte except the quote, backslash, new-line;
    or a backslash followed by the first byte of an escape sequence (simple, octal, hexadecimal, universal character name) *)
Definition escape_start (b : N) : bool :=
  (b =? 39) || (b =? 34) || (b =? 63) || (b =? 92) || (b =? 97) || (b =? 98) || (b =? 102) || (b =? 110) || (b =? 114) || (b =? 116) || (b =? 118)
  || isoct b || (b =? 120) || (b =? 117) || (b =? 85).
Inductive qchars (q : N) : list N -> Prop :=
| Q_nil : qchars q []
| Q_plain b r : b <> q -> b <> 92 -> b <> 10 -> b <> 0 -> is_mb b = false -> qchars q r -> qchars q (b :: r)
| Q_esc e r : escape_start e = true -> qchars q r -> qchars q (92 :: e :: r).

Definition chr_prefixes : list (list N * N) := [ ([], 0); ([76], 76); ([117], 117); ([85], 85) ].
Definition str_prefixes : list (list N * N) := [ ([], 0); ([117; 56], 56); ([117], 117); ([85], 85); ([76], 76) ].

(* ------------------------------------------------------------------ separators: white space and comments (6.4.9) *)
Definition plain_ascii (b : N) : bool := negb (b =? 0) && negb (is_mb b).
(** the text of a block comment after the opening pair: no closing pair inside, then the closing pair *)
Fixpoint no_close (s : list N) : bool :=
  match s with
  | [] => true
  | c :: r => negb ((c =? 42) && (ahead r =? 47)) && no_close r
  end.
Inductive sep : list N -> Prop :=
| Sep_nil : sep []
| Sep_ws b r : isspace b = true -> sep r -> sep (b :: r)
| Sep_block body r : all plain_ascii body -> no_close (body ++ [42]) = true -> sep r -> sep (47 :: 42 :: body ++ 42 :: 47 :: r)
| Sep_line body r : all plain_ascii body -> all (fun b => negb (b =? 10) && negb (b =? 92)) body -> sep r -> sep (47 :: 47 :: body ++ 10 :: r)
| Sep_splice r : sep r -> sep (92 :: 10 :: r).
