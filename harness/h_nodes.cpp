// nodes <cat> <opts> <hex text> -> "OK <ntokens> <dump> | N <kind>:<first>:<last>:<visits>:<families> ... | diags"
//   one N entry per node in the pre-order of the dump (enumerated through childNodesAndTokens() and the lists' next links,
//   independently of the visitor); first/last = token indices of firstToken()/lastToken() (0 = invalid);
//   visits = how often a default SyntaxVisitor traversal from the root reached the node;
//   families = bit set of non-null family downcasts: 1 asDeclaration 2 asSpecifier 4 asDeclarator 8 asExpression 16 asStatement
#include "tree.h"
using namespace pvh;

namespace {
struct Counter : SyntaxVisitor {
    std::unordered_map<const SyntaxNode*, int> cnt;
    Counter(const SyntaxTree* t) : SyntaxVisitor(t) {}
    bool preVisit(const SyntaxNode* n) override { ++cnt[n]; return true; }
};

struct Enum {
    const SyntaxTree* tree; Counter* counter; std::ostringstream out;
    std::unordered_map<unsigned, unsigned> byByte;
    unsigned indexOf(const SyntaxToken& tk)
    {
        if (tk == SyntaxToken::invalid()) return 0;
        auto it = byByte.find(tk.byteStart() * 4 + (tk.kind() == SyntaxKind::EndOfFile ? 1 : 0));
        return it == byByte.end() ? 999999 : it->second;
    }
    void go(const SyntaxNode* n, int depth)
    {
        if (!n || depth > 3000) return;
        int fam = (n->asDeclaration() ? 1 : 0) | (n->asSpecifier() ? 2 : 0) | (n->asDeclarator() ? 4 : 0)
                | (n->asExpression() ? 8 : 0) | (n->asStatement() ? 16 : 0);
        auto it = counter->cnt.find(n);
        out << " " << (unsigned)n->kind() << ":" << indexOf(n->firstToken()) << ":" << indexOf(n->lastToken()) << ":"
            << (it == counter->cnt.end() ? 0 : it->second) << ":" << fam;
        for (auto& h : n->childNodesAndTokens()) {
            if (h.variant() == SyntaxHolder::Variant::Node) go(h.node(), depth + 1);
            else if (h.variant() == SyntaxHolder::Variant::NodeList && h.nodeList()) {
                std::vector<ListEntry> es;
                if (listEntries(h.nodeList(), es)) for (auto& e : es) go(e.node, depth + 1);
            }
        }
    }
};
}

HANDLER(nodes)
{
    int cat; std::string o, h; in >> cat >> o >> h;
    if (h == "-") h = "";
    auto tree = parse(unhex(h), makeOpts(o), catOf(cat));
    std::ostringstream out;
    out << "OK " << tree->tokenCount() << " " << (tree->parseExitedEarly() ? "EARLY" : "FULL");
    dumpNode(tree->rootNode(), out);
    Counter counter(tree.get());
    if (tree->rootNode()) counter.visit(tree->rootNode());
    Enum e; e.tree = tree.get(); e.counter = &counter;
    for (unsigned i = 1; i < tree->tokenCount(); ++i) {
        auto& tk = tree->tokenAt(i);
        e.byByte[tk.byteStart() * 4 + (tk.kind() == SyntaxKind::EndOfFile ? 1 : 0)] = i;
    }
    e.go(tree->rootNode(), 0);
    size_t total = counter.cnt.size();
    out << " | N" << e.out.str() << " | V " << total << " |" << diagstr(tree.get());
    return out.str();
}
