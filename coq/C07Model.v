(** C07 — the declarator part of the declaration binder (DeclarationBinder_Declarators.cpp:
    visitPointerDeclarator, visitArrayOrFunctionDeclarator, visitParameterSuffix,
    visitParenthesizedDeclarator, visitIdentifierDeclarator / visitAbstractDeclarator with
    handleNonTypedefDeclarator, visitTypeQualifier, typeDeclarationAtTopWithTypeAtTop,
    popTypesUntilNonDerivedDeclaratorType) as a machine over an explicit type stack, and the
    specification: C11 6.7.6 read as a function of the declarator.  Types are values: that a
    FunctionType receives its parameter types after derived types already point to it is
    modelled by building it complete (object identity is C02/C12's business).  No proofs here. *)
From Coq Require Import List Arith Bool.
Import ListNotations.

Inductive qual := QConst | QVolatile | QRestrict | QAtomic.

Inductive ctype :=
| TBase (n : nat)                                   (* a basic, void, tag or typedef-name type: what specifiers produce *)
| TPtr (decayA decayF : bool) (t : ctype)
| TArr (t : ctype)
| TFun (r : ctype) (ps : list ctype) (variadic : bool)
| TQual (c v r a : bool) (t : ctype).

(** the declarator as the parser nests it (outermost syntax first) *)
Inductive decl :=
| DIdent (n : nat)
| DAbstract
| DPtr (qs : list qual) (d : decl)
| DArr (d : decl)
| DFun (d : decl) (ps : list (ctype * decl)) (variadic : bool)     (* each parameter: the type its specifiers give, its declarator *)
| DParen (d : decl).

(* ------------------------------------------------------------------ specification: 6.7.6 *)
Definition set_qual (q : qual) (t : ctype) : ctype :=
  let '(c, v, r, a, u) := match t with TQual c v r a u => (c, v, r, a, u) | _ => (false, false, false, false, t) end in
  match q with
  | QConst => TQual true v r a u
  | QVolatile => TQual c true r a u
  | QRestrict => match u with TPtr _ _ _ => TQual c v true a u | _ => TQual c v r a u end   (* 6.7.3p2: restrict only on pointers *)
  | QAtomic => TQual c v r true u
  end.
Definition qualify (qs : list qual) (t : ctype) : ctype := fold_left (fun t q => set_qual q t) qs t.

(** 6.7.6.3p7-8: adjustment of a parameter's type *)
Definition adjust (param : bool) (t : ctype) : ctype :=
  if param then match t with TArr e => TPtr true false e | TFun _ _ _ => TPtr false true t | _ => t end else t.

(** the name and the type a declarator gives, applied to the type [base] of the specifiers *)
Fixpoint ctype_of (param : bool) (base : ctype) (d : decl) : nat * ctype :=
  match d with
  | DIdent n => (n, adjust param base)
  | DAbstract => (0, adjust param base)
  | DPtr qs d' => ctype_of param (qualify qs (TPtr false false base)) d'
  | DArr d' => ctype_of param (TArr base) d'
  | DFun d' ps v => ctype_of param (TFun base (map (fun p => snd (ctype_of true (fst p) (snd p))) ps) v) d'
  | DParen d' => ctype_of param base d'
  end.

(* ------------------------------------------------------------------ the binder's stack machine *)
Definition stack := list ctype.

(** visitTypeQualifier: the type at the top is replaced by its qualified version (or qualified further) *)
Definition visit_qual (q : qual) (s : stack) : stack :=
  match s with t :: s' => set_qual q t :: s' | [] => [] end.

(** handleNonTypedefDeclarator in prototype scope *)
Definition handle_param (s : stack) : stack :=
  match s with
  | TArr _ :: s' => match s' with other :: _ => TPtr true false other :: s' | [] => s' end     (* popType(); push pointer to the new top *)
  | (TFun _ _ _ as f) :: s' => TPtr false true f :: f :: s'
  | _ => s
  end.

(** visiting a declarator: the new stack and the name bound ([None]: the stack was empty — TY_AT_TOP fails) *)
Fixpoint visit (param : bool) (s : stack) (d : decl) : option (stack * nat) :=
  match d with
  | DIdent n => Some ((if param then handle_param s else s), n)
  | DAbstract => Some ((if param then handle_param s else s), 0)
  | DPtr qs d' =>
      match s with
      | t :: _ => visit param (fold_left (fun s q => visit_qual q s) qs (TPtr false false t :: s)) d'
      | [] => None
      end
  | DArr d' => match s with t :: _ => visit param (TArr t :: s) d' | [] => None end
  | DFun d' ps v =>
      match s with
      | t :: _ =>
          (* visitParameterSuffix: a fresh type stack per parameter; its symbol's type is the top after its declarator *)
          let ptys := map (fun p => match visit true [fst p] (snd p) with
                                    | Some (t' :: _, _) => t'
                                    | _ => fst p
                                    end) ps in
          visit param (TFun t ptys v :: s) d'
      | [] => None
      end
  | DParen d' => visit param s d'
  end.

Definition is_derived (t : ctype) : bool :=
  match t with
  | TPtr _ _ _ | TArr _ | TFun _ _ _ => true
  | TQual _ _ _ _ u => match u with TPtr _ _ _ | TArr _ | TFun _ _ _ => true | _ => false end
  | TBase _ => false
  end.
(** popTypesUntilNonDerivedDeclaratorType *)
Fixpoint pop_derived (s : stack) : stack :=
  match s with t :: s' => if is_derived t then pop_derived s' else s | [] => [] end.

(** one declarator of a declaration: the symbol (name, type at top when it is typed) and the stack left for the next declarator *)
Definition run_declarator (param : bool) (s : stack) (d : decl) : option (nat * ctype * stack) :=
  match visit param s d with
  | Some (t :: s', n) => Some (n, t, pop_derived (t :: s'))
  | _ => None
  end.

(** all declarators of one declaration, left to right, over the same specifier type *)
Fixpoint run_declarators (s : stack) (ds : list decl) : list (option (nat * ctype)) :=
  match ds with
  | [] => []
  | d :: ds' => match run_declarator false s d with
                | Some (n, t, s') => Some (n, t) :: run_declarators s' ds'
                | None => [None]
                end
  end.
