(** C14 — the extent of a node is the hull of its token slots. *)
From Coq Require Import List Arith Bool Lia Sorting.Sorted.
From PV Require Import C14Model.
Import ListNotations.

Scheme tree_mind := Induction for tree Sort Prop
  with items_mind := Induction for items Sort Prop
  with item_mind := Induction for item Sort Prop
  with elems_mind := Induction for elems Sort Prop
  with elem_mind := Induction for elem Sort Prop.
Combined Scheme tree_mutind from tree_mind, items_mind, item_mind, elems_mind, elem_mind.

Definition nz (l : list nat) : Prop := Forall (fun n => n <> 0) l.

Lemma nz_app a b : nz a -> nz b -> nz (a ++ b).
Proof. intros; apply Forall_app; auto. Qed.

Lemma toks_nz :
  (forall t, nz (toks_tree t)) /\ (forall cs, nz (toks_items cs)) /\ (forall i, nz (toks_item i)) /\
  (forall es, nz (toks_elems es)) /\ (forall e, nz (toks_elem e)).
Proof.
  apply tree_mutind; cbn; intros; try (constructor; fail); auto using nz_app.
  destruct (n =? 0) eqn:E; [constructor|]. apply Nat.eqb_neq in E. constructor; [exact E|constructor].
Qed.

Lemma hd_nz l : nz l -> (hd 0 l = 0 <-> l = []).
Proof. destruct l as [|x l]; cbn; [tauto|]. intros H. inversion H; subst. split; [lia|discriminate]. Qed.
Lemma last_nz l : nz l -> (last l 0 = 0 <-> l = []).
Proof.
  induction l as [|x l IH]; cbn; [tauto|]. intros H. inversion H as [|? ? Hx Hl]; subst.
  destruct l as [|y l]; [split; [lia|discriminate]|]. split; [|discriminate]. intros E. apply IH in E; [discriminate|exact Hl].
Qed.
Definition is_nil (l : list nat) : bool := match l with [] => true | _ => false end.
Lemma hd_app' a b : hd 0 (a ++ b) = if is_nil a then hd 0 b else hd 0 a.
Proof. destruct a; reflexivity. Qed.
Lemma last_app' a b : last (a ++ b) 0 = if is_nil b then last a 0 else last b 0.
Proof.
  destruct b as [|y b]; [rewrite app_nil_r; reflexivity|]. cbn [is_nil].
  induction a as [|x a IH]; [reflexivity|]. cbn [app]. destruct (a ++ y :: b) eqn:E; [destruct a; discriminate|]. exact IH.
Qed.

(** the first token reported is the first token slot in order — for every tree *)
Lemma first_hull :
  (forall t, first_tree t = hd 0 (toks_tree t)) /\ (forall cs, first_items cs = hd 0 (toks_items cs)) /\ (forall i, first_item i = hd 0 (toks_item i)) /\ (forall es, first_elems es = hd 0 (toks_elems es)) /\ (forall e, first_elem e = hd 0 (toks_elem e)).
Proof.
  destruct toks_nz as (Nt & Ncs & Ni & Nes & Ne).
  apply tree_mutind; cbn [first_tree first_items first_item first_elems first_elem toks_tree toks_items toks_item toks_elems toks_elem]; auto.
  - intros i IHi r IHr. rewrite hd_app', IHi, IHr.
    destruct (toks_item i) as [|x l] eqn:E; cbn [is_nil hd]; [reflexivity|].
    pose proof (Ni i) as Hn. rewrite E in Hn. inversion Hn; subst. destruct (x =? 0) eqn:E0; [apply Nat.eqb_eq in E0; lia|reflexivity].
  - intros n. destruct (n =? 0) eqn:E; [apply Nat.eqb_eq in E; subst|]; reflexivity.
  - intros e IHe r IHr. rewrite hd_app', IHe, IHr.
    destruct (toks_elem e) as [|x l] eqn:E; cbn [is_nil hd]; [reflexivity|].
    pose proof (Ne e) as Hn. rewrite E in Hn. inversion Hn; subst. destruct (x =? 0) eqn:E0; [apply Nat.eqb_eq in E0; lia|reflexivity].
Qed.

(** the last token reported is the last token slot in order — for every tree *)
Lemma last_hull :
  (forall t, last_tree t = last (toks_tree t) 0) /\ (forall cs, last_items cs = last (toks_items cs) 0) /\ (forall i, last_item i = last (toks_item i) 0) /\ (forall es, last_elems es = last (toks_elems es) 0) /\ (forall e, last_elem e = last (toks_elem e) 0).
Proof.
  destruct toks_nz as (Nt & Ncs & Ni & Nes & Ne).
  apply tree_mutind; cbn [last_tree last_items last_item last_elems last_elem toks_tree toks_items toks_item toks_elems toks_elem]; auto.
  - intros i IHi r IHr. rewrite last_app', IHi, IHr.
    destruct (toks_items r) as [|x l] eqn:E; cbn [is_nil]; [reflexivity|].
    pose proof (Ncs r) as Hn. rewrite E in Hn.
    assert (Hz : last (x :: l) 0 <> 0). { intros Z. apply (last_nz _ Hn) in Z. discriminate. }
    destruct (last (x :: l) 0 =? 0) eqn:E0; [apply Nat.eqb_eq in E0; contradiction|reflexivity].
  - intros n. destruct (n =? 0) eqn:E; [apply Nat.eqb_eq in E; subst|]; reflexivity.
  - intros e IHe r IHr. rewrite last_app', IHe, IHr.
    destruct (toks_elems r) as [|x l] eqn:E; cbn [is_nil]; [reflexivity|].
    pose proof (Nes r) as Hn. rewrite E in Hn.
    assert (Hz : last (x :: l) 0 <> 0). { intros Z. apply (last_nz _ Hn) in Z. discriminate. }
    destruct (last (x :: l) 0 =? 0) eqn:E0; [apply Nat.eqb_eq in E0; contradiction|reflexivity].
Qed.

(* ---------- children, in order ---------- *)
Fixpoint children_items (cs : items) : list tree := match cs with INil => [] | ICons i r => children_item i ++ children_items r end
with children_item (i : item) : list tree := match i with Sub t => [t] | Lst es => children_elems es | _ => [] end
with children_elems (es : elems) : list tree := match es with ENil => [] | ECons e r => children_elem e ++ children_elems r end
with children_elem (e : elem) : list tree := match e with ESome t => [t] | ENone => [] end.
Definition children (t : tree) : list tree := match t with Node _ cs => children_items cs end.

Inductive Subseq : list nat -> list nat -> Prop :=
| SubNil : Subseq [] []
| SubSkip x a b : Subseq a b -> Subseq a (x :: b)
| SubKeep x a b : Subseq a b -> Subseq (x :: a) (x :: b).

Lemma Subseq_refl l : Subseq l l.
Proof. induction l; [apply SubNil | apply SubKeep; assumption]. Qed.
Lemma Subseq_nil l : Subseq [] l.
Proof. induction l; [apply SubNil | apply SubSkip; assumption]. Qed.
Lemma Subseq_app a a' b b' : Subseq a a' -> Subseq b b' -> Subseq (a ++ b) (a' ++ b').
Proof. intros H; induction H; cbn; intros Hb; [exact Hb | apply SubSkip; auto | apply SubKeep; auto]. Qed.
Lemma Subseq_In a b x : Subseq a b -> In x a -> In x b.
Proof. intros H; induction H; cbn; intros Hx; [exact Hx| right; auto |]. destruct Hx; [left; auto|right; auto]. Qed.
Lemma Subseq_sorted a b : Subseq a b -> StronglySorted lt b -> StronglySorted lt a.
Proof.
  intros H; induction H; intros Hs; [constructor| |].
  - inversion Hs; subst. auto.
  - inversion Hs as [|? ? Hb Hall]; subst. constructor; [auto|]. rewrite Forall_forall in *. intros y Hy. apply Hall. eapply Subseq_In; eauto.
Qed.

(** the children's token slots, concatenated in order, are a subsequence of the node's *)
Lemma children_subseq :
  (forall t, Subseq (concat (map toks_tree (children t))) (toks_tree t)) /\
  (forall cs, Subseq (concat (map toks_tree (children_items cs))) (toks_items cs)) /\
  (forall i, Subseq (concat (map toks_tree (children_item i))) (toks_item i)) /\
  (forall es, Subseq (concat (map toks_tree (children_elems es))) (toks_elems es)) /\
  (forall e, Subseq (concat (map toks_tree (children_elem e))) (toks_elem e)).
Proof.
  apply tree_mutind; cbn [children children_items children_item children_elems children_elem toks_tree toks_items toks_item toks_elems toks_elem map concat];
    intros; try (rewrite ?map_app, ?concat_app; apply Subseq_app; auto; fail); try apply Subseq_nil; auto.
  - rewrite app_nil_r. apply Subseq_refl.
  - rewrite app_nil_r. apply Subseq_refl.
Qed.

Lemma sorted_app_r (a b : list nat) : StronglySorted lt (a ++ b) -> StronglySorted lt b.
Proof. induction a as [|x a IH]; cbn; intros H; [exact H|]. inversion H; subst. auto. Qed.

Lemma sorted_concat_blocks (ls : list (list nat)) :
  StronglySorted lt (concat ls) ->
  forall i j a b, i < j -> nth_error ls i = Some a -> nth_error ls j = Some b -> forall x y, In x a -> In y b -> x < y.
Proof.
  induction ls as [|l ls IH]; intros Hs i j a b Hij Ha Hb x y Hx Hy; [destruct i; discriminate|].
  cbn [concat] in Hs. destruct i as [|i].
  - cbn in Ha. inversion Ha; subst a. destruct j as [|j]; [lia|]. cbn in Hb.
    assert (Hyc : In y (concat ls)). { apply in_concat. exists b. split; [eapply nth_error_In; eauto|exact Hy]. }
    clear -Hs Hx Hyc. induction l as [|z l IHl]; [destruct Hx|]. cbn in Hs. inversion Hs as [|? ? Hs' Hall]; subst.
    destruct Hx as [->|Hx]; [|auto]. rewrite Forall_forall in Hall. apply Hall. apply in_or_app. right. exact Hyc.
  - destruct j as [|j]; [lia|]. cbn in Ha, Hb. apply (IH (sorted_app_r l (concat ls) Hs) i j a b); auto; lia.
Qed.
