# C17 — Keywords are recognised exactly as the dialect and extensions prescribe.
import json, os, re, sys
from lib import pv

STDS = (0, 1, 2, 3)
NOPT = 22
ALPHA = "_aeilnorstuxAEZ09$"


def table_words():
    """spellings of the oracle (coq/KwSpec.v) — the 'keyword spellings known to the front end'"""
    src = open(os.path.join(pv.COQ, "KwSpec.v")).read()
    return re.findall(r'mk "([^"]+)"', src)


def trie_words():
    """spellings that occur in Keywords.cpp's trie (so that a keyword added to the code but absent from the oracle is swept too)"""
    import importlib
    sys.path.insert(0, os.path.join(pv.ROOT, "translate"))
    kw = importlib.import_module("kw")
    src = kw.strip_comments(kw.read("C/parser/Keywords.cpp"))
    words = set()
    for m in re.finditer(r"return\s+SyntaxKind::(Keyword\w*|OperatorName\w*)", src):
        pass
    # reconstruct spellings from the generated decision programs instead: every root-to-leaf path of known characters
    return words


def neighbours(w):
    out = set()
    for i in range(len(w)):
        out.add(w[:i] + w[i + 1:])
        c = w[i]
        if c.isalpha():
            out.add(w[:i] + c.swapcase() + w[i + 1:])
        for a in ALPHA:
            if a != c:
                out.add(w[:i] + a + w[i + 1:])
    for i in range(len(w) + 1):
        for a in ALPHA:
            out.add(w[:i] + a + w[i:])
    out.discard("")
    # a word must lex as ONE identifier-like token: first char not a digit
    return {x for x in out if not x[0].isdigit()}


def optsets(full):
    allon = (1 << NOPT) - 1
    masks = [0, allon]
    if full:
        masks += [1 << i for i in range(NOPT)] + [allon ^ (1 << i) for i in range(NOPT)]
    return masks


def impl_line(kr, std, mask, w):
    return "kw %d:%d:%x %s" % (std, kr, mask, w.encode("latin-1").hex())


def model_line(kr, std, mask, w):
    return "%d %d %d %s" % (kr, std, mask, " ".join(str(b) for b in w.encode("latin-1")))


def sweep(chk, cases):
    """cases: list of (kr, std, mask, word). returns list of (case, impl_kind, model, effective, oracle)"""
    impl = pv.run_impl([impl_line(*c) for c in cases], shards=pv.NCPU)
    model = pv.run_model("C17", [model_line(*c) for c in cases], shards=pv.NCPU)
    res = []
    for c, ia, ma in zip(cases, impl, model):
        if ia.startswith(("CRASH", "EXC", "ERR")):
            res.append((c, ia, ma[0], ma[1], ma[2])); continue
        n, k = ia.split()
        k = int(k) if n == "1" else "tokens=%s first=%s" % (n, k)
        res.append((c, k, ma[0], ma[1], ma[2]))
    return res


def findings():
    """parse coq/KwFindings.v: [(word, std, [switch names])]"""
    src = open(os.path.join(pv.COQ, "KwFindings.v")).read()
    out = []
    for m in re.finditer(r'f_word := "([^"]+)";\s*f_impl_gate := (.*?); f_std := (\d+); f_on := \[(.*?)\]', src):
        out.append((m.group(1), int(m.group(3)), [x.strip() for x in m.group(4).split(";") if x.strip()]))
    return out


def optindex():
    names = open(os.path.join(pv.COQ, "gen", "kw_options.txt")).read().split()
    return {"O_" + n: i for i, n in enumerate(names)}


def run(chk, only=None):
    chk.coverage["trusted_base"] = pv.TRUSTED_COMMON + [
        "translator translate/kw.py (Keywords.cpp -> decision programs; SyntaxKind.h -> enumerator values), validated on every run by comparing the extracted interpreter of the decision programs with the compiled lexer on every swept word",
        "oracle table coq/KwSpec.v written from C89 6.1.1 / C99 6.4.1, 6.4.2.2 / C11 6.4.1 and the documentation comments of LanguageExtensions.h and MacroTranslations.h (rows marked frozen have no oracle)",
        "modelled, not verified: that lexIdentifier hands exactly the identifier's bytes and length to Lexer::recognize/translate (covered by the correspondence through the whole lexer)"]
    chk.assumptions = ["word = maximal run of identifier characters (the lexer's lexIdentifier); option atoms are independent booleans and std in {C89,C99,C11,C17}"]
    # (a) translate
    terr = None
    try:
        sys.path.insert(0, os.path.join(pv.ROOT, "translate"))
        import kw
        kw.generate()
    except Exception as e:
        terr = "%s: %s" % (type(e).__name__, e)
    # (b) prove
    res = chk.prove(["Properties_C17.v"], extra_targets=["Entry_C17.vo"])
    proof_ok = all(ok for ok, _ in res.values()) and terr is None
    if terr is not None:
        chk.coverage["discharged"] = 0   # the proofs that built are about a stale translation
    # (c) correspondence / sweep
    try:
        pv.build_model("C17")
        model_ok = True
    except Exception as e:
        model_ok = False
        chk.notes.append("model runner does not build: %s" % str(e)[-500:])
    spellings = set(table_words())
    try:
        spellings |= kw.leaf_words()      # spellings present in the trie but absent from the oracle are swept too
    except Exception as e:
        chk.notes.append("leaf_words: %s" % e)
    spellings = sorted(spellings)
    words = set(spellings)
    for w in spellings:
        words |= neighbours(w)
    words = sorted(words)
    quick = chk.tier == "quick"
    cases = []
    full_masks, base_masks = optsets(True), optsets(False)
    for w in words:
        is_sp = w in spellings
        for std in STDS:
            for m in (full_masks if (is_sp or not quick) else base_masks):
                cases.append((1, std, m, w))
    # keyword recognition off: every spelling and the operator names' neighbours
    opn = [w for w in spellings if w in ("or", "and", "not", "xor", "bitor", "compl", "or_eq", "and_eq", "bitand", "not_eq", "xor_eq")]
    offw = set(spellings)
    for w in opn:
        offw |= neighbours(w)
    for w in sorted(offw):
        for std in (0, 2):
            for m in (0, (1 << NOPT) - 1, 1 << 15, ((1 << NOPT) - 1) ^ (1 << 15)):
                cases.append((0, std, m, w))
    if only:
        cases = only
    bad_oracle, bad_model, crashes = {}, [], []
    if model_ok:
        res2 = sweep(chk, cases)
        kf_words = {f[0] for f in findings()}
        for c, ik, mk, ek, ok in res2:
            if not isinstance(ik, int):
                crashes.append((c, ik)); continue
            if ik != mk and terr is None:
                bad_model.append((c, ik, mk))
            if ik != ok:
                # allowed only if the word is a recorded finding AND the implementation still does what the finding records
                if c[3] in kf_words and ik == ek:
                    continue
                bad_oracle.setdefault(c[3], []).append((c, ik, ok))
        chk.coverage["evaluations"] = len(cases)
        nontriv = {(c[3]) for c, ik, mk, ek, ok in res2 if isinstance(ik, int) and ik != 6}
        chk.coverage["distinct_nontrivial"] = len({(c, ) for c, ik, mk, ek, ok in res2 if isinstance(ik, int) and ok != 6})
        chk.coverage["rule"] = ("every spelling of the oracle table (%d) and all its one-character deletions, insertions and substitutions over the alphabet %r and case flips "
                                "(%d words) x {C89,C99,C11,C17} x option sets (all off, all on%s); spellings themselves under all 46 sets; recognition off: %d words x 8 sets. "
                                "non-trivial = (word, options) whose specified kind is not IdentifierToken"
                                % (len(spellings), ALPHA, len(words), "" if quick else ", each of the 22 switches alone on, each alone off", len(offw)))
        chk.coverage["exhaustive"] = True
        chk.coverage["samples"] = [impl_line(*cases[i]) for i in (0, len(cases) // 3, len(cases) // 2)]
        chk.coverage["distribution"] = {"words": len(words), "spellings": len(spellings), "cases": len(cases),
                                        "keyword_answers": sum(1 for c, ik, *_ in res2 if isinstance(ik, int) and ik != 6)}
        chk.coverage["translation_validation"] = {"compared": len(cases), "disagreements": len(bad_model)}
    # known findings: print each that still reproduces on the implementation
    if model_ok:
        oi = optindex()
        fl = findings()
        wit = []
        for w, std, on in fl:
            mask = 0
            for o in on:
                mask |= 1 << oi[o]
            wit.append((1, std, mask, w))
        for (c, ik, mk, ek, ok) in sweep(chk, wit):
            if ik != ok:
                chk.report("word=" + c[3], {"request": impl_line(*c), "implementation_kind": ik, "oracle_kind": ok}, found=True,
                           what="keyword gate of '%s' differs from the oracle" % c[3])
    for w, lst in sorted(bad_oracle.items()):
        c, ik, ok = lst[0]
        chk.report("word=" + w, {"request": impl_line(*c), "keyword_recognition": c[0], "std": c[1], "switch_mask": "%x" % c[2], "word": w,
                                 "implementation_kind": ik, "specified_kind": ok, "count_failing_option_sets": len(lst)}, found=True,
                   what="word lexed with a kind the oracle table does not give it")
    for c, ik in crashes[:3]:
        chk.report("crash-" + c[3], {"request": impl_line(*c), "implementation": ik}, found=True)
    if terr is not None and not bad_oracle:
        chk.report("translator", {"unchecked": "translate/kw.py rejects C/parser/Keywords.cpp: " + terr}, found=False)
    if bad_model and not bad_oracle:
        c, ik, mk = bad_model[0]
        chk.report("translation-validation", {"unchecked": "correspondence: interpreter of the regenerated decision programs vs compiled lexer",
                                              "request": impl_line(*c), "implementation_kind": ik, "model_kind": mk}, found=False)
    if not proof_ok and terr is None and not bad_oracle:
        for f, (ok, out) in res.items():
            if not ok:
                chk.report("proof-" + f, {"unchecked": f + " (theorems: %s)" % ", ".join(pv.theorem_names(f)), "coq_output": out[-3000:]}, found=False)


def replay(chk, path):
    r = json.load(open(path))
    req = r.get("request")
    if not req:
        print("replay file names no input:", r.get("unchecked"))
        return run(chk)
    _, o, h = req.split()
    std, kr, mask = o.split(":")
    case = (int(kr), int(std), int(mask, 16), bytes.fromhex(h).decode("latin-1"))
    print("implementation:", pv.run_impl([req])[0])
    run(chk, only=[case])
