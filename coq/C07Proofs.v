(** C07 — the stack machine gives every declarator exactly the type 6.7.6 spells, and leaves the
    specifier type on the stack for the next declarator. *)
From Coq Require Import List Arith Bool Lia.
From PV Require Import C07Model.
Import ListNotations.

(** induction principle that reaches the declarators of parameters *)
Section DeclInd.
  Variable P : decl -> Prop.
  Hypothesis Hid : forall n, P (DIdent n).
  Hypothesis Hab : P DAbstract.
  Hypothesis Hptr : forall qs d, P d -> P (DPtr qs d).
  Hypothesis Harr : forall d, P d -> P (DArr d).
  Hypothesis Hfun : forall d ps v, P d -> Forall (fun p => P (snd p)) ps -> P (DFun d ps v).
  Hypothesis Hpar : forall d, P d -> P (DParen d).
  Fixpoint decl_ind' (d : decl) : P d :=
    match d with
    | DIdent n => Hid n
    | DAbstract => Hab
    | DPtr qs d' => Hptr qs d' (decl_ind' d')
    | DArr d' => Harr d' (decl_ind' d')
    | DFun d' ps v =>
        Hfun d' ps v (decl_ind' d')
             ((fix go (l : list (ctype * decl)) : Forall (fun p => P (snd p)) l :=
                 match l with [] => Forall_nil _ | p :: l' => Forall_cons p (decl_ind' (snd p)) (go l') end) ps)
    | DParen d' => Hpar d' (decl_ind' d')
    end.
End DeclInd.

(** what specifiers produce: a non-derived type, possibly qualified *)
Definition nonderived (t : ctype) : Prop := is_derived t = false.
Definition base_ok (t : ctype) : Prop := match t with TBase _ => True | TQual _ _ _ _ (TBase _) => True | _ => False end.
Lemma base_ok_nonderived t : base_ok t -> nonderived t.
Proof. destruct t as [n| | | |c v r a [ | | | | ]]; cbn; intros H; try contradiction; reflexivity. Qed.

(** every parameter's specifier type is such a type, recursively *)
Inductive wf : decl -> Prop :=
| wf_id n : wf (DIdent n)
| wf_ab : wf DAbstract
| wf_ptr qs d : wf d -> wf (DPtr qs d)
| wf_arr d : wf d -> wf (DArr d)
| wf_fun d ps v : wf d -> Forall (fun p => base_ok (fst p) /\ wf (snd p)) ps -> wf (DFun d ps v)
| wf_par d : wf d -> wf (DParen d).

(** [x] was derived from [y] by one declarator step (possibly qualified afterwards) *)
Definition derived_from (x y : ctype) : Prop :=
  match x with
  | TPtr _ _ u | TArr u | TFun u _ _ => u = y
  | TQual _ _ _ _ (TPtr _ _ u) | TQual _ _ _ _ (TArr u) | TQual _ _ _ _ (TFun u _ _) => u = y
  | _ => False
  end.
Lemma derived_from_derived x y : derived_from x y -> is_derived x = true.
Proof. destruct x as [| | | |c v r a [| | | |]]; cbn; intros H; try contradiction; reflexivity. Qed.

(** the stack above the specifier type [t] is a chain of derivations *)
Inductive chain (t : ctype) (s : stack) : stack -> Prop :=
| chain_base : chain t s (t :: s)
| chain_step x y S : chain t s (y :: S) -> derived_from x y -> chain t s (x :: y :: S).

Lemma chain_pop t s S : nonderived t -> chain t s S -> pop_derived S = t :: s.
Proof.
  intros Ht H. induction H as [|x y S H IH D].
  - cbn. unfold nonderived in Ht. rewrite Ht. reflexivity.
  - cbn [pop_derived]. rewrite (derived_from_derived x y D). exact IH.
Qed.

Lemma set_qual_derived_from q x y : derived_from x y -> derived_from (set_qual q x) y.
Proof.
  destruct x as [n|da df u|u|u ps v|c v r a u]; cbn; try contradiction.
  - intros ->. destruct q; cbn; reflexivity.
  - intros ->. destruct q; cbn; reflexivity.
  - intros ->. destruct q; cbn; reflexivity.
  - destruct u as [| | | |]; try contradiction; intros ->; destruct q; cbn; reflexivity.
Qed.

Lemma quals_chain t s qs : forall x y S, chain t s (y :: S) -> derived_from x y ->
  exists x', fold_left (fun s q => visit_qual q s) qs (x :: y :: S) = x' :: y :: S /\ x' = qualify qs x /\ derived_from x' y.
Proof.
  induction qs as [|q qs IH]; intros x y S Hc D; cbn [fold_left].
  - exists x. repeat split; auto.
  - cbn [visit_qual]. destruct (IH (set_qual q x) y S Hc (set_qual_derived_from q x y D)) as (x' & E & Q & D').
    exists x'. repeat split; auto.
Qed.

(** the parameters of a function declarator get the types the specification computes *)
Definition param_type (p : ctype * decl) : ctype :=
  match visit true [fst p] (snd p) with Some (t' :: _, _) => t' | _ => fst p end.

(** main lemma *)
Lemma visit_spec : forall d, wf d -> forall param t s cur S0,
  chain t s (cur :: S0) -> nonderived t ->
  exists S2, visit param (cur :: S0) d = Some (snd (ctype_of param cur d) :: S2, fst (ctype_of param cur d)) /\
             chain t s (snd (ctype_of param cur d) :: S2).
Proof.
  induction d using decl_ind'; intros Hwf param t s cur S0 Hc Hb; inversion Hwf; subst; cbn [visit ctype_of fst snd].
  - (* identifier *)
    destruct param; [|exists S0; split; [reflexivity|exact Hc]].
    cbn [adjust]. destruct cur as [n0|da df u|u|u ps v|c v r a u]; cbn [handle_param]; try (exists S0; split; [reflexivity|exact Hc]).
    + (* array -> pointer to the element type found below it *)
      inversion Hc as [|x y S Hc' D]; subst.
      * unfold nonderived in Hb. cbn in Hb. discriminate.
      * cbn in D. subst y. exists (u :: S). split; [reflexivity|]. apply chain_step; [exact Hc'|reflexivity].
    + exists (TFun u ps v :: S0). split; [reflexivity|]. apply chain_step; [exact Hc|reflexivity].
  - (* abstract *)
    destruct param; [|exists S0; split; [reflexivity|exact Hc]].
    cbn [adjust]. destruct cur as [n0|da df u|u|u ps v|c v r a u]; cbn [handle_param]; try (exists S0; split; [reflexivity|exact Hc]).
    + inversion Hc as [|x y S Hc' D]; subst.
      * unfold nonderived in Hb. cbn in Hb. discriminate.
      * cbn in D. subst y. exists (u :: S). split; [reflexivity|]. apply chain_step; [exact Hc'|reflexivity].
    + exists (TFun u ps v :: S0). split; [reflexivity|]. apply chain_step; [exact Hc|reflexivity].
  - (* pointer *)
    destruct (quals_chain t s qs (TPtr false false cur) cur S0 Hc eq_refl) as (x' & E & Q & D).
    rewrite E, <- Q. apply IHd; [assumption|apply chain_step; assumption|exact Hb].
  - (* array *)
    apply IHd; [assumption|apply chain_step; [exact Hc|reflexivity]|exact Hb].
  - (* function *)
    assert (Hps : map param_type ps = map (fun p => snd (ctype_of true (fst p) (snd p))) ps).
    { apply map_ext_in. intros p Hp. unfold param_type.
      rewrite Forall_forall in H, H4. destruct (H4 p Hp) as [Hbp Hwp].
      destruct (H p Hp Hwp true (fst p) [] (fst p) [] (chain_base _ _) (base_ok_nonderived _ Hbp)) as (S2 & E & _).
      rewrite E. reflexivity. }
    fold (param_type). change (map (fun p => match visit true [fst p] (snd p) with Some (t' :: _, _) => t' | _ => fst p end) ps) with (map param_type ps).
    rewrite Hps. apply IHd; [assumption|apply chain_step; [exact Hc|reflexivity]|exact Hb].
  - (* parentheses *)
    apply IHd; assumption.
Qed.
