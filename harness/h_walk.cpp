// walk <opts> <hex text> -> parse as a translation unit, computeSemanticModel, then walk everything the semantic-model API hands out:
//   every declarator's symbol and its type (printed in full), every struct/union/enum symbol with its members and their types,
//   every function definition's symbol, every parameter symbol, every expression's TypeInfo type, the scope of every identifier use
//   and one lookup through it, every typedef-name type's declaration and resolved type.
//   -> "OK <symbols> <types printed> <expressions> <checksum of the printed text> | <diagnostic count>"
#include "sema.h"
using namespace pvh;

namespace {
struct W : SyntaxVisitor {
    const SemanticModel* sema; unsigned syms = 0, types = 0, exprs = 0, nulls = 0; unsigned long sum = 5381;
    W(const SyntaxTree* t, const SemanticModel* s) : SyntaxVisitor(t), sema(s) {}
    void add(const std::string& s) { for (unsigned char c : s) sum = sum * 33 + c; }
    void ty(const Type* t, int d = 0) {
        if (!t) { ++nulls; return; }       // a declaration / typedef without a type object
        ++types;
        add(typestr(t));
        deep(t, d);
    }
    void deep(const Type* t, int d) {
        if (!t || d > 200) return;
        switch (t->kind()) {
            case TypeKind::Pointer: deep(t->asPointerType()->referencedType(), d + 1); break;
            case TypeKind::Array: deep(t->asArrayType()->elementType(), d + 1); break;
            case TypeKind::Function: { auto f = t->asFunctionType(); deep(f->returnType(), d + 1); for (auto p : f->parameterTypes()) deep(p, d + 1); break; }
            case TypeKind::Qualified: deep(t->asQualifiedType()->unqualifiedType(), d + 1); break;
            case TypeKind::TypedefName: {
                auto n = t->asTypedefNameType();
                if (n->declaration()) {
                    if (!n->declaration()->synonymizedType() || !n->resolvedSynonymizedType()) ++nulls;     // a declared typedef name without (resolved) synonym
                    add(typestr(n->declaration()->synonymizedType())); add(typestr(n->resolvedSynonymizedType()));
                }
                break;
            }
            case TypeKind::Tag: {
                auto g = t->asTagType();
                if (g->declaration() && d < 3) for (auto m : g->declaration()->members()) sym(m, d + 1);
                break;
            }
            default: break;
        }
    }
    void sym(const DeclarationSymbol* s, int d = 0) {
        if (!s) return;
        ++syms;
        add(std::to_string((int)s->kind()));
        if (auto f = s->asFunctionDeclaration()) { if (f->name()) add(f->name()->valueText()); ty(f->type(), d); }
        else if (auto o = s->asObjectDeclaration()) { if (o->name()) add(o->name()->valueText()); ty(o->type(), d); }
        else if (auto m = s->asFieldDeclaration()) { if (m->name()) add(m->name()->valueText()); if (d < 3) ty(m->type(), d); }
        else if (auto e = s->asEnumeratorDeclaration()) { if (e->name()) add(e->name()->valueText()); ty(e->type(), d); }
        else if (auto t = s->asTypedefDeclaration()) { ty(t->synonymizedType()); ty(t->introducedSynonymType()); }
        if (s->enclosingScope()) add(std::to_string((int)s->enclosingScope()->kind()));
    }
    bool preVisit(const SyntaxNode* n) override {
        if (auto d = n->asDeclarator()) sym(sema->declarationBy(d));
        else if (n->kind() == SyntaxKind::FunctionDefinition) sym(sema->functionFor(static_cast<const FunctionDefinitionSyntax*>(n)));
        else if (n->kind() == SyntaxKind::ParameterDeclaration) sym(sema->parameterFor(static_cast<const ParameterDeclarationSyntax*>(n)));
        else if (n->kind() == SyntaxKind::StructDeclaration || n->kind() == SyntaxKind::UnionDeclaration) {
            auto s = sema->structOrUnionFor(static_cast<const StructOrUnionDeclarationSyntax*>(n));
            if (s) { ++syms; ty(s->introducedNewType()); for (auto m : s->members()) sym(m, 1); }
        }
        else if (n->kind() == SyntaxKind::EnumDeclaration) {
            auto s = sema->enumFor(static_cast<const EnumDeclarationSyntax*>(n));
            if (s) { ++syms; ty(s->introducedNewType()); for (auto m : s->members()) sym(m, 1); }
        }
        else if (n->kind() == SyntaxKind::EnumeratorDeclaration) sym(sema->enumeratorFor(static_cast<const EnumeratorDeclarationSyntax*>(n)));
        else if (n->kind() == SyntaxKind::FieldDeclaration) { for (auto f : sema->fieldsFor(static_cast<const FieldDeclarationSyntax*>(n))) sym(f, 1); }
        if (auto e = n->asExpression()) {
            if (!n->asAmbiguousCastOrBinaryExpression()) {
                ++exprs;
                auto ti = sema->typeInfoOf(e);
                if (ti.type()) ty(ti.type());      // an expression the checker did not reach has no TypeInfo: not counted as a null
            }
            if (n->kind() == SyntaxKind::IdentifierName) {
                auto u = static_cast<const IdentifierNameSyntax*>(n);
                auto sc = sema->scopeOf(u);
                if (sc) {
                    auto tk = u->identifierToken();
                    if (tk.lexeme() && tk.lexeme()->asIdentifier()) sym(sc->searchForDeclaration(tk.lexeme()->asIdentifier(), NameSpace::OrdinaryIdentifiers));
                }
            }
        }
        return true;
    }
};
}

HANDLER(walk)
{
    std::string o, h; in >> o >> h;
    if (h == "-") h = "";
    auto tree = parse(unhex(h), makeOpts(o), SyntaxTree::SyntaxCategory::Any, TextCompleteness::Fragment);
    bool syn = !tree->diagnostics().empty();
    auto c = compile(std::move(tree));
    if (!c.sema) return "NOSEMA";
    W w(c.tree, c.sema);
    if (c.tree->rootNode()) w.visit(c.tree->rootNode());
    return "OK " + std::to_string(w.syms) + " " + std::to_string(w.types) + " " + std::to_string(w.exprs) + " " + std::to_string(w.sum % 1000000007UL)
         + (syn ? " SYNTAX" : "") + " nulls=" + std::to_string(w.nulls) + " | " + std::to_string(c.tree->diagnostics().size());
}
