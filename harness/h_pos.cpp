// pos <opts> <hex text> -> "T <idx:kind:charStart:line:col:tkline:tkcol ...> | G <line:col:hex(snippet) ...>"
//   T: every token with computePosition(charStart) and the token's own lineno_/column_ (SyntaxToken::location)
//   G: every diagnostic of the parse: start line, start column, snippet
#include "sema.h"
#include "C/parser/LineDirective.h"
using namespace pvh;

HANDLER(pos)
{
    std::string o, h; in >> o >> h;
    if (h == "-") h = "";
    auto tree = parse(unhex(h), makeOpts(o));
    std::ostringstream out;
    out << "T";
    for (unsigned i = 1; i < tree->tokenCount(); ++i) {
        const SyntaxToken& tk = tree->tokenAt(i);
        auto p = tree->computePosition(tk.charStart());
        out << " " << i << ":" << (unsigned)tk.kind() << ":" << tk.charStart() << ":" << p.line() << ":" << p.character()
            << ":" << tk.lineno_ << ":" << tk.column_ << ":" << tk.byteStart();
    }
    out << " | G";
    for (auto& d : tree->diagnostics()) {
        auto sp = d.location().lineSpan().span();
        out << " " << sp.start().line() << ":" << sp.start().character() << ":x" << tohex(d.snippet());
    }
    return out.str();
}
