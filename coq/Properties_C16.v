(** C16 — Reported positions track the text they refer to: the relational laws, for every text. *)
From Coq Require Import List Arith ZArith Bool Lia.
From PV Require Import C16Model C16Proofs.
Import ListNotations.

(** (line, column) the model reports for the offset reached by [pre] in the text [pre ++ post],
    with only the initial pseudo-directive *)
Definition pos (pre post : list ch) : nat * nat :=
  let ls := line_starts (pre ++ post) in
  (search_lineno ls (width pre), search_column ls (width pre) (search_lineno ls (width pre))).

Theorem C16_position : forall pre post, pos pre post = (count_nl pre, col_after pre 0).
Proof. intros. unfold pos. destruct (position_closed_form pre post) as [A B]. cbn zeta in *. rewrite B, A. reflexivity. Qed.

(** text after the token never affects its position *)
Theorem C16_suffix_irrelevant : forall pre s1 s2, pos pre s1 = pos pre s2.
Proof. intros. rewrite !C16_position. reflexivity. Qed.

(** k line breaks inserted at or before the start of the token's line: line + k, column unchanged *)
Theorem C16_newlines_shift : forall a b post k,
  (nl_free b = false \/ col_after a 0 = 0) ->
  pos (a ++ repeat NL k ++ b) post = (fst (pos (a ++ b) post) + k, snd (pos (a ++ b) post)).
Proof.
  intros a b post k H. rewrite !C16_position. cbn [fst snd].
  rewrite !count_nl_app, count_nl_repeat, !col_after_app. f_equal; try lia.
  destruct k; [reflexivity|].
  rewrite (col_after_repeat_nl (S k)) by lia.
  destruct H as [H|H]; [apply col_after_has_nl; exact H | rewrite H; reflexivity].
Qed.

(** k one-column blanks inserted on the token's line before it: column + k, line unchanged *)
Theorem C16_blanks_shift : forall a b1 b2 post k, nl_free b2 = true ->
  pos (a ++ b1 ++ repeat (C 1) k ++ b2) post = (fst (pos (a ++ b1 ++ b2) post), snd (pos (a ++ b1 ++ b2) post) + k).
Proof.
  intros a b1 b2 post k H. rewrite !C16_position. cbn [fst snd].
  rewrite !count_nl_app, count_nl_blanks, !col_after_app. f_equal; try lia.
  rewrite !(col_after_nl_free b2) by exact H. rewrite (col_after_nl_free (repeat (C 1) k)) by apply nl_free_blanks.
  rewrite width_blanks. lia.
Qed.

(** a line directive on its own line (the '#' in the first column) names the number of the NEXT
    line: a token [mid] lines further down is reported on line n + count_nl mid, whatever text
    [dpre] precedes the directive *)
Theorem C16_directive_rebases : forall dpre dirtext mid tokpre post (n : Z),
  nl_free dirtext = true -> 0 < width dirtext ->
  let pre := dpre ++ dirtext ++ [NL] ++ mid ++ tokpre in
  nl_free tokpre = true ->
  fst (compute_position (line_starts (pre ++ post)) [(0, 1%Z); (width dpre, n)] (width pre)) = (n + Z.of_nat (count_nl mid))%Z.
Proof.
  intros dpre dirtext mid tokpre post n Hd Hw pre Ht. unfold compute_position. cbn [fst].
  destruct (position_closed_form pre post) as [A _]. cbn zeta in A. rewrite A.
  assert (Hlt : width dpre < width pre) by (unfold pre; rewrite !width_app; cbn; lia).
  unfold search_directive. cbn [lower_bound_dir fst].
  assert (E0 : (0 <? width pre) = true) by (apply Nat.ltb_lt; lia). rewrite E0.
  assert (E1 : (width dpre <? width pre) = true) by (apply Nat.ltb_lt; lia). rewrite E1.
  cbn [pred nth fst snd].
  assert (Hpre : pre ++ post = dpre ++ (dirtext ++ [NL] ++ mid ++ tokpre ++ post)) by (unfold pre; rewrite <- !app_assoc; reflexivity).
  rewrite Hpre. destruct (position_closed_form dpre (dirtext ++ [NL] ++ mid ++ tokpre ++ post)) as [B _]. cbn zeta in B. rewrite B.
  unfold pre. rewrite !count_nl_app. cbn [count_nl]. rewrite (count_nl_free dirtext Hd), (count_nl_free tokpre Ht). lia.
Qed.

(** the excerpt is the line containing the token, and the caret column is the width of the part
    of that line before the token *)
Theorem C16_excerpt : forall pre post,
  let line_before := drop_lines pre (count_nl pre) in
  excerpt (pre ++ post) (line_starts (pre ++ post)) (width pre) = line_before ++ upto_nl post /\
  snd (pos pre post) = width line_before /\ nl_free line_before = true.
Proof.
  intros pre post. cbn zeta. unfold excerpt.
  destruct (position_closed_form pre post) as [A _]. cbn zeta in A. rewrite A.
  rewrite drop_lines_pre, upto_nl_app by apply drop_lines_nl_free.
  rewrite C16_position. cbn [snd]. repeat split; [apply col_after_drop | apply drop_lines_nl_free].
Qed.

Example C16_nonvacuous :
  let t := [C 1; C 1; NL; C 1; C 2; C 1] in
  pos [C 1; C 1; NL; C 1; C 2] [C 1] = (1, 3) /\ line_starts t = [0; 3] /\
  pos [C 1; C 1; NL] [C 1] = (1, 0).
Proof. vm_compute. repeat split; reflexivity. Qed.

Print Assumptions C16_position.
Print Assumptions C16_newlines_shift.
Print Assumptions C16_blanks_shift.
Print Assumptions C16_directive_rebases.
Print Assumptions C16_excerpt.
