(** C05 — the switch of yylex_CORE on valid tokens: every class of token is dispatched to the sub-lexer whose theorem
    (LexProofs) says it consumes exactly the token; white space, comments and line splices before the token are skipped. *)
From Coq Require Import List NArith Bool Arith Lia.
From PV Require Import C01Model PunctDefs LexModel LexSpec LexProofs.
From PV.gen Require Import Gen_SyntaxKind Gen_Punct.
Import ListNotations.
Local Open Scope N_scope.

Definition bytes128 : list N := map N.of_nat (seq 0 128).
Lemma in_bytes128 c : c < 128 -> In c bytes128.
Proof.
  intros H. unfold bytes128. rewrite <- (N2Nat.id c). apply in_map. apply in_seq. lia.
Qed.

(** first bytes of words and numbers: none of them has a punctuator case or is one of the bytes the switch treats before the punctuators *)
Definition plain_first (c : N) : bool :=
  match find_case c punct_cases with None => true | Some _ => false end
  && negb (c =? 0) && negb (c =? 92) && negb (c =? 34) && negb (c =? 39) && negb (c =? 47).
Lemma word_firsts_plain : forallb (fun c => implb (isnondigit c || isdigit c) (plain_first c)) bytes128 = true.
Proof. vm_compute. reflexivity. Qed.
Lemma digit_not_word : forallb (fun c => implb (isdigit c) (negb ((c =? 76) || (c =? 117) || (c =? 85) || (c =? 82)) && negb (isalpha c || (c =? 95) || (c =? 36) || is_mb c))) bytes128 = true.
Proof. vm_compute. reflexivity. Qed.

Lemma nondigit_lt128 c : isnondigit c = true -> c < 128.
Proof.
  unfold isnondigit, isalpha, isupper, islower. intros H.
  repeat match goal with
         | H : _ && _ = true |- _ => apply andb_true_iff in H; destruct H
         | H : _ || _ = true |- _ => apply orb_true_iff in H; destruct H
         | H : (_ <=? _) = true |- _ => apply N.leb_le in H
         | H : (_ =? _) = true |- _ => apply N.eqb_eq in H
         end; lia.
Qed.
Lemma digit_lt128 c : isdigit c = true -> c < 128.
Proof. unfold isdigit. intros H. apply andb_true_iff in H as [H1 H2]. apply N.leb_le in H2. lia. Qed.

Lemma plain_first_elim c : plain_first c = true ->
  find_case c punct_cases = None /\ (c =? 0) = false /\ (c =? 92) = false /\ (c =? 34) = false /\ (c =? 39) = false /\ (c =? 47) = false.
Proof.
  unfold plain_first. intros H. repeat (apply andb_true_iff in H as [H ?]).
  repeat match goal with H : negb _ = true |- _ => apply negb_true_iff in H end.
  destruct (find_case c punct_cases); [discriminate H|]. repeat split; assumption.
Qed.

Lemma first_plain c : (isnondigit c || isdigit c) = true -> plain_first c = true.
Proof.
  intros H. assert (L : c < 128) by (apply orb_true_iff in H as [H|H]; [apply nondigit_lt128|apply digit_lt128]; exact H).
  pose proof word_firsts_plain as S. rewrite forallb_forall in S. specialize (S c (in_bytes128 c L)). rewrite H in S. exact S.
Qed.

Section Dispatch.
Variable keep : bool.
Variable rec : list N -> bool -> N -> R.

Lemma dispatch_plain c tl wll fl : plain_first c = true -> is_mb c = false ->
  dispatch keep rec (c :: tl) wll fl = let '(k, s3) := word c tl in (k, fl, c :: tl, s3, false).
Proof.
  intros H Hmb. destruct (plain_first_elim c H) as (F & E0 & E92 & E34 & E39 & E47).
  unfold dispatch. cbn [ahead]. rewrite E0, E92, E34, E39, E47. rewrite (adv_cons c tl Hmb). unfold lex_punct. rewrite F. reflexivity.
Qed.

Theorem dispatch_word c tl k rest wll fl : isnondigit c = true -> word c tl = (k, rest) ->
  dispatch keep rec (c :: tl) wll fl = (k, fl, c :: tl, rest, false).
Proof.
  intros Hc Hw. rewrite dispatch_plain; [rewrite Hw; reflexivity| |].
  - apply first_plain. rewrite Hc. reflexivity.
  - apply lt128_not_mb. apply nondigit_lt128. exact Hc.
Qed.

Theorem dispatch_number c tl k rest wll fl : isdigit c = true -> number c tl = (k, rest) ->
  dispatch keep rec (c :: tl) wll fl = (k, fl, c :: tl, rest, false).
Proof.
  intros Hc Hn. rewrite dispatch_plain.
  - unfold word. pose proof digit_not_word as S. rewrite forallb_forall in S. specialize (S c (in_bytes128 c (digit_lt128 c Hc))).
    rewrite Hc in S. cbn [implb] in S. apply andb_true_iff in S as [S1 S2]. apply negb_true_iff in S1, S2. rewrite S1, S2, Hc, Hn. reflexivity.
  - apply first_plain. rewrite Hc. apply orb_true_r.
  - apply isdigit_ascii. exact Hc.
Qed.

Theorem dispatch_quote s2 wll fl : dispatch keep rec (34 :: s2) wll fl = (K_StringLiteralToken, fl, 34 :: s2, quoted 34 s2, false)
                                     /\ dispatch keep rec (39 :: s2) wll fl = (K_CharacterConstantToken, fl, 39 :: s2, quoted 39 s2, false).
Proof. split; unfold dispatch; cbn [ahead]; rewrite adv_cons by reflexivity; reflexivity. Qed.

(** a period followed by a digit: the punctuator case hands over to the floating-constant sub-lexer *)
Definition digits10 : list N := [48; 49; 50; 51; 52; 53; 54; 55; 56; 57].
Lemma isdigit_in d : isdigit d = true -> In d digits10.
Proof.
  unfold isdigit. intros H. apply andb_true_iff in H as [H1 H2]. apply N.leb_le in H1, H2.
  assert (E : d = 48 \/ d = 49 \/ d = 50 \/ d = 51 \/ d = 52 \/ d = 53 \/ d = 54 \/ d = 55 \/ d = 56 \/ d = 57) by lia.
  cbn. repeat (destruct E as [E|E]; [subst; tauto|]). subst. tauto.
Qed.
Theorem dispatch_period_digit d t wll fl : isdigit d = true ->
  dispatch keep rec (46 :: d :: t) wll fl = let '(k, s3) := at_period (d :: t) in (k, fl, 46 :: d :: t, s3, false).
Proof.
  intros Hd. unfold dispatch. cbn [ahead]. rewrite adv_cons by reflexivity.
  change (46 =? 0) with false. change (46 =? 92) with false. change (46 =? 34) with false. change (46 =? 39) with false. change (46 =? 47) with false. cbv iota.
  assert (P : lex_punct punct_cases 46 (d :: t) = Some (None, 0%nat, false)).
  { pose proof (isdigit_in d Hd) as Hin. cbn in Hin. repeat (destruct Hin as [<-|Hin]; [vm_compute; reflexivity|]). contradiction. }
  rewrite P. reflexivity.
Qed.

(** "/" and "/=" (the case of the switch the translator leaves alone) *)
Theorem dispatch_slash rest wll fl : (ahead rest =? 47) = false -> (ahead rest =? 42) = false -> (ahead rest =? 61) = false ->
  dispatch keep rec (47 :: rest) wll fl = (K_SlashToken, fl, 47 :: rest, rest, false).
Proof.
  intros H1 H2 H3. unfold dispatch. cbn [ahead]. rewrite adv_cons by reflexivity.
  change (47 =? 0) with false. change (47 =? 92) with false. change (47 =? 34) with false. change (47 =? 39) with false. change (47 =? 47) with true. cbv iota zeta.
  rewrite H1, H2, H3. reflexivity.
Qed.
Theorem dispatch_slash_equals rest wll fl : dispatch keep rec (47 :: 61 :: rest) wll fl = (K_SlashEqualsToken, fl, 47 :: 61 :: rest, rest, false).
Proof.
  unfold dispatch. cbn [ahead]. rewrite adv_cons by reflexivity. cbn [ahead].
  change (47 =? 0) with false. change (47 =? 92) with false. change (47 =? 34) with false. change (47 =? 39) with false. change (47 =? 47) with true. cbv iota zeta.
  change (61 =? 47) with false. change (61 =? 42) with false. change (61 =? 61) with true. cbv iota. rewrite adv_cons by reflexivity. reflexivity.
Qed.
End Dispatch.

(* ------------------------------------------------------------------ separators *)
Lemma ws_stop s wll fl fuel : isspace (ahead s) = false -> ws fuel s wll fl = (s, wll, fl).
Proof. intros H. destruct fuel; cbn [ws]; [reflexivity|]. rewrite H. rewrite andb_false_r. reflexivity. Qed.

Definition ws1 (b : N) (wll : bool) (fl : N) : bool * N :=
  if b =? 10 then (false, N.lor (N.land fl 2) (if wll then 4 else 1)) else (wll, N.lor fl 2).
Lemma isspace_nz b : isspace b = true -> (b =? 0) = false.
Proof. unfold isspace. intros H. apply N.eqb_neq. intros ->. discriminate H. Qed.
Lemma ws_step b t wll fl n : isspace b = true -> ws (S n) (b :: t) wll fl = ws n t (fst (ws1 b wll fl)) (snd (ws1 b wll fl)).
Proof.
  intros H. cbn [ws ahead]. rewrite (isspace_nz b H), H. cbn [negb andb]. rewrite (adv_cons b t (isspace_ascii b H)).
  unfold ws1. destruct (b =? 10); reflexivity.
Qed.

Lemma core_S keep f s wll fl : core keep (S f) s wll fl = let '(s1, wll1, fl1) := ws (length s) s wll fl in dispatch keep (core keep f) s1 wll1 fl1.
Proof. reflexivity. Qed.

Lemma core_ws_step f b t wll fl : isspace b = true ->
  core false (S f) (b :: t) wll fl = core false (S f) t (fst (ws1 b wll fl)) (snd (ws1 b wll fl)).
Proof. intros H. rewrite !core_S. cbn [length]. rewrite (ws_step b t wll fl _ H). reflexivity. Qed.

(** everything that separates tokens is skipped: after a separator the lexer is at the switch with the text that follows it *)
Lemma core_sep sp : sep sp -> forall s fuel wll fl, (length sp < fuel)%nat ->
  exists f' wll' fl', core false fuel (sp ++ s) wll fl = core false (S f') s wll' fl'.
Proof.
  induction 1 as [|b r Hb Hr IH|body r Hbody Hnc Hr IH|body r Hbody Hnl Hr IH|r Hr IH]; intros s fuel wll fl Hf.
  - destruct fuel as [|f]; [cbn in Hf; lia|]. exists f, wll, fl. reflexivity.
  - destruct fuel as [|f]; [cbn in Hf; lia|]. cbn [app]. rewrite (core_ws_step f b _ wll fl Hb). apply IH. cbn in Hf. lia.
  - (* block comment *)
    destruct fuel as [|f]; [cbn in Hf; lia|]. cbn [app]. rewrite core_S. rewrite (ws_stop _ wll fl _ (eq_refl : isspace (ahead (47 :: _)) = false)).
    unfold dispatch. cbn [ahead]. rewrite adv_cons by reflexivity. cbn [ahead].
    change (47 =? 0) with false. change (47 =? 92) with false. change (47 =? 34) with false. change (47 =? 39) with false. change (47 =? 47) with true. cbv iota zeta.
    change (42 =? 47) with false. change (42 =? 42) with true. cbv iota. rewrite adv_cons by reflexivity.
    rewrite <- app_assoc. cbn [app].
    destruct (block_comment_at (body ++ 42 :: 47 :: r ++ s)) as [k s7] eqn:E.
    pose proof (block_comment_scan body (r ++ s) Hbody Hnc) as Sc. rewrite E in Sc. cbn [snd] in Sc. subst s7.
    apply IH. cbn in Hf. rewrite !app_length in Hf. cbn in Hf. lia.
  - (* line comment *)
    destruct fuel as [|f]; [cbn in Hf; lia|]. cbn [app]. rewrite core_S. rewrite (ws_stop _ wll fl _ (eq_refl : isspace (ahead (47 :: _)) = false)).
    unfold dispatch. cbn [ahead]. rewrite adv_cons by reflexivity. cbn [ahead].
    change (47 =? 0) with false. change (47 =? 92) with false. change (47 =? 34) with false. change (47 =? 39) with false. change (47 =? 47) with true. cbv iota zeta.
    rewrite adv_cons by reflexivity.
    rewrite <- app_assoc. cbn [app].
    destruct (line_comment_at (body ++ 10 :: r ++ s)) as [k s5] eqn:E.
    pose proof (line_comment_scan body (r ++ s) Hbody Hnl) as Sc. rewrite E in Sc. cbn [snd] in Sc. subst s5.
    destruct f as [|f]; [cbn in Hf; rewrite !app_length in Hf; cbn in Hf; lia|].
    rewrite (core_ws_step f 10 _ false fl eq_refl). apply IH. cbn in Hf. rewrite !app_length in Hf. cbn in Hf. lia.
  - (* line splice *)
    destruct fuel as [|f]; [cbn in Hf; lia|]. cbn [app]. rewrite core_S. rewrite (ws_stop _ wll fl _ (eq_refl : isspace (ahead (92 :: _)) = false)).
    unfold dispatch. cbn [ahead]. rewrite adv_cons by reflexivity.
    change (92 =? 0) with false. change (92 =? 92) with true. cbv iota.
    destruct f as [|f]; [cbn in Hf; lia|].
    rewrite (core_ws_step f 10 _ true fl eq_refl). apply IH. cbn in Hf. lia.
Qed.
