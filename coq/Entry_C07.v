(** Request decoder for the C07 model.  [param; <base type>; ndecls; <decl>...]
    type: [0;n] base | [1;a;f;t] pointer | [2;t] array | [3;v;np;r;ps...] function | [4;c;v;r;a;t] qualified
    decl: [0;n] identifier | [1] abstract | [2;nq;q...;d] pointer | [3;d] array | [4;v;np;(type decl)...;d] function | [5;d] parentheses
    Answer per declarator: model name, model type, -7, spec name, spec type, -8 (types in the same encoding). *)
From Coq Require Import ZArith List Bool.
From PV Require Import C07Model.
Import ListNotations.
Local Open Scope Z_scope.

Definition zb (z : Z) : bool := negb (z =? 0).
Fixpoint dec_type (f : nat) (l : list Z) : option (ctype * list Z) :=
  match f with
  | O => None
  | S f' =>
      match l with
      | 0 :: n :: r => Some (TBase (Z.to_nat n), r)
      | 1 :: a :: fl :: r => match dec_type f' r with Some (t, r') => Some (TPtr (zb a) (zb fl) t, r') | None => None end
      | 2 :: r => match dec_type f' r with Some (t, r') => Some (TArr t, r') | None => None end
      | 3 :: v :: np :: r =>
          match dec_type f' r with
          | Some (rt, r1) =>
              (fix ps (k : nat) (r : list Z) (acc : list ctype) : option (ctype * list Z) :=
                 match k with
                 | O => Some (TFun rt (rev acc) (zb v), r)
                 | S k' => match dec_type f' r with Some (t, r') => ps k' r' (t :: acc) | None => None end
                 end) (Z.to_nat np) r1 []
          | None => None
          end
      | 4 :: c :: v :: rr :: a :: r => match dec_type f' r with Some (t, r') => Some (TQual (zb c) (zb v) (zb rr) (zb a) t, r') | None => None end
      | _ => None
      end
  end.
Definition qual_of (z : Z) : qual := if z =? 0 then QConst else if z =? 1 then QVolatile else if z =? 2 then QRestrict else QAtomic.
Fixpoint take (n : nat) (l : list Z) : list Z * list Z :=
  match n, l with S n', x :: l' => let (a, b) := take n' l' in (x :: a, b) | _, _ => ([], l) end.
Fixpoint dec_decl (f : nat) (l : list Z) : option (decl * list Z) :=
  match f with
  | O => None
  | S f' =>
      match l with
      | 0 :: n :: r => Some (DIdent (Z.to_nat n), r)
      | 1 :: r => Some (DAbstract, r)
      | 2 :: nq :: r => let (qs, r1) := take (Z.to_nat nq) r in
                        match dec_decl f' r1 with Some (d, r2) => Some (DPtr (map qual_of qs) d, r2) | None => None end
      | 3 :: r => match dec_decl f' r with Some (d, r') => Some (DArr d, r') | None => None end
      | 4 :: v :: np :: r =>
          (fix ps (k : nat) (r : list Z) (acc : list (ctype * decl)) : option (decl * list Z) :=
             match k with
             | O => match dec_decl f' r with Some (d, r') => Some (DFun d (rev acc) (zb v), r') | None => None end
             | S k' => match dec_type f' r with
                       | Some (t, r1) => match dec_decl f' r1 with Some (d, r2) => ps k' r2 ((t, d) :: acc) | None => None end
                       | None => None
                       end
             end) (Z.to_nat np) r []
      | 5 :: r => match dec_decl f' r with Some (d, r') => Some (DParen d, r') | None => None end
      | _ => None
      end
  end.
Definition bz (b : bool) : Z := if b then 1 else 0.
Fixpoint enc_type (t : ctype) : list Z :=
  match t with
  | TBase n => [0; Z.of_nat n]
  | TPtr a f u => 1 :: bz a :: bz f :: enc_type u
  | TArr u => 2 :: enc_type u
  | TFun r ps v => 3 :: bz v :: Z.of_nat (length ps) :: enc_type r ++ flat_map enc_type ps
  | TQual c v r a u => 4 :: bz c :: bz v :: bz r :: bz a :: enc_type u
  end.
Fixpoint dec_decls (f k : nat) (l : list Z) : list decl :=
  match k with
  | O => []
  | S k' => match dec_decl f l with Some (d, r) => d :: dec_decls f k' r | None => [] end
  end.
Definition run (req : list Z) : list Z :=
  match req with
  | p :: r =>
      match dec_type (length req) r with
      | Some (base, n :: r1) =>
          let ds := dec_decls (length req) (Z.to_nat n) r1 in
          let param := zb p in
          let model := if param then map (fun d => match run_declarator true [base] d with Some (nm, t, _) => Some (nm, t) | None => None end) ds
                       else run_declarators [base] ds in
          flat_map (fun md =>
            (match fst md with Some (nm, t) => Z.of_nat nm :: enc_type t | None => [-1] end) ++ [-7] ++
            (let s := ctype_of param base (snd md) in Z.of_nat (fst s) :: enc_type (snd s)) ++ [-8]) (combine model ds)
      | _ => []
      end
  | [] => []
  end.
