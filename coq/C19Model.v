(** C19 — the cnip driver: CommandLineParser::parseCommandLine / detectCommandOptions and the
    status logic of Driver::go / runCPP / runCFrontEnd, transcribed by hand (strings are byte
    lists).  What the front end finds in a file, whether the external preprocessor succeeds and
    whether files can be read are inputs of the model.  No proofs here. *)
From Coq Require Import List ZArith Bool String Ascii.
Import ListNotations.
Local Open Scope string_scope.
Local Open Scope Z_scope.

Definition str := list Z.
Definition S (s : string) : str := map (fun a => Z.of_N (N_of_ascii a)) (list_ascii_of_string s).

Fixpoint str_eqb (a b : str) : bool :=
  match a, b with
  | [], [] => true
  | x :: a', y :: b' => (x =? y) && str_eqb a' b'
  | _, _ => false
  end.
Fixpoint starts_with (s p : str) : bool :=
  match p, s with
  | [], _ => true
  | y :: p', x :: s' => (x =? y) && starts_with s' p'
  | _ :: _, [] => false
  end.
Definition ends_with (s suf : str) : bool := starts_with (rev s) (rev suf).
Fixpoint drop (n : nat) (s : str) : str := match n, s with O, _ => s | Datatypes.S n', _ :: s' => drop n' s' | _, [] => [] end.

Inductive msg := MUnhandledPath | MExpectedOption | MExpectedValue | MUnrecognized | MWip
  | MNoInput | MNoSuchFile | MBadStd | MBadDisamb | MBadComment | MBadPP | MPPFailed | MSyntax | MSema | MAnalysis.

Record options := {
  o_help : bool; o_dump : bool; o_syntax_only : bool;
  o_std : str; o_disamb : str; o_pp : str; o_comment : str; o_cc : str;
  o_cfiles : list str; o_ifiles : list str; o_analysis : list str }.
Definition defaults : options :=
  {| o_help := false; o_dump := false; o_syntax_only := false;
     o_std := S "c17"; o_disamb := S "ah"; o_pp := S "s"; o_comment := S "d"; o_cc := S "gcc";
     o_cfiles := []; o_ifiles := []; o_analysis := [] |}.

Inductive step_res := SNext (o : options) (rest : list str) (acc_c : bool) | SErr (m : msg).

(** value-at-or-after: "-Xvalue" or "-X value" *)
Definition value_at_or_after (opt : str) (name : str) (rest : list str) : option (str * list str) :=
  if Nat.eqb (List.length opt) (List.length name)
  then match rest with v :: rest' => Some (v, rest') | [] => None end
  else Some (drop (List.length name) opt, rest).
Definition value_at (opt name : str) : option str :=
  if Nat.eqb (List.length opt) (List.length name) then None else Some (drop (List.length name) opt).
Definition value_after (rest : list str) : option (str * list str) :=
  match rest with v :: rest' => Some (v, rest') | [] => None end.

Definition upd_std o v := {| o_help := o_help o; o_dump := o_dump o; o_syntax_only := o_syntax_only o; o_std := v; o_disamb := o_disamb o;
  o_pp := o_pp o; o_comment := o_comment o; o_cc := o_cc o; o_cfiles := o_cfiles o; o_ifiles := o_ifiles o; o_analysis := o_analysis o |}.
Definition upd_disamb o v := {| o_help := o_help o; o_dump := o_dump o; o_syntax_only := o_syntax_only o; o_std := o_std o; o_disamb := v;
  o_pp := o_pp o; o_comment := o_comment o; o_cc := o_cc o; o_cfiles := o_cfiles o; o_ifiles := o_ifiles o; o_analysis := o_analysis o |}.
Definition upd_pp o v := {| o_help := o_help o; o_dump := o_dump o; o_syntax_only := o_syntax_only o; o_std := o_std o; o_disamb := o_disamb o;
  o_pp := v; o_comment := o_comment o; o_cc := o_cc o; o_cfiles := o_cfiles o; o_ifiles := o_ifiles o; o_analysis := o_analysis o |}.
Definition upd_comment o v := {| o_help := o_help o; o_dump := o_dump o; o_syntax_only := o_syntax_only o; o_std := o_std o; o_disamb := o_disamb o;
  o_pp := o_pp o; o_comment := v; o_cc := o_cc o; o_cfiles := o_cfiles o; o_ifiles := o_ifiles o; o_analysis := o_analysis o |}.
Definition upd_cc o v := {| o_help := o_help o; o_dump := o_dump o; o_syntax_only := o_syntax_only o; o_std := o_std o; o_disamb := o_disamb o;
  o_pp := o_pp o; o_comment := o_comment o; o_cc := v; o_cfiles := o_cfiles o; o_ifiles := o_ifiles o; o_analysis := o_analysis o |}.
Definition set_flags o h d so := {| o_help := h; o_dump := d; o_syntax_only := so; o_std := o_std o; o_disamb := o_disamb o;
  o_pp := o_pp o; o_comment := o_comment o; o_cc := o_cc o; o_cfiles := o_cfiles o; o_ifiles := o_ifiles o; o_analysis := o_analysis o |}.
Definition add_cfile o f := {| o_help := o_help o; o_dump := o_dump o; o_syntax_only := o_syntax_only o; o_std := o_std o; o_disamb := o_disamb o;
  o_pp := o_pp o; o_comment := o_comment o; o_cc := o_cc o; o_cfiles := o_cfiles o ++ [f]; o_ifiles := o_ifiles o; o_analysis := o_analysis o |}.
Definition add_ifile o f := {| o_help := o_help o; o_dump := o_dump o; o_syntax_only := o_syntax_only o; o_std := o_std o; o_disamb := o_disamb o;
  o_pp := o_pp o; o_comment := o_comment o; o_cc := o_cc o; o_cfiles := o_cfiles o; o_ifiles := o_ifiles o ++ [f]; o_analysis := o_analysis o |}.
Definition add_analysis o f := {| o_help := o_help o; o_dump := o_dump o; o_syntax_only := o_syntax_only o; o_std := o_std o; o_disamb := o_disamb o;
  o_pp := o_pp o; o_comment := o_comment o; o_cc := o_cc o; o_cfiles := o_cfiles o; o_ifiles := o_ifiles o; o_analysis := o_analysis o ++ [f] |}.

Definition first_is (s : str) (c : Z) : bool := match s with x :: _ => x =? c | [] => false end.

(** one iteration of the loop of detectCommandOptions on argument [s] *)
Definition step (sub : bool) (o : options) (acc_c : bool) (s : str) (rest : list str) : step_res :=
  if negb (first_is s 45) then
    (* s[0] != '-' : a file path (the empty string has s[0] == 0) *)
    if ends_with s (S ".c") || ends_with s (S ".h") || acc_c then SNext (add_cfile o s) rest acc_c
    else if ends_with s (S ".i") then SNext (add_ifile o s) rest acc_c
    else SErr MUnhandledPath
  else
    let opt := drop 1 s in
    match opt with
    | [] => SErr MExpectedOption
    | _ =>
      let vaoa name k := match value_at_or_after opt (S name) rest with
                         | Some (v, rest') => k v rest' | None => SErr MExpectedValue end in
      let skip name := vaoa name (fun _ rest' => SNext o rest' acc_c) in
      if first_is opt 73 (* I *) then skip "I"
      else if starts_with opt (S "iquote") then skip "iquote"
      else if starts_with opt (S "isystem") then skip "isystem"
      else if starts_with opt (S "idirafter") then skip "idirafter"
      else if str_eqb opt (S "nostdinc") then SNext o rest acc_c
      else if first_is opt 68 (* D *) then skip "D"
      else if first_is opt 85 (* U *) then skip "U"
      else if starts_with opt (S "include") then skip "include"
      else if starts_with opt (S "imacros") then skip "imacros"
      else if str_eqb opt (S "undef") || str_eqb opt (S "C") || str_eqb opt (S "CC") then SNext o rest acc_c
      else if starts_with opt (S "std=") then
        match value_at opt (S "std=") with Some v => SNext (upd_std o v) rest acc_c | None => SErr MExpectedValue end
      else if starts_with opt (S "-std=") then
        (* valueAtOrAfter(opt, "std="): the name is one byte shorter than the prefix actually matched *)
        vaoa "std=" (fun v rest' => SNext (upd_std o v) rest' acc_c)
      else if str_eqb opt (S "-std") then
        match value_after rest with Some (v, rest') => SNext (upd_std o v) rest' acc_c | None => SErr MExpectedValue end
      else if str_eqb opt (S "ansi") || str_eqb opt (S "-ansi") then SNext o rest acc_c
      else if starts_with opt (S "x") then
        vaoa "x" (fun v rest' => SNext o rest' (str_eqb v (S "c") || str_eqb v (S "c-header")))
      else if str_eqb opt (S "fsyntax-only") || str_eqb opt (S "-syntax-only") then
        SNext (set_flags o (o_help o) (o_dump o) true) rest acc_c
      else if negb sub then
        if str_eqb opt (S "help") || str_eqb opt (S "-help") then SNext (set_flags o true (o_dump o) (o_syntax_only o)) rest acc_c
        else if str_eqb opt (S "dump-ast") then SNext (set_flags o (o_help o) true (o_syntax_only o)) rest acc_c
        else if str_eqb opt (S "include-stdlib-headers") then SErr MWip
        else
          let after k := match value_after rest with Some (v, rest') => SNext (k v) rest' acc_c | None => SErr MExpectedValue end in
          if str_eqb opt (S "disambiguation") then after (upd_disamb o)
          else if str_eqb opt (S "pp") then after (upd_pp o)
          else if str_eqb opt (S "cc") then after (upd_cc o)
          else if str_eqb opt (S "comment") then after (upd_comment o)
          else if str_eqb opt (S "analysis") then after (add_analysis o)
          else SErr MUnrecognized
      else SNext o rest acc_c
    end.

Fixpoint detect (fuel : nat) (sub : bool) (o : options) (acc_c : bool) (args : list str) : options + msg :=
  match fuel with
  | O => inr MUnrecognized
  | Datatypes.S f =>
      match args with
      | [] => inl o
      | s :: rest => match step sub o acc_c s rest with
                     | SNext o' rest' acc' => detect f sub o' acc' rest'
                     | SErr m => inr m
                     end
      end
  end.

(** parseCommandLine: split at "--", options of the main command, then of a sub-command of two or more words *)
Fixpoint split_dd (args : list str) (seen : bool) (a b : list str) : list str * list str :=
  match args with
  | [] => (rev a, rev b)
  | x :: r => if str_eqb x (S "--") then split_dd r true a b
              else if seen then split_dd r seen a (x :: b) else split_dd r seen (x :: a) b
  end.
Definition parse_command_line (args : list str) : (options * list str) + msg :=
  let (main, subc) := split_dd args false [] [] in
  match detect (Datatypes.S (List.length main)) false defaults false main with
  | inr m => inr m
  | inl o =>
      match subc with
      | cc :: (_ :: _) as l =>
          match detect (Datatypes.S (List.length l)) true (upd_cc o cc) false (tl l) with
          | inr m => inr m
          | inl o' => inl (o', subc)
          end
      | _ => inl (o, subc)
      end
  end.

(** what the world contributes: can each file be read, does the external preprocessor succeed,
    what does the front end report per file (under the configured options), do the analyses load *)
Record file_result := { f_readable : bool; f_syntax_error : bool; f_sema_error : bool }.
Record world := { w_files : list file_result; w_pp_ok : bool; w_analysis_ok : bool; w_sub_status : Z }.

Definition known (v : str) (l : list string) : bool := existsb (fun x => str_eqb v (S x)) l.

Fixpoint front_end (syntax_only : bool) (fs : list file_result) : option msg :=
  match fs with
  | [] => None
  | f :: fs' => if f_syntax_error f then Some MSyntax
                else if syntax_only then front_end syntax_only fs'
                else if f_sema_error f then Some MSema
                else front_end syntax_only fs'
  end.

(** Driver::go: exit status and the message class printed by the driver itself (None for success) *)
Definition go (args : list str) (w : world) : Z * option msg :=
  match parse_command_line args with
  | inr m => (1, Some m)
  | inl (o, subc) =>
      if o_help o then (0, None)
      else if Nat.eqb (List.length (o_cfiles o) + List.length (o_ifiles o)) 0 then (1, Some MNoInput)
      else if negb (forallb f_readable (w_files w)) then (1, Some MNoSuchFile)
      else if negb (known (o_pp o) ["none"; "s"; "r"]) then (1, Some MBadPP)
      else if negb (str_eqb (o_pp o) (S "none")) && negb (w_pp_ok w) then (1, Some MPPFailed)
      else if negb (known (o_std o) ["c89"; "c90"; "c99"; "c17"; "c18"; "c11"]) then (1, Some MBadStd)
      else if negb (known (o_disamb o) ["a"; "h"; "ah"; "none"]) then (1, Some MBadDisamb)
      else if negb (known (o_comment o) ["ka"; "kdo"; "d"]) then (1, Some MBadComment)
      else match front_end (o_syntax_only o) (w_files w) with
           | Some m => (1, Some m)
           | None =>
               if negb (o_syntax_only o) && Nat.eqb (List.length (w_files w)) 0 then (1, None)      (* compilation empty *)
               else if negb (Nat.eqb (List.length (o_analysis o)) 0) && negb (w_analysis_ok w) then (1, Some MAnalysis)
               else match subc with [] => (0, None) | _ => (w_sub_status w, None) end
           end
  end.
