(** C02 — Semantic analysis is total.  PARTIAL: the theorem here is the termination core —
    typedef resolution over ARBITRARY declaration graphs (cycles, undefined names, any sharing of
    names), which is where the pinned tree did not terminate; memory safety of the phases and
    liveness of everything the API hands out are explored under sanitizers (see the check). *)
From Coq Require Import List NArith Bool Arith Lia.
From PV Require Import C12Model C12Proofs C02Model C02Proofs.
Import ListNotations.

(** For EVERY declaration graph (a typedef's type may name any typedef, itself included, or
    none) and every type, the resolver with its under-resolution set terminates within an
    explicit bound and returns a type. *)
Theorem C02_resolve_total : forall (e : genv) (t : ty), exists r, resolve_g (bound e t) e [] t = Some r.
Proof.
  intros e t. unfold bound. apply (resolve_g_total e (Nat.max (size t) (maxsize e))); [lia|lia|].
  pose proof (unv_le e []). assert (unv e [] * S (Nat.max (size t) (maxsize e)) <= length e * S (Nat.max (size t) (maxsize e))) by (apply Nat.mul_le_mono_r; exact H). lia.
Qed.

(** without the set the same recursion has no bound: no amount of fuel suffices for [typedef T T;]
    (this is the hang of the pinned tree; the termination argument above is what the repair had to supply) *)
Theorem C02_unguarded_resolve_diverges : exists (e : genv) (t : ty), forall fuel, resolve_unguarded fuel e t = None.
Proof.
  exists [(1%N, TName 1)], (TName 1). induction fuel as [|f IH]; [reflexivity|]. cbn [resolve_unguarded glookup]. rewrite N.eqb_refl. exact IH.
Qed.

(** on a cycle the answer is the error type, and what is not on the cycle is still resolved *)
Example C02_nonvacuous :
  let e : genv := [(1, TName 2); (2, TPtr (TName 1)); (3, TQual 1 (TBasic 5)); (4, TArr (TName 3))]%N in
  resolve_g (bound e (TName 1)) e [] (TName 1) = Some (TPtr TErr) /\
  resolve_g (bound e (TName 4)) e [] (TName 4) = Some (TArr (TQual 1 (TBasic 5))) /\
  resolve_g 50 [(1%N, TName 1)] [] (TFun (TName 1) [TName 1; TName 9]) = Some (TFun TErr [TErr; TErr]).
Proof. vm_compute. repeat split; reflexivity. Qed.

Print Assumptions C02_resolve_total.
Print Assumptions C02_unguarded_resolve_diverges.
