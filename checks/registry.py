# which properties have an extracted model runner, and which translators regenerate coq/gen/*.v
MODELS = ["C20"]


def translators():
    return []
