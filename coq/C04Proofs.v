From Coq Require Import List NArith ZArith Bool Arith Lia.
From PV Require Import C04Model.
From PV.gen Require Import Gen_SyntaxKind.
Import ListNotations.

Definition ends_with_eof (toks : list N) : Prop := nth_error toks (length toks - 1) = Some K_EndOfFile /\ 0 < length toks.

(** the group scan never reads outside a vector that ends with EndOfFile, and always answers *)
Lemma scan_total openk closek toks : ends_with_eof toks -> openk <> K_EndOfFile -> closek <> K_EndOfFile ->
  forall fuel la depth check, la + 1 < length toks -> length toks - la <= fuel ->
  exists r, scan fuel openk closek toks la depth check = Some r.
Proof.
  intros [Hl Hp] Ho Hc. induction fuel as [|f IH]; intros la depth check Hla Hf; [lia|]. cbn [scan].
  destruct (nth_error toks (la + 1)) as [k|] eqn:E; [|apply nth_error_None in E; lia].
  assert (Hnext : k <> K_EndOfFile -> S la + 1 < length toks).
  { intros Hk. destruct (Nat.eq_dec (la + 1) (length toks - 1)) as [Heq|]; [rewrite Heq in E; congruence|lia]. }
  destruct (N.eqb_spec k openk) as [->|]; [apply IH; [apply Hnext; exact Ho|lia]|].
  destruct (N.eqb_spec k closek) as [->|].
  { destruct (Nat.eqb depth 1); [eauto|]. apply IH; [apply Hnext; exact Hc|lia]. }
  destruct (N.eqb_spec k K_IdentifierToken) as [->|]; [apply IH; [apply Hnext; vm_compute; discriminate|lia]|].
  destruct (N.eqb k K_AsteriskToken || (N.eqb openk K_OpenParenToken && mem k [K_Keyword_const; K_Keyword_volatile; K_Keyword_restrict; K_Keyword__Atomic])) eqn:Eq.
  { apply IH; [apply Hnext|lia]. intros Hk. subst k. destruct (N.eqb openk K_OpenParenToken); vm_compute in Eq; discriminate. }
  destruct (N.eqb_spec k K_SemicolonToken) as [->|]; [cbn; eauto|].
  destruct (N.eqb_spec k K_EndOfFile) as [->|]; [cbn; eauto|].
  cbn [orb]. apply IH; [apply Hnext; assumption|lia].
Qed.

Lemma guess_total toks cur param kr : ends_with_eof toks -> S cur < length toks -> exists r, guess toks cur param kr = Some r.
Proof.
  intros He Hc. pose proof He as [Hl Hp]. unfold guess.
  destruct (nth_error toks (S cur)) as [k|] eqn:E; [|apply nth_error_None in E; lia].
  assert (Hnext : k <> K_EndOfFile -> S (S cur) < length toks).
  { intros Hk. destruct (Nat.eq_dec (S cur) (length toks - 1)) as [Heq|]; [rewrite Heq in E; congruence|lia]. }
  destruct (N.eqb k K_IdentifierToken); [eauto|].
  destruct (mem k type_specifier_kw); [eauto|]. destruct (mem k other_specifier_kw); [eauto|].
  destruct (N.eqb_spec k K_OpenParenToken) as [->|].
  { destruct param; [eauto|]. apply scan_total; [exact He|vm_compute; discriminate|vm_compute; discriminate| |lia].
    replace (S cur + 1) with (S (S cur)) by lia. apply Hnext. vm_compute. discriminate. }
  destruct (N.eqb_spec k K_OpenBracketToken) as [->|].
  { destruct param; [eauto|]. apply scan_total; [exact He|vm_compute; discriminate|vm_compute; discriminate| |lia].
    replace (S cur + 1) with (S (S cur)) by lia. apply Hnext. vm_compute. discriminate. }
  destruct (N.eqb_spec k K_CloseParenToken) as [->|].
  { cbn [orb]. destruct (nth_error toks (S (S cur))) eqn:E2; [eauto|]. apply nth_error_None in E2.
    assert (S (S cur) < length toks) by (apply Hnext; vm_compute; discriminate). lia. }
  destruct (N.eqb_spec k K_CloseBracketToken) as [->|].
  { cbn [orb]. destruct (nth_error toks (S (S cur))) eqn:E2; [eauto|]. apply nth_error_None in E2.
    assert (S (S cur) < length toks) by (apply Hnext; vm_compute; discriminate). lia. }
  cbn [orb]. destruct (N.eqb k K_CommaToken); eauto.
Qed.
