SERVED = ["C13", "C17", "C20"]
HOOKS = {
    "guard": "PSYCHEC_VERIF",
    "enable": "harness/Makefile compiles /repo's sources with -DPSYCHEC_VERIF into /verif/.cache/build-<flavour>/; "
              "so far no source change in /repo is needed: harness translation units reach non-public members "
              "through an access override local to the harness (harness/access.h)",
    "baseline_off_cmd": "cmake --build /repo/_build && cd /repo/_build && ./test-suite",
    "source_commits": [],
    "add_only": True,
}
ENGINES = [
    {"name": "coq", "path": "coq/", "serves_properties": SERVED,
     "kind_free_text": "Coq 8.16.1 development: models, specifications, proofs; Properties_<id>.v hold the property theorems"},
    {"name": "modelrun", "path": "ocaml/driver.ml", "serves_properties": SERVED,
     "kind_free_text": "models extracted with ExtrOcamlBasic and run on the same requests as the implementation"},
    {"name": "psyverif", "path": "harness/", "serves_properties": SERVED,
     "kind_free_text": "C++ correspondence harness compiled from /repo's working tree"},
]
NOTES = ("All checks: bin/check <id>; exit 1 + VIOLATION line on a violation not listed in known_findings.json; "
         "KNOWN-FINDING lines for listed ones.  See DESIGN.md.")
NOT_APPLICABLE = {}
CHECKS = {
    "C20": {
        "text": "Refinement theorem in Coq, for histories of any length with arbitrary branching: the model of VersionedMap "
                "(transcribed from the header) shows after every operation exactly the snapshot of the current revision, "
                "applyRevision(r) restores snapshot r for every existing r including 0, insertions create revision cnt+1 and "
                "change no other snapshot.  The hand-written model is tied to the header by running both on all valid histories "
                "of 5 (quick) / 6 (thorough) operations and on long random branching histories.",
        "design_ref": "DESIGN.md section 6, C20",
        "note": "Trusted: Coq kernel; the hand transcription coq/C20Model.v (unordered_map as association list observed via lookup; "
                "32-bit revision counter not modelled); extraction (ExtrOcamlBasic only) and the harness. Theorems closed under the global context.",
        "technique": "Coq refinement proof (invariant by induction over operation histories) + model/implementation correspondence",
    },
    "C17": {
        "text": "Theorem C17_all_words: for every byte string of every length, every standard and every valuation of the 22 switches, "
                "keyword recognition on or off, the kind computed by the decision programs regenerated from Keywords.cpp on this run equals "
                "the kind of the oracle-table row spelled exactly like the word whose gate holds, else IdentifierToken, and no s[i] beyond the "
                "word is read.  Proved by a symbolic checker over the trie (constraint store per path) whose soundness is proved once in Coq and "
                "which the kernel evaluates (vm_compute) on the regenerated trie.  Rows where the pinned implementation's gate differs from the "
                "cited oracle are listed as known findings; the proved table differs from the oracle at exactly those (still active) words. "
                "Translation validation: extracted interpreter vs compiled lexer on ~290k (word, options) cases per run.",
        "design_ref": "DESIGN.md section 6, C17 and Appendix A",
        "note": "Trusted: Coq kernel incl. vm_compute; translate/kw.py (validated on every run against the compiled lexer); the oracle table KwSpec.v "
                "(citations per row); extraction (ExtrOcamlBasic); harness. Modelled not verified: lexIdentifier passing exactly the word to recognize/translate. "
                "Print Assumptions: closed under the global context.",
        "technique": "Coq proof by verified symbolic checker (reflection, vm_compute) on a model regenerated from the source + translation validation",
    },
    "C13": {
        "text": "Theorems over the conversion functions as regenerated from TypeChecker.cpp on this run (IR + interpreter): C13_binary_types — for all 13 operators "
                "and all 18x18 ordered operand kinds the recorded type (or rejection) equals C11 6.3.1.1/6.3.1.8/6.5.5-6.5.9 on LP64, except at the recorded, "
                "still-active findings; C13_promotions; C13_predicates; C13_integer_constant — for EVERY value v (unbounded Z), suffix and base class, "
                "selectTypeForValue over the regenerated candidate arrays returns the first type of the 6.4.4.1p5 list that represents v whenever one does "
                "(induction on the candidate list), and C13_integer_constant_total for v < 2^64.  Floating/character constant types, the operator dispatch, "
                "std::stoull and the compound assignments are tied/decided by exhaustive correspondence (all pairs x 20 operators as programs; boundary constants x bases x suffix spellings).",
        "design_ref": "DESIGN.md section 6, C13 and Appendix C",
        "note": "Trusted: Coq kernel incl. vm_compute; translators cxx2ir.py/c13.py + IR semantics (validated each run against the compiled functions over their whole domain); "
                "hand-written dispatch/selectTypeForValue models (tied by correspondence); spec C13Spec.v; LP64 only (the implementation's conversions never consult PlatformOptions). "
                "Print Assumptions: closed under the global context.",
        "technique": "Coq proof: finite sweeps lifted to forall over enumerated kinds (vm_compute) on a model regenerated from the source + induction for all constant values; exhaustive correspondence",
    },
}
