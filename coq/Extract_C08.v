Require Import ExtrOcamlBasic.
From PV Require Import Entry_C08.
Extraction "model.ml" run.
