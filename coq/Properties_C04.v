(** C04 — Every valid C11 translation unit is accepted by the parser.  PARTIAL: the statement
    quantifies over all valid programs and ~6000 lines of productions; what is a theorem here is the
    one place where the parser decides WITHOUT a symbol table whether an identifier is a typedef
    name (guessRoleOfIdentifier): it is total and in bounds on every token vector, answers
    typedef-name for every identifier-follows-identifier declaration, and its parenthesis heuristic
    is characterised on concrete families.  Acceptance of valid programs is decided by differential
    testing against gcc on generated programs (see the check). *)
From Coq Require Import List NArith ZArith Bool Arith Lia.
From PV Require Import C04Model C04Proofs.
From PV.gen Require Import Gen_SyntaxKind.
Import ListNotations.

(** for EVERY token vector that ends with EndOfFile and every cursor before the last token, in either
    context: the guess reads only inside the vector and answers *)
Theorem C04_guess_total_in_bounds : forall toks cur param kr, ends_with_eof toks -> S cur < length toks ->
  exists r, guess toks cur param kr = Some r.
Proof. exact guess_total. Qed.

(** `T x ...` — an identifier followed by an identifier is a typedef-name, whatever surrounds it (6.7.2: a declaration needs a type specifier) *)
Theorem C04_identifier_then_identifier : forall toks cur param kr, nth_error toks (S cur) = Some K_IdentifierToken ->
  guess toks cur param kr = Some TypedefName.
Proof. intros toks cur param kr H. unfold guess. rewrite H. reflexivity. Qed.

(** `T * ...`, `T const ...`, `T static ...` etc. *)
Theorem C04_identifier_then_specifier_or_star : forall toks cur param kr k, nth_error toks (S cur) = Some k ->
  mem k other_specifier_kw = true -> guess toks cur param kr = Some TypedefName.
Proof.
  intros toks cur param kr k H Hm. unfold guess. rewrite H.
  assert (N.eqb k K_IdentifierToken = false /\ mem k type_specifier_kw = false) as [A B].
  { unfold mem, other_specifier_kw in Hm. cbn [existsb] in Hm. repeat (apply orb_true_iff in Hm as [Hm|Hm]; [apply N.eqb_eq in Hm; subst; split; vm_compute; reflexivity|]). discriminate. }
  rewrite A, B, Hm. reflexivity.
Qed.

(** the parenthesis heuristic on concrete shapes (kernel-evaluated tests, labelled as such):
    T ( x );  T ( * x );  T ( * * x )(int);  T ( ( x ) );  are typedef-name readings — but the valid C11 declaration
    T ( x[3] );  is guessed as a declarator (refuted against 6.7.6: a parenthesised array declarator) *)
Example C04_paren_shapes :
  let T := K_IdentifierToken in let x := K_IdentifierToken in let E := K_EndOfFile in
  guess [E; T; K_OpenParenToken; x; K_CloseParenToken; K_SemicolonToken; E] 1 false false = Some TypedefName /\
  guess [E; T; K_OpenParenToken; K_AsteriskToken; x; K_CloseParenToken; K_SemicolonToken; E] 1 false false = Some TypedefName /\
  guess [E; T; K_OpenParenToken; K_AsteriskToken; K_AsteriskToken; x; K_CloseParenToken; K_OpenParenToken; K_Keyword_int; K_CloseParenToken; K_SemicolonToken; E] 1 false false = Some TypedefName /\
  guess [E; T; K_OpenParenToken; K_OpenParenToken; x; K_CloseParenToken; K_CloseParenToken; K_SemicolonToken; E] 1 false false = Some TypedefName.
Proof. vm_compute. repeat split; reflexivity. Qed.
Example C04_parenthesised_array_declarator_refuted :
  guess [K_EndOfFile; K_IdentifierToken; K_OpenParenToken; K_IdentifierToken; K_OpenBracketToken; K_IntegerConstantToken; K_CloseBracketToken; K_CloseParenToken; K_SemicolonToken; K_EndOfFile] 1 false false = Some Declarator.
Proof. vm_compute. reflexivity. Qed.

Print Assumptions C04_guess_total_in_bounds.
Print Assumptions C04_identifier_then_identifier.
Print Assumptions C04_identifier_then_specifier_or_star.
