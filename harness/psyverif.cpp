// psyverif — correspondence harness: one request per input line, one canonical
// answer line per request.  Built from /repo's current sources (see Makefile).
// Answers go to the file named by -o (the assertion-enabled library prints
// "[ASSERT] ..." on stdout, which must not mix with answers).
#include <algorithm>
#include <csignal>
#include <cstdio>
#include <cstdlib>
#include <cstring>
#include <fstream>
#include <functional>
#include <iostream>
#include <map>
#include <memory>
#include <sstream>
#include <stack>
#include <string>
#include <unordered_map>
#include <unordered_set>
#include <variant>
#include <vector>
#include <sys/wait.h>
#include <unistd.h>

#include "handlers.h"

static std::map<std::string, Handler>& registry()
{
    static std::map<std::string, Handler> r;
    return r;
}
Registrar::Registrar(const char* name, Handler h) { registry()[name] = h; }

static std::string handle(const std::string& line)
{
    std::istringstream is(line);
    std::string cmd;
    is >> cmd;
    auto it = registry().find(cmd);
    if (it == registry().end())
        return "ERR unknown-request " + cmd;
    try {
        return it->second(is);
    } catch (const std::exception& e) {
        return std::string("EXC ") + e.what();
    } catch (...) {
        return "EXC unknown";
    }
}

int main(int argc, char** argv)
{
    bool useFork = false;
    int limit = 10;
    FILE* out = stdout;
    for (int i = 1; i < argc; ++i) {
        std::string a = argv[i];
        if (a == "-f") useFork = true;
        else if (a == "-t" && i + 1 < argc) limit = atoi(argv[++i]);
        else if (a == "-o" && i + 1 < argc) out = fopen(argv[++i], "w");
    }
    if (!out) { perror("open"); return 2; }
    std::string line;
    while (std::getline(std::cin, line)) {
        if (line.empty()) { fputs("\n", out); continue; }
        std::string ans;
        if (!useFork) {
            alarm(limit);          // a hang kills the batch; the driver re-runs the rest request by request in fork mode
            ans = handle(line);
            alarm(0);
        } else {
            int fd[2];
            if (pipe(fd)) { perror("pipe"); return 2; }
            fflush(out);
            pid_t pid = fork();
            if (pid == 0) {
                close(fd[0]);
                alarm(limit);
                std::string a = handle(line);
                size_t off = 0;
                while (off < a.size()) {
                    ssize_t n = write(fd[1], a.data() + off, a.size() - off);
                    if (n <= 0) break;
                    off += n;
                }
                close(fd[1]);
                _exit(0);
            }
            close(fd[1]);
            char buf[65536];
            ssize_t n;
            while ((n = read(fd[0], buf, sizeof buf)) > 0) ans.append(buf, n);
            close(fd[0]);
            int st = 0;
            waitpid(pid, &st, 0);
            if (WIFSIGNALED(st)) {
                int sg = WTERMSIG(st);
                ans = std::string("CRASH ") + (sg == SIGALRM ? "timeout" : "signal=" + std::to_string(sg));
            } else if (WEXITSTATUS(st) != 0) {
                ans = "CRASH exit=" + std::to_string(WEXITSTATUS(st));
            }
        }
        for (auto& c : ans) if (c == '\n') c = ' ';
        fputs(ans.c_str(), out);
        fputc('\n', out);
        fflush(out);      // a crash in a later request must not lose this answer
    }
    fflush(out);
    return 0;
}
