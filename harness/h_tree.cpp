// tree <cat> <opts> <hex text> -> "OK <n tokens> <dump> | diagnostics" (cat: 0 any, 1 declaration, 2 expression, 3 statement)
#include "tree.h"
using namespace pvh;

HANDLER(tree)
{
    int cat; std::string o, h; in >> cat >> o >> h;
    if (h == "-") h = "";
    auto tree = parse(unhex(h), makeOpts(o), catOf(cat));
    std::ostringstream out;
    out << "OK " << tree->tokenCount() << " " << (tree->parseExitedEarly() ? "EARLY" : "FULL");
    dumpNode(tree->rootNode(), out);
    out << " |" << diagstr(tree.get());
    return out.str();
}
