(** C17 — known findings as data: words whose gate in Keywords.cpp differs from
    the oracle of KwSpec.v.  Each entry: the word, the gate the implementation
    has (observed), and a witness option valuation (standard index, enabled
    switches) at which the two gates differ.  One-to-one with the open C17
    entries of /verif/known_findings.json (key "word=<spelling>"). *)
From Coq Require Import List NArith String Bool Arith.
From PV Require Import KwDefs KwProofs KwModel KwSpec.
From PV.gen Require Import Gen_SyntaxKind Gen_Keywords.
Import ListNotations.
Local Open Scope string_scope.

Record finding := { f_word : string; f_impl_gate : gate; f_std : nat; f_on : list nat }.

Definition kw_findings : list finding := [
  {| f_word := "restrict";  f_impl_gate := GTrue; f_std := 0; f_on := [] |};
  {| f_word := "_Bool";     f_impl_gate := GOpt O_Translate_bool_AsKeyword; f_std := 2; f_on := [] |};
  {| f_word := "static_assert"; f_impl_gate := GFalse; f_std := 2; f_on := [O_Translate_static_assert_AsKeyword] |};
  {| f_word := "complex";   f_impl_gate := GFalse; f_std := 2; f_on := [O_Translate_complex_AsKeyword] |};
  {| f_word := "char16_t";  f_impl_gate := GTrue; f_std := 2; f_on := [] |};
  {| f_word := "char32_t";  f_impl_gate := GTrue; f_std := 2; f_on := [] |};
  {| f_word := "asm";       f_impl_gate := GTrue; f_std := 2; f_on := [] |};
  {| f_word := "__asm";     f_impl_gate := GTrue; f_std := 2; f_on := [] |};
  {| f_word := "__asm__";   f_impl_gate := GTrue; f_std := 2; f_on := [] |};
  {| f_word := "__const";   f_impl_gate := GTrue; f_std := 2; f_on := [] |};
  {| f_word := "__const__"; f_impl_gate := GTrue; f_std := 2; f_on := [] |};
  {| f_word := "__inline__"; f_impl_gate := GTrue; f_std := 2; f_on := [] |};
  {| f_word := "__restrict"; f_impl_gate := GTrue; f_std := 2; f_on := [] |};
  {| f_word := "__typeof__"; f_impl_gate := GTrue; f_std := 2; f_on := [] |};
  {| f_word := "__volatile"; f_impl_gate := GTrue; f_std := 2; f_on := [] |};
  {| f_word := "__alignof__"; f_impl_gate := GTrue; f_std := 2; f_on := [] |};
  {| f_word := "__attribute"; f_impl_gate := GTrue; f_std := 2; f_on := [] |};
  {| f_word := "__attribute__"; f_impl_gate := ALT; f_std := 2; f_on := [O_extGNU_AttributeSpecifiers] |}
].

Fixpoint find_finding (w : word) (l : list finding) : option finding :=
  match l with
  | [] => None
  | f :: l' => if word_eqb (W (f_word f)) w then Some f else find_finding w l'
  end.

Definition witness_opts (f : finding) : opts :=
  (f_std f, fun k => existsb (Nat.eqb k) (f_on f)).

(** A finding is *active* when the regenerated trie still disagrees with the
    oracle on the finding's word at its witness valuation; a finding that has
    been repaired in the source drops out and the oracle's row is proved. *)
Definition finding_active (f : finding) : bool :=
  match KwModel.dispatch K_IdentifierToken recognize_table (witness_opts f) (W (f_word f)) with
  | Some k => negb (N.eqb k (spec K_IdentifierToken kw_oracle (witness_opts f) (W (f_word f))))
  | None => true
  end.
Definition kw_active : list finding := filter finding_active kw_findings.

(** The table the implementation is proved against: the oracle, with the gate
    replaced at exactly the listed (and still active) words. *)
Definition kw_effective : list row :=
  map (fun r => match find_finding (r_word r) kw_active with
                | Some f => {| r_word := r_word r; r_kind := r_kind r; r_gate := f_impl_gate f |}
                | None => r
                end) kw_oracle.

Fixpoint oracle_gate (w : word) (l : list row) : option gate :=
  match l with
  | [] => None
  | r :: l' => if word_eqb (r_word r) w then Some (r_gate r) else oracle_gate w l'
  end.

(** Every listed finding is real: at its witness the oracle's gate and the
    implementation's gate evaluate differently (so no entry is vacuous), and
    the word is a row of the oracle. *)
Definition finding_real (f : finding) : bool :=
  match oracle_gate (W (f_word f)) kw_oracle with
  | Some g => xorb (gate_eval (witness_opts f) g) (gate_eval (witness_opts f) (f_impl_gate f))
  | None => false
  end.
