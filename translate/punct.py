#!/usr/bin/env python3
"""C05: the punctuator cases of Lexer::yylex_CORE's switch (C/parser/Lexer.cpp) -> decision statements
  SKind k | SAdv | SIf c then else      (tk->syntaxK_ = K; / yyinput(); / if (yychar_ == 'c') ... else ...)
for every `case 'c':` whose body stays inside that subset.  The other cases (quotes, backslash, '/', '.', default) are
listed as untranslated.  Writes coq/gen/Gen_Punct.v"""
import os, sys
sys.path.insert(0, os.path.dirname(os.path.abspath(__file__)))
from common import *
import cxx2ir


class Outside(Exception):
    pass


def walk(n):
    yield n
    for c in n.get("inner", []) or []:
        if isinstance(c, dict):
            yield from walk(c)


def unwrap(e):
    while e.get("kind") in ("ImplicitCastExpr", "ParenExpr", "ExprWithCleanups", "ConstantExpr", "CXXFunctionalCastExpr", "MaterializeTemporaryExpr"):
        e = e["inner"][0]
    return e


def is_member(e, name):
    e = unwrap(e)
    return e.get("kind") == "MemberExpr" and e.get("name") == name


def stmts(n, kinds):
    k = n["kind"]
    if k == "CompoundStmt":
        out = []
        for c in n.get("inner", []):
            out += stmts(c, kinds)
        return out
    if k == "BreakStmt" or k == "NullStmt":
        return []
    if k == "IfStmt":
        cond = unwrap(n["inner"][0])
        then = "; ".join(stmts(n["inner"][1], kinds))
        els = "; ".join(stmts(n["inner"][2], kinds)) if len(n["inner"]) > 2 else ""

        def char_test(c, member=None, index=None):
            """yychar_ == 'c'  |  yytext_[1] == 'c'  -> the literal's value or None"""
            c = unwrap(c)
            if c.get("kind") != "BinaryOperator" or c.get("opcode") != "==":
                return None
            lhs, lit = unwrap(c["inner"][0]), unwrap(c["inner"][1])
            if lit.get("kind") != "CharacterLiteral":
                return None
            if member == "yychar_" and is_member(lhs, "yychar_"):
                return lit["value"]
            if member == "yytext_" and lhs.get("kind") == "ArraySubscriptExpr" and is_member(lhs["inner"][0], "yytext_"):
                idx = unwrap(lhs["inner"][1])
                if idx.get("kind") == "IntegerLiteral" and int(idx["value"]) == index:
                    return lit["value"]
            return None
        v = char_test(cond, "yychar_")
        if v is not None:
            return ["(SIf %d [%s] [%s])" % (v, then, els)]
        if cond.get("kind") == "BinaryOperator" and cond.get("opcode") == "&&":
            a, b = char_test(cond["inner"][0], "yychar_"), char_test(cond["inner"][1], "yytext_", 1)
            if a is not None and b is not None:
                return ["(SIf2 %d %d [%s] [%s])" % (a, b, then, els)]
        if cond.get("kind") == "CallExpr":
            callee = [r for r in walk(cond["inner"][0]) if r.get("kind") == "DeclRefExpr"]
            args = cond["inner"][1:]
            if callee and callee[0]["referencedDecl"].get("name") == "isdigit" and len(args) == 1 and is_member(args[0], "yychar_"):
                return ["(SIfDigit [%s] [%s])" % (then, els)]
        raise Outside("condition")
    if k == "BinaryOperator" and n.get("opcode") == "=":
        lhs = unwrap(n["inner"][0])
        if lhs.get("kind") == "MemberExpr" and lhs.get("name") == "syntaxK_":
            refs = [r for r in walk(n["inner"][1]) if r.get("kind") == "DeclRefExpr" and r["referencedDecl"]["kind"] == "EnumConstantDecl"]
            if len(refs) == 1:
                return ["(SKind %d)" % kinds[refs[0]["referencedDecl"]["name"]]]
        raise Outside("assignment")
    if k == "CXXMemberCallExpr":
        me = n["inner"][0]
        if me.get("kind") == "MemberExpr" and me.get("name") == "yyinput" and len(n["inner"]) == 1:
            return ["SAdv"]
        if me.get("kind") == "MemberExpr" and me.get("name", "").startswith("lex"):
            return ["SOut"]          # a sub-lexer takes over: not a punctuator
        raise Outside("call")
    raise Outside(k)


def generate():
    kinds = dict(enum_values("C/syntax/SyntaxKind.h", "SyntaxKind"))
    fn = cxx2ir.find_functions("C/parser/Lexer.cpp", ["yylex_CORE"], ["yylex_CORE"])["yylex_CORE"]
    sw = None
    for n in walk(fn):
        if n.get("kind") == "SwitchStmt":
            c = unwrap(n["inner"][0])
            if c.get("kind") == "DeclRefExpr" and c["referencedDecl"].get("name") == "ch":
                sw = n
                break
    if sw is None:
        raise TranslationError("yylex_CORE: switch (ch) not found")
    groups, cur = [], None
    for c in sw["inner"][1].get("inner", []):
        if c["kind"] == "CaseStmt":
            lab = unwrap(c["inner"][0])
            if lab.get("kind") != "CharacterLiteral":
                raise TranslationError("yylex_CORE: case label is not a character literal")
            cur = [lab["value"], [c["inner"][1]]]
            groups.append(cur)
        elif c["kind"] == "DefaultStmt":
            cur = ["default", [c["inner"][0]]]
            groups.append(cur)
        else:
            cur[1].append(c)
    progs, other = [], []
    for lab, body in groups:
        if lab == "default":
            other.append("default"); continue
        try:
            ss = []
            for b in body:
                ss += stmts(b, kinds)
            if ss == ["SOut"]:
                raise Outside("the whole case is a sub-lexer call")
            progs.append((lab, ss))
        except Outside as e:
            other.append(chr(lab))
    if len(progs) < 20:
        raise TranslationError("yylex_CORE: only %d punctuator cases inside the translated subset" % len(progs))
    out = ["(* generated by translate/punct.py from C/parser/Lexer.cpp (Lexer::yylex_CORE) — do not edit *)",
           "From Coq Require Import List NArith.", "From PV Require Import PunctDefs.", "Import ListNotations.", "Local Open Scope N_scope.", "",
           "Definition punct_cases : list (N * list stm) := ["]
    out.append(";\n".join("  (%d, [%s])" % (lab, "; ".join(ss)) for lab, ss in progs))
    out.append("].")
    out.append("(* cases of the switch outside the translated subset (byte values; modelled by hand or not at all): %s *)" % " ".join(str(ord(x)) if x != "default" else x for x in other))
    out.append("Definition punct_untranslated : list N := [%s]." % "; ".join(str(ord(x)) for x in other if x != "default"))
    write_if_changed(os.path.join(GEN, "Gen_Punct.v"), "\n".join(out) + "\n")
    return progs, other


if __name__ == "__main__":
    p, o = generate()
    print(len(p), "translated;", "untranslated:", o)
