#!/usr/bin/env python3
"""C13: TypeChecker.cpp conversion functions + TypeKind_Basic.h predicates -> IR; candidate arrays of
visitConstantExpression -> a table (suffix, octal-or-hex?) -> list of kinds.  Writes coq/gen/Gen_C13.v"""
import os, sys
sys.path.insert(0, os.path.dirname(os.path.abspath(__file__)))
from common import *
import cxx2ir

ORDER = ["performIntegerPromotion", "performSignBasedIntegerConversion", "performArithmeticConversions",
         "isSignedIntegerTypeKind", "isUnsignedIntegerTypeKind", "isIntegerTypeKind", "isRealTypeKind"]
SUFFIXES = ["None", "uOrU", "lOrL", "lOrLAnduOrU", "llOrLL", "llOrLLAnduOrU"]


def walk(n):
    yield n
    for c in n.get("inner", []) or []:
        if isinstance(c, dict):
            yield from walk(c)


def const_table(fn, enums):
    """{(suffix, octhex bool): [kind values]} from the IntegerConstant branch"""
    table = {}

    def kinds_in(stmt):
        """the single `BasicTypeKind kinds[] = {...}` declared under stmt and passed to selectTypeForValue"""
        decls = [v for v in walk(stmt) if v.get("kind") == "VarDecl" and v.get("name") == "kinds"]
        calls = [c for c in walk(stmt) if c.get("kind") == "CallExpr" and
                 any(r.get("referencedDecl", {}).get("name") == "selectTypeForValue" for r in walk(c["inner"][0]))]
        if len(decls) != 1 or len(calls) != 1:
            raise TranslationError("visitConstantExpression: expected one candidate array and one selectTypeForValue call, got %d/%d" % (len(decls), len(calls)))
        il = [x for x in walk(decls[0]) if x.get("kind") == "InitListExpr"]
        if not il:
            raise TranslationError("visitConstantExpression: candidate array without initialiser list")
        out = []
        for e in il[0]["inner"]:
            refs = [r for r in walk(e) if r.get("kind") == "DeclRefExpr" and r["referencedDecl"]["kind"] == "EnumConstantDecl"]
            if len(refs) != 1:
                raise TranslationError("visitConstantExpression: candidate not an enumerator")
            out.append(enums[refs[0]["referencedDecl"]["name"]])
        # the array passed must be this one
        if not any(r.get("referencedDecl", {}).get("id") == decls[0]["id"] for r in walk(calls[0])):
            raise TranslationError("visitConstantExpression: selectTypeForValue not called with the declared array")
        return out

    sw = None
    for n in walk(fn):
        if n.get("kind") == "SwitchStmt":
            cond = n["inner"][0]
            if any(r.get("kind") == "MemberExpr" and r.get("name") == "representationSuffix" for r in walk(cond)) and \
               any("IntegerConstant" in (r.get("type", {}).get("qualType", "")) for r in walk(cond)):
                sw = n
                break
    if sw is None:
        raise TranslationError("visitConstantExpression: switch on IntegerConstant::representationSuffix() not found")
    cur, groups = None, {}
    for c in sw["inner"][1].get("inner", []):
        node = c
        if c["kind"] == "CaseStmt":
            lab = [r for r in walk(c["inner"][0]) if r.get("kind") == "DeclRefExpr"]
            cur = lab[0]["referencedDecl"]["name"]
            groups[cur] = []
            node = c["inner"][1]
            if node["kind"] in ("CaseStmt", "DefaultStmt"):
                raise TranslationError("visitConstantExpression: shared case labels not supported")
        elif c["kind"] == "DefaultStmt":
            raise TranslationError("visitConstantExpression: default label in suffix switch")
        groups[cur].append(node)
    for suf, stmts in groups.items():
        body = {"kind": "CompoundStmt", "inner": stmts}
        ifs = [s for s in stmts if s["kind"] == "IfStmt"]
        if ifs:
            i = ifs[0]
            if not any(r.get("kind") == "MemberExpr" and r.get("name") == "isOctalOrHexadecimal" for r in walk(i["inner"][0])):
                raise TranslationError("visitConstantExpression: unexpected condition under suffix " + suf)
            if any(r.get("kind") == "UnaryOperator" for r in walk(i["inner"][0])):
                raise TranslationError("visitConstantExpression: negated isOctalOrHexadecimal")
            table[(suf, True)] = kinds_in(i["inner"][1])
            table[(suf, False)] = kinds_in(i["inner"][2])
        else:
            table[(suf, True)] = table[(suf, False)] = kinds_in(body)
        flat = []
        for st in stmts:
            flat += st.get("inner", []) if st["kind"] == "CompoundStmt" else [st]
        if not any(s["kind"] == "BreakStmt" for s in flat) and suf != list(groups)[-1]:
            raise TranslationError("visitConstantExpression: suffix case %s falls through" % suf)
    for s in SUFFIXES:
        if (s, True) not in table:
            raise TranslationError("visitConstantExpression: suffix %s not handled" % s)
    return table


def generate():
    enums = dict(cxx2ir.enum_from_ast("C/types/TypeKind_Basic.h", "BasicTypeKind"))
    fns = cxx2ir.find_functions("C/sema/TypeChecker.cpp", ["perform", "IntegerTypeKind", "isRealTypeKind"], ORDER)
    out = ["(* generated by translate/c13.py from C/sema/TypeChecker.cpp and C/types/TypeKind_Basic.h — do not edit *)",
           "From Coq Require Import List ZArith.", "From PV Require Import CxxIR.", "Import ListNotations.", "Local Open Scope Z_scope.", ""]
    for n, v in enums.items():
        out.append("Definition BK_%s : Z := %d." % (n, v))
    out.append("Definition bk_count : Z := %d." % len(enums))
    out.append("")
    defs, order = cxx2ir.translate_functions(fns, ORDER, enums, rel="C/sema/TypeChecker.cpp")
    out += defs
    out.append("Definition prog13 : list func := [%s]." % "; ".join("f_" + n for n in order))
    vc = cxx2ir.find_functions("C/sema/TypeChecker.cpp", ["visitConstantExpression"], ["visitConstantExpression"], scope="TypeChecker")["visitConstantExpression"]
    tab = const_table(vc, enums)
    out.append("")
    out.append("(* candidate arrays of visitConstantExpression: (suffix index, octal-or-hex) -> kinds; suffix order %s *)" % SUFFIXES)
    rows = []
    for i, s in enumerate(SUFFIXES):
        for oh in (False, True):
            rows.append("((%d, %s), [%s])" % (i, "true" if oh else "false", "; ".join(str(k) for k in tab[(s, oh)])))
    out.append("Definition const_candidates : list ((Z * bool) * list Z) := [\n  %s]." % ";\n  ".join(rows))
    write_if_changed(os.path.join(GEN, "Gen_C13.v"), "\n".join(out) + "\n")
    return tab


if __name__ == "__main__":
    print(generate())
