"""C09: programs that place each ambiguity form in many contexts, with every way of declaring the names involved, and a
reference reading from a positional symbol table (C scoping).

A program is a list of tokens (joined by blanks, so token k of the text is lexed token k, 1-based); `sites` lists
(form, first token, last token, name, expected reading or None when the name is undeclared) for every ambiguous construct."""

FORMS_STMT = ["mul", "call", "mul", "call", "mul2"]     # A * b ;   A ( b ) ;   A * b , * c ;  (several declarators)
FORMS_EXPR = ["cast-", "cast+", "cast*", "cast&", "cast&&", "sizeof", "alignof", "tail-", "tail+", "nest-", "nest+", "nest*", "nest&"]


class P:
    def __init__(self, rng):
        self.rng = rng
        self.toks = []
        self.scopes = [{}]        # name -> 'type' | 'obj' | 'fun'
        self.sites = []
        self.n = 0
        self.used = [set()]
        self.late = False
        self.ev = [[]]            # events for the catalogue model, one list per open compound statement (the unit is the outermost)
        self.ids = {}

    def nid(self, name):
        return self.ids.setdefault(name, len(self.ids) + 1)

    def e_type(self, name):
        self.ev[-1].append([1, self.nid(name)])

    def e_non(self, name):
        if name != "1":
            self.ev[-1].append([2, self.nid(name)])

    def e_site(self, name):
        self.ev[-1].append([3, len(self.sites), self.nid(name)])

    def fresh(self, p):
        self.n += 1
        return "%s%d" % (p, self.n)

    def emit(self, *ts):
        self.toks += list(ts)

    def look(self, name):
        for s in reversed(self.scopes):
            if name in s:
                return s[name]
        return None

    def declare(self, name, cat):
        if name in self.used[-1]:
            self.late = True          # a redeclaration after a use in the same block: C10's known finding
        self.scopes[-1][name] = cat

    # ---------------- declarations
    def decl(self, cat, name=None, block=True):
        name = name or self.fresh({"type": "T", "obj": "v", "fun": "f", "enum": "E", "arr": "a"}[cat])
        if cat == "type":
            self.emit("typedef", "int", name, ";")
            self.declare(name, "type")
            self.e_type(name)
        elif cat == "obj":
            self.emit("int", name, ";")
            self.declare(name, "obj"); self.e_non(name)
        elif cat == "arr":
            self.emit("int", name, "[", "9", "]", ";")
            self.declare(name, "obj"); self.e_non(name)
        elif cat == "fun":
            self.emit("int", name, "(", "int", ")", ";")
            self.declare(name, "fun"); self.e_non(name)
        elif cat == "enum":
            self.emit("enum", "{", name, "}", ";")
            self.declare(name, "obj"); self.e_non(name)
        return name

    def visible(self, cats):
        out, seen = [], set()
        for s in reversed(self.scopes):
            for n, c in s.items():
                if n not in seen:
                    seen.add(n)
                    if c in cats:
                        out.append(n)
        return out

    # ---------------- constructs
    def pick(self, want=None):
        """a name for the ambiguous position: declared as type / object / function, or undeclared"""
        rng = self.rng
        r = rng.random()
        cands_t, cands_o, cands_f = self.visible(["type"]), self.visible(["obj"]), self.visible(["fun"])
        if want == "callable":
            pool = cands_t + cands_f
        else:
            pool = cands_t + cands_o
        if pool and r < 0.9:
            n = rng.choice(pool)
        else:
            n = self.fresh("U")         # undeclared
        self.used[-1].add(n)
        return n

    def operand(self):
        objs = self.visible(["obj"])
        if objs and self.rng.random() < 0.8:
            return self.rng.choice(objs)         # a plain use; only ambiguity SITES on a name make a later redeclaration in the block matter
        return "1"

    def expr_site(self):
        """emit an ambiguous expression; records the site"""
        rng = self.rng
        form = rng.choice(FORMS_EXPR)
        a = self.pick()
        cat = self.look(a)
        first = len(self.toks) + 1
        if form.startswith("cast"):
            op = form[4:]
            b = self.operand()
            if op in "*&" and b == "1":
                b = self.pick_obj_or_decl()
            self.e_site(a); self.e_non(b)
            self.emit("(", a, ")", op, b)
            want = None if cat is None else ("cast" if cat == "type" else "binary")
        elif form.startswith("nest"):
            # ( A ) - ( B ) - c : an ambiguity directly in operand position of another one; what the construct means depends on both names,
            # so no reading is prescribed here (want None): the tree criteria (nothing left ambiguous without a diagnostic) apply
            op = form[4]
            b = self.pick()
            c2 = self.operand()
            self.e_site(a)
            self.emit("(", a, ")", op)
            self.sites.append((form, first, len(self.toks) + 5, a, None))
            first2 = len(self.toks) + 1
            self.e_site(b); self.e_non(c2)
            self.emit("(", b, ")", op, c2)
            self.sites.append((form, first2, len(self.toks), b, None))
            return
        elif form.startswith("tail"):
            # ( A ) - b * c : a cast of -b multiplied by c, or (A) minus the product
            op = form[4]
            b, c2 = self.operand(), self.operand()
            self.e_site(a); self.e_non(b); self.e_non(c2)
            self.emit("(", a, ")", op, b, "*", c2)
            want = None if cat is None else ("product-of-cast" if cat == "type" else "sum-with-product")
        elif form == "sizeof":
            self.e_site(a)
            self.emit("sizeof", "(", a, ")")
            want = None if cat is None else ("typename" if cat == "type" else "expression")
        else:
            self.e_site(a)
            self.emit("_Alignof", "(", a, ")")
            want = None if cat is None else ("typename" if cat == "type" else "expression")
        self.sites.append((form, first, len(self.toks), a, want))

    def pick_obj_or_decl(self):
        objs = self.visible(["obj"])
        if objs:
            return self.rng.choice(objs)
        return "1"

    def stmt_site(self, in_for=False):
        rng = self.rng
        form = "mul" if in_for else rng.choice(FORMS_STMT)
        first = len(self.toks) + 1
        if form == "mul":
            a = self.pick()
            cat = self.look(a)
            if cat == "type" or cat is None:
                b = self.fresh("d")
            else:
                b = self.operand()
                if b == "1":
                    b = self.fresh("d")
            self.e_site(a); self.e_non(b)
            self.emit(a, "*", b)
            last = len(self.toks) + (0 if in_for else 1)
            if not in_for:
                self.emit(";")
            want = None if cat is None else ("decl" if cat == "type" else "expr")
            self.sites.append(("mul", first, last, a, want))
            if cat == "type" and not in_for:
                self.declare(b, "obj")
        elif form == "mul2":
            # A * b , * c ;  — with A a typedef name: a declaration of two pointers.  A is a typedef of its own, declared right here and used by no other
            # site, and b, c are not entered into the reference symbol table: the implementation reads the statement as an expression (the known
            # finding), and names that the two sides see differently would make every later site on them disagree as well
            a = self.fresh("M")
            self.emit("typedef", "int", a, ";")
            first = len(self.toks) + 1
            b, c2 = self.fresh("d"), self.fresh("d")
            self.emit(a, "*", b, ",", "*", c2, ";")
            self.sites.append(("mul2", first, len(self.toks), a, "decl"))
        else:
            a = self.pick("callable")
            cat = self.look(a)
            b = self.fresh("d") if cat in ("type", None) else self.operand()
            if b == "1":
                b = self.fresh("d")
            self.e_site(a); self.e_non(b)
            self.emit(a, "(", b, ")", ";")
            want = None if cat is None else ("decl" if cat == "type" else "expr")
            self.sites.append(("call", first, len(self.toks), a, want))
            if cat == "type":
                self.declare(b, "obj")

    def expr_context(self):
        """an ambiguous expression inside a statement context"""
        rng = self.rng
        ctx = rng.choice(["init", "arg", "subscript", "if", "while", "return", "paren", "cond", "assign", "for-cond", "for-step", "case", "comma", "nested-call"])
        arr = self.visible(["obj"])
        if ctx == "init":
            v = self.fresh("i")
            self.e_non(v)
            self.emit("int", v, "=")
            self.expr_site()
            self.emit(";")
            self.declare(v, "obj")
        elif ctx == "arg":
            self.e_non("g0")
            self.emit("g0", "(")
            self.expr_site()
            self.emit(")", ";")
        elif ctx == "nested-call":
            self.e_non("g0")
            self.e_non("g0")
            self.emit("g0", "(", "g0", "(")
            self.expr_site()
            self.emit(")", ")", ";")
        elif ctx == "subscript":
            self.e_non("a0")
            self.emit("a0", "[")
            self.expr_site()
            self.emit("]", "=", "0", ";")
        elif ctx == "if":
            self.emit("if", "(")
            self.expr_site()
            self.emit(")", ";")
        elif ctx == "while":
            self.emit("while", "(")
            self.expr_site()
            self.emit(")", ";")
        elif ctx == "return":
            self.emit("return")
            self.expr_site()
            self.emit(";")
        elif ctx == "paren":
            self.e_non("r0")
            self.emit("r0", "=", "(", "(")
            self.expr_site()
            self.emit(")", ")", ";")
        elif ctx == "cond":
            self.e_non("r0")
            self.e_non("r0")
            self.emit("r0", "=", "r0", "?")
            self.expr_site()
            self.emit(":")
            self.expr_site()
            self.emit(";")
        elif ctx == "assign":
            self.e_non("r0")
            self.emit("r0", "+=")
            self.expr_site()
            self.emit(";")
        elif ctx == "for-cond":
            self.emit("for", "(", ";")
            self.expr_site()
            self.emit(";", ")", ";")
        elif ctx == "for-step":
            self.e_non("r0")
            self.emit("for", "(", ";", ";", "r0", "=")
            self.expr_site()
            self.emit(")", ";")
        elif ctx == "case":
            self.e_non("r0")
            self.emit("switch", "(", "r0", ")", "{", "case")
            self.ev.append([])                       # the body of the switch is a compound statement: its own enclosure
            self.expr_site()
            sub = self.ev.pop(); self.ev[-1].append([4, sub])
            self.emit(":", ";", "}")
        elif ctx == "comma":
            self.e_non("r0")
            self.e_non("r0")
            self.emit("r0", "=", "(", "r0", ",")
            self.expr_site()
            self.emit(")", ";")

    def block(self, depth, own_scope=True):
        rng = self.rng
        self.emit("{")
        self.ev.append([])
        if depth == 1 and getattr(self, "param", None):
            self.e_non(self.param)          # the parameters are catalogued in the enclosure of the body
        if own_scope:
            self.scopes.append({}); self.used.append(set())
        for _ in range(rng.randint(2, 6)):
            r = rng.random()
            if r < 0.25:
                # declare, possibly shadowing a visible name with the other category (never after a use in this block)
                cands = [n for n in self.visible(["type", "obj"]) if n not in self.scopes[-1] and n not in self.used[-1] and n not in ("g0", "a0", "r0")]
                if cands and rng.random() < 0.5:
                    n = rng.choice(cands)
                    self.decl("obj" if self.look(n) == "type" else "type", n)
                else:
                    self.decl(rng.choice(["type", "obj", "obj", "enum"]))
            elif r < 0.32 and self.visible(["type"]):
                # an unambiguous use of a typedef name: T d ;
                t = rng.choice(self.visible(["type"]))
                d = self.fresh("d")
                self.e_type(t); self.e_non(d)
                self.emit(t, d, ";")
                self.declare(d, "obj")
            elif r < 0.5:
                self.stmt_site()
            elif r < 0.85:
                self.expr_context()
            elif r < 0.9:
                self.emit("for", "(")
                self.scopes.append({}); self.used.append(set())
                self.stmt_site(in_for=True)
                self.emit(";", ";", ")", ";")
                self.scopes.pop(); u = self.used.pop(); self.used[-1] |= u
            elif r < 0.93:
                self.emit(self.fresh("l"), ":")
                self.stmt_site()
            elif depth < 3:
                self.block(depth + 1)
        if own_scope:
            self.scopes.pop()
            u = self.used.pop(); self.used[-1] |= u
        sub = self.ev.pop()
        self.ev[-1].append([4, sub])
        self.emit("}")

    def generate(self):
        rng = self.rng
        self.emit("int", "g0", "(", "int", ")", ";"); self.declare("g0", "fun"); self.e_non("g0")
        self.emit("int", "a0", "[", "9", "]", ";"); self.declare("a0", "obj"); self.e_non("a0")
        self.emit("int", "r0", ";"); self.declare("r0", "obj"); self.e_non("r0")
        for _ in range(rng.randint(1, 5)):
            self.decl(rng.choice(["type", "type", "obj", "fun", "enum"]))
        fname = self.fresh("k")
        self.e_non(fname)
        self.emit("int", fname, "(")
        self.scopes.append({}); self.used.append(set())
        if rng.random() < 0.6:
            p = self.fresh("p")
            # a parameter may shadow a file-scope typedef
            cands = [n for n in self.visible(["type"])]
            if cands and rng.random() < 0.3:
                p = rng.choice(cands)
            self.emit("int", p)
            self.declare(p, "obj")
            self.param = p
        else:
            self.emit("void")
            self.param = None
        self.emit(")")
        self.block(1, own_scope=False)        # the parameters and the outermost block of the body share one scope (6.2.1-4)
        self.scopes.pop(); self.used.pop()
        return self

    def model_request(self):
        def enc(items):
            out = []
            for it in items:
                if it[0] == 4:
                    out += [4, len(it[1])] + enc(it[1])
                else:
                    out += it
            return out
        top = self.ev[0]
        return [len(top)] + enc(top)

    def text(self):
        return " ".join(self.toks)
