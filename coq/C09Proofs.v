From Coq Require Import List NArith Bool Arith Lia.
From PV Require Import C09Model.
Import ListNotations.

Section TrInd.
  Variable P : tr -> Prop.
  Hypothesis Hl : P Leaf.
  Hypothesis Hn : forall c kids, Forall (fun sk => P (snd sk)) kids -> P (Node c kids).
  Hypothesis Ha : forall a b, P a -> P b -> P (Amb a b).
  Fixpoint tr_ind' (t : tr) : P t :=
    match t with
    | Leaf => Hl
    | Node c kids => Hn c kids ((fix go (l : list (nat * tr)) : Forall (fun sk => P (snd sk)) l :=
                                   match l with [] => Forall_nil _ | x :: l' => Forall_cons x (tr_ind' (snd x)) (go l') end) kids)
    | Amb a b => Ha a b (tr_ind' a) (tr_ind' b)
    end.
End TrInd.

Definition good handled pick (t : tr) : Prop := exists t', dis handled pick t = Some t' /\ noamb t' = true.

(** when every slot is handled and decisions are conclusive, the traversal completes and leaves no ambiguity node *)
Lemma dis_complete_gen handled pick : (forall c s, handled c s = true) ->
  forall t, wf t = true ->
  match t with Amb a b => good handled pick a /\ good handled pick b | _ => good handled pick t end.
Proof.
  intros Hh. induction t using tr_ind'; intros Hwf.
  - exists Leaf. split; reflexivity.
  - cbn [wf] in Hwf. unfold good. cbn [dis].
    assert (exists l', (fix go (l : list (nat * tr)) : option (list (nat * tr)) :=
              match l with
              | [] => Some []
              | (s, k) :: l' =>
                  match (if handled c s then match k with Amb a b => if pick a b then dis handled pick a else dis handled pick b | _ => dis handled pick k end else dis handled pick k),
                        go l' with Some x, Some y => Some ((s, x) :: y) | _, _ => None end
              end) kids = Some l' /\ forallb (fun sk => noamb (snd sk)) l' = true) as [l' [E N]].
    { induction kids as [|[s k] kids IHk]; [exists []; split; reflexivity|].
      inversion H as [|? ? Hk Hrest]; subst. cbn [forallb snd] in Hwf. apply andb_true_iff in Hwf as [Wk Wr].
      destruct (IHk Hrest Wr) as [l' [E N]]. rewrite E. rewrite Hh. cbn [snd] in Hk. specialize (Hk Wk).
      destruct k as [|c' kids'|a b].
      - destruct Hk as [x [Ex Nx]]. rewrite Ex. exists ((s, x) :: l'). split; [reflexivity|]. cbn [forallb snd]. rewrite Nx, N. reflexivity.
      - destruct Hk as [x [Ex Nx]]. rewrite Ex. exists ((s, x) :: l'). split; [reflexivity|]. cbn [forallb snd]. rewrite Nx, N. reflexivity.
      - destruct Hk as [[x [Ex Nx]] [y [Ey Ny]]]. destruct (pick a b).
        + rewrite Ex. exists ((s, x) :: l'). split; [reflexivity|]. cbn [forallb snd]. rewrite Nx, N. reflexivity.
        + rewrite Ey. exists ((s, y) :: l'). split; [reflexivity|]. cbn [forallb snd]. rewrite Ny, N. reflexivity. }
    rewrite E. cbn. exists (Node c l'). split; [reflexivity|]. cbn [noamb]. exact N.
  - cbn [wf] in Hwf. apply andb_true_iff in Hwf as [Hwf Wb]. apply andb_true_iff in Hwf as [Hwf Wa]. apply andb_true_iff in Hwf as [Pa Pb].
    specialize (IHt1 Wa). specialize (IHt2 Wb). split.
    + destruct t1; [exact IHt1|exact IHt1|discriminate Pa].
    + destruct t2; [exact IHt2|exact IHt2|discriminate Pb].
Qed.

Lemma dis_complete handled pick : (forall c s, handled c s = true) ->
  forall t, wf t = true -> plain t = true -> exists t', dis handled pick t = Some t' /\ noamb t' = true.
Proof.
  intros Hh t Hwf Hp. pose proof (dis_complete_gen handled pick Hh t Hwf) as H. destruct t; [exact H|exact H|discriminate Hp].
Qed.

(** and an unhandled slot holding an ambiguity node makes the traversal quit with the node still there *)
Lemma dis_unhandled handled pick c s a b rest : handled c s = false -> dis handled pick (Node c ((s, Amb a b) :: rest)) = None.
Proof. intros H. cbn [dis]. rewrite H. cbn [dis]. reflexivity. Qed.

(* ------------------------------------------------------------------ the name catalogue *)
Definition ment_t (l : list item) (n : N) : bool := existsb (fun it => match it with IType m => N.eqb m n | _ => false end) l.
Definition ment_n (l : list item) (n : N) : bool := existsb (fun it => match it with INon m => N.eqb m n | _ => false end) l.

Lemma mt_t n r m : ment_t (IType n :: r) m = N.eqb n m || ment_t r m.  Proof. reflexivity. Qed.
Lemma mt_n n r m : ment_t (INon n :: r) m = ment_t r m.  Proof. reflexivity. Qed.
Lemma mn_t n r m : ment_n (IType n :: r) m = ment_n r m.  Proof. reflexivity. Qed.
Lemma mn_n n r m : ment_n (INon n :: r) m = N.eqb n m || ment_n r m.  Proof. reflexivity. Qed.
Lemma mt_b b r m : ment_t (IBlock b :: r) m = ment_t r m.  Proof. reflexivity. Qed.
Lemma mn_b b r m : ment_n (IBlock b :: r) m = ment_n r m.  Proof. reflexivity. Qed.
Lemma mt_s i n r m : ment_t (ISite i n :: r) m = ment_t r m.  Proof. reflexivity. Qed.
Lemma mn_s i n r m : ment_n (ISite i n :: r) m = ment_n r m.  Proof. reflexivity. Qed.
Ltac mm := rewrite ?mt_t, ?mt_n, ?mn_t, ?mn_n, ?mt_b, ?mn_b, ?mt_s, ?mn_s.
Ltac mmin H := rewrite ?mt_t, ?mt_n, ?mn_t, ?mn_n, ?mt_b, ?mn_b, ?mt_s, ?mn_s in H.

Lemma depth_remove_same l n : depth_of (remove l n) n = None.
Proof. induction l as [|[m d] l IH]; cbn; [reflexivity|]. destruct (N.eqb_spec n m); [exact IH|]. cbn. destruct (N.eqb_spec n m); [contradiction|exact IH]. Qed.
Lemma depth_remove_other l n m : m <> n -> depth_of (remove l n) m = depth_of l m.
Proof.
  intros Hne. induction l as [|[k d] l IH]; cbn; [reflexivity|]. destruct (N.eqb_spec n k) as [->|].
  - destruct (N.eqb_spec m k); [contradiction|exact IH].
  - cbn. destruct (N.eqb_spec m k); [reflexivity|exact IH].
Qed.

(** the effect of one catalogUse on both maps, in terms of depths *)
Lemma use_in_own own other d n m :
  depth_of (fst (use_in own other d n)) m =
  if N.eqb m n then (match depth_of own n with Some k => Some k | None => Some d end) else depth_of own m.
Proof.
  unfold use_in, has. cbn [fst]. destruct (depth_of own n) eqn:E.
  - destruct (N.eqb_spec m n) as [->|]; [exact E|reflexivity].
  - cbn [depth_of]. destruct (N.eqb_spec m n) as [->|]; reflexivity.
Qed.
Lemma use_in_other own other d n m :
  depth_of (snd (use_in own other d n)) m =
  if N.eqb m n then (match depth_of other n with Some k => if Nat.ltb k d then None else Some k | None => None end) else depth_of other m.
Proof.
  unfold use_in. cbn [snd]. destruct (depth_of other n) as [k|] eqn:E.
  - destruct (Nat.ltb k d).
    + destruct (N.eqb_spec m n) as [->|Hne]; [apply depth_remove_same|apply depth_remove_other; exact Hne].
    + destruct (N.eqb_spec m n) as [->|]; [exact E|reflexivity].
  - destruct (N.eqb_spec m n) as [->|]; [exact E|reflexivity].
Qed.

Definition pre (d : nat) (c : cat) (l : list item) : Prop :=
  (forall m k, depth_of (tys c) m = Some k -> k < d \/ ment_n l m = false) /\
  (forall m k, depth_of (nts c) m = Some k -> k < d \/ ment_t l m = false) /\
  (forall m, ment_t l m && ment_n l m = false).

Definition hasb (o : option nat) : bool := match o with Some _ => true | None => false end.

(** the catalogue of a block after all its own mentions, for every start catalogue and item list *)
Lemma final_char d : forall l c, pre d c l -> forall m,
  has (tys (final_of d c l)) m = ment_t l m || (has (tys c) m && negb (ment_n l m)) /\
  has (nts (final_of d c l)) m = ment_n l m || (has (nts c) m && negb (ment_t l m)).
Proof.
  induction l as [|it r IH]; intros c [P1 [P2 P3]] m.
  - cbn. rewrite !andb_true_r. split; reflexivity.
  - unfold final_of. cbn [fold_left]. fold (final_of d (step d c it) r).
    destruct it as [n|n|b|id n].
    + (* a use as a type *)
      assert (Hsc : ment_n r n = false).
      { specialize (P3 n). mmin P3. rewrite N.eqb_refl in P3. cbn in P3. exact P3. }
      set (c1 := step d c (IType n)).
      assert (Dt : forall x, depth_of (tys c1) x = if N.eqb x n then (match depth_of (tys c) n with Some k => Some k | None => Some d end) else depth_of (tys c) x).
      { intros x. unfold c1, step, use_type. pose proof (use_in_own (tys c) (nts c) d n x) as H. destruct (use_in (tys c) (nts c) d n). exact H. }
      assert (Dn : forall x, depth_of (nts c1) x = if N.eqb x n then (match depth_of (nts c) n with Some k => if Nat.ltb k d then None else Some k | None => None end) else depth_of (nts c) x).
      { intros x. unfold c1, step, use_type. pose proof (use_in_other (tys c) (nts c) d n x) as H. destruct (use_in (tys c) (nts c) d n). exact H. }
      assert (Hn_gone : depth_of (nts c1) n = None).
      { rewrite Dn, N.eqb_refl. destruct (depth_of (nts c) n) as [k|] eqn:E; [|reflexivity].
        destruct (Nat.ltb_spec k d); [reflexivity|]. destruct (P2 n k E) as [H1|H1]; [lia|]. mmin H1. rewrite N.eqb_refl in H1. discriminate. }
      assert (Hpre : pre d c1 r).
      { split; [|split].
        - intros x k Hx. rewrite Dt in Hx. destruct (N.eqb_spec x n) as [->|Hne]; [right; exact Hsc|].
          destruct (P1 x k Hx) as [H1|H1]; [left; exact H1|right]. mmin H1. exact H1.
        - intros x k Hx. destruct (N.eqb_spec x n) as [->|Hne]; [rewrite Hn_gone in Hx; discriminate|].
          rewrite Dn in Hx. destruct (N.eqb_spec x n); [contradiction|]. destruct (P2 x k Hx) as [H1|H1]; [left; exact H1|right].
          mmin H1. destruct (N.eqb_spec n x); [congruence|]. exact H1.
        - intros x. specialize (P3 x). mmin P3. destruct (N.eqb n x); cbn in P3; [|exact P3].
          destruct (ment_n r x); [discriminate|]. apply andb_false_r. }
      destruct (IH c1 Hpre m) as [A B]. rewrite A, B. unfold has. mm.
      destruct (N.eqb_spec m n) as [->|Hne].
      * pose proof Hn_gone as G. rewrite Dn, N.eqb_refl in G. rewrite Dt, Dn, !N.eqb_refl, G, Hsc. cbn [negb orb]. rewrite andb_true_r. split.
        -- destruct (depth_of (tys c) n); cbn; rewrite ?orb_true_r; reflexivity.
        -- cbn. rewrite andb_false_r. reflexivity.
      * rewrite Dt, Dn. destruct (N.eqb_spec m n); [contradiction|]. destruct (N.eqb_spec n m); [congruence|]. cbn [orb]. split; reflexivity.
    + (* a use as a non-type: symmetric *)
      assert (Hsc : ment_t r n = false).
      { specialize (P3 n). mmin P3. rewrite N.eqb_refl in P3. cbn in P3. rewrite andb_true_r in P3. exact P3. }
      set (c1 := step d c (INon n)).
      assert (Dn : forall x, depth_of (nts c1) x = if N.eqb x n then (match depth_of (nts c) n with Some k => Some k | None => Some d end) else depth_of (nts c) x).
      { intros x. unfold c1, step, use_nontype. pose proof (use_in_own (nts c) (tys c) d n x) as H. destruct (use_in (nts c) (tys c) d n). exact H. }
      assert (Dt : forall x, depth_of (tys c1) x = if N.eqb x n then (match depth_of (tys c) n with Some k => if Nat.ltb k d then None else Some k | None => None end) else depth_of (tys c) x).
      { intros x. unfold c1, step, use_nontype. pose proof (use_in_other (nts c) (tys c) d n x) as H. destruct (use_in (nts c) (tys c) d n). exact H. }
      assert (Ht_gone : depth_of (tys c1) n = None).
      { rewrite Dt, N.eqb_refl. destruct (depth_of (tys c) n) as [k|] eqn:E; [|reflexivity].
        destruct (Nat.ltb_spec k d); [reflexivity|]. destruct (P1 n k E) as [H1|H1]; [lia|]. mmin H1. rewrite N.eqb_refl in H1. discriminate. }
      assert (Hpre : pre d c1 r).
      { split; [|split].
        - intros x k Hx. destruct (N.eqb_spec x n) as [->|Hne]; [rewrite Ht_gone in Hx; discriminate|].
          rewrite Dt in Hx. destruct (N.eqb_spec x n); [contradiction|]. destruct (P1 x k Hx) as [H1|H1]; [left; exact H1|right].
          mmin H1. destruct (N.eqb_spec n x); [congruence|]. exact H1.
        - intros x k Hx. rewrite Dn in Hx. destruct (N.eqb_spec x n) as [->|Hne]; [right; exact Hsc|].
          destruct (P2 x k Hx) as [H1|H1]; [left; exact H1|right]. mmin H1. exact H1.
        - intros x. specialize (P3 x). mmin P3. destruct (N.eqb n x); cbn in P3; [|exact P3].
          rewrite andb_true_r in P3. rewrite P3. reflexivity. }
      destruct (IH c1 Hpre m) as [A B]. rewrite A, B. unfold has. mm.
      destruct (N.eqb_spec m n) as [->|Hne].
      * pose proof Ht_gone as G. rewrite Dt, N.eqb_refl in G. rewrite Dt, Dn, !N.eqb_refl, G, Hsc. cbn [negb orb]. rewrite andb_true_r. split.
        -- cbn. rewrite andb_false_r. reflexivity.
        -- destruct (depth_of (nts c) n); cbn; rewrite ?orb_true_r; reflexivity.
      * rewrite Dt, Dn. destruct (N.eqb_spec m n); [contradiction|]. destruct (N.eqb_spec n m); [congruence|]. cbn [orb]. split; reflexivity.
    + cbn [step]. apply IH. destruct (conj P1 (conj P2 P3)) as [Q1 [Q2 Q3]]. split; [|split]; [exact Q1|exact Q2|exact Q3].
    + cbn [step]. apply IH. split; [|split]; [exact P1|exact P2|exact P3].
Qed.
