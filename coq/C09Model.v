(** C09 — (i) the disambiguator's traversal over a generic tree: which children are REPLACED when
    they are ambiguity nodes; (ii) the name catalogue of the syntax-correlation strategy and its
    decisions. *)
From Coq Require Import List NArith Bool Arith.
Import ListNotations.

(* ------------------------------------------------------------------ (i) traversal *)
Inductive tr := Leaf | Node (cls : nat) (kids : list (nat * tr)) | Amb (a b : tr).

Section Dis.
  Variable handled : nat -> nat -> bool.     (* class, slot: passed to visitMaybeAmbiguous* by the class's visit function *)
  Variable pick : tr -> tr -> bool.          (* a conclusive decision: true = first alternative *)

  (** None = the generic visit reached an ambiguity node: Disambiguator::visitAmbiguous* quits the
      traversal and the node stays in the tree *)
  Fixpoint dis (t : tr) : option tr :=
    match t with
    | Leaf => Some Leaf
    | Amb _ _ => None
    | Node c kids =>
        option_map (Node c)
          ((fix go (l : list (nat * tr)) : option (list (nat * tr)) :=
              match l with
              | [] => Some []
              | (s, k) :: l' =>
                  let k' := if handled c s
                            then match k with Amb a b => if pick a b then dis a else dis b | _ => dis k end
                            else dis k in
                  match k', go l' with Some x, Some y => Some ((s, x) :: y) | _, _ => None end
              end) kids)
    end.
End Dis.

Fixpoint noamb (t : tr) : bool :=
  match t with Leaf => true | Amb _ _ => false | Node _ kids => forallb (fun sk => noamb (snd sk)) kids end.
(** what the parser builds: the alternatives of an ambiguity node are ordinary nodes, the root is one too *)
Definition plain (t : tr) : bool := match t with Amb _ _ => false | _ => true end.
Fixpoint wf (t : tr) : bool :=
  match t with
  | Leaf => true
  | Amb a b => plain a && plain b && wf a && wf b
  | Node _ kids => forallb (fun sk => wf (snd sk)) kids
  end.

(* ------------------------------------------------------------------ (ii) the name catalogue *)
(** an enclosure: names used as types / as non-types, each with the nesting depth at which the
    entry was made *)
Record cat := { tys : list (N * nat); nts : list (N * nat) }.
Fixpoint depth_of (l : list (N * nat)) (n : N) : option nat :=
  match l with [] => None | (m, d) :: l' => if N.eqb n m then Some d else depth_of l' n end.
Fixpoint remove (l : list (N * nat)) (n : N) : list (N * nat) :=
  match l with [] => [] | (m, d) :: l' => if N.eqb n m then remove l' n else (m, d) :: remove l' n end.
Definition has (l : list (N * nat)) (n : N) : bool := match depth_of l n with Some _ => true | None => false end.

(** catalogUse_CORE<Use, Other>(name) at nesting depth [d]: insert if absent; erase the entry of
    the other kind when it was made at a smaller depth *)
Definition use_in (own other : list (N * nat)) (d : nat) (n : N) : list (N * nat) * list (N * nat) :=
  let own' := if has own n then own else (n, d) :: own in
  let other' := match depth_of other n with Some d' => if Nat.ltb d' d then remove other n else other | None => other end in
  (own', other').
Definition use_type (c : cat) (d : nat) (n : N) : cat := let (a, b) := use_in (tys c) (nts c) d n in {| tys := a; nts := b |}.
Definition use_nontype (c : cat) (d : nat) (n : N) : cat := let (a, b) := use_in (nts c) (tys c) d n in {| tys := b; nts := a |}.

(** a block: declarations / uses in source order, nested blocks, ambiguity sites *)
Inductive item := IType (n : N) | INon (n : N) | IBlock (b : list item) | ISite (id : nat) (n : N).

(** the catalogue of a block once all of ITS OWN mentions are in (nested blocks work on copies) *)
Definition step (d : nat) (c : cat) (it : item) : cat :=
  match it with IType n => use_type c d n | INon n => use_nontype c d n | _ => c end.
Definition final_of (d : nat) (c : cat) (l : list item) : cat := fold_left (step d) l c.

(** the cataloguer + disambiguator: a nested block starts from a COPY of the enclosing catalogue as
    it is at that point; the sites of a block are decided with the block's FINAL catalogue.
    [sites d cf c it]: [cf] the final catalogue of the block [it] sits in, [c] the catalogue at this point *)
Fixpoint sites (d : nat) (cf c : cat) (it : item) : list (nat * N * cat) :=
  match it with
  | ISite id n => [(id, n, cf)]
  | IBlock sub =>
      let cf' := final_of (S d) c sub in
      (fix go (c' : cat) (l : list item) : list (nat * N * cat) :=
         match l with
         | [] => []
         | x :: r => sites (S d) cf' c' x ++ go (step (S d) c' x) r
         end) c sub
  | _ => []
  end.
Fixpoint sites_list (d : nat) (cf c : cat) (l : list item) : list (nat * N * cat) :=
  match l with [] => [] | x :: r => sites d cf c x ++ sites_list d cf (step d c x) r end.
Definition empty_cat : cat := {| tys := []; nts := [] |}.
Definition unit_sites (l : list item) : list (nat * N * cat) := sites_list 1 (final_of 1 empty_cat l) empty_cat l.

(** decisions of SyntaxCorrelationDisambiguator *)
Inductive decision := KeepType | KeepNonType | Inconclusive.
Definition decide_expr (c : cat) (n : N) : decision :=          (* cast-or-binary, type-name-or-expression *)
  if has (tys c) n then KeepType else if has (nts c) n then KeepNonType else Inconclusive.
Definition decide_stmt (c : cat) (n : N) : decision :=          (* multiplication-or-pointer-declaration *)
  if has (tys c) n && negb (has (nts c) n) then KeepType
  else if has (nts c) n && negb (has (tys c) n) then KeepNonType else Inconclusive.
