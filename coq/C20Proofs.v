(** C20 — refinement proof: VersionedMap (model) refines the snapshot spec. *)
From Coq Require Import Lia.
From PV Require Import C20Model.

Section Proofs.
Variables K V : Type.
Variable keqb : K -> K -> bool.
Notation vstate := (vstate K V).
Notation sstate := (sstate K V).
Notation vop := (vop K V).

Record Inv (s : vstate) (ss : sstate) : Prop := {
  inv_len_p : length (parents s) = length (commands s);
  inv_len_s : length (snaps ss) = S (length (commands s));
  inv_cur   : cur s = scur ss;
  inv_cur_le: cur s <= length (commands s);
  inv_map   : vmap s = nth (cur s) (snaps ss) [];
  inv_zero  : nth 0 (snaps ss) [] = [];
  inv_link  : forall r p, nth_error (parents s) r = Some p ->
                p <= r /\ exists c, nth_error (commands s) r = Some c /\
                                    nth (S r) (snaps ss) [] = c :: nth p (snaps ss) []
}.

Lemma inv_init : Inv (vinit K V) (sinit K V).
Proof.
  constructor; cbn; auto.
  intros [|r] p H; discriminate H.
Qed.

Lemma replay_snoc cmds l r :
  replay K V cmds (l ++ [r]) =
  match nth_error cmds (pred r) with
  | Some c => c :: replay K V cmds l
  | None => replay K V cmds l
  end.
Proof. unfold replay. rewrite fold_left_app. cbn. reflexivity. Qed.

Lemma replay_chain s ss : Inv s ss ->
  forall fuel r, r <= length (commands s) -> r < fuel ->
    replay K V (commands s) (rev (chain fuel (parents s) r)) = nth r (snaps ss) [].
Proof.
  intros I fuel. induction fuel as [|f IH]; intros r Hr Hf; [lia|].
  destruct r as [|r']; cbn [chain].
  - cbn. symmetry. apply (inv_zero _ _ I).
  - destruct (nth_error (parents s) r') as [p|] eqn:E.
    + destruct (inv_link _ _ I r' p E) as [Hp [c [Hc Hs]]].
      cbn [rev]. rewrite replay_snoc. cbn [pred]. rewrite Hc.
      rewrite IH by lia. symmetry. exact Hs.
    + exfalso. apply nth_error_None in E. rewrite (inv_len_p _ _ I) in E. lia.
Qed.

Lemma chain_nonempty s ss : Inv s ss -> forall f r,
  S r <= length (commands s) -> chain (S f) (parents s) (S r) <> [].
Proof.
  intros I f r Hr. cbn [chain].
  destruct (nth_error (parents s) r) eqn:E; [discriminate|].
  apply nth_error_None in E. rewrite (inv_len_p _ _ I) in E. lia.
Qed.

Lemma inv_apply s ss r : Inv s ss -> r <= cnt K V s ->
  Inv (apply_revision K V s r) (sstep K V ss (App r)).
Proof.
  intros I Hr. unfold cnt in Hr.
  assert (HM : vmap (apply_revision K V s r) = nth r (snaps ss) []).
  { unfold apply_revision.
    destruct (chain (S (cnt K V s)) (parents s) r) eqn:E.
    - destruct r as [|r'].
      + cbn. symmetry. apply (inv_zero _ _ I).
      + exfalso. revert E. apply (chain_nonempty s ss I). exact Hr.
    - cbn [vmap]. rewrite <- E. apply (replay_chain s ss I). exact Hr. unfold cnt. lia. }
  assert (HC : commands (apply_revision K V s r) = commands s
            /\ parents (apply_revision K V s r) = parents s
            /\ cur (apply_revision K V s r) = r).
  { unfold apply_revision.
    destruct (chain (S (cnt K V s)) (parents s) r); destruct r; cbn; auto. }
  destruct HC as [H1 [H2 H3]].
  constructor; rewrite ?H1, ?H2, ?H3; cbn [sstep snaps scur].
  - apply (inv_len_p _ _ I).
  - apply (inv_len_s _ _ I).
  - reflexivity.
  - exact Hr.
  - exact HM.
  - apply (inv_zero _ _ I).
  - apply (inv_link _ _ I).
Qed.

Lemma inv_insert s ss c : Inv s ss ->
  Inv (insert_or_assign K V s c) (sstep K V ss (Ins c)).
Proof.
  intros I.
  pose proof (inv_len_p _ _ I) as Lp. pose proof (inv_len_s _ _ I) as Ls.
  pose proof (inv_cur_le _ _ I) as Lc. pose proof (inv_cur _ _ I) as Ec.
  constructor; cbn [insert_or_assign sstep commands parents cur vmap snaps scur cnt].
  - rewrite !app_length. cbn. lia.
  - rewrite !app_length. cbn. lia.
  - unfold cnt. lia.
  - rewrite app_length. cbn. unfold cnt. lia.
  - unfold cnt. rewrite app_nth2 by lia. rewrite Ls, Nat.sub_diag. cbn.
    unfold assign. rewrite (inv_map _ _ I), Ec. reflexivity.
  - rewrite app_nth1 by lia. apply (inv_zero _ _ I).
  - intros r p H.
    destruct (Nat.lt_ge_cases r (length (parents s))) as [Hlt|Hge].
    + rewrite nth_error_app1 in H by exact Hlt.
      destruct (inv_link _ _ I r p H) as [Hp [c' [Hc' Hs]]].
      split; [exact Hp|]. exists c'. split.
      * rewrite nth_error_app1 by lia. exact Hc'.
      * rewrite !app_nth1 by lia. exact Hs.
    + rewrite nth_error_app2 in H by exact Hge.
      destruct (r - length (parents s)) as [|d] eqn:D.
      2:{ destruct d; discriminate H. }
      cbn in H. injection H as H. subst p.
      assert (r = length (commands s)) by lia. subst r.
      split; [lia|]. exists c. split.
      * rewrite nth_error_app2 by lia. rewrite Nat.sub_diag. reflexivity.
      * rewrite app_nth2 by lia. rewrite Ls, Nat.sub_diag. cbn.
        rewrite app_nth1 by lia. rewrite Ec. reflexivity.
Qed.

Lemma cnt_step s o : cnt K V (vstep K V s o) =
  match o with Ins _ => S (cnt K V s) | App _ => cnt K V s end.
Proof.
  destruct o as [c|r]; cbn [vstep].
  - unfold cnt, insert_or_assign. cbn. rewrite app_length. cbn. lia.
  - unfold cnt, apply_revision.
    destruct (chain _ _ _); destruct r; reflexivity.
Qed.

Lemma inv_run_from ops : forall s ss, Inv s ss ->
  valid_from K V (cnt K V s) ops = true ->
  Inv (fold_left (vstep K V) ops s) (fold_left (sstep K V) ops ss).
Proof.
  induction ops as [|o ops IH]; intros s ss I Hv; cbn [fold_left]; [exact I|].
  destruct o as [c|r]; cbn [valid_from] in Hv.
  - apply IH.
    + apply inv_insert. exact I.
    + rewrite cnt_step. exact Hv.
  - apply andb_prop in Hv. destruct Hv as [Hr Hv]. apply Nat.leb_le in Hr.
    apply IH.
    + apply inv_apply; assumption.
    + rewrite cnt_step. exact Hv.
Qed.

(** Every valid history: the concrete map is, binding for binding, the
    snapshot of the revision that is current. *)
Theorem vmap_refines_snapshots ops : valid K V ops = true ->
  Inv (vrun K V ops) (srun K V ops).
Proof. intros Hv. apply inv_run_from; [apply inv_init | exact Hv]. Qed.

Corollary restore_exact ops r : valid K V ops = true -> r <= cnt K V (vrun K V ops) ->
  forall k, lookup keqb k (vmap (apply_revision K V (vrun K V ops) r))
          = lookup keqb k (nth r (snaps (srun K V ops)) []).
Proof.
  intros Hv Hr k.
  pose proof (inv_apply _ _ r (vmap_refines_snapshots ops Hv) Hr) as I.
  rewrite (inv_map _ _ I). rewrite (inv_cur _ _ I). cbn. reflexivity.
Qed.

(** An insertion makes revision cnt+1, makes it current, and changes no
    existing snapshot. *)
Lemma snaps_prefix s o : exists ext, snaps (sstep K V s o) = snaps s ++ ext.
Proof. destruct o; cbn; [eexists; reflexivity | exists []; rewrite app_nil_r; reflexivity]. Qed.

Lemma srun_prefix ops1 ops2 : exists ext,
  snaps (srun K V (ops1 ++ ops2)) = snaps (srun K V ops1) ++ ext.
Proof.
  unfold srun. rewrite fold_left_app. generalize (fold_left (sstep K V) ops1 (sinit K V)) as s.
  induction ops2 as [|o t IH]; intros s; cbn [fold_left].
  - exists []. rewrite app_nil_r. reflexivity.
  - destruct (IH (sstep K V s o)) as [e He]. destruct (snaps_prefix s o) as [e0 He0].
    exists (e0 ++ e). rewrite He, He0, app_assoc. reflexivity.
Qed.

Theorem fresh_revision ops c : valid K V ops = true ->
  let s := vrun K V ops in let s' := insert_or_assign K V s c in
  cur s' = S (cnt K V s) /\ cnt K V s' = S (cnt K V s) /\
  (forall r, r <= cnt K V s ->
     nth r (snaps (srun K V (ops ++ [Ins c]))) [] = nth r (snaps (srun K V ops)) []).
Proof.
  intros Hv s s'. split; [reflexivity|]. split.
  - unfold s'. apply (cnt_step s (Ins c)).
  - intros r Hr. unfold srun. rewrite fold_left_app. cbn [fold_left sstep snaps].
    pose proof (inv_len_s _ _ (vmap_refines_snapshots ops Hv)) as Ls.
    unfold cnt in Hr. fold s in Ls. unfold srun in Ls.
    rewrite app_nth1; [reflexivity|]. lia.
Qed.

(** Later operations never alter what an existing revision restores. *)
Theorem history_monotone ops1 ops2 r : valid K V ops1 = true ->
  r <= cnt K V (vrun K V ops1) ->
  nth r (snaps (srun K V (ops1 ++ ops2))) [] = nth r (snaps (srun K V ops1)) [].
Proof.
  intros Hv Hr. destruct (srun_prefix ops1 ops2) as [e He]. rewrite He.
  pose proof (inv_len_s _ _ (vmap_refines_snapshots ops1 Hv)) as Ls. unfold cnt in Hr.
  apply app_nth1. lia.
Qed.

(** The walk over reverts_ terminates: parents strictly decrease, so fuel
    cnt+1 always suffices (more fuel gives the same chain). *)
Lemma chain_fuel_enough s ss : Inv s ss -> forall f1 f2 r,
  r < f1 -> r < f2 -> chain f1 (parents s) r = chain f2 (parents s) r.
Proof.
  intros I f1. induction f1 as [|f1 IH]; intros f2 r H1 H2; [lia|].
  destruct f2 as [|f2]; [lia|]. destruct r as [|r]; [reflexivity|]. cbn [chain].
  destruct (nth_error (parents s) r) as [p|] eqn:E; [|reflexivity].
  destruct (inv_link _ _ I r p E) as [Hp _]. f_equal. apply IH; lia.
Qed.

End Proofs.
