// tydefs <opts> <hex text> -> after computeSemanticModel, for every declarator node with a declaration symbol (pre-order):
//   "<symkind>:<name>@<line>=<type>" where <type> is the canonical printer extended with
//   T:<name>{D<line of the typedef declaration found, or ->}{<resolved synonymized type>}   for typedef-name types
//   G<k>:<tag>{D<line of the tag declaration found, or ->}                                  for tag types
//   a trailing '!' on a basic type or void that is NOT the compilation's canonical object
#include "sema.h"
using namespace pvh;

namespace {
struct Pr {
    const Compilation* comp; const SyntaxTree* tree;
    std::unordered_map<const void*, unsigned> symByte;     // declaration symbol -> byte offset of its declarator's identifier (tags: of the tag token)
    std::string lineOf(const void* d) {
        if (!d) return "-";
        auto it = symByte.find(d);
        return it == symByte.end() ? std::string("?") : std::to_string(it->second);
    }
    std::string ty(const Type* t, int depth = 0) {
        if (!t) return "null";
        if (depth > 20000) return "DEEP";
        switch (t->kind()) {
            case TypeKind::Basic: {
                auto b = t->asBasicType();
                return "B" + std::to_string((int)b->kind()) + (comp->canonicalBasicType(b->kind()) == b ? "" : "!");
            }
            case TypeKind::Void: return std::string("V") + (comp->canonicalVoidType() == t->asVoidType() ? "" : "!");
            case TypeKind::Error: return "E";
            case TypeKind::Pointer: return "P(" + ty(t->asPointerType()->referencedType(), depth + 1) + ")";
            case TypeKind::Array: return "A(" + ty(t->asArrayType()->elementType(), depth + 1) + ")";
            case TypeKind::Function: {
                auto f = t->asFunctionType();
                std::string s = "F(" + ty(f->returnType(), depth + 1) + ";";
                bool first = true;
                for (auto p : f->parameterTypes()) { s += (first ? "" : ","); s += ty(p, depth + 1); first = false; }
                return s + ")";
            }
            case TypeKind::Qualified: {
                auto q = t->asQualifiedType();
                std::string s = "Q";
                if (q->qualifiers().hasConst()) s += "c";
                if (q->qualifiers().hasVolatile()) s += "v";
                if (q->qualifiers().hasRestrict()) s += "r";
                if (q->qualifiers().hasAtomic()) s += "a";
                return s + "(" + ty(q->unqualifiedType(), depth + 1) + ")";
            }
            case TypeKind::TypedefName: {
                auto n = t->asTypedefNameType();
                return std::string("T:") + (n->typedefName() ? n->typedefName()->valueText() : "?") + "{D" + lineOf(n->declaration()) + "}{"
                     + (n->declaration() ? ty(n->resolvedSynonymizedType(), depth + 1) : std::string("-")) + "}";
            }
            case TypeKind::Tag: {
                auto g = t->asTagType();
                return std::string("G") + std::to_string((int)g->kind()) + ":" + (g->tag() ? g->tag()->valueText() : "?") + "{D" + lineOf(g->declaration()) + "}";
            }
        }
        return "?";
    }
};
struct Index : SyntaxVisitor {
    const SemanticModel* sema; Pr* pr;
    Index(const SyntaxTree* t, const SemanticModel* s, Pr* p) : SyntaxVisitor(t), sema(s), pr(p) {}
    bool preVisit(const SyntaxNode* n) override {
        if (n->kind() == SyntaxKind::IdentifierDeclarator) {
            auto d = static_cast<const IdentifierDeclaratorSyntax*>(n);
            auto sym = sema->declarationBy(d);
            if (sym) pr->symByte.emplace(sym, d->identifierToken().byteStart());
        }
        else if (n->kind() == SyntaxKind::StructDeclaration || n->kind() == SyntaxKind::UnionDeclaration || n->kind() == SyntaxKind::EnumDeclaration) {
            auto d = static_cast<const TagDeclarationSyntax*>(n);
            const DeclarationSymbol* sym = nullptr;
            if (auto sd = n->asStructOrUnionDeclaration()) sym = sema->structOrUnionFor(sd);
            else if (auto ed = n->asEnumDeclaration()) sym = sema->enumFor(ed);
            if (sym && d->typeSpecifier()) pr->symByte.emplace(sym, d->typeSpecifier()->tagToken().byteStart());
        }
        return true;
    }
};
struct Walker : SyntaxVisitor {
    const SemanticModel* sema; Pr* pr; std::ostringstream out;
    Walker(const SyntaxTree* t, const SemanticModel* s, Pr* p) : SyntaxVisitor(t), sema(s), pr(p) {}
    bool preVisit(const SyntaxNode* n) override {
        if (n->kind() == SyntaxKind::IdentifierDeclarator) {
            auto sym = sema->declarationBy(n->asDeclarator());
            if (sym) {
                const Type* ty = nullptr; const Identifier* id = nullptr;
                if (auto f = sym->asFunctionDeclaration()) { ty = f->type(); id = f->name(); }
                else if (auto o = sym->asObjectDeclaration()) { ty = o->type(); id = o->name(); }
                else if (auto m = sym->asFieldDeclaration()) { ty = m->type(); id = m->name(); }
                else if (auto t = sym->asTypedefDeclaration()) { ty = t->synonymizedType(); id = t->introducedSynonymType() ? t->introducedSynonymType()->typedefName() : nullptr; }
                out << " " << (int)sym->kind() << ":" << (id ? id->valueText() : "?") << "@" << pr->lineOf(sym) << "=" << pr->ty(ty);
            }
        }
        return true;
    }
};
}

HANDLER(tydefs)
{
    std::string o, h; in >> o >> h;
    auto tree = parse(unhex(h), makeOpts(o), SyntaxTree::SyntaxCategory::Any, TextCompleteness::Full);
    std::string syn = tree->diagnostics().empty() ? "" : " SYNTAX";
    auto c = compile(std::move(tree));
    if (!c.sema) return "NOSEMA";
    Pr pr{c.comp.get(), c.tree};
    Index ix(c.tree, c.sema, &pr);
    ix.visit(c.tree->rootNode());
    Walker w(c.tree, c.sema, &pr);
    w.visit(c.tree->rootNode());
    return "OK" + syn + w.out.str() + " |" + diagstr(c.tree);
}
