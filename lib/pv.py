# Common machinery of the psychec verification checks (stdlib only).
import fcntl, glob, hashlib, json, os, random, re, subprocess, sys, time

ROOT = os.path.dirname(os.path.dirname(os.path.abspath(__file__)))
REPO = os.environ.get("PSY_REPO", "/repo")
COQ = os.path.join(ROOT, "coq")
CACHE = os.path.join(ROOT, ".cache")
NCPU = os.cpu_count() or 4

FORBIDDEN = re.compile(
    r"\b(Admitted|admit|Axiom|Axioms|Parameter|Parameters|Conjecture|Conjectures|"
    r"Admit\s+Obligations|bypass_check|Unset\s+Guard\s+Checking|Unset\s+Positivity\s+Checking|"
    r"Unset\s+Universe\s+Checking|type-in-type|impredicative-set)\b")


def sh(cmd, timeout=None, cwd=None, inp=None, env=None):
    """run a command, return (rc, stdout+stderr)"""
    try:
        p = subprocess.run(cmd, shell=isinstance(cmd, str), cwd=cwd, input=inp, env=env,
                           stdout=subprocess.PIPE, stderr=subprocess.STDOUT, timeout=timeout,
                           universal_newlines=True, errors="replace")
        return p.returncode, p.stdout
    except subprocess.TimeoutExpired as e:
        out = e.stdout or ""
        if isinstance(out, bytes):
            out = out.decode("utf-8", "replace")
        return 124, out + "\n[timeout after %ss]" % timeout


class Lock:
    def __init__(self, name):
        os.makedirs(CACHE, exist_ok=True)
        self.path = os.path.join(CACHE, name + ".lock")

    def __enter__(self):
        self.f = open(self.path, "w")
        fcntl.flock(self.f, fcntl.LOCK_EX)
        return self

    def __exit__(self, *a):
        fcntl.flock(self.f, fcntl.LOCK_UN)
        self.f.close()


def write_if_changed(path, content):
    os.makedirs(os.path.dirname(path), exist_ok=True)
    try:
        if open(path).read() == content:
            return False
    except OSError:
        pass
    with open(path, "w") as f:
        f.write(content)
    return True


# ----------------------------------------------------------------------------
# Coq
# ----------------------------------------------------------------------------
def coq_files():
    fs = sorted(os.path.basename(f) for f in glob.glob(os.path.join(COQ, "*.v"))
                if not os.path.basename(f).startswith("Extract_"))
    fs += sorted("gen/" + os.path.basename(f) for f in glob.glob(os.path.join(COQ, "gen", "*.v")))
    return fs


def coq_prepare():
    """(re)generate _CoqProject and the Makefile when the file set changed"""
    proj = "-Q . PV\n-arg -w -arg -notation-overridden,-deprecated,-masking-absolute-name\n" + "\n".join(coq_files()) + "\n"
    changed = write_if_changed(os.path.join(COQ, "_CoqProject"), proj)
    if changed or not os.path.exists(os.path.join(COQ, "Makefile")):
        rc, out = sh("coq_makefile -f _CoqProject -o Makefile", cwd=COQ, timeout=120)
        if rc != 0:
            raise RuntimeError("coq_makefile failed:\n" + out)


def coq_make(targets, timeout=1500):
    """full .vo build (never -vos) of the given targets; returns (ok, log)"""
    with Lock("coq"):
        coq_prepare()
        rc, out = sh(["timeout", str(timeout), "make", "-k", "-j%d" % NCPU] + list(targets), cwd=COQ,
                     timeout=timeout + 30)
    return rc == 0, out


def coq_check_file(vfile, timeout=900):
    """re-run coqc on one file (its dependencies must be built); returns (ok, output)"""
    with Lock("coq"):
        rc, out = sh(["timeout", str(timeout), "coqc", "-q", "-Q", ".", "PV", "-w",
                      "-notation-overridden,-deprecated,-masking-absolute-name", vfile],
                     cwd=COQ, timeout=timeout + 30)
    return rc == 0, out


def theorem_names(vfile):
    names = []
    try:
        for line in open(os.path.join(COQ, vfile)):
            m = re.match(r"\s*(Theorem|Lemma|Corollary|Example|Fact|Proposition)\s+([A-Za-z0-9_']+)", line)
            if m:
                names.append(m.group(2))
    except OSError:
        pass
    return names


def parse_assumptions(output):
    """split the output of a Properties file into the Print Assumptions blocks"""
    blocks, cur = [], None
    for line in output.splitlines():
        if line.startswith("Closed under the global context"):
            blocks.append("Closed under the global context")
            cur = None
        elif line.startswith("Axioms:"):
            cur = [line]
            blocks.append(cur)
        elif cur is not None and (line.startswith(" ") or line.strip() == ""):
            cur.append(line)
        else:
            cur = None
    return ["\n".join(b) if isinstance(b, list) else b for b in blocks]


def lint_coq():
    """no Admitted/Axiom/... anywhere in the development; returns list of offending lines"""
    bad = []
    for f in coq_files() + [os.path.basename(f) for f in glob.glob(os.path.join(COQ, "Extract_*.v"))]:
        text = open(os.path.join(COQ, f)).read()
        # strip comments (nested)
        out, depth, i = [], 0, 0
        while i < len(text):
            if text.startswith("(*", i):
                depth += 1; i += 2
            elif text.startswith("*)", i) and depth > 0:
                depth -= 1; i += 2
            else:
                if depth == 0:
                    out.append(text[i])
                elif text[i] == "\n":
                    out.append("\n")
                i += 1
        for n, line in enumerate("".join(out).splitlines(), 1):
            if FORBIDDEN.search(line):
                bad.append("%s:%d: %s" % (f, n, line.strip()))
            if re.match(r"\s*(Variable|Variables|Hypothesis|Hypotheses|Context)\b", line):
                # allowed only inside a Section: checked structurally below
                pass
        # Variables outside sections
        depth = 0
        for n, line in enumerate("".join(out).splitlines(), 1):
            if re.match(r"\s*Section\s+\w+", line):
                depth += 1
            elif re.match(r"\s*End\s+\w+\s*\.", line) and depth > 0:
                depth -= 1
            elif depth == 0 and re.match(r"\s*(Variable|Variables|Hypothesis|Hypotheses)\b", line):
                bad.append("%s:%d: %s (outside a Section)" % (f, n, line.strip()))
    return bad


# ----------------------------------------------------------------------------
# extraction + model runner
# ----------------------------------------------------------------------------
def build_model(prop, timeout=600):
    """Entry_<prop>.vo -> extraction (ExtrOcamlBasic only) -> ocamlopt; returns path of the runner"""
    ok, log = coq_make(["Entry_%s.vo" % prop], timeout=timeout)
    if not ok:
        raise RuntimeError("model of %s does not build:\n%s" % (prop, log[-3000:]))
    d = os.path.join(CACHE, "ocaml", prop)
    os.makedirs(d, exist_ok=True)
    with Lock("ocaml-" + prop):
        stamp = os.path.join(d, "stamp")
        h = hashlib.sha256()
        for f in sorted(glob.glob(os.path.join(COQ, "*.vo")) + glob.glob(os.path.join(COQ, "gen", "*.vo"))):
            st = os.stat(f)
            h.update(("%s %d %d\n" % (f, st.st_size, st.st_mtime_ns)).encode())
        h.update(open(os.path.join(ROOT, "ocaml", "driver.ml"), "rb").read())
        key = h.hexdigest()
        exe = os.path.join(d, "modelrun")
        if os.path.exists(exe) and os.path.exists(stamp) and open(stamp).read() == key:
            return exe
        rc, out = sh(["timeout", "600", "coqc", "-q", "-Q", COQ, "PV", "-o", os.path.join(d, "Extract_%s.vo" % prop),
                      os.path.join(COQ, "Extract_%s.v" % prop)], cwd=d, timeout=640)
        if rc != 0:
            raise RuntimeError("extraction of %s failed:\n%s" % (prop, out[-3000:]))
        sh(["cp", os.path.join(ROOT, "ocaml", "driver.ml"), d])
        rc, out = sh("ocamlfind ocamlopt -w -a model.mli model.ml driver.ml -o modelrun",
                     cwd=d, timeout=600)
        if rc != 0 or not os.path.exists(exe):
            raise RuntimeError("ocamlopt of %s failed:\n%s" % (prop, out[-3000:]))
        open(stamp, "w").write(key)
        return exe


def run_lines(exe_argv, lines, timeout=1800, shards=1, env=None):
    """feed request lines to a line-oriented program, return answer lines (sharded across cores)"""
    if not lines:
        return []
    shards = max(1, min(shards, len(lines)))
    if shards == 1:
        def big_stack():
            import resource
            try:
                resource.setrlimit(resource.RLIMIT_STACK, (resource.RLIM_INFINITY, resource.RLIM_INFINITY))
            except (ValueError, OSError):
                pass
        p = subprocess.run(exe_argv, input="\n".join(lines) + "\n", stdout=subprocess.PIPE,
                           stderr=subprocess.PIPE, universal_newlines=True, errors="replace",
                           timeout=timeout, env=env, preexec_fn=big_stack)
        out = p.stdout.split("\n")
        if out and out[-1] == "":
            out.pop()
        if len(out) != len(lines):
            raise RuntimeError("%s: %d requests, %d answers (rc=%s)\n%s" % (exe_argv[0], len(lines), len(out), p.returncode, p.stderr[-2000:]))
        return out
    import concurrent.futures
    chunk = (len(lines) + shards - 1) // shards
    parts = [lines[i:i + chunk] for i in range(0, len(lines), chunk)]
    with concurrent.futures.ThreadPoolExecutor(max_workers=shards) as ex:
        res = list(ex.map(lambda part: run_lines(exe_argv, part, timeout, 1, env), parts))
    return [a for r in res for a in r]


def run_model(prop, lines, shards=1):
    exe = build_model(prop)
    return [[int(x) for x in l.split()] for l in run_lines([exe], lines, shards=shards)]


# ----------------------------------------------------------------------------
# harness (implementation side)
# ----------------------------------------------------------------------------
def build_harness(flavour="plain", timeout=1500):
    with Lock("harness-" + flavour):
        rc, out = sh(["timeout", str(timeout), "make", "-s", "-j%d" % NCPU, "-f", os.path.join(ROOT, "harness", "Makefile"),
                      "FLAVOUR=" + flavour, "REPO=" + REPO, "VERIF=" + ROOT], cwd=ROOT, timeout=timeout + 30)
    if rc != 0:
        raise BuildError("harness (%s) does not build from %s:\n%s" % (flavour, REPO, out[-4000:]))
    return os.path.join(CACHE, "build-" + flavour, "psyverif")


class BuildError(Exception):
    pass


def run_impl(lines, flavour="plain", fork=False, shards=1, limit=10):
    exe = build_harness(flavour)
    tmpdir = os.path.join(CACHE, "tmp")
    os.makedirs(tmpdir, exist_ok=True)
    env = dict(os.environ)
    env["ASAN_OPTIONS"] = "detect_leaks=0:abort_on_error=0:exitcode=97:allocator_may_return_null=1:hard_rss_limit_mb=6000:symbolize=0"
    env["UBSAN_OPTIONS"] = "halt_on_error=1:exitcode=98:print_stacktrace=0"
    if not lines:
        return []
    shards = max(1, min(shards, len(lines)))
    chunk = (len(lines) + shards - 1) // shards
    parts = [lines[i:i + chunk] for i in range(0, len(lines), chunk)]

    def one(idx_part):
        idx, part = idx_part
        outp = os.path.join(tmpdir, "ans-%d-%d.txt" % (os.getpid(), idx))
        argv = [exe, "-o", outp, "-t", str(limit)] + (["-f"] if fork else [])
        def lim():
            if flavour == "plain":
                import resource
                resource.setrlimit(resource.RLIMIT_AS, (6 << 30, 6 << 30))
        try:
            p = subprocess.run(argv, input="\n".join(part) + "\n", stdout=subprocess.DEVNULL, stderr=subprocess.PIPE,
                               universal_newlines=True, errors="replace", env=env, preexec_fn=lim,
                               timeout=max(600, limit * 20))
        except subprocess.TimeoutExpired:
            class P: returncode = "timeout"
            p = P()
        try:
            raw = open(outp, errors="replace").read()
            if raw and not raw.endswith("\n"):
                raw = raw[:raw.rfind("\n") + 1]       # the harness died while writing: drop the partial line
            out = raw.split("\n")
        finally:
            try:
                os.unlink(outp)
            except OSError:
                pass
        if out and out[-1] == "":
            out.pop()
        if len(out) != len(part):
            # the harness itself died: answer what we have, mark the rest
            nxt = len(out)
            out = out + ["CRASH harness-died rc=%s" % p.returncode] + ["SKIPPED"] * (len(part) - nxt - 1)
        return out

    import concurrent.futures
    with concurrent.futures.ThreadPoolExecutor(max_workers=shards) as ex:
        res = list(ex.map(one, enumerate(parts)))
    answers = [a for r in res for a in r]
    # re-run skipped requests one by one in fork mode so that each gets its own verdict
    skipped = [i for i, a in enumerate(answers) if a == "SKIPPED"]
    if skipped and not fork:
        redo = run_impl([lines[i] for i in skipped], flavour, True, shards, limit)
        for i, a in zip(skipped, redo):
            answers[i] = a
    return answers


# ----------------------------------------------------------------------------
# reporting
# ----------------------------------------------------------------------------
def known_findings():
    try:
        return json.load(open(os.path.join(ROOT, "known_findings.json")))
    except OSError:
        return {"open": [], "fixed": []}


def source_stamp():
    """identifies the state of /repo's working tree (HEAD + uncommitted changes to tracked files)"""
    h = hashlib.sha256()
    h.update(sh("git -C %s rev-parse HEAD" % REPO)[1].encode())
    h.update(sh("git -C %s diff HEAD -- C common cnippet data-structures" % REPO)[1].encode())
    return h.hexdigest()


def regenerate_if_stale(chk=None):
    """coq/gen/*.v are regenerated from /repo by the translators; a check runs the translators of its own property itself, but its proofs may
    depend on files another property's translator writes (C03 on the C06 tables): whenever the source state differs from the one the files
    were generated from, ALL translators run"""
    stamp_file = os.path.join(CACHE, "gen.stamp")
    try:
        stamp = source_stamp()
        if os.path.exists(stamp_file) and open(stamp_file).read() == stamp:
            return
        sys.path.insert(0, os.path.join(ROOT, "checks"))
        import registry
        for name, fn in registry.translators():
            try:
                fn()
            except Exception as e:
                if chk is not None:
                    chk.notes.append("translator %s failed while refreshing coq/gen: %s" % (name, e))
        os.makedirs(CACHE, exist_ok=True)
        open(stamp_file, "w").write(stamp)
    except Exception as e:
        if chk is not None:
            chk.notes.append("regenerate_if_stale: %r" % (e,))


class Check:
    """context of one run of one property's check"""

    def __init__(self, prop, tier, level="proof"):
        self.prop, self.tier, self.level = prop, tier, level
        self.seed = int(os.environ.get("VERIF_SEED", "1"))
        self.rng = random.Random(self.seed * 1000003 + sum(map(ord, prop)))
        self.t0 = time.time()
        self.violations = []        # (key, replay path, found-input?)
        self.proof_failures = []    # (Properties file, coqc output) of files that did not check
        self.known_printed = []
        self.coverage = {"obligations": 0, "discharged": 0, "checker_cmd": "", "trusted_base": [],
                         "evaluations": 0, "distinct_nontrivial": 0, "rule": "", "samples": []}
        self.assumptions = []
        self.notes = []
        self.kf = [e for e in known_findings().get("open", []) if e.get("property") == prop]
        self.kf_seen = set()

    # -- proofs ---------------------------------------------------------------
    def prove(self, prop_files, extra_targets=()):
        """build the .vo files the property needs, re-check the Properties files, record obligations.
        returns dict file -> (ok, output)"""
        regenerate_if_stale(self)
        bad = lint_coq()
        if bad:
            self.report("lint", {"unchecked": "coq lint (forbidden vernacular)", "lines": bad}, found=False)
        targets = [f[:-2] + ".vo" for f in prop_files] + list(extra_targets)
        ok, log = coq_make(targets)
        res = {}
        names_all, discharged = [], 0
        for f in prop_files:
            names = theorem_names(f)
            names_all += names
            vo = os.path.join(COQ, f[:-2] + ".vo")
            if os.path.exists(vo) and ok:
                fok, out = coq_check_file(f)
            else:
                # find out whether this file in particular is broken
                fok, out = (False, log) if not os.path.exists(vo) else coq_check_file(f)
            res[f] = (fok, out)
            if not fok:
                self.proof_failures.append((f, out))
            if fok:
                discharged += len(names)
                self.coverage.setdefault("print_assumptions", {})[f] = parse_assumptions(out)
        self.coverage["obligations"] += len(names_all)
        self.coverage["discharged"] += discharged
        self.coverage.setdefault("theorems", []).extend(names_all)
        self.coverage["checker_cmd"] = "cd %s && make -k -j%d %s && coqc -Q . PV <Properties file>  (coqc %s)" % (
            COQ, NCPU, " ".join(targets), coq_version())
        self.coq_log = log
        return res

    # -- violations -----------------------------------------------------------
    def match_known(self, key):
        for e in self.kf:
            if e.get("key") == key:
                return e
        return None

    def report(self, key, replay, found=True, what=None):
        """a failure with identification `key`; known finding -> KNOWN-FINDING line, else VIOLATION"""
        e = self.match_known(key)
        if e is not None:
            if key not in self.kf_seen:
                self.kf_seen.add(key)
                print("KNOWN-FINDING: property=%s %s" % (self.prop, e.get("what", key)))
                self.known_printed.append(key)
            return
        if any(v[0] == key for v in self.violations):
            return
        d = os.path.join(ROOT, "replays")
        os.makedirs(d, exist_ok=True)
        path = os.path.join(d, "%s-%s.json" % (self.prop, re.sub(r"[^A-Za-z0-9_.-]+", "_", key)[:80]))
        obj = {"property": self.prop, "key": key, "tier": self.tier, "seed": self.seed}
        obj.update(replay)
        if what:
            obj["what"] = what
        json.dump(obj, open(path, "w"), indent=1, default=str)
        self.violations.append((key, path, found))
        print("VIOLATION property=%s replay=%s%s" % (self.prop, path, "" if found else " no-failing-input-found"))
        sys.stdout.flush()

    # -- evidence -------------------------------------------------------------
    def finish(self):
        # a Properties file that does not check is a violation of its own (no failing input): known findings must not hide it
        if getattr(self, "proof_failures", None) and not self.violations:
            for f, out in self.proof_failures:
                self.report("proof-" + f, {"unchecked": f + " (theorems: %s)" % ", ".join(theorem_names(f)), "coq_output": (out or "")[-3000:]}, found=False)
        cov = self.coverage
        cov["known_findings_printed"] = self.known_printed
        ev = {"property_id": self.prop, "tier": self.tier, "seed": self.seed, "level": self.level,
              "coverage": cov, "assumptions": self.assumptions, "wall_s": round(time.time() - self.t0, 2),
              "violations": len(self.violations), "notes": self.notes}
        os.makedirs(os.path.join(ROOT, "evidence"), exist_ok=True)
        json.dump(ev, open(os.path.join(ROOT, "evidence", self.prop + ".json"), "w"), indent=1, default=str)
        print("%s %s: obligations %d/%d, evaluations %d, violations %d, known findings %d, %.1fs" % (
            self.prop, self.tier, cov["discharged"], cov["obligations"], cov["evaluations"],
            len(self.violations), len(self.known_printed), time.time() - self.t0))
        return 1 if self.violations else 0


_coqv = None


def coq_version():
    global _coqv
    if _coqv is None:
        _coqv = sh("coqc --print-version")[1].split()[0]
    return _coqv


TRUSTED_COMMON = [
    "Coq 8.16.1 kernel incl. vm_compute (no native_compute)",
    "no axioms declared by the development; Print Assumptions of each property theorem recorded under coverage.print_assumptions",
    "extraction: ExtrOcamlBasic directives only (bool, option, unit, list, prod, sumbool, sumor; andb/orb inlined), no Extract Constant/Inductive of our own; OCaml 4.13.1; ocaml/driver.ml (int <-> Z conversion, line I/O)",
    "correspondence harness harness/*.cpp compiled with g++ 12 from /repo's working tree; lib/pv.py and checks/*.py (generators, canonicalisation, diff)",
]


# ----------------------------------------------------------------------------
# shrinking
# ----------------------------------------------------------------------------
def ddmin(parts, fails_batch, join, max_rounds=400):
    """delta debugging over a list of parts: fails_batch(list of candidate texts) -> list of bools (same failure persists).
    Removes chunks of halving size, then single parts; every granularity is evaluated as ONE batch."""
    cur = list(parts)
    n = 2
    rounds = 0
    while len(cur) >= 2 and rounds < max_rounds:
        rounds += 1
        size = max(1, len(cur) // n)
        chunks = [(i, min(len(cur), i + size)) for i in range(0, len(cur), size)]
        cands = [cur[:a] + cur[b:] for a, b in chunks]
        cands = [c for c in cands if c]
        if not cands:
            break
        res = fails_batch([join(c) for c in cands])
        hit = next((c for c, r in zip(cands, res) if r), None)
        if hit is not None:
            cur = hit
            n = max(2, n - 1)
        elif size == 1:
            break
        else:
            n = min(len(cur), n * 2)
    return cur
