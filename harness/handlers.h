#ifndef PSYVERIF_HANDLERS_H
#define PSYVERIF_HANDLERS_H
#include <functional>
#include <sstream>
#include <string>
using Handler = std::function<std::string(std::istringstream&)>;
struct Registrar { Registrar(const char* name, Handler h); };
#define HANDLER(name) \
    static std::string handler_##name(std::istringstream& in); \
    static Registrar registrar_##name(#name, handler_##name); \
    static std::string handler_##name(std::istringstream& in)

// hex helpers
inline std::string unhex(const std::string& h)
{
    std::string s;
    for (size_t i = 0; i + 1 < h.size(); i += 2)
        s.push_back((char)std::stoi(h.substr(i, 2), nullptr, 16));
    return s;
}
inline std::string tohex(const std::string& s)
{
    static const char* d = "0123456789abcdef";
    std::string h;
    for (unsigned char c : s) { h.push_back(d[c >> 4]); h.push_back(d[c & 15]); }
    return h;
}
#endif
