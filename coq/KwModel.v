(** C17 — model of Lexer::recognize / Lexer::translate (length dispatch over the
    regenerated decision programs) and of lexIdentifier's three-way choice;
    the table-level checker and its soundness. *)
From Coq Require Import List NArith Arith Bool Lia.
From PV Require Import KwDefs KwProofs.
Import ListNotations.
Local Open Scope nat_scope.

Section M.
Variable IDENT : N.

Fixpoint find_len (n : nat) (t : list (nat * dp)) : option dp :=
  match t with
  | [] => None
  | (m, p) :: t' => if Nat.eqb n m then Some p else find_len n t'
  end.

(** switch (n) { case k: return recognize_k(s, opts); ... default: return IdentifierToken; }
    [None] = some s[i] with i >= n was read *)
Definition dispatch (t : list (nat * dp)) (o : opts) (w : word) : option N :=
  match find_len (length w) t with
  | Some p => eval p o w
  | None => Some IDENT
  end.

(** lexIdentifier: keyword recognition on -> recognize; off -> translate when
    the operator-name translation is enabled, else identifier *)
Definition lex_word (rt tt : list (nat * dp)) (opnames : nat) (kr : bool) (o : opts) (w : word) : option N :=
  if kr then dispatch rt o w
  else if snd o opnames then dispatch tt o w
  else Some IDENT.

Definition word_spec (tbl otbl : list row) (opnames : nat) (kr : bool) (o : opts) (w : word) : N :=
  if kr then spec IDENT tbl o w
  else if snd o opnames then spec IDENT otbl o w
  else IDENT.

Definition check_table (t : list (nat * dp)) (tbl : list row) : bool :=
  forallb (fun np => check IDENT (fst np) tbl (snd np) empty_store) t &&
  forallb (fun r => existsb (Nat.eqb (length (r_word r))) (map fst t)) tbl.

Lemma find_len_in n t p : find_len n t = Some p -> In (n, p) t.
Proof.
  induction t as [|[m q] t IH]; cbn; [discriminate|].
  destruct (Nat.eqb n m) eqn:E; intros H.
  - apply Nat.eqb_eq in E. inversion H; subst. left; reflexivity.
  - right. apply IH. exact H.
Qed.

Lemma find_len_none n t : find_len n t = None -> ~ In n (map fst t).
Proof.
  induction t as [|[m q] t IH]; cbn; [tauto|].
  destruct (Nat.eqb n m) eqn:E; [discriminate|]. intros H [H1|H1].
  - subst. rewrite Nat.eqb_refl in E. discriminate.
  - exact (IH H H1).
Qed.

Lemma spec_other_length tbl o w :
  (forall r, In r tbl -> length (r_word r) <> length w) -> spec IDENT tbl o w = IDENT.
Proof.
  induction tbl as [|r t IH]; cbn; intros H; [reflexivity|].
  destruct (word_eqb (r_word r) w) eqn:E.
  - apply word_eqb_eq in E. exfalso. apply (H r); [left; reflexivity|]. rewrite E. reflexivity.
  - cbn. apply IH. intros r' Hr'. apply H. right. exact Hr'.
Qed.

Theorem check_table_sound t tbl : check_table t tbl = true ->
  forall o w, dispatch t o w = Some (spec IDENT tbl o w).
Proof.
  unfold check_table. intros H o w. apply andb_true_iff in H as [H1 H2].
  rewrite forallb_forall in H1, H2. unfold dispatch.
  destruct (find_len (length w) t) as [p|] eqn:E.
  - apply find_len_in in E. specialize (H1 _ E). cbn in H1.
    apply (check_all_words IDENT (length w) tbl p H1 o w eq_refl).
  - apply find_len_none in E. f_equal. symmetry. apply spec_other_length.
    intros r Hr Hl. specialize (H2 r Hr). apply existsb_exists in H2 as [m [Hm1 Hm2]].
    apply Nat.eqb_eq in Hm2. apply E. rewrite <- Hl, Hm2. exact Hm1.
Qed.

Theorem lex_word_sound rt tt tbl otbl opn :
  check_table rt tbl = true -> check_table tt otbl = true ->
  forall kr o w, lex_word rt tt opn kr o w = Some (word_spec tbl otbl opn kr o w).
Proof.
  intros H1 H2 kr o w. unfold lex_word, word_spec. destruct kr.
  - apply check_table_sound. exact H1.
  - destruct (snd o opn); [apply check_table_sound; exact H2 | reflexivity].
Qed.

(** What [spec] says, as a logical characterisation (first row wins). *)
Lemma spec_keyword tbl o w k : spec IDENT tbl o w = k -> k <> IDENT ->
  exists r, In r tbl /\ r_word r = w /\ gate_eval o (r_gate r) = true /\ r_kind r = k.
Proof.
  induction tbl as [|r t IH]; cbn; intros H Hk; [congruence|].
  destruct (word_eqb (r_word r) w && gate_eval o (r_gate r)) eqn:E.
  - apply andb_true_iff in E as [E1 E2]. apply word_eqb_eq in E1.
    exists r. repeat split; auto.
  - destruct (IH H Hk) as [r' [A B]]. exists r'. split; [right; exact A | exact B].
Qed.

Lemma spec_identifier tbl o w :
  (forall r, In r tbl -> r_word r = w -> gate_eval o (r_gate r) = false) ->
  spec IDENT tbl o w = IDENT.
Proof.
  induction tbl as [|r t IH]; cbn; intros H; [reflexivity|].
  destruct (word_eqb (r_word r) w) eqn:E.
  - apply word_eqb_eq in E. rewrite (H r (or_introl eq_refl) E). cbn.
    apply IH. intros r' Hr'. apply H. right. exact Hr'.
  - cbn. apply IH. intros r' Hr'. apply H. right. exact Hr'.
Qed.
End M.
