# C06 — Expression trees respect C operator precedence and associativity.
import json, os, sys
from lib import pv, sexp

OPS = {"CommaToken": ",", "EqualsToken": "=", "AsteriskEqualsToken": "*=", "SlashEqualsToken": "/=", "PercentEqualsToken": "%=",
       "PlusEqualsToken": "+=", "MinusEqualsToken": "-=", "LessThanLessThanEqualsToken": "<<=", "GreaterThanGreaterThanEqualsToken": ">>=",
       "AmpersandEqualsToken": "&=", "CaretEqualsToken": "^=", "BarEqualsToken": "|=", "QuestionToken": "?", "BarBarToken": "||",
       "AmpersandAmpersandToken": "&&", "BarToken": "|", "CaretToken": "^", "AmpersandToken": "&", "EqualsEqualsToken": "==",
       "ExclamationEqualsToken": "!=", "LessThanToken": "<", "GreaterThanToken": ">", "LessThanEqualsToken": "<=", "GreaterThanEqualsToken": ">=",
       "LessThanLessThanToken": "<<", "GreaterThanGreaterThanToken": ">>", "PlusToken": "+", "MinusToken": "-", "AsteriskToken": "*",
       "SlashToken": "/", "PercentToken": "%"}
LEVEL = {",": 1, "?": 3, "||": 4, "&&": 5, "|": 6, "^": 7, "&": 8, "==": 9, "!=": 9, "<": 10, ">": 10, "<=": 10, ">=": 10, "<<": 11, ">>": 11,
         "+": 12, "-": 12, "*": 13, "/": 13, "%": 13}
for a in ("=", "*=", "/=", "%=", "+=", "-=", "<<=", ">>=", "&=", "^=", "|="):
    LEVEL[a] = 2
OPTS = "2:1:0"


def kinds():
    sys.path.insert(0, os.path.join(pv.ROOT, "translate"))
    from common import enum_values
    return dict(enum_values("C/syntax/SyntaxKind.h", "SyntaxKind"))


# ---- trees by construction: ("a",) | ("p", t) | ("b", op, l, r) | ("c", c, m, e)
def tlevel(t):
    return 14 if t[0] in "ap" else 3 if t[0] == "c" else LEVEL[t[1]]


def toks_min(t):
    """tokens with exactly the parentheses the grammar requires"""
    def wrap(x, need):
        s = toks_min(x)
        return ["("] + s + [")"] if tlevel(x) < need else s
    if t[0] == "a":
        return ["1"]
    if t[0] == "p":
        return ["("] + toks_min(t[1]) + [")"]
    if t[0] == "c":
        return wrap(t[1], 4) + ["?"] + toks_min(t[2]) + [":"] + wrap(t[3], 3)
    lv = LEVEL[t[1]]
    if lv == 2:
        return wrap(t[2], 14) + [t[1]] + wrap(t[3], 2)
    return wrap(t[2], lv) + [t[1]] + wrap(t[3], lv + 1)


def shape_min(t):
    """the tree the parser must build for toks_min(t): parenthesised sub-trees become Paren nodes"""
    def wrap(x, need):
        s = shape_min(x)
        return ("p", s) if tlevel(x) < need else s
    if t[0] == "a":
        return t
    if t[0] == "p":
        return ("p", shape_min(t[1]))
    if t[0] == "c":
        return ("c", wrap(t[1], 4), shape_min(t[2]), wrap(t[3], 3))
    lv = LEVEL[t[1]]
    if lv == 2:
        return ("b", t[1], wrap(t[2], 14), wrap(t[3], 2))
    return ("b", t[1], wrap(t[2], lv), wrap(t[3], lv + 1))


def full_paren(t):
    """every non-atomic sub-tree parenthesised"""
    if t[0] == "a":
        return t
    if t[0] == "p":
        return ("p", full_paren(t[1]))
    w = lambda x: x if x[0] == "a" else ("p", full_paren(x))
    if t[0] == "c":
        return ("c", w(t[1]), w(t[2]), w(t[3]))
    return ("b", t[1], w(t[2]), w(t[3]))


def encode(t, SK, NODE):
    if t[0] == "a":
        return [SK["IntegerConstantExpression"]]
    if t[0] == "p":
        return [SK["ParenthesizedExpression"]] + encode(t[1], SK, NODE)
    if t[0] == "c":
        return [SK["ConditionalExpression"]] + encode(t[1], SK, NODE) + encode(t[2], SK, NODE) + encode(t[3], SK, NODE)
    return [NODE[t[1]]] + encode(t[2], SK, NODE) + encode(t[3], SK, NODE)


def rand_tree(rng, depth):
    if depth == 0 or rng.random() < 0.2:
        return ("a",)
    r = rng.random()
    if r < 0.1:
        return ("c", rand_tree(rng, depth - 1), rand_tree(rng, depth - 1), rand_tree(rng, depth - 1))
    op = rng.choice(list(LEVEL))
    while op == "?":
        op = rng.choice(list(LEVEL))
    return ("b", op, rand_tree(rng, depth - 1), rand_tree(rng, depth - 1))


NODEK = {",": "SequencingExpression", "=": "BasicAssignmentExpression", "*=": "MultiplyAssignmentExpression", "/=": "DivideAssignmentExpression",
         "%=": "ModuloAssignmentExpression", "+=": "AddAssignmentExpression", "-=": "SubtractAssignmentExpression",
         "<<=": "LeftShiftAssignmentExpression", ">>=": "RightShiftAssignmentExpression", "&=": "AndAssignmentExpression",
         "^=": "ExclusiveOrAssignmentExpression", "|=": "OrAssignmentExpression", "||": "LogicalORExpression", "&&": "LogicalANDExpression",
         "|": "BitwiseORExpression", "^": "BitwiseXORExpression", "&": "BitwiseANDExpression", "==": "EqualsExpression", "!=": "NotEqualsExpression",
         "<": "LessThanExpression", ">": "GreaterThanExpression", "<=": "LessThanOrEqualExpression", ">=": "GreaterThanOrEqualExpression",
         "<<": "LeftShiftExpression", ">>": "RightShiftExpression", "+": "AddExpression", "-": "SubstractExpression", "*": "MultiplyExpression",
         "/": "DivideExpression", "%": "ModuleExpression"}


def run(chk, only=None):
    chk.coverage["trusted_base"] = pv.TRUSTED_COMMON + [
        "translator translate/cxx2ir.py + translate/c06.py: precedenceOf, isRightAssociative, SyntaxFacts::{isNAryOperatorSyntax, kindOfNAryOperatorSyntax, isKindOfAssignmentExpression, isKindOfBinaryExpression} -> IR (C06_tables is about these regenerated programs)",
        "hand-written model coq/C06Model.v of parseNAryExpression_AtOperator (tied by correspondence over all operator pairs and triples and random trees); reference parser = the grammar of 6.5.5-6.5.17 as recursive descent",
        "the theorem 'the loop builds exactly the grammar's tree for every token string' is NOT proved: C06_bounded_agreement_* are finite kernel-evaluated checks, labelled as such"]
    chk.assumptions = ["operands are primaries (constants, parenthesised expressions); unary/postfix/cast layering is checked by correspondence only"]
    terr = None
    try:
        sys.path.insert(0, os.path.join(pv.ROOT, "translate"))
        import c06
        c06.generate()
    except Exception as e:
        terr = "%s: %s" % (type(e).__name__, e)
    res = chk.prove(["Properties_C06.v"], extra_targets=["Entry_C06.vo"])
    proof_ok = all(ok for ok, _ in res.values()) and terr is None
    if terr is not None:
        chk.coverage["discharged"] = 0
    SK = kinds()
    NODE = {op: SK[n] for op, n in NODEK.items()}
    TOKK = {sp: SK[name] for name, sp in OPS.items()}
    TOKK.update({"1": SK["IntegerConstantToken"], "(": SK["OpenParenToken"], ")": SK["CloseParenToken"], ":": SK["ColonToken"]})
    model_ok = True
    try:
        pv.build_model("C06")
    except Exception as e:
        model_ok = False
        chk.notes.append("model runner does not build: %s" % str(e)[-400:])
    quick = chk.tier == "quick"
    ops = list(LEVEL)
    cases = []          # (token list, expected preorder or None)

    def chain(os_):
        """1 o1 1 o2 1 ... with ': 1' after each '?' operand"""
        t = ["1"]
        for o in os_:
            t += [o, "1"] + ([":", "1"] if o == "?" else [])
        return t
    for a in ops:
        for b in ops:
            cases.append((chain([a, b]), None))
            for c in ops:
                cases.append((chain([a, b, c]), None))
    # random trees through the three printers; the expected tree is known by construction
    rng = chk.rng
    for _ in range(1500 if quick else 20000):
        t = rand_tree(rng, rng.randint(2, 8 if not quick else 6))
        cases.append((toks_min(t), encode(shape_min(t), SK, NODE)))
        fp = full_paren(t)
        cases.append((toks_min(fp), encode(shape_min(fp), SK, NODE)))
        rp = ("p", ("p", fp)) if rng.random() < 0.5 else ("b", "+", ("p", ("p", t)), ("a",))
        cases.append((toks_min(rp), encode(shape_min(rp), SK, NODE)))
    if only:
        cases = only
    reqs = ["tree 2 %s %s" % (OPTS, " ".join(c[0]).encode().hex()) for c in cases]
    impl = pv.run_impl(reqs, shards=pv.NCPU)
    model = pv.run_model("C06", [" ".join(str(TOKK[x]) for x in c[0]) for c in cases], shards=pv.NCPU) if model_ok else [None] * len(cases)
    bad_spec, bad_model, bad_ref = [], [], []
    n_accept = 0
    for c, r, ia, mo in zip(cases, reqs, impl, model):
        sa = sexp.split_answer(ia)
        if sa is None:
            bad_spec.append((c, r, ia[:200], "crash")); continue
        ntok, full, dump, diags = sa
        itree = sexp.preorder_kinds(sexp.parse_dump(dump)) if dump.strip() != "~" else None
        iok = full and not diags and itree is not None
        if mo is not None:
            i = mo.index(-9)
            climb, gram = mo[:i], mo[i + 1:-1]
            g_ok = gram[0] == 0
            c_ok = climb[0] == 0
            # the grammar decides: accepted completely with tree g, or not a (complete) expression
            if g_ok:
                n_accept += 1
                if not iok or itree != gram[1:]:
                    bad_spec.append((c, r, (iok, itree), gram[1:]))
            else:
                if iok:
                    bad_spec.append((c, r, (iok, itree), "rejected by the grammar of 6.5"))
            if c_ok != iok or (c_ok and climb[1:] != itree):
                bad_model.append((c, r, (iok, itree), climb))
            if c[1] is not None and (not g_ok or gram[1:] != c[1]):
                bad_ref.append((c, gram, c[1]))
        elif c[1] is not None and (not iok or itree != c[1]):
            bad_spec.append((c, r, (iok, itree), c[1]))
    # unary / postfix / cast operators bind tighter than every N-ary operator (correspondence only)
    un_cases = []
    for u, k in [("-", "UnaryMinusExpression"), ("+", "UnaryPlusExpression"), ("!", "LogicalNotExpression"), ("~", "BitwiseNotExpression"),
                 ("*", "PointerIndirectionExpression"), ("&", "AddressOfExpression"), ("++", "PreIncrementExpression"), ("--", "PreDecrementExpression"),
                 ("sizeof ", "SizeofExpression"), ("(int)", "CastExpression")]:
        for b in ops:
            if b == "?":
                continue
            un_cases.append(("%s x %s y" % (u, b), NODE[b], SK[k], "left"))
            un_cases.append(("x %s %s y" % (b, u), NODE[b], SK[k], "right"))
    for p, k in [("++", "PostIncrementExpression"), ("--", "PostDecrementExpression"), ("[1]", "ElementAccessExpression"), ("(1)", "CallExpression"),
                 (".m", "DirectMemberAccessExpression"), ("->m", "IndirectMemberAccessExpression")]:
        for b in ops:
            if b == "?":
                continue
            un_cases.append(("x %s %s y" % (p, b), NODE[b], SK[k], "left"))
            un_cases.append(("x %s y %s" % (b, p), NODE[b], SK[k], "right"))
    uimpl = pv.run_impl(["tree 2 %s %s" % (OPTS, u[0].encode().hex()) for u in un_cases], shards=pv.NCPU) if not only else []
    bad_un = []
    for u, ia in zip(un_cases, uimpl):
        sa = sexp.split_answer(ia)
        if sa is None or not sa[1] or sa[3]:
            bad_un.append((u, ia[:160])); continue
        root = sexp.parse_dump(sa[2])
        kids = [x for x in root[2] if x is not None and x[0] == "N"]
        side = kids[0] if u[3] == "left" else kids[-1]
        if root[1] != u[1] or side[1] != u[2]:
            bad_un.append((u, sa[2][:160]))
    chk.coverage["evaluations"] = len(cases) + len(un_cases)
    chk.coverage["distinct_nontrivial"] = len({tuple(c[0]) for c in cases if len(c[0]) >= 5})
    chk.coverage["exhaustive"] = True
    chk.coverage["rule"] = ("all ordered pairs and triples of the 31 N-ary operators over constant operands (each conditional with its ': e'); %d random trees (depth <= %d) printed minimally, "
                            "fully and redundantly parenthesised with the expected tree known by construction; every prefix, cast and postfix operator on either side of every N-ary operator. "
                            "The grammar-level reference parser decides acceptance and the tree; the implementation and the climbing model must both agree with it. non-trivial = at least two operators"
                            % (len(cases) - 31 * 31 - 31 ** 3, 6 if quick else 8))
    chk.coverage["samples"] = [" ".join(cases[i][0]) for i in (40, 20000, len(cases) - 1)] if not only else [" ".join(cases[0][0])]
    chk.coverage["distribution"] = {"cases": len(cases), "accepted_by_grammar": n_accept, "unary_postfix_cases": len(un_cases),
                                    "model_disagreements": len(bad_model), "printer_vs_reference": len(bad_ref)}
    if bad_spec:
        bad_spec.sort(key=lambda x: len(x[0][0]))
        c, r, got, want = bad_spec[0]
        chk.report("expr:" + "_".join(c[0])[:60], {"request": r, "expression": " ".join(c[0]), "implementation(accepted,preorder kinds)": got,
                                                    "grammar": want, "count_failing": len(bad_spec), "others": [" ".join(x[0][0]) for x in bad_spec[1:8]]},
                   found=True, what="tree shape (or acceptance) differs from the C11 expression grammar")
    if bad_un:
        u, got = bad_un[0]
        chk.report("unary:" + u[0], {"request": "tree 2 %s %s" % (OPTS, u[0].encode().hex()), "expression": u[0], "implementation": got,
                                     "expected_root_kind": u[1], "expected_operand_kind": u[2], "count": len(bad_un)}, found=True)
    if bad_ref and not bad_spec:
        c, g, e = bad_ref[0]
        chk.report("reference-vs-printer", {"unchecked": "the reference parser disagrees with the generator's expected tree (check bug)", "expression": " ".join(c[0]),
                                            "reference": g, "expected": e}, found=False)
    if terr is not None and not bad_spec:
        chk.report("translator", {"unchecked": "translate/c06.py rejects the source: " + terr}, found=False)
    if bad_model and not bad_spec:
        c, r, got, m = bad_model[0]
        chk.report("model-correspondence", {"unchecked": "correspondence C06Model.climb vs parseNAryExpression_AtOperator", "request": r,
                                            "expression": " ".join(c[0]), "implementation": got, "model": m, "count": len(bad_model)}, found=False)
    if not proof_ok and terr is None and not bad_spec:
        for f, (ok, out) in res.items():
            if not ok:
                chk.report("proof-" + f, {"unchecked": f + " (theorems: %s)" % ", ".join(pv.theorem_names(f)), "coq_output": out[-3000:]}, found=False)


def replay(chk, path):
    r = json.load(open(path))
    if r.get("expression") and not r["expression"].startswith(("-", "+", "!", "~", "*", "&", "sizeof", "(int)", "x")):
        print("implementation:", pv.run_impl([r["request"]])[0])
        return run(chk, only=[(r["expression"].split(), None)])
    run(chk)
