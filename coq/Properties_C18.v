(** C18 — Equal spellings share one lexeme object; different spellings never do. *)
From Coq Require Import List Arith NArith Bool Lia.
From PV Require Import C18Model C18Proofs.
Import ListNotations.

(** the concrete table: TextElement::hashCode as transcribed (32-bit wrap, signed char) *)
Definition hashN (w : word) : N := hash_code w.

(** For every history of findOrInsert calls with NUL-free words — any length, any number of
    distinct words, hence any number of growth steps and rehashes — two calls return the same
    object exactly when their words are byte-for-byte equal.  (Proved for every hash function;
    stated here for the implementation's.) *)
Theorem C18_identity : forall ws : list word, Forall nul_free ws ->
  let rs := snd (run_table hashN empty ws) in
  (length rs = length ws) /\
  (forall i j, i < length ws -> j < length ws -> (nth i rs 0 = nth j rs 0 <-> nth i ws [] = nth j ws [])).
Proof. exact (identity hashN). Qed.

Theorem C18_identity_any_hash : forall (hash : word -> N) (ws : list word), Forall nul_free ws ->
  let rs := snd (run_table hash empty ws) in
  (length rs = length ws) /\
  (forall i j, i < length ws -> j < length ws -> (nth i rs 0 = nth j rs 0 <-> nth i ws [] = nth j ws [])).
Proof. exact identity. Qed.

(** the invariant holds after every history; stored texts are never changed, only appended to;
    every result designates an element holding exactly the word *)
Theorem C18_inv : forall (ws : list word) (t : tbl), Inv hashN t -> Forall nul_free ws ->
  let (t', rs) := run_table hashN t ws in
  Inv hashN t' /\ (exists suf, elems t' = elems t ++ suf) /\
  Forall2 (fun w r => nth_error (elems t') r = Some w) ws rs.
Proof. exact (run_spec hashN). Qed.

(** why NUL-freeness is needed: strncmp stops at a NUL, so "a\0b" and "a\0c" are one object *)
Lemma C18_identity_with_NUL_refuted :
  let ws := [[97; 0; 98]%N; [97; 0; 99]%N; [97; 0; 98]%N] in
  exists i j, nth i ws [] = nth j ws [] /\ nth i (snd (run_table hashN empty ws)) 0 <> nth j (snd (run_table hashN empty ws)) 0.
Proof. exists 0, 2. vm_compute. split; [reflexivity|discriminate]. Qed.

Example C18_nonvacuous :
  let ws := [[120]; [121]; [120]; [122; 122]; [121]; [119]; [118]; [117]; [120]]%N in
  Forall nul_free ws /\ snd (run_table hashN empty ws) = [0; 1; 0; 2; 1; 3; 4; 5; 0] /\
  length (buckets (fst (run_table hashN empty ws))) = 16.
Proof.
  cbn zeta. split; [repeat constructor; discriminate|]. vm_compute. split; reflexivity.
Qed.

Print Assumptions C18_identity.
Print Assumptions C18_identity_any_hash.
Print Assumptions C18_inv.
