Require Import ExtrOcamlBasic.
From PV Require Import Entry_C02.
Extraction "model.ml" run.
