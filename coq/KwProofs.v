(** C17 — soundness of the symbolic checker: [check] true implies agreement on all words. *)
From Coq Require Import List NArith Arith Bool Lia.
Import ListNotations.
From PV Require Import KwDefs.
Local Open Scope nat_scope.

Lemma lookup_Forall {A} (P : nat * A -> Prop) k l v :
  Forall P l -> lookup k l = Some v -> P (k, v).
Proof.
  induction l as [|[k' v'] l IH]; cbn; intros HF HL; [discriminate|].
  inversion HF as [|? ? Hh Ht]; subst.
  destruct (Nat.eqb k k') eqn:E.
  - apply Nat.eqb_eq in E; subst. inversion HL; subst. exact Hh.
  - apply IH; assumption.
Qed.

Lemma info_at_sound o w s i :
  sat o w s ->
  match info_at s i with
  | Known c => nth_error w i = Some c
  | Excl cs => forall x, nth_error w i = Some x -> ~ In x cs
  end.
Proof.
  intros (Hc & _). unfold info_at.
  destruct (lookup i (st_chars s)) as [ci|] eqn:E.
  - apply (lookup_Forall (char_ok w) _ _ _ Hc) in E. unfold char_ok in E; cbn in E. exact E.
  - intros x _ [].
Qed.

Lemma sat_set_char o w s i ci :
  sat o w s -> char_ok w (i, ci) -> sat o w (set_char s i ci).
Proof. intros (H1 & H2 & H3 & H4) Hc. repeat split; cbn; auto. Qed.

Lemma assume_sound o w s a b :
  sat o w s -> atom_holds o w a = Some b ->
  exists s', assume s a b = Some s' /\ sat o w s'.
Proof.
  intros Hs Ha. destruct a as [i c|k|k|k]; cbn in *.
  - destruct (nth_error w i) as [x|] eqn:Ex; [|discriminate]. inversion Ha; subst b; clear Ha.
    pose proof (info_at_sound o w s i Hs) as Hi.
    destruct (info_at s i) as [c'|cs].
    + rewrite Hi in Ex. inversion Ex; subst x. rewrite eqb_reflx. exists s. split; [reflexivity|exact Hs].
    + destruct (N.eqb x c) eqn:E.
      * apply N.eqb_eq in E; subst x.
        destruct (memN c cs) eqn:M.
        { apply memN_In in M. exfalso. exact (Hi c Ex M). }
        eexists; split; [reflexivity|]. apply sat_set_char; auto.
      * eexists; split; [reflexivity|]. apply sat_set_char; auto.
        unfold char_ok; cbn. intros y Hy [Hin|Hin].
        { rewrite Ex in Hy. inversion Hy; subst. rewrite N.eqb_refl in E. discriminate. }
        { exact (Hi y Hy Hin). }
  - inversion Ha; subst b; clear Ha.
    destruct Hs as (H1 & H2 & H3 & H4).
    destruct (lookup k (st_opts s)) as [v|] eqn:E.
    + apply (lookup_Forall (fun kb => snd o (fst kb) = snd kb) _ _ _ H2) in E. cbn in E.
      rewrite E, eqb_reflx. eexists; split; [reflexivity|]. repeat split; auto.
    + eexists; split; [reflexivity|]. repeat split; cbn; auto.
  - inversion Ha; subst b; clear Ha.
    destruct Hs as (H1 & H2 & H3 & H4).
    destruct (lookup k (st_opts s)) as [v|] eqn:E.
    + apply (lookup_Forall (fun kb => snd o (fst kb) = snd kb) _ _ _ H2) in E. cbn in E.
      rewrite E, negb_involutive, eqb_reflx. eexists; split; [reflexivity|]. repeat split; auto.
    + eexists; split; [reflexivity|]. repeat split; cbn; auto.
      constructor; [cbn; rewrite negb_involutive; reflexivity|exact H2].
  - inversion Ha; subst b; clear Ha.
    destruct Hs as (H1 & H2 & H3 & H4).
    destruct (k <=? fst o) eqn:E.
    + apply Nat.leb_le in E.
      destruct (st_hi s) as [h|] eqn:Eh.
      * destruct (h <=? k) eqn:E2; [apply Nat.leb_le in E2; lia|].
        eexists; split; [reflexivity|]. repeat split; cbn; auto; try lia; try (rewrite Eh; exact H4).
      * eexists; split; [reflexivity|]. repeat split; cbn; auto; try lia; try (rewrite Eh; exact I).
    + apply Nat.leb_gt in E.
      destruct (k <=? st_lo s) eqn:E2; [apply Nat.leb_le in E2; lia|].
      eexists; split; [reflexivity|]. repeat split; cbn; auto.
      destruct (st_hi s); lia.
Qed.

Lemma gate3_sound o w s g b : sat o w s -> gate3 s g = Some b -> gate_eval o g = b.
Proof.
  intros Hs. revert b. induction g as [| |k|k|g1 IH1 g2 IH2|g1 IH1 g2 IH2]; cbn; intros b H.
  - congruence.
  - congruence.
  - destruct Hs as (_ & H2 & _).
    apply (lookup_Forall (fun kb => snd o (fst kb) = snd kb) _ _ _ H2) in H. exact H.
  - destruct Hs as (_ & _ & H3 & H4).
    destruct (k <=? st_lo s) eqn:E.
    + inversion H; subst. apply Nat.leb_le in E. apply Nat.leb_le. lia.
    + destruct (st_hi s) as [h|]; [|discriminate].
      destruct (h <=? k) eqn:E2; [|discriminate]. inversion H; subst.
      apply Nat.leb_le in E2. apply Nat.leb_gt. lia.
  - destruct (gate3 s g1) as [[|]|], (gate3 s g2) as [[|]|]; inversion H; subst;
      try (rewrite (IH1 _ eq_refl)); try (rewrite (IH2 _ eq_refl)); cbn; auto using andb_false_r.
  - destruct (gate3 s g1) as [[|]|], (gate3 s g2) as [[|]|]; inversion H; subst;
      try (rewrite (IH1 _ eq_refl)); try (rewrite (IH2 _ eq_refl)); cbn; auto using orb_true_r.
Qed.

Lemma nth_error_skipn0 {A} (l : list A) i : nth_error l i = hd_error (skipn i l).
Proof. revert l; induction i as [|i IH]; intros [|x l]; cbn; auto. Qed.
Lemma skipn_S_tl {A} (l : list A) i : skipn (S i) l = tl (skipn i l).
Proof.
  revert l; induction i as [|i IH]; intros l.
  - destruct l; reflexivity.
  - destruct l as [|x l]; [reflexivity|]. cbn [skipn]. rewrite <- IH. reflexivity.
Qed.

Lemma word_incons_sound o w s : sat o w s ->
  forall r i, word_incons_from s i r = true -> skipn i w <> r.
Proof.
  intros Hs. induction r as [|x r IH]; cbn; intros i H; [discriminate|].
  apply orb_true_iff in H as [H|H].
  - pose proof (info_at_sound o w s i Hs) as Hi. intros Heq.
    assert (Hn : nth_error w i = Some x).
    { rewrite nth_error_skipn0, Heq. reflexivity. }
    destruct (info_at s i) as [c|cs].
    + rewrite Hi in Hn. inversion Hn; subst. rewrite N.eqb_refl in H. discriminate.
    + apply memN_In in H. exact (Hi x Hn H).
  - intros Heq. apply (IH (S i) H).
    rewrite skipn_S_tl, Heq. reflexivity.
Qed.

Lemma known_word_sound o w s : sat o w s ->
  forall n i w0, known_word s i n = Some w0 -> firstn n (skipn i w) = w0.
Proof.
  intros Hs. induction n as [|n IH]; cbn; intros i w0 H.
  - inversion H. reflexivity.
  - pose proof (info_at_sound o w s i Hs) as Hi.
    destruct (info_at s i) as [c|cs]; [|discriminate].
    destruct (known_word s (S i) n) as [w1|] eqn:E; [|discriminate]. inversion H; subst w0.
    apply IH in E. rewrite nth_error_skipn0 in Hi. rewrite skipn_S_tl in E.
    destruct (skipn i w) as [|y l]; [discriminate|]. cbn in *. inversion Hi; subst. reflexivity.
Qed.

Lemma firstn_len_all {A} (l : list A) : firstn (length l) l = l.
Proof. induction l; cbn; congruence. Qed.

Section WithIdent.
Variable IDENT : N.
Notation spec := (spec IDENT).

Notation leaf_ok := (leaf_ok IDENT).
Notation check := (check IDENT).


Lemma ident_ok_sound n tbl o w s :
    sat o w s -> length w = n -> ident_ok n tbl s = true -> spec tbl o w = IDENT.
  Proof.
    intros Hs Hl. unfold ident_ok. induction tbl as [|r t IH]; cbn; intros H; [reflexivity|].
    apply andb_true_iff in H as [Hr Ht]. rewrite (IH Ht).
    destruct (word_eqb (r_word r) w) eqn:Ew; cbn; [|reflexivity].
    apply word_eqb_eq in Ew.
    apply orb_true_iff in Hr as [Hr|Hr]; [apply orb_true_iff in Hr as [Hr|Hr]|].
    - apply negb_true_iff, Nat.eqb_neq in Hr. congruence.
    - exfalso. apply (word_incons_sound o w s Hs _ 0 Hr). cbn. congruence.
    - destruct (gate3 s (r_gate r)) as [[|]|] eqn:G; try discriminate.
      rewrite (gate3_sound o w s _ _ Hs G). reflexivity.
  Qed.

  Lemma kw_ok_sound tbl o w s k :
    sat o w s -> kw_ok_rows s w k tbl = true -> spec tbl o w = k.
  Proof.
    intros Hs. induction tbl as [|r t IH]; cbn; intros H; [discriminate|].
    destruct (word_eqb (r_word r) w) eqn:Ew; cbn; [|auto].
    destruct (gate3 s (r_gate r)) as [[|]|] eqn:G; try discriminate.
    - rewrite (gate3_sound o w s _ _ Hs G). apply N.eqb_eq in H. exact H.
    - rewrite (gate3_sound o w s _ _ Hs G). auto.
  Qed.

Section Sound.
  Variable n : nat.
  Variable tbl : list row.

  Lemma leaf_ok_sound o w s k :
    sat o w s -> length w = n -> leaf_ok n tbl s k = true -> spec tbl o w = k.
  Proof.
    intros Hs Hl. unfold leaf_ok. destruct (N.eqb k IDENT) eqn:E.
    - apply N.eqb_eq in E; subst k. intros H. eapply ident_ok_sound; eauto.
    - destruct (known_word s 0 n) as [w0|] eqn:K; [|discriminate].
      intros H. apply (known_word_sound o w s Hs) in K. cbn in K. rewrite <- Hl, firstn_len_all in K. subst w0.
      eapply kw_ok_sound; eauto.
  Qed.

  Lemma check_cond_sound o w (kt kf : store -> bool) (rt rf : option N) :
    length w = n ->
    (forall s, sat o w s -> kt s = true -> rt = Some (spec tbl o w)) ->
    (forall s, sat o w s -> kf s = true -> rf = Some (spec tbl o w)) ->
    forall c s, sat o w s -> check_cond n c s kt kf = true ->
      match cond_holds o w c with
      | None => False
      | Some true => rt = Some (spec tbl o w)
      | Some false => rf = Some (spec tbl o w)
      end.
  Proof.
    intros Hl Ht Hf. induction c as [|a c IH]; cbn; intros s Hs H.
    - eapply Ht; eauto.
    - apply andb_true_iff in H as [H H0]. apply andb_true_iff in H as [Hb H1].
      destruct (atom_holds o w a) as [b|] eqn:Ea.
      + destruct (assume_sound o w s a b Hs Ea) as (s' & Hs' & Hsat).
        destruct b.
        * rewrite Hs' in H1. apply (IH s' Hsat H1).
        * rewrite Hs' in H0. eapply Hf; eauto.
      + destruct a as [i c0| | |]; cbn in *; try discriminate.
        destruct (nth_error w i) eqn:En; [discriminate|].
        apply nth_error_None in En. apply Nat.ltb_lt in Hb. lia.
  Qed.

  Theorem check_sound : forall p s o w,
    length w = n -> sat o w s -> check n tbl p s = true -> eval p o w = Some (spec tbl o w).
  Proof.
    induction p as [k|c t IHt e IHe]; cbn; intros s o w Hl Hs H.
    - f_equal. symmetry. eapply leaf_ok_sound; eauto.
    - pose proof (check_cond_sound o w (check n tbl t) (check n tbl e) (eval t o w) (eval e o w) Hl
                    (fun s' Hs' Hc => IHt s' o w Hl Hs' Hc)
                    (fun s' Hs' Hc => IHe s' o w Hl Hs' Hc) c s Hs H) as HC.
      destruct (cond_holds o w c) as [[|]|]; [exact HC|exact HC|contradiction].
  Qed.

  Definition empty_store : store := {| st_chars := []; st_opts := []; st_lo := 0; st_hi := None |}.
  Lemma sat_empty o w : sat o w empty_store.
  Proof. repeat split; cbn; auto. lia. Qed.

  Corollary check_all_words p :
    check n tbl p empty_store = true ->
    forall o w, length w = n -> eval p o w = Some (spec tbl o w).
  Proof. intros H o w Hl. eapply check_sound; eauto using sat_empty. Qed.
End Sound.
End WithIdent.
