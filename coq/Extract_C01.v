Require Import ExtrOcamlBasic.
From PV Require Import Entry_C01.
Extraction "model.ml" run.
