(** C09 — Syntactic ambiguities are resolved correctly and never left silently. *)
From Coq Require Import List NArith Bool Arith Lia String.
From PV Require Import C09Model C09Proofs.
From PV.gen Require Import Gen_Disamb.
Import ListNotations.

(** (1) Every member of every node class that can hold an ambiguity node (static type expression,
    statement, type reference or a list of those) is passed to visitMaybeAmbiguous* by the class's
    visit function, and every other child of a class that has a visit function is descended into —
    as regenerated from the node headers and Disambiguator.cpp on this run. *)
Lemma C09_all_slots_replaced : forallb (fun r => snd r) ambiguity_slots = true /\ Nat.leb 50 (List.length ambiguity_slots) = true.
Proof. vm_compute. split; reflexivity. Qed.

(** (2) On ANY tree the parser can build (alternatives of an ambiguity node are ordinary nodes):
    when every slot is handled and the decisions are conclusive, the traversal completes and the
    result contains no ambiguity node, wherever the ambiguity nodes were. *)
Theorem C09_no_ambiguity_left : forall handled pick, (forall c s, handled c s = true) ->
  forall t, wf t = true -> plain t = true -> exists t', dis handled pick t = Some t' /\ noamb t' = true.
Proof. exact dis_complete. Qed.

(** and one unhandled slot is enough to leave the node silently: the traversal quits there *)
Theorem C09_unhandled_slot_keeps_ambiguity : forall handled pick c s a b rest, handled c s = false ->
  dis handled pick (Node c ((s, Amb a b) :: rest)) = None.
Proof. exact dis_unhandled. Qed.

(** (3) The name catalogue of a block.  [pre d c l]: the catalogue [c] the block starts from has only
    entries made at smaller depths (or entries of this depth that the rest of the block does not
    contradict), and the block mentions no name both as a type and as a non-type. *)
Lemma pre_of_outer d c l : (forall m k, depth_of (tys c) m = Some k -> k < d) -> (forall m k, depth_of (nts c) m = Some k -> k < d) ->
  (forall m, ment_t l m && ment_n l m = false) -> pre d c l.
Proof. intros A B C. split; [|split]; [intros m k H; left; eapply A; eauto|intros m k H; left; eapply B; eauto|exact C]. Qed.

(** for EVERY block (any items, any start catalogue meeting [pre]): after the block's own mentions a
    name is catalogued as a type iff the block mentions it as a type, or it was a type before and the
    block does not mention it as a non-type — and symmetrically *)
Theorem C09_block_catalogue : forall d l c, pre d c l -> forall m,
  has (tys (final_of d c l)) m = ment_t l m || (has (tys c) m && negb (ment_n l m)) /\
  has (nts (final_of d c l)) m = ment_n l m || (has (nts c) m && negb (ment_t l m)).
Proof. exact final_char. Qed.

(** hence: a declaration (or consistent use) in the block decides, whatever the enclosing blocks say — shadowing *)
Theorem C09_own_declaration_wins : forall d l c n, pre d c l ->
  (ment_t l n = true -> decide_expr (final_of d c l) n = KeepType /\ decide_stmt (final_of d c l) n = KeepType) /\
  (ment_n l n = true -> decide_expr (final_of d c l) n = KeepNonType /\ decide_stmt (final_of d c l) n = KeepNonType).
Proof.
  intros d l c n Hp. destruct (C09_block_catalogue d l c Hp n) as [A B]. destruct Hp as [_ [_ P3]]. specialize (P3 n).
  unfold decide_expr, decide_stmt. rewrite A, B. split; intros H; rewrite H in *; cbn in P3.
  - rewrite P3. cbn. rewrite andb_false_r. cbn. split; reflexivity.
  - rewrite andb_true_r in P3. rewrite P3. cbn. rewrite andb_false_r. cbn. split; reflexivity.
Qed.

(** and a name the block does not mention is decided as in the enclosing block at the point of entry — inheritance *)
Theorem C09_unmentioned_is_inherited : forall d l c n, pre d c l -> ment_t l n = false -> ment_n l n = false ->
  decide_expr (final_of d c l) n = decide_expr c n /\ decide_stmt (final_of d c l) n = decide_stmt c n.
Proof.
  intros d l c n Hp Ht Hn. destruct (C09_block_catalogue d l c Hp n) as [A B].
  unfold decide_expr, decide_stmt. rewrite A, B, Ht, Hn. cbn. rewrite !andb_true_r. split; reflexivity.
Qed.

(** (4) Composition over ANY nesting of blocks.  [spec_sites] is the same traversal with scoping environments in place of
    catalogues: a site's environment is everything mentioned in the enclosing blocks up to the point where its block was
    entered, plus ALL mentions of its own block (uses and declarations alike; innermost and most recent first).
    For every translation unit in which no block mentions a name in both categories: every ambiguity site is decided with
    a catalogue that agrees with that environment, so the decision IS the environment's reading — typedef name, object /
    function, or inconclusive when the name is mentioned nowhere in view.  Shadowing at any depth is included; the only
    departure from C's positional scoping is that a block's own LATER mentions count too (C09_late_redeclaration_refuted). *)
Lemma unit_is_block l cf c : sites 0 cf c (IBlock l) = sites_list 1 (final_of 1 c l) c l.
Proof.
  cbn [sites]. generalize (final_of 1 c l) as cf'. intros cf'. revert c. induction l as [|x r IH]; intros c; [reflexivity|].
  cbn [sites_list]. rewrite IH. reflexivity.
Qed.

Theorem C09_sites_follow_scoping : forall l, single (IBlock l) ->
  Forall2 site_ok (unit_sites l) (spec_sites [] [] (IBlock l)).
Proof.
  intros l Hs. unfold unit_sites. rewrite <- (unit_is_block l empty_cat empty_cat).
  apply sites_agree; try exact Hs.
  - intros n. split; reflexivity.
  - intros n. split; reflexivity.
  - split; intros m k H; discriminate H.
Qed.

Theorem C09_decisions_are_the_scoping_reading : forall l, single (IBlock l) ->
  Forall2 (fun s s' => fst (fst s) = fst (fst s') /\ decide_expr (snd s) (snd (fst s)) = reading (snd s') (snd (fst s')) /\
                       decide_stmt (snd s) (snd (fst s)) = reading (snd s') (snd (fst s')))
          (unit_sites l) (spec_sites [] [] (IBlock l)).
Proof.
  intros l Hs. pose proof (C09_sites_follow_scoping l Hs) as H. induction H as [|s s' r r' [A [B' C]] Hr IH]; constructor; [|exact IH].
  destruct (decide_agrees _ _ (snd (fst s)) C) as [D E]. rewrite B' in *. repeat split; assumption.
Qed.

(** The catalogue is per block, not per position: a redeclaration AFTER the site changes the site's
    reading (C gives the typedef of the enclosing block at that point).  Same root as C10's known finding. *)
Example C09_late_redeclaration_refuted :
  let outer := {| tys := [(7%N, 1)]; nts := [] |} in
  decide_stmt (final_of 2 outer [ISite 0 7%N; INon 7%N]) 7%N = KeepNonType /\ decide_stmt outer 7%N = KeepType.
Proof. vm_compute. split; reflexivity. Qed.

(** Non-vacuity: typedef int T; int v; { int T; T * v; { typedef int v; (v) - 1; } } *)
Example C09_nonvacuous :
  let file := final_of 1 empty_cat [IType 1%N; INon 2%N] in
  let b1 := final_of 2 file [INon 1%N; ISite 0 1%N] in
  let b2 := final_of 3 b1 [IType 2%N; ISite 1 2%N] in
  decide_stmt b1 1%N = KeepNonType /\ decide_expr b2 2%N = KeepType /\ decide_expr b2 1%N = KeepNonType /\ decide_expr file 1%N = KeepType.
Proof. vm_compute. repeat split; reflexivity. Qed.

Print Assumptions C09_no_ambiguity_left.
Print Assumptions C09_unhandled_slot_keeps_ambiguity.
Print Assumptions C09_block_catalogue.
Print Assumptions C09_own_declaration_wins.
Print Assumptions C09_unmentioned_is_inherited.
Print Assumptions C09_sites_follow_scoping.
Print Assumptions C09_decisions_are_the_scoping_reading.
