(** C11 — TypeChecker::typesAreCompatible over type terms.  [compat_tf v q t1 t2]: [v] = treatVoidAsAny,
    [q] = ignoreQualifier, on typedef-free terms; the function resolves typedef names on either side
    as it meets them, which on terms is resolution first ([den], C12). *)
From Coq Require Import List NArith Bool Arith.
From PV Require Import C12Model.
Import ListNotations.

Fixpoint compat_tf (fuel : nat) (v q : bool) (t1 t2 : ty) : bool :=
  match fuel with
  | O => false
  | S f =>
      match t1, t2 with
      | TName _, _ | _, TName _ => false                    (* resolved away before *)
      | TErr, _ => false
      | TQual q1 u1, _ =>
          if q then compat_tf f v q u1 t2
          else match t2 with
               | TVoid => v
               | TQual q2 u2 => N.eqb q1 q2 && compat_tf f v q u1 u2
               | _ => false
               end
      | _, TQual _ u2 => if q then compat_tf f v q t1 u2 else (match t1 with TVoid => v | _ => false end)
      | TArr a, TArr b | TArr a, TPtr b | TPtr a, TArr b | TPtr a, TPtr b => compat_tf f v q a b
      | TArr _, TVoid | TPtr _, TVoid | TBasic _, TVoid | TFun _ _, TVoid | TTag _, TVoid => v
      | TVoid, TVoid => true
      | TVoid, TErr => false
      | TVoid, _ => v
      | TBasic k1, TBasic k2 => N.eqb k1 k2
      | TTag n1, TTag n2 => N.eqb n1 n2
      | TFun r1 ps1, TFun r2 ps2 =>
          compat_tf f false q r1 r2 &&
          (fix go (l1 l2 : list ty) : bool :=
             match l1, l2 with
             | [], [] => true
             | a :: l1', b :: l2' => compat_tf f v q a b && go l1' l2'
             | _, _ => false
             end) ps1 ps2
      | _, _ => false
      end
  end.

Definition compat (d : list (N * ty)) (v q : bool) (t1 t2 : ty) : bool :=
  let a := den d t1 in let b := den d t2 in compat_tf (S (size a + size b)) v q a b.

(** types the relation is meant for: no error type inside *)
Fixpoint clean (t : ty) : bool :=
  match t with
  | TErr | TName _ => false
  | TPtr u | TArr u | TQual _ u => clean u
  | TFun r ps => clean r && forallb clean ps
  | _ => true
  end.
