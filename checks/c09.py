# C09 — Syntactic ambiguities are resolved correctly and never left silently.
import json, os, random, sys
from lib import pv, sexp
sys.path.insert(0, os.path.join(pv.ROOT, "gen"))
import ambig

MODES = {0: "None", 1: "Algorithmic", 2: "AlgorithmicAndHeuristic", 3: "Heuristic"}


def kinds():
    sys.path.insert(0, os.path.join(pv.ROOT, "translate"))
    from common import enum_values
    return dict(enum_values("C/syntax/SyntaxKind.h", "SyntaxKind"))


def spans(root):
    """pre-order list of (node, first token, last token)"""
    out = []

    def go(x):
        if x is None:
            return None
        if x[0] == "t":
            return (x[1], x[1]) if x[1] > 0 else None
        if x[0] == "d":
            return (x[1], x[1]) if x[1] > 0 else None
        if x[0] == "L":
            lo = hi = None
            for e in x[1]:
                r = go(e)
                if r:
                    lo = r[0] if lo is None else min(lo, r[0]); hi = r[1] if hi is None else max(hi, r[1])
            return (lo, hi) if lo is not None else None
        if x[0] == "N":
            idx = len(out)
            out.append(None)
            lo = hi = None
            for c in x[2]:
                r = go(c)
                if r:
                    lo = r[0] if lo is None else min(lo, r[0]); hi = r[1] if hi is None else max(hi, r[1])
            out[idx] = (x, lo, hi)
            return (lo, hi) if lo is not None else None
        return None
    go(root)
    return out


def tokens_of(x):
    out = []

    def go(y):
        if y is None:
            return
        if y[0] in "td":
            if y[1] > 0:
                out.append(y[1])
        elif y[0] == "L":
            for e in y[1]:
                go(e)
        elif y[0] == "N":
            for c in y[2]:
                go(c)
    go(x)
    return sorted(set(out))


def run(chk, only=None):
    chk.coverage["trusted_base"] = pv.TRUSTED_COMMON + [
        "translate/disamb.py: which members of which node classes can hold an ambiguity node and whether Disambiguator::visitX passes them to visitMaybeAmbiguous* / descends into them (regular expressions over the node "
        "headers and Disambiguator.cpp; cross-checked by the behavioural sweep below, which places ambiguities under every such member)",
        "hand-written model coq/C09Model.v of NameCatalog (per-block name-use maps with nesting depths, copy on block entry, the erase-on-shadowing rule) and of the three decision functions of "
        "SyntaxCorrelationDisambiguator; tied by correspondence on generated programs",
        "reference symbol table gen/ambig.py (positional C scoping)"]
    chk.assumptions = ["names are declared before use and not redeclared in a block after being used there (the latter is C10's known finding about non-positional scopes)"]
    terr = None
    try:
        sys.path.insert(0, os.path.join(pv.ROOT, "translate"))
        import disamb
        rows = disamb.generate()
    except Exception as e:
        terr = "%s: %s" % (type(e).__name__, e); rows = []
    res = chk.prove(["Properties_C09.v"], extra_targets=["Entry_C09.vo"])
    proof_ok = all(ok for ok, _ in res.values()) and terr is None
    if terr is not None:
        chk.coverage["discharged"] = 0
    SK = kinds()
    NAME = {}
    for k, v in SK.items():
        NAME.setdefault(v, k)
    AMB = {SK[n] for n in SK if n.startswith("Ambiguous")}
    quick = chk.tier == "quick"
    rng = chk.rng
    progs = []
    for i in range(1500 if quick else 20000):
        p = ambig.P(random.Random(rng.getrandbits(48))).generate()
        if p.sites and not p.late:
            progs.append(p)
    bad_model = []
    model_n = 0
    try:
        pv.build_model("C09")
        mo = pv.run_model("C09", [" ".join(map(str, p.model_request())) for p in progs], shards=pv.NCPU)
    except Exception as e:
        mo = None; terr = terr or ("model runner: %r" % (e,))
    model_dec = {}
    if mo:
        for p, m in zip(progs, mo):
            model_dec[id(p)] = {m[i]: (m[i + 1], m[i + 2]) for i in range(0, len(m) - 2, 3)} if m and m[0] >= 0 else {}
    reqs, meta = [], []
    for p in progs:
        for dm in (2, 1, 3, 0):
            reqs.append("tree 0 2:1:200000:0:%d %s" % (dm, p.text().encode().hex())); meta.append((p, dm))
    impl = pv.run_impl(reqs, shards=pv.NCPU)
    bad = []
    dist = {"programs": len(progs), "sites": 0, "declared_sites": 0, "undeclared_sites": 0, "ambiguity_nodes_mode_None": 0, "forms": {}}
    BIN = {"cast-": "SubstractExpression", "cast+": "AddExpression", "cast*": "MultiplyExpression", "cast&": "BitwiseANDExpression", "cast&&": "LogicalANDExpression"}
    for (p, dm), a in zip(meta, impl):
        sa = sexp.split_answer(a) if a.startswith("OK") else None
        if sa is None:
            bad.append((p, dm, "crash-or-error", a[:200])); continue
        ntok, full, dump, diags = sa
        other = [d for d in diags if not d.startswith("Parser-A")]
        if other:
            bad.append((p, dm, "generator-produced-invalid-program", str(other[:3]))); continue
        root = sexp.parse_dump(dump)
        sp = spans(root)
        amb_nodes = [(n, lo, hi) for n, lo, hi in sp if n[1] in AMB]
        if dm == 0:
            dist["ambiguity_nodes_mode_None"] += len(amb_nodes)
            # both readings cover the same tokens; one diagnostic per ambiguity node
            for n, lo, hi in amb_nodes:
                alts = [c for c in n[2] if c is not None and c[0] == "N"]
                if len(alts) == 2 and tokens_of(alts[0]) != tokens_of(alts[1]):
                    bad.append((p, dm, "alternatives-cover-different-tokens", (NAME[n[1]], tokens_of(alts[0]), tokens_of(alts[1]))))
            if len(amb_nodes) > len(diags):
                bad.append((p, dm, "ambiguity-without-diagnostic", (len(amb_nodes), diags)))
        elif dm in (2, 3):
            if amb_nodes:
                n, lo, hi = amb_nodes[0]
                bad.append((p, dm, "ambiguity-node-left-in-mode-%s" % MODES[dm], (NAME[n[1]], (" ".join(p.toks[lo - 1:hi]) if lo else "(no token span)"))))
        else:
            if len(amb_nodes) > len(diags):
                n, lo, hi = amb_nodes[0]
                bad.append((p, dm, "ambiguity-left-silently", (NAME[n[1]], (" ".join(p.toks[lo - 1:hi]) if lo else "(no token span)"), diags)))
        if dm in (1, 2):
            for form, first, last, name, want in p.sites:
                if dm == 2:
                    dist["sites"] += 1
                    dist["forms"][form] = dist["forms"].get(form, 0) + 1
                    dist["declared_sites" if want else "undeclared_sites"] += 1
                if want is None:
                    continue
                cands = [(n, lo, hi) for n, lo, hi in sp if lo == first and hi in (last, last + 1, last - 1)]
                got = None
                for n, lo, hi in cands:
                    k = NAME.get(n[1], "")
                    if n[1] in AMB:
                        got = "ambiguous"; break
                    if form in ("mul", "call", "mul2"):
                        if k == "DeclarationStatement":
                            got = "decl"; break
                        if k == "ExpressionStatement":
                            got = "expr"; break
                    elif form.startswith("tail"):
                        if k == "MultiplyExpression":
                            ch = [c for c in n[2] if c is not None and c[0] == "N"]
                            lk = NAME.get(ch[0][1], "") if ch else ""
                            # the product's left operand tells which reading was chosen; a sum there is the binary reading with the wrong precedence
                            got = "product-of-cast" if lk == "CastExpression" else ("product-of-sum" if lk in ("SubstractExpression", "AddExpression") else "product-of-" + lk); break
                        if k in ("SubstractExpression", "AddExpression"):
                            got = "sum-with-product"; break
                    elif form.startswith("cast"):
                        if k == "CastExpression":
                            got = "cast"; break
                        if k == BIN[form]:
                            got = "binary"; break
                    else:
                        if k in ("SizeofExpression", "AlignofExpression"):
                            ch = [c for c in n[2] if c is not None and c[0] == "N"]
                            ck = NAME.get(ch[0][1], "") if ch else ""
                            got = {"TypeNameAsTypeReference": "typename", "ExpressionAsTypeReference": "expression"}.get(ck, "ambiguous" if ch and ch[0][1] in AMB else ck)
                            break
                if got is None:
                    # the construct was absorbed into a larger node (e.g. a wrong precedence): report what covers it
                    cover = [(NAME.get(n[1], n[1]), lo, hi) for n, lo, hi in sp if lo is not None and lo <= first and hi >= last][-1:]
                    got = "not-found:%s" % (cover,)
                if dm == 1 and id(p) in model_dec:
                    si = p.sites.index((form, first, last, name, want))
                    md = model_dec[id(p)].get(si)
                    if md is not None:
                        model_n += 1
                        d = md[1] if form in ("mul", "call", "mul2") else md[0]
                        impl_d = {"decl": 0, "cast": 0, "typename": 0, "product-of-cast": 0, "expr": 1, "binary": 1, "expression": 1, "sum-with-product": 1, "product-of-sum": 1, "ambiguous": 2}.get(got)
                        if form == "call" and d == 2:
                            pass         # the call form has one more rule (a defined non-type argument) that the model leaves out
                        elif impl_d is not None and impl_d != d:
                            bad_model.append((p.text(), form, name, "model %d" % d, "implementation %s" % got))
                if got == "ambiguous" and dm == 1:
                    continue        # Algorithmic alone may stay inconclusive (then it must carry a diagnostic, checked above)
                if got != want:
                    bad.append((p, dm, "wrong-reading:%s" % form, (" ".join(p.toks[first - 1:last]), name, "declared as " + str(p_look(p, name, first)), "want " + want, "got " + str(got))))
    chk.coverage["evaluations"] = len(reqs)
    chk.coverage["distinct_nontrivial"] = len({p.text() for p in progs if len(p.sites) >= 2})
    chk.coverage["rule"] = ("generated programs: file-scope typedefs/objects/functions/enumerators, one function (its parameter may shadow a typedef) whose nested blocks declare (and shadow, with the other category) names and "
                            "contain the ambiguity forms A*b; A(b); (A)-b (A)+b (A)*b (A)&b sizeof(A) _Alignof(A) as statements, in for-init, under labels, and inside initialisers, call arguments (nested), subscripts, "
                            "if/while/for conditions and steps, return, parentheses, ?:, compound assignment, comma, case labels — with A a visible typedef, object, function or undeclared; each under the four "
                            "disambiguation modes.  Checked: the reading chosen (modes Algorithmic, AlgorithmicAndHeuristic) against the symbol-table reading for declared names; no ambiguity node at all in the "
                            "default and Heuristic modes; in mode Algorithmic a remaining node only with its diagnostic; in mode None one diagnostic per node and both alternatives over the same tokens. "
                            "non-trivial = at least two ambiguity sites")
    chk.coverage["samples"] = [progs[0].text()[:300], progs[-1].text()[:300]] if progs else []
    dist["model_decisions_compared"] = model_n
    dist["model_disagreements"] = len(bad_model)
    chk.coverage["distribution"] = dist
    seen = set()
    bad.sort(key=lambda x: len(x[0].toks))
    for p, dm, why, det in bad:
        key = why
        if key in seen:
            continue
        seen.add(key)
        chk.report(key, {"text": p.text(), "mode": MODES[dm], "request": "tree 0 2:1:200000:0:%d %s" % (dm, p.text().encode().hex()), "why": why, "detail": str(det)[:800],
                         "count_same_kind": sum(1 for b in bad if b[2] == why)}, found=True, what="an ambiguity is resolved wrongly or left silently")
    unhandled = [r for r in rows if not r[3]]
    if bad_model and not chk.violations:
        for bm in bad_model[:3]:
            chk.notes.append(str(bm)[:600])
        chk.report("model-correspondence", {"unchecked": "correspondence C09Model (catalogue + decisions) vs the implementation in mode Algorithmic", "first": str(bad_model[0])[:900], "count": len(bad_model)}, found=False)
    if terr is not None and not bad:
        chk.report("translator", {"unchecked": "translate/disamb.py: " + terr}, found=False)
    if not proof_ok and terr is None and not bad:
        for f, (ok, out) in res.items():
            if not ok:
                chk.report("proof-" + f, {"unchecked": f + " (theorems: %s)" % ", ".join(pv.theorem_names(f)), "slots_not_replaced": [list(map(str, r[:3])) for r in unhandled], "coq_output": out[-3000:]}, found=False)


def p_look(p, name, first):
    return name


def replay(chk, path):
    r = json.load(open(path))
    if r.get("request"):
        print("implementation:", pv.run_impl([r["request"]])[0][:3000])
    run(chk)
