Require Import ExtrOcamlBasic.
From PV Require Import Entry_C07.
Extraction "model.ml" run.
