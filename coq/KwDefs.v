(** C17 — decision programs (what translate/kw.py emits for Keywords.cpp), their
    semantics, the specification table, and the symbolic checker.  No proofs. *)
From Coq Require Import List NArith Arith Bool Lia.
Import ListNotations.
Local Open Scope nat_scope.

(* ---------- decision programs ---------- *)
Inductive atom := AChar (i : nat) (c : N) | AOpt (k : nat) | ANotOpt (k : nat) | AStdGe (k : nat).
Definition cond := list atom.
Inductive dp := DRet (k : N) | DIf (c : cond) (t e : dp).

Definition opts := (nat * (nat -> bool))%type.
Definition word := list N.

Definition atom_holds (o : opts) (w : word) (a : atom) : option bool :=
  match a with
  | AChar i c => match nth_error w i with Some x => Some (N.eqb x c) | None => None end
  | AOpt k => Some (snd o k)
  | ANotOpt k => Some (negb (snd o k))
  | AStdGe k => Some (k <=? fst o)
  end.

Fixpoint cond_holds (o : opts) (w : word) (c : cond) : option bool :=
  match c with
  | [] => Some true
  | a :: c' => match atom_holds o w a with
               | None => None
               | Some false => Some false
               | Some true => cond_holds o w c'
               end
  end.

Fixpoint eval (p : dp) (o : opts) (w : word) : option N :=
  match p with
  | DRet k => Some k
  | DIf c t e => match cond_holds o w c with
                 | None => None
                 | Some true => eval t o w
                 | Some false => eval e o w
                 end
  end.

(* ---------- specification table ---------- *)
Inductive gate := GTrue | GFalse | GOpt (k : nat) | GStd (k : nat) | GAnd (a b : gate) | GOr (a b : gate).
Fixpoint gate_eval (o : opts) (g : gate) : bool :=
  match g with
  | GTrue => true | GFalse => false
  | GOpt k => snd o k | GStd k => k <=? fst o
  | GAnd a b => gate_eval o a && gate_eval o b
  | GOr a b => gate_eval o a || gate_eval o b
  end.

Record row := { r_word : word; r_kind : N; r_gate : gate }.
Section Ident.
Variable IDENT : N. (* SyntaxKind::IdentifierToken, supplied from Gen_SyntaxKind *)

Fixpoint word_eqb (a b : word) : bool :=
  match a, b with
  | [], [] => true
  | x :: a', y :: b' => N.eqb x y && word_eqb a' b'
  | _, _ => false
  end.

Lemma word_eqb_eq a b : word_eqb a b = true <-> a = b.
Proof.
  revert b; induction a as [|x a IH]; intros [|y b]; cbn; split; intros H; try congruence; try discriminate.
  - apply andb_true_iff in H as [H1 H2]. apply N.eqb_eq in H1. apply IH in H2. congruence.
  - inversion H; subst. rewrite N.eqb_refl. cbn. apply IH. reflexivity.
Qed.

(* first row whose word matches and whose gate holds *)
Fixpoint spec (tbl : list row) (o : opts) (w : word) : N :=
  match tbl with
  | [] => IDENT
  | r :: tbl' => if word_eqb (r_word r) w && gate_eval o (r_gate r) then r_kind r else spec tbl' o w
  end.

(* ---------- constraint store ---------- *)
Inductive cinfo := Known (c : N) | Excl (cs : list N).
Record store := { st_chars : list (nat * cinfo); st_opts : list (nat * bool); st_lo : nat; st_hi : option nat }.
(* std in [lo, hi) ; hi = None means unbounded *)

Fixpoint lookup {A} (k : nat) (l : list (nat * A)) : option A :=
  match l with [] => None | (k', v) :: l' => if Nat.eqb k k' then Some v else lookup k l' end.

Definition char_ok (w : word) (ic : nat * cinfo) : Prop :=
  match snd ic with
  | Known c => nth_error w (fst ic) = Some c
  | Excl cs => forall x, nth_error w (fst ic) = Some x -> ~ In x cs
  end.

Definition sat (o : opts) (w : word) (s : store) : Prop :=
  Forall (char_ok w) (st_chars s) /\
  Forall (fun kb => snd o (fst kb) = snd kb) (st_opts s) /\
  st_lo s <= fst o /\
  match st_hi s with Some h => fst o < h | None => True end.

Definition info_at (s : store) (i : nat) : cinfo :=
  match lookup i (st_chars s) with Some ci => ci | None => Excl [] end.

Definition set_char (s : store) (i : nat) (ci : cinfo) : store :=
  {| st_chars := (i, ci) :: st_chars s; st_opts := st_opts s; st_lo := st_lo s; st_hi := st_hi s |}.

Fixpoint memN (x : N) (l : list N) : bool :=
  match l with [] => false | y :: l' => N.eqb x y || memN x l' end.
Lemma memN_In x l : memN x l = true <-> In x l.
Proof. induction l as [|y l IH]; cbn; [split; [discriminate|tauto]|].
  rewrite orb_true_iff, N.eqb_eq, IH. split; intros [H|H]; auto. Qed.

(* assume atom = b; None = inconsistent *)
Definition assume (s : store) (a : atom) (b : bool) : option store :=
  match a with
  | AChar i c =>
      match info_at s i with
      | Known c' => if Bool.eqb (N.eqb c' c) b then Some s else None
      | Excl cs => if b then (if memN c cs then None else Some (set_char s i (Known c)))
                   else Some (set_char s i (Excl (c :: cs)))
      end
  | AOpt k =>
      match lookup k (st_opts s) with
      | Some v => if Bool.eqb v b then Some s else None
      | None => Some {| st_chars := st_chars s; st_opts := (k, b) :: st_opts s; st_lo := st_lo s; st_hi := st_hi s |}
      end
  | ANotOpt k =>
      match lookup k (st_opts s) with
      | Some v => if Bool.eqb v (negb b) then Some s else None
      | None => Some {| st_chars := st_chars s; st_opts := (k, negb b) :: st_opts s; st_lo := st_lo s; st_hi := st_hi s |}
      end
  | AStdGe k =>
      if b then
        (match st_hi s with
         | Some h => if h <=? k then None else Some {| st_chars := st_chars s; st_opts := st_opts s; st_lo := Nat.max (st_lo s) k; st_hi := st_hi s |}
         | None => Some {| st_chars := st_chars s; st_opts := st_opts s; st_lo := Nat.max (st_lo s) k; st_hi := st_hi s |}
         end)
      else
        (if k <=? st_lo s then None
         else Some {| st_chars := st_chars s; st_opts := st_opts s; st_lo := st_lo s;
                      st_hi := match st_hi s with Some h => Some (Nat.min h k) | None => Some k end |})
  end.

(* three-valued gate *)
Fixpoint gate3 (s : store) (g : gate) : option bool :=
  match g with
  | GTrue => Some true | GFalse => Some false
  | GOpt k => lookup k (st_opts s)
  | GStd k => if k <=? st_lo s then Some true
              else match st_hi s with Some h => if h <=? k then Some false else None | None => None end
  | GAnd a b => match gate3 s a, gate3 s b with
                | Some false, _ | _, Some false => Some false
                | Some true, Some true => Some true
                | _, _ => None end
  | GOr a b => match gate3 s a, gate3 s b with
               | Some true, _ | _, Some true => Some true
               | Some false, Some false => Some false
               | _, _ => None end
  end.

(* is row word inconsistent with the store's char constraints? *)
Fixpoint word_incons_from (s : store) (i : nat) (w : word) : bool :=
  match w with
  | [] => false
  | x :: w' => (match info_at s i with
                | Known c => negb (N.eqb c x)
                | Excl cs => memN x cs end) || word_incons_from s (S i) w'
  end.

Fixpoint known_word (s : store) (i n : nat) : option word :=
  match n with
  | 0 => Some []
  | S n' => match info_at s i with
            | Known c => match known_word s (S i) n' with Some w => Some (c :: w) | None => None end
            | Excl _ => None end
  end.

Section Check.
  Variable n : nat.
  Variable tbl : list row.

  Definition atom_inb (a : atom) : bool :=
    match a with AChar i _ => i <? n | _ => true end.

  (* all rows: either length differs, or inconsistent, or gate definitely false *)
  Definition ident_ok (s : store) : bool :=
    forallb (fun r => negb (Nat.eqb (length (r_word r)) n)
                      || word_incons_from s 0 (r_word r)
                      || match gate3 s (r_gate r) with Some false => true | _ => false end) tbl.

  (* keyword leaf: word fully known; first matching row has definite-true gate and right kind;
     earlier rows with same word must be definitely false *)
  Fixpoint kw_ok_rows (s : store) (w0 : word) (k : N) (rows : list row) : bool :=
    match rows with
    | [] => false
    | r :: rows' =>
        if word_eqb (r_word r) w0 then
          match gate3 s (r_gate r) with
          | Some true => N.eqb (r_kind r) k
          | Some false => kw_ok_rows s w0 k rows'
          | None => false
          end
        else kw_ok_rows s w0 k rows'
    end.

  Definition leaf_ok (s : store) (k : N) : bool :=
    if N.eqb k IDENT then ident_ok s
    else match known_word s 0 n with
         | Some w0 => kw_ok_rows s w0 k tbl
         | None => false
         end.

  Fixpoint check_cond (c : cond) (s : store) (kt kf : store -> bool) : bool :=
    match c with
    | [] => kt s
    | a :: c' =>
        atom_inb a &&
        (match assume s a true with None => true | Some s1 => check_cond c' s1 kt kf end) &&
        (match assume s a false with None => true | Some s0 => kf s0 end)
    end.

  Fixpoint check (p : dp) (s : store) : bool :=
    match p with
    | DRet k => leaf_ok s k
    | DIf c t e => check_cond c s (check t) (check e)
    end.
End Check.
End Ident.
