Require Import ExtrOcamlBasic.
From PV Require Import Entry_C13.
Extraction "model.ml" run.
