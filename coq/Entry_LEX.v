(** Request decoder for the lexer model: [keep (1: comments kept, 0: discarded); b1; b2; ...] (the bytes of the text)
    -> for every token of Lexer::lex after the marker: kind, byteStart, byteEnd, charStart, charEnd, flags & 7 *)
From Coq Require Import ZArith List Bool NArith.
From PV Require Import LexModel.
Import ListNotations.
Local Open Scope Z_scope.

Definition run (req : list Z) : list Z :=
  match req with
  | k :: bytes =>
      flat_map (fun t : N * nat * nat * nat * nat * N =>
                  let '(kd, bs, be, cs, ce, fl) := t in
                  [Z.of_N kd; Z.of_nat bs; Z.of_nat be; Z.of_nat cs; Z.of_nat ce; Z.of_N fl])
               (lex_all (negb (k =? 0)) (map Z.to_N bytes))
  | [] => []
  end.
