// total <cat> <opts> <hex>      -> "OK <root kind> <tokens> <diags> <max byteEnd> <text size> <early>" | "LIMIT <what>" (the declared nesting-limit error)
// recover <fn> <opts> <hex> <cur> -> "<new cursor> <token count> <result>"   fn: d|D|m|s (ignore*), k<kind> (skipTo), t<kind> (match), b<ref> (consume to <cur>, backtrack to <ref>)
// advance <hex>                 -> byte offsets visited by repeated yyinput_CORE from 0 until the NUL, then the UTF-16 offset
#include "tree.h"
#include "C/parser/Parser.h"
#include "C/parser/Lexer.h"
using namespace pvh;

HANDLER(total)
{
    int cat; std::string o, h; in >> cat >> o >> h;
    if (h == "-") h = "";
    std::string text = unhex(h);
    try {
        auto tree = parse(text, makeOpts(o), catOf(cat));
        std::ostringstream out;
        unsigned maxEnd = 0;
        auto n = tree->tokenCount();
        for (unsigned i = 0; i < n; ++i) {
            const SyntaxToken& tk = tree->tokenAt(i);
            if (tk.byteEnd() > maxEnd) maxEnd = tk.byteEnd();
            if (tk.byteStart() > maxEnd) maxEnd = tk.byteStart();
        }
        auto root = tree->rootNode();
        out << "OK " << (root ? (int)root->kind() : -1) << " " << n << " " << tree->diagnostics().size() << " " << maxEnd << " "
            << text.size() << " " << (tree->parseExitedEarly() ? 1 : 0) << " " << (int)tree->tokenAt(n - 1).kind();
        return out.str();
    } catch (const std::runtime_error& e) {
        return std::string("LIMIT ") + e.what();
    }
}

HANDLER(recover)
{
    std::string fn, o, h; unsigned cur; in >> fn >> o >> h >> cur;
    if (h == "-") h = "";
    std::unique_ptr<SyntaxTree> tree(new SyntaxTree(SourceText(unhex(h)), TextPreprocessingState::Unknown,
                                                    TextCompleteness::Unknown, makeOpts(o), ""));
    Lexer lexer(tree.get());
    lexer.lex();
    Parser parser(tree.get());
    auto n = tree->tokenCount();
    if (cur < 1 || cur >= n) return "ERR cursor";
    parser.curTkIdx_ = cur;
    int res = -1;
    if (fn == "d") res = parser.ignoreDeclarator();
    else if (fn == "D") res = parser.ignoreDeclarationOrDefinition();
    else if (fn == "m") res = parser.ignoreMemberDeclaration();
    else if (fn == "s") res = parser.ignoreStatement();
    else if (fn[0] == 'k') parser.skipTo((SyntaxKind)atoi(fn.c_str() + 1));
    else if (fn[0] == 't') { LexedTokens::IndexType idx; res = parser.match((SyntaxKind)atoi(fn.c_str() + 1), &idx); res = res * 100000 + (int)idx; }
    else if (fn[0] == 'b') {
        unsigned ref = atoi(fn.c_str() + 1);
        parser.curTkIdx_ = ref;
        Parser::Backtracker bt(&parser);
        parser.curTkIdx_ = cur;
        bt.backtrack();
    }
    else return "ERR fn";
    return std::to_string(parser.curTkIdx_) + " " + std::to_string(n) + " " + std::to_string(res);
}

HANDLER(advance)
{
    std::string h; in >> h;
    if (h == "-") h = "";
    std::string text = unhex(h);
    std::unique_ptr<SyntaxTree> tree(new SyntaxTree(SourceText(text), TextPreprocessingState::Unknown,
                                                    TextCompleteness::Unknown, makeOpts("2:1:0:0:2"), ""));
    Lexer lexer(tree.get());
    const char* beg = lexer.c_strBeg_;
    const char* yy = beg;
    unsigned char ch = *yy;
    unsigned col = 0, off = 0;
    std::ostringstream out;
    int guard = 0;
    while (ch && guard++ < 100000) {
        lexer.yyinput_CORE(yy, ch, col, off);
        out << (yy - beg) << " ";
        if ((size_t)(yy - beg) > text.size()) { out << "PAST-END"; break; }
    }
    out << "| " << off;
    return out.str();
}

// guess <ctx> <kr> <opts> <hex> <cur> -> the answer of Parser::guessRoleOfIdentifier(ctx) with the cursor at token <cur> (0 declarator, 1 typedef-name)
HANDLER(guess)
{
    int ctx, kr; std::string o, h; unsigned cur; in >> ctx >> kr >> o >> h >> cur;
    if (h == "-") h = "";
    std::unique_ptr<SyntaxTree> tree(new SyntaxTree(SourceText(unhex(h)), TextPreprocessingState::Unknown,
                                                    TextCompleteness::Unknown, makeOpts(o), ""));
    Lexer lexer(tree.get());
    lexer.lex();
    Parser parser(tree.get());
    auto n = tree->tokenCount();
    if (cur < 1 || cur >= n) return "ERR cursor";
    parser.curTkIdx_ = cur;
    parser.isWithinKandRFuncDef_ = kr != 0;
    auto r = parser.guessRoleOfIdentifier((Parser::DeclarationContext)ctx);
    return std::to_string((int)r);
}
