# C15 — Results are deterministic; each tree's model is independent of the others and of the call history.
import itertools, json, os, re, subprocess, sys
from lib import pv
sys.path.insert(0, os.path.join(pv.ROOT, "gen"))
import corpus

OPTS = "2:1:%x" % (1 << 21)


def split_trees(ans):
    """' T0 {parse} {sema} T1 ...' -> [(parse, sema)]"""
    return re.findall(r" T\d+ \{(.*?)\} \{(.*?)\}(?= T\d+ \{|$)", ans)


SPECS = [["char"], ["signed", "char"], ["unsigned", "char"], ["short"], ["short", "int"], ["signed", "short"], ["signed", "short", "int"], ["unsigned", "short"], ["unsigned", "short", "int"],
         ["int"], ["signed"], ["signed", "int"], ["unsigned"], ["unsigned", "int"], ["long"], ["long", "int"], ["signed", "long"], ["signed", "long", "int"], ["unsigned", "long"],
         ["unsigned", "long", "int"], ["long", "long"], ["long", "long", "int"], ["signed", "long", "long"], ["signed", "long", "long", "int"], ["unsigned", "long", "long"],
         ["unsigned", "long", "long", "int"], ["float"], ["double"], ["long", "double"], ["_Bool"], ["float", "_Complex"], ["double", "_Complex"], ["long", "double", "_Complex"]]
PLAIN_USES = ("char c0; short s0; int i0; unsigned u0; long l0; long long ll0; float f0; double d0; long double ld0; _Bool b0; double half(double x); float sq(float y);\n"
              "void use%d(void) { c0 + 1; s0 + 1; i0 + 1; u0 + 1u; l0 + 1l; ll0 + 1ll; f0 * 2.0f; d0 * 2.0; ld0 * 2.0l; b0 ? 'a' : 1ul; half(d0); sq(f0); \"s\"; }")


def shared_type_family():
    """texts whose analysis touches the objects a Compilation SHARES between its trees (the canonical basic types, void, the program symbol):
    every basic type in EVERY order of its specifiers (6.7.2p2: 'the type specifiers may occur in any order'), spread over twelve texts, each of which
    also declares and uses objects of the plainly spelled types and literals of every basic type"""
    decls = []
    for sp in SPECS:
        for k, perm in enumerate(sorted(set(itertools.permutations(sp)))):
            decls.append(" ".join(perm))
    texts = [[] for _ in range(12)]
    for n, d in enumerate(decls):
        texts[n % 12].append("%s v%d; %s *p%d; %s a%d[2]; %s fn%d(%s);" % (d, n, d, n, d, n, d, n, d))
    # unnamed structures, unions and enumerations: the compilation numbers them (synthetic tags) — per tree, not per compilation
    anon = ["struct { int a; double b; } va; union { int i; float f; } ua; int plain_a;",
            "typedef struct { int x; int y; } point_t; enum { RED, GREEN } colour; point_t origin; struct named { struct { int in; }; long tail; } nb;",
            "enum { A0, A1 } e0; struct { struct { int deep; } inner; } outer; void g(void) { struct { int l; } loc; loc.l = outer.inner.deep + e0; }"]
    return ["\n".join(t) + "\n" + PLAIN_USES % i for i, t in enumerate(texts)] + anon + [PLAIN_USES % 99]


def run(chk, only=None):
    chk.coverage["trusted_base"] = pv.TRUSTED_COMMON + [
        "hand-written model coq/C15Model.v of Compilation::addSyntaxTree/computeSemanticModel/semanticModel (dirty map); the per-tree analysis is the section variable `analyse`",
        "that the analysis of one tree reads nothing written by the analysis of another (shared canonical types, program symbol, file-scope statics in Parser.cpp / SyntaxNamePrinter.cpp) is NOT proved: "
        "it is what the history sweep tests, in-process and across processes with different heap layouts"]
    chk.assumptions = ["section variable analyse : tree -> result (the analysis of a tree is a function of that tree alone)"]
    res = chk.prove(["Properties_C15.v"])
    proof_ok = all(ok for ok, _ in res.values())
    quick = chk.tier == "quick"
    rng = chk.rng
    tus = [t for c, t in corpus.test_snippets() if c == 0 and len(t) > 8]
    sem = [t for t in tus if "{" in t]
    pool = [rng.choice(sem if rng.random() < 0.7 else tus) for _ in range(40 if quick else 300)]
    pool += ["typedef int T; T x; void f(void){ x + 1; }", "struct s { int m; } v; double g(double d){ return d * 2; }",
             "typedef double T; T y; void f(void) { y * 2; }", "int x; long f(void) { return x << 2; } struct s { char m; };",
             "enum e { A, B }; void h(void) { int A; A; }", "void k(void) { x * y; (z)(w); sizeof(q); }"]
    fam0 = len(pool)
    pool += shared_type_family()
    fam = list(range(fam0, len(pool)))
    hx = lambda t: t.encode("utf-8", "replace").hex()
    reqs, meta = [], []
    # the reference: every text alone
    for i, t in enumerate(pool):
        reqs.append("hist %s 1 %s a0 c0" % (OPTS, hx(t))); meta.append(("alone", (i,)))
    # histories over 2..3 trees: every interleaving class of parse/add/compute orders, repeated computes and queries
    combos = []
    for _ in range(120 if quick else 1500):
        k = rng.choice([2, 2, 3, 3, 4] if not quick else [2, 2, 3])
        idx = tuple(rng.randrange(len(pool)) for _ in range(k))
        if _ % 3 == 0:                            # one history in three is over the shared-type family (the plain text among them)
            idx = tuple(rng.choice(fam) for _i in range(k - 1)) + (fam[-1],)
            idx = tuple(rng.sample(idx, len(idx)))
        ops = []
        order_p = list(range(k)); rng.shuffle(order_p)
        order_a = list(range(k)); rng.shuffle(order_a)
        order_c = list(range(k)); rng.shuffle(order_c)
        style = rng.randrange(4)
        if style == 0:
            ops = ["p%d" % i for i in order_p] + ["a%d" % i for i in order_a] + ["c%d" % i for i in order_c]
        elif style == 1:
            for i in order_a:
                ops += ["a%d" % i, "c%d" % i]
        elif style == 2:
            ops = ["a%d" % i for i in order_a]
            for i in order_c:
                ops += ["g%d" % i, "c%d" % i, "c%d" % i, "g%d" % i]
        else:
            seq = [("a", i) for i in range(k)] + [("c", i) for i in range(k)] + [("c", rng.randrange(k)) for _ in range(3)] + [("g", rng.randrange(k)) for _ in range(3)]
            rng.shuffle(seq)
            done = set()
            for o, i in seq:                       # keep only valid orders: add before compute
                if o == "a":
                    done.add(i)
                if o in "cg" and i not in done:
                    ops.append("a%d" % i); done.add(i)
                ops.append("%s%d" % (o, i))
            for i in range(k):
                ops.append("c%d" % i)
        combos.append((idx, ops))
    # all orders over a fixed small set (exhaustive orders of add/compute for 3 trees)
    base3 = (fam0 - 6, fam0 - 5, fam0 - 4)
    for b3 in (base3, (fam[0], fam[-1], fam[5]), (fam[3], fam[8], fam[-1])):
        for pa in itertools.permutations(range(3)):
            for pc in itertools.permutations(range(3)):
                combos.append((b3, ["a%d" % i for i in pa] + ["c%d" % i for i in pc]))
    for idx, ops in combos:
        reqs.append("hist %s %d %s %s" % (OPTS, len(idx), " ".join(hx(pool[i]) for i in idx), " ".join(ops))); meta.append(("hist", idx, ops))
    if only:
        reqs, meta = only
    impl = pv.run_impl(reqs, shards=pv.NCPU)
    alone = {}
    bad, crashes = [], 0
    for m, a in zip(meta, impl):
        if m[0] == "alone":
            alone[m[1][0]] = split_trees(a)[0] if not a.startswith("CRASH") and split_trees(a) else None
    for r, m, a in zip(reqs, meta, impl):
        if m[0] != "hist":
            continue
        if a.startswith("CRASH"):
            if all(alone.get(i) is not None for i in m[1]):
                bad.append((r, m, "crash only in combination", a[:80]))
            else:
                crashes += 1
            continue
        trees = split_trees(a)
        for pos, i in enumerate(m[1]):
            if alone.get(i) is None or pos >= len(trees):
                continue
            if trees[pos][0] != alone[i][0]:
                bad.append((r, m, "parse result depends on the history", {"tree": pool[i][:120]}))
            elif trees[pos][1] not in ("NOTADDED", "NOTCOMPUTED") and trees[pos][1] != alone[i][1]:
                bad.append((r, m, "semantic model depends on the history", {"tree": pool[i][:200], "alone": alone[i][1][:300], "in_history": trees[pos][1][:300]}))
    # across processes with different heap layouts: the same requests must give the same answers
    sub = reqs[:len(pool)] + reqs[len(pool):len(pool) + 40]
    exe = pv.build_harness("plain")
    outs = []
    for env_extra in ({}, {"MALLOC_PERTURB_": "165", "MALLOC_ARENA_MAX": "1"}, {"MALLOC_PERTURB_": "7", "MALLOC_TOP_PAD_": "1048576", "MALLOC_MMAP_THRESHOLD_": "4096"}):
        env = dict(os.environ); env.update(env_extra)
        tmp = os.path.join(pv.CACHE, "tmp", "c15-%d.txt" % len(outs))
        os.makedirs(os.path.dirname(tmp), exist_ok=True)
        argv = (["setarch", "-R"] if len(outs) == 1 else []) + [exe, "-o", tmp, "-f", "-t", "20"]
        try:
            subprocess.run(argv, input="\n".join(sub) + "\n", env=env, universal_newlines=True, stdout=subprocess.DEVNULL, stderr=subprocess.DEVNULL, timeout=900)
            outs.append(open(tmp, errors="replace").read().split("\n"))
        except Exception as e:
            chk.notes.append("process variant failed to run: %r" % (e,))
    for k in range(1, len(outs)):
        for r, x, y in zip(sub, outs[0], outs[k]):
            if x != y:
                bad.append((r, ("proc",), "answer differs between processes with different heap layouts", {"first": x[:200], "other": y[:200]})); break
    chk.coverage["evaluations"] = len(reqs) + sum(len(o) for o in outs)
    chk.coverage["distinct_nontrivial"] = len({(m[1], tuple(m[2])) for m in meta if m[0] == "hist" and len(m[1]) >= 2})
    chk.coverage["rule"] = ("%d texts (translation units of the repository's tests with function bodies + 6 hand-written ones that share names across trees + 13 texts declaring every basic type under every order of its specifiers, with pointers, arrays, functions and literals of them) analysed alone, then %d histories of "
                            "parse/add/compute/query over 2..%d of them in one Compilation (phase-separated, per-tree, repeated computes and queries, random valid interleavings, all 36 add/compute orders "
                            "of three fixed triples): every tree's parse dump and semantic dump (symbols with types, expression types, diagnostics) must equal the dump obtained alone; the same requests in "
                            "%d processes with different heap layouts must answer identically. non-trivial = a history over at least two trees"
                            % (len(pool), len(combos), 3 if quick else 4, len(outs)))
    chk.coverage["samples"] = [reqs[len(pool)][:300], " ".join(meta[len(pool) + 3][2]) if len(meta) > len(pool) + 3 else ""]
    chk.coverage["distribution"] = {"texts": len(pool), "histories": len(combos), "crashing_texts_skipped": crashes, "process_variants": len(outs)}
    if bad:
        r, m, why, det = bad[0]
        chk.report("history:" + why[:40], {"request": r, "ops": m[2] if len(m) > 2 else None, "why": why, "detail": det, "count_failing": len(bad)}, found=True,
                   what="the result for a tree depends on other trees, on the order of calls, or on the process")
    if not proof_ok and not bad:
        for f, (ok, out) in res.items():
            if not ok:
                chk.report("proof-" + f, {"unchecked": f + " (theorems: %s)" % ", ".join(pv.theorem_names(f)), "coq_output": out[-3000:]}, found=False)


def replay(chk, path):
    r = json.load(open(path))
    if r.get("request"):
        print("implementation:", pv.run_impl([r["request"]])[0][:2000])
    run(chk)
