# C11 6.7.2p2 as data: multiset of keywords -> BasicTypeKind name (or "Void"); plus the GNU row {_Complex} -> double _Complex
from collections import Counter
KW = ["void", "char", "short", "int", "long", "float", "double", "signed", "unsigned", "_Bool", "_Complex"]
ROWS = [
    (["void"], "Void"), (["char"], "Char"), (["signed", "char"], "Char_S"), (["unsigned", "char"], "Char_U"),
    (["short"], "Short_S"), (["signed", "short"], "Short_S"), (["short", "int"], "Short_S"), (["signed", "short", "int"], "Short_S"),
    (["unsigned", "short"], "Short_U"), (["unsigned", "short", "int"], "Short_U"),
    (["int"], "Int_S"), (["signed"], "Int_S"), (["signed", "int"], "Int_S"),
    (["unsigned"], "Int_U"), (["unsigned", "int"], "Int_U"),
    (["long"], "Long_S"), (["signed", "long"], "Long_S"), (["long", "int"], "Long_S"), (["signed", "long", "int"], "Long_S"),
    (["unsigned", "long"], "Long_U"), (["unsigned", "long", "int"], "Long_U"),
    (["long", "long"], "LongLong_S"), (["signed", "long", "long"], "LongLong_S"), (["long", "long", "int"], "LongLong_S"),
    (["signed", "long", "long", "int"], "LongLong_S"),
    (["unsigned", "long", "long"], "LongLong_U"), (["unsigned", "long", "long", "int"], "LongLong_U"),
    (["float"], "Float"), (["double"], "Double"), (["long", "double"], "LongDouble"), (["_Bool"], "Bool"),
    (["float", "_Complex"], "FloatComplex"), (["double", "_Complex"], "DoubleComplex"), (["long", "double", "_Complex"], "LongDoubleComplex"),
    (["_Complex"], "DoubleComplex"),   # GNU reading of a lone _Complex (stated in the property)
]
TABLE = {tuple(sorted(Counter(r).items())): t for r, t in ROWS}


def spec(seq):
    """seq: list of keywords -> type name or None (invalid)"""
    return TABLE.get(tuple(sorted(Counter(seq).items())))
