From Coq Require Import List NArith Bool Arith Lia.
From PV Require Import C12Model.
Import ListNotations.

Section TyInd.
  Variable P : ty -> Prop.
  Hypothesis Hb : forall k, P (TBasic k).
  Hypothesis Hv : P TVoid.
  Hypothesis He : P TErr.
  Hypothesis Hp : forall t, P t -> P (TPtr t).
  Hypothesis Ha : forall t, P t -> P (TArr t).
  Hypothesis Hf : forall r ps, P r -> Forall P ps -> P (TFun r ps).
  Hypothesis Hq : forall q t, P t -> P (TQual q t).
  Hypothesis Hn : forall n, P (TName n).
  Hypothesis Hg : forall n, P (TTag n).
  Fixpoint ty_ind' (t : ty) : P t :=
    match t with
    | TBasic k => Hb k | TVoid => Hv | TErr => He
    | TPtr u => Hp u (ty_ind' u) | TArr u => Ha u (ty_ind' u)
    | TFun r ps => Hf r ps (ty_ind' r) ((fix go (l : list ty) : Forall P l := match l with [] => Forall_nil P | x :: l' => Forall_cons x (ty_ind' x) (go l') end) ps)
    | TQual q u => Hq q u (ty_ind' u)
    | TName n => Hn n | TTag n => Hg n
    end.
End TyInd.

Lemma find_assoc e n :
  match find e n with
  | Some (t', e') => assoc (denv e) n = Some (den (denv e') t') /\ S (size t' + total e') <= total e
  | None => assoc (denv e) n = None
  end.
Proof.
  induction e as [|[m t] e IH]; [reflexivity|]. simpl find; simpl denv; simpl assoc; simpl total.
  destruct (N.eqb n m); [split; [reflexivity|lia]|].
  destruct (find e n) as [[t' e']|]; [destruct IH as [A B]; split; [exact A|lia]|exact IH].
Qed.

Lemma size_pos t : 1 <= size t.
Proof. destruct t; cbn; lia. Qed.

Lemma in_size_le (p : ty) ps : In p ps -> size p <= list_sum (map size ps).
Proof. induction ps as [|x l IH]; simpl; [tauto|]. intros [->|H]; [lia|]. specialize (IH H). lia. Qed.

(** with enough fuel the resolver computes exactly the denotation — for every environment and type *)
Lemma resolve_den : forall fuel e t, size t + total e < fuel -> resolve fuel e t = Some (den (denv e) t).
Proof.
  induction fuel as [|f IH]; intros e t Hf; [lia|]. destruct t; cbn [resolve den size] in *; try reflexivity.
  - rewrite IH by lia. reflexivity.
  - rewrite IH by lia. reflexivity.
  - rewrite IH by lia.
    assert (Hps : forall p, In p ps -> size p + total e < f) by (intros p Hp; pose proof (in_size_le p ps Hp); lia).
    clear Hf. induction ps as [|p l IHl]; [reflexivity|].
    rewrite (IH e p) by (apply Hps; left; reflexivity).
    rewrite IHl by (intros q Hq; apply Hps; right; exact Hq). reflexivity.
  - rewrite IH by lia. reflexivity.
  - pose proof (find_assoc e n) as H. destruct (find e n) as [[t' e']|].
    + destruct H as [A B]. rewrite A. apply IH. lia.
    + rewrite H. reflexivity.
Qed.

Lemma mkqual_tdfree q r : tdfree r = true -> tdfree (mkqual q r) = true.
Proof. destruct r; cbn; auto. Qed.

Lemma den_tdfree d : (forall n r, assoc d n = Some r -> tdfree r = true) -> forall t, tdfree (den d t) = true.
Proof.
  intros Hd. induction t using ty_ind'; cbn [den tdfree]; auto.
  - rewrite IHt. cbn. apply forallb_forall. intros x Hx. apply in_map_iff in Hx as [y [<- Hy]].
    rewrite Forall_forall in H. apply H. exact Hy.
  - apply mkqual_tdfree. exact IHt.
  - destruct (assoc d n) eqn:E; [apply (Hd _ _ E)|reflexivity].
Qed.

Lemma denv_tdfree e : forall n r, assoc (denv e) n = Some r -> tdfree r = true.
Proof.
  induction e as [|[m t] e IH]; cbn [denv assoc]; [discriminate|]. intros n r.
  destruct (N.eqb n m); [intros H; inversion H; subst; apply den_tdfree; exact IH|apply IH].
Qed.

Lemma spine_top_gen d qe : (forall n, look qe n = match assoc d n with Some r => top_quals r | None => 0%N end) ->
  forall t, top_quals (den d t) = spine_quals qe t.
Proof.
  intros Hl. induction t using ty_ind'; cbn [den spine_quals top_quals]; try reflexivity.
  - rewrite <- IHt. destruct (den d t); cbn; rewrite ?N.lor_0_r; reflexivity.
  - rewrite Hl. destruct (assoc d n); reflexivity.
Qed.

Lemma look_qenv e : forall n, look (qenv_of e) n = match assoc (denv e) n with Some r => top_quals r | None => 0%N end.
Proof.
  induction e as [|[m t] e IH]; intros n; [reflexivity|]. simpl qenv_of; simpl denv; simpl look; simpl assoc.
  destruct (N.eqb n m); [|apply IH]. symmetry. apply spine_top_gen. exact IH.
Qed.

Lemma spine_top e t : top_quals (den (denv e) t) = spine_quals (qenv_of e) t.
Proof. apply spine_top_gen. apply look_qenv. Qed.
