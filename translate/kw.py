#!/usr/bin/env python3
"""T1/keywords: C/parser/Keywords.cpp -> coq/gen/Gen_Keywords.v (decision programs in CPS form),
C/syntax/SyntaxKind.h -> coq/gen/Gen_SyntaxKind.v (enumerator values).
Anything outside the accepted subset raises TranslationError with the place."""
import re, sys, os
sys.path.insert(0, os.path.dirname(os.path.abspath(__file__)))
from common import *

TOK = re.compile(r"\s+|('(?:\\.|[^'\\])')|([A-Za-z_]\w*(?:::[A-Za-z_]\w*)*)|(\d+)|(==|>=|<=|&&|\|\||[{}()\[\];,.*&<>!:])", re.S)

# option atoms: accessor chain -> (coq name, index).  A new accessor gets the next index automatically.
STD = {"C89_90": 0, "C99": 1, "C11": 2, "C17_18": 3}


def tokenize(s, where):
    pos, out = 0, []
    while pos < len(s):
        m = TOK.match(s, pos)
        if not m:
            raise TranslationError("%s: cannot tokenise %r" % (where, s[pos:pos + 40]))
        pos = m.end()
        if m.group(1):
            c = m.group(1)[1:-1]
            if len(c) != 1:
                raise TranslationError("%s: character literal %r not supported" % (where, c))
            out.append(("chr", c))
        elif m.group(2):
            out.append(("id", m.group(2)))
        elif m.group(3):
            out.append(("num", int(m.group(3))))
        elif m.group(4):
            out.append(("p", m.group(4)))
    return out


class P:
    def __init__(s, t, where):
        s.t, s.i, s.where = t, 0, where

    def peek(s):
        return s.t[s.i] if s.i < len(s.t) else None

    def eat(s, k=None, v=None):
        if s.i >= len(s.t):
            raise TranslationError("%s: unexpected end" % s.where)
        x = s.t[s.i]
        if (k and x[0] != k) or (v is not None and x[1] != v):
            raise TranslationError("%s: expected %s %s, got %s (token %d)" % (s.where, k, v, x, s.i))
        s.i += 1
        return x

    def block(s):
        stmts = []
        while s.peek() and s.peek() != ("p", "}"):
            stmts.append(s.stmt())
        return stmts

    def body(s):
        if s.peek() == ("p", "{"):
            s.eat(); b = s.block(); s.eat("p", "}")
            return b
        return [s.stmt()]

    def stmt(s):
        x = s.peek()
        if x == ("id", "return"):
            s.eat(); k = s.eat("id")[1]; s.eat("p", ";")
            if not k.startswith("SyntaxKind::"):
                raise TranslationError("%s: return of %s" % (s.where, k))
            return ("ret", k.split("::")[-1])
        if x == ("id", "if"):
            chain, els = [], None
            while True:
                s.eat("id", "if"); s.eat("p", "(")
                cond = s.cond(); s.eat("p", ")")
                chain.append((cond, s.body()))
                if s.peek() == ("id", "else"):
                    s.eat()
                    if s.peek() == ("id", "if"):
                        continue
                    els = s.body()
                break
            return ("ifchain", chain, els)
        raise TranslationError("%s: statement not in the accepted subset: %s" % (s.where, x))

    def cond(s):
        atoms = [s.atom()]
        while s.peek() == ("p", "&&"):
            s.eat(); atoms.append(s.atom())
        return atoms

    def atom(s):
        neg = False
        if s.peek() == ("p", "!"):
            s.eat(); neg = True
        x = s.eat("id")
        if x[1] == "s":
            s.eat("p", "["); i = s.eat("num")[1]; s.eat("p", "]"); s.eat("p", "=="); c = s.eat("chr")[1]
            if neg:
                raise TranslationError("%s: negated character test" % s.where)
            return ("chr", i, c)
        if x[1] == "opts":
            names = []
            while s.peek() == ("p", "."):
                s.eat(); names.append(s.eat("id")[1]); s.eat("p", "("); s.eat("p", ")")
            if s.peek() == ("p", ">="):
                s.eat(); v = s.eat("id")[1].split("::")[-1]
                if names != ["languageDialect", "std"] or v not in STD or neg:
                    raise TranslationError("%s: comparison not understood" % s.where)
                return ("stdge", v)
            if not names or not names[-1].startswith("isEnabled_"):
                raise TranslationError("%s: option accessor not understood: %s" % (s.where, names))
            return ("nopt" if neg else "opt", names[-1][len("isEnabled_"):])
        raise TranslationError("%s: condition atom not understood: %s" % (s.where, x))


def functions(src):
    funcs = {}
    for m in re.finditer(r"static\s+inline\s+SyntaxKind\s+(\w+)\s*\(\s*const\s+char\s*\*\s*s\s*(?:,\s*const\s+ParseOptions\s*&\s*opts\s*)?\)\s*\{", src):
        i, depth = m.end(), 1
        while depth:
            if src[i] == "{":
                depth += 1
            elif src[i] == "}":
                depth -= 1
            i += 1
        name = m.group(1)
        p = P(tokenize(src[m.end():i - 1], name), name)
        tree = p.block()
        if p.i != len(p.t):
            raise TranslationError("%s: trailing tokens" % name)
        funcs[name] = tree
    return funcs


def dispatcher(src, name):
    m = re.search(r"SyntaxKind\s+Lexer::" + name + r"\s*\(\s*const\s+char\s*\*\s*s\s*,\s*int\s+n\s*,\s*const\s+ParseOptions\s*&\s*opts\s*\)\s*\{\s*switch\s*\(\s*n\s*\)\s*\{(.*?)\}\s*\}", src, re.S)
    if not m:
        raise TranslationError("Lexer::%s: dispatcher not of the form switch (n) {...}" % name)
    body = m.group(1)
    cases, rest = {}, body
    for mm in re.finditer(r"case\s+(\d+)\s*:\s*return\s+(\w+)\s*\(\s*s\s*(?:,\s*opts\s*)?\)\s*;", body):
        cases[int(mm.group(1))] = mm.group(2)
        rest = rest.replace(mm.group(0), "")
    if not re.match(r"^\s*default\s*:\s*return\s+SyntaxKind::IdentifierToken\s*;\s*$", rest):
        raise TranslationError("Lexer::%s: unexpected dispatcher content: %r" % (name, rest.strip()[:80]))
    return cases


def generate():
    kinds = enum_values("C/syntax/SyntaxKind.h", "SyntaxKind")
    kval = dict(kinds)
    out = ["(* generated by translate/kw.py from C/syntax/SyntaxKind.h — do not edit *)",
           "From Coq Require Import NArith List String.", "Import ListNotations.", "Local Open Scope N_scope.", ""]
    for n, v in kinds:
        out.append("Definition K_%s : N := %d." % (n, v))
    out.append("")
    out.append("Local Open Scope string_scope.")
    out.append("Definition syntax_kinds : list (string * N) := [")
    out.append(";\n".join('  ("%s", %d%%N)' % (n, v) for n, v in kinds))
    out.append("].")
    write_if_changed(os.path.join(GEN, "Gen_SyntaxKind.v"), "\n".join(out) + "\n")

    src = strip_comments(read("C/parser/Keywords.cpp"))
    funcs = functions(src)
    optnames = {}

    def optid(n):
        if n not in optnames:
            optnames[n] = len(optnames)
        return optnames[n]

    def atom(a):
        if a[0] == "chr":
            return "AChar %d %d%%N" % (a[1], ord(a[2]))
        if a[0] == "opt":
            return "AOpt O_%s" % a[1]
        if a[0] == "nopt":
            return "ANotOpt O_%s" % a[1]
        return "AStdGe %d" % STD[a[1]]

    def conv(stmts, cont):
        if not stmts:
            return cont
        st = stmts[0]
        if st[0] == "ret":
            if st[1] not in kval:
                raise TranslationError("unknown SyntaxKind::%s" % st[1])
            return "(DRet K_%s)" % st[1]
        rest = conv(stmts[1:], cont)
        chain, els = st[1], st[2]
        o = conv(els, rest) if els is not None else rest
        for cond, body in reversed(chain):
            for a in cond:
                if a[0] in ("opt", "nopt"):
                    optid(a[1])
            o = "(DIf [%s] %s %s)" % ("; ".join(atom(a) for a in cond), conv(body, rest), o)
        return o

    progs = []
    for name, tree in funcs.items():
        progs.append((name, conv(tree, "(DRet K_IdentifierToken)")))
    rec = dispatcher(src, "recognize")
    tra = dispatcher(src, "translate")
    for d in (rec, tra):
        for n, f in d.items():
            if f not in funcs:
                raise TranslationError("dispatcher calls unknown function %s" % f)
    # fixed, documented numbering of the option atoms the specification talks about; anything new is appended
    known = ["extGNU_AlternateKeywords", "extGNU_AttributeSpecifiers", "extGNU_Complex", "extGNU_FunctionNames",
             "extGNU_Asm", "extGNU_InternalBuiltins", "extPSY_Generics", "CPP_nullptr", "nativeBooleans", "NULLAsBuiltin",
             "extC_wchar_t_Keyword", "extC_char16_t_Keyword", "extC_char32_t_Keyword",
             "Translate_static_assert_AsKeyword", "Translate_complex_AsKeyword", "Translate_operatorNames",
             "Translate_alignas_AsKeyword", "Translate_alignof_AsKeyword", "Translate_va_arg_AsKeyword",
             "Translate_offsetof_AsKeyword", "Translate_thread_local_AsKeyword", "Translate_bool_AsKeyword"]
    allopts = known + sorted(o for o in optnames if o not in known)
    out = ["(* generated by translate/kw.py from C/parser/Keywords.cpp — do not edit *)",
           "From Coq Require Import NArith List.", "From PV Require Import KwDefs.", "From PV.gen Require Import Gen_SyntaxKind.",
           "Import ListNotations.", ""]
    for i, o in enumerate(allopts):
        out.append("Definition O_%s : nat := %d." % (o, i))
    out.append("Definition option_count : nat := %d." % len(allopts))
    out.append("")
    for name, p in progs:
        out.append("Definition p_%s : dp := %s." % (name, p))
    out.append("")
    out.append("Definition recognize_table : list (nat * dp) := [%s]." % "; ".join("(%d, p_%s)" % (n, f) for n, f in sorted(rec.items())))
    out.append("Definition translate_table : list (nat * dp) := [%s]." % "; ".join("(%d, p_%s)" % (n, f) for n, f in sorted(tra.items())))
    write_if_changed(os.path.join(GEN, "Gen_Keywords.v"), "\n".join(out) + "\n")
    write_if_changed(os.path.join(GEN, "kw_options.txt"), "\n".join(allopts) + "\n")
    return allopts


def leaf_words():
    """spellings on the root-to-keyword-leaf paths of the trie (unconstrained positions filled with 'q')"""
    src = strip_comments(read("C/parser/Keywords.cpp"))
    funcs = functions(src)
    words = set()
    lens = {}
    for d in ("recognize", "translate"):
        for n, f in dispatcher(src, d).items():
            lens[f] = n

    def walk(stmts, known, n):
        for st in stmts:
            if st[0] == "ret":
                if st[1] != "IdentifierToken":
                    words.add("".join(known.get(i, "q") for i in range(n)))
                return
            for cond, body in st[1]:
                k = dict(known)
                for a in cond:
                    if a[0] == "chr" and a[1] < n:
                        k[a[1]] = a[2]
                walk(body, k, n)
            if st[2] is not None:
                walk(st[2], known, n)
    for f, tree in funcs.items():
        if f in lens:
            walk(tree, {}, lens[f])
    return words


if __name__ == "__main__":
    print(generate())
