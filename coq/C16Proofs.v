(** C16 — the position of a token is (number of line breaks before it, width of the text since
    the last of them), for every text; the relational laws of the property follow. *)
From Coq Require Import List Arith ZArith Bool Lia.
From PV Require Import C16Model.
Import ListNotations.

Fixpoint count_nl (t : list ch) : nat :=
  match t with [] => 0 | NL :: t' => S (count_nl t') | _ :: t' => count_nl t' end.
(** width of the part of [t] after its last line break, given the width [w] accumulated before [t] *)
Fixpoint col_after (t : list ch) (w : nat) : nat :=
  match t with [] => w | NL :: t' => col_after t' 0 | C x :: t' => col_after t' (w + x) end.

Lemma width_app a b : width (a ++ b) = width a + width b.
Proof. induction a as [|c a IH]; cbn; [reflexivity|]. rewrite IH. lia. Qed.
Lemma count_nl_app a b : count_nl (a ++ b) = count_nl a + count_nl b.
Proof. induction a as [|[|w] a IH]; cbn; auto. Qed.

(** every line start recorded for the text after [pre] lies beyond the offset reached by [pre] *)
Lemma ub_post post : forall off v, v <= off -> upper_bound (ls_from post off) v = 0.
Proof.
  induction post as [|[|w] post IH]; intros off v Hv; cbn; [reflexivity| |].
  - destruct (off + 1 <=? v) eqn:E; [apply Nat.leb_le in E; lia|reflexivity].
  - apply IH. lia.
Qed.

Lemma ub_pre pre post : forall off,
  upper_bound (ls_from (pre ++ post) off) (off + width pre) = count_nl pre.
Proof.
  induction pre as [|[|w] pre IH]; intros off; cbn [app ls_from width cw count_nl upper_bound].
  - rewrite Nat.add_0_r. apply ub_post. lia.
  - assert (E : off + 1 <=? off + (1 + width pre) = true) by (apply Nat.leb_le; lia). rewrite E.
    f_equal. replace (off + (1 + width pre)) with (off + 1 + width pre) by lia. apply IH.
  - replace (off + (w + width pre)) with (off + w + width pre) by lia. apply IH.
Qed.

(** the last recorded line start at or before the offset *)
Lemma nth_pre pre post : forall off d,
  nth (count_nl pre) (d :: ls_from (pre ++ post) off) 0 + col_after pre (off - d) = off + width pre \/ off < d.
Proof.
  induction pre as [|[|w] pre IH]; intros off d; cbn [app ls_from width cw count_nl col_after nth].
  - destruct (le_lt_dec d off); [left; lia | right; lia].
  - specialize (IH (off + 1) (off + 1)). destruct IH as [IH|IH]; [|lia].
    rewrite Nat.sub_diag in IH. cbn [nth] in IH. left. lia.
  - specialize (IH (off + w) d). destruct IH as [IH|IH]; [|right; lia].
    destruct (le_lt_dec d off); [|right; lia].
    left. replace (off - d + w) with (off + w - d) by lia. cbn [nth] in IH. lia.
Qed.

Lemma col_after_width0 pre : forall w, width pre = 0 -> col_after pre w = w.
Proof.
  induction pre as [|[|x] pre IH]; cbn; intros w E; [reflexivity|lia|].
  assert (x = 0) by lia. subst. rewrite Nat.add_0_r. apply IH. lia.
Qed.

(** the model's line and column of the offset reached by [pre], in any text [pre ++ post] *)
Theorem position_closed_form pre post :
  let ls := line_starts (pre ++ post) in
  let off := width pre in
  search_lineno ls off = count_nl pre /\ search_column ls off (search_lineno ls off) = col_after pre 0.
Proof.
  cbn zeta. unfold search_lineno, line_starts. cbn [upper_bound]. cbn [Nat.leb].
  pose proof (ub_pre pre post 0) as H. cbn [Nat.add] in H. rewrite H. cbn [pred]. split; [reflexivity|].
  unfold search_column. destruct (width pre =? 0) eqn:E.
  - apply Nat.eqb_eq in E. rewrite (col_after_width0 pre 0 E). reflexivity.
  - pose proof (nth_pre pre post 0 0) as [N|N]; [|lia]. cbn [Nat.sub Nat.add] in N. lia.
Qed.

(* ---------- helper facts about col_after / count_nl ---------- *)
Fixpoint nl_free (t : list ch) : bool := match t with [] => true | NL :: _ => false | _ :: t' => nl_free t' end.

Lemma col_after_app a b w : col_after (a ++ b) w = col_after b (col_after a w).
Proof. revert w; induction a as [|[|x] a IH]; intros w; cbn; auto. Qed.
Lemma col_after_nl_free b w : nl_free b = true -> col_after b w = w + width b.
Proof. revert w; induction b as [|[|x] b IH]; intros w H; cbn in *; [lia|discriminate|]. rewrite IH by exact H. lia. Qed.
Lemma col_after_has_nl b w w' : nl_free b = false -> col_after b w = col_after b w'.
Proof.
  revert w w'; induction b as [|[|x] b IH]; intros w w' H; cbn in *; [discriminate|reflexivity|]. apply IH. exact H.
Qed.
Lemma count_nl_repeat k : count_nl (repeat NL k) = k.
Proof. induction k; cbn; auto. Qed.
Lemma col_after_repeat_nl k w : 0 < k -> col_after (repeat NL k) w = 0.
Proof. destruct k; [lia|]. intros _. cbn. clear w. induction k; cbn; auto. Qed.
Lemma count_nl_free b : nl_free b = true -> count_nl b = 0.
Proof. induction b as [|[|x] b IH]; cbn; intros H; [reflexivity|discriminate|auto]. Qed.
Lemma count_nl_blanks k : count_nl (repeat (C 1) k) = 0.
Proof. induction k; cbn; auto. Qed.
Lemma nl_free_blanks k : nl_free (repeat (C 1) k) = true.
Proof. induction k; cbn; auto. Qed.
Lemma width_blanks k : width (repeat (C 1) k) = k.
Proof. induction k; cbn; auto. Qed.

(* ---------- the excerpt ---------- *)
Lemma drop_lines_0 t : drop_lines t 0 = t.
Proof. destruct t; reflexivity. Qed.

Lemma drop_lines_pre pre post : drop_lines (pre ++ post) (count_nl pre) = drop_lines pre (count_nl pre) ++ post.
Proof.
  induction pre as [|[|x] pre IH]; cbn [app count_nl drop_lines]; [rewrite drop_lines_0; reflexivity|exact IH|].
  destruct (count_nl pre) eqn:E; [reflexivity|]. cbn [drop_lines]. exact IH.
Qed.
Lemma drop_lines_nl_free pre : nl_free (drop_lines pre (count_nl pre)) = true.
Proof.
  induction pre as [|[|x] pre IH]; cbn [count_nl drop_lines nl_free]; [reflexivity|exact IH|].
  destruct (count_nl pre) eqn:E; cbn [drop_lines nl_free].
  - clear IH. revert E. induction pre as [|[|y] pre IH]; cbn; intros E; try discriminate; auto.
  - exact IH.
Qed.
Lemma upto_nl_app a b : nl_free a = true -> upto_nl (a ++ b) = a ++ upto_nl b.
Proof. induction a as [|[|x] a IH]; cbn; intros H; [reflexivity|discriminate|]. rewrite IH by exact H. reflexivity. Qed.
Lemma col_after_drop pre : col_after pre 0 = width (drop_lines pre (count_nl pre)).
Proof.
  assert (G : forall w, col_after pre w = (if count_nl pre =? 0 then w else 0) + width (drop_lines pre (count_nl pre))).
  { induction pre as [|[|x] pre IH]; intros w; cbn [count_nl drop_lines col_after width cw].
    - cbn. lia.
    - rewrite IH. cbn [Nat.eqb]. destruct (count_nl pre =? 0); lia.
    - rewrite IH. destruct (count_nl pre) eqn:E; cbn [Nat.eqb drop_lines width cw].
      + rewrite drop_lines_0 in *. lia.
      + lia. }
  rewrite G. destruct (count_nl pre =? 0); lia.
Qed.
