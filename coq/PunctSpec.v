(** C05 — the punctuators of C11 6.4.6 (as they can occur after preprocessing) and maximal munch. *)
From Coq Require Import List NArith Bool String Ascii.
From PV.gen Require Import Gen_SyntaxKind.
Import ListNotations.
Local Open Scope N_scope.

Definition B (s : string) : list N := map N_of_ascii (list_ascii_of_string s).

(** 6.4.6p1 and the digraphs of p3 ("/" "/=" and the comment openers are in the case of the switch
    that the translator leaves untranslated; they are decided by correspondence) *)
Definition punct_table : list (list N * N) := [
  (B "[", K_OpenBracketToken); (B "]", K_CloseBracketToken); (B "(", K_OpenParenToken); (B ")", K_CloseParenToken);
  (B "{", K_OpenBraceToken); (B "}", K_CloseBraceToken); (B ".", K_DotToken); (B "...", K_EllipsisToken); (B "->", K_ArrowToken); (B "++", K_PlusPlusToken); (B "--", K_MinusMinusToken);
  (B "&", K_AmpersandToken); (B "*", K_AsteriskToken); (B "+", K_PlusToken); (B "-", K_MinusToken); (B "~", K_TildeToken);
  (B "!", K_ExclamationToken); (B "%", K_PercentToken); (B "<<", K_LessThanLessThanToken); (B ">>", K_GreaterThanGreaterThanToken);
  (B "<", K_LessThanToken); (B ">", K_GreaterThanToken); (B "<=", K_LessThanEqualsToken); (B ">=", K_GreaterThanEqualsToken);
  (B "==", K_EqualsEqualsToken); (B "!=", K_ExclamationEqualsToken); (B "^", K_CaretToken); (B "|", K_BarToken);
  (B "&&", K_AmpersandAmpersandToken); (B "||", K_BarBarToken); (B "?", K_QuestionToken); (B ":", K_ColonToken); (B ";", K_SemicolonToken);
  (B "=", K_EqualsToken); (B "*=", K_AsteriskEqualsToken); (B "%=", K_PercentEqualsToken); (B "+=", K_PlusEqualsToken);
  (B "-=", K_MinusEqualsToken); (B "<<=", K_LessThanLessThanEqualsToken); (B ">>=", K_GreaterThanGreaterThanEqualsToken);
  (B "&=", K_AmpersandEqualsToken); (B "^=", K_CaretEqualsToken); (B "|=", K_BarEqualsToken); (B ",", K_CommaToken);
  (B "#", K_HashToken); (B "##", K_HashHashToken);
  (B "<:", K_OpenBracketToken); (B ":>", K_CloseBracketToken); (B "<%", K_OpenBraceToken); (B "%>", K_CloseBraceToken); (B "%:", K_HashToken); (B "%:%:", K_HashHashToken)
]%string.

Fixpoint prefix_eqb (row inp : list N) : bool :=
  match row, inp with
  | [], _ => true
  | r :: row', b :: inp' => N.eqb r b && prefix_eqb row' inp'
  | _ :: _, [] => false
  end.

(** the longest row that is a prefix of the input: (length, kind) *)
Definition munch_of (tbl : list (list N * N)) (inp : list N) : option (nat * N) :=
  fold_left (fun best row =>
               if prefix_eqb (fst row) inp
               then match best with
                    | Some (l, _) => if Nat.ltb l (List.length (fst row)) then Some (List.length (fst row), snd row) else best
                    | None => Some (List.length (fst row), snd row)
                    end
               else best) tbl None.
Definition munch (inp : list N) : option (nat * N) := munch_of punct_table inp.
