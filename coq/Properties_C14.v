(** C14 — Node extents nest; siblings are ordered.  For every tree of any shape (null children,
    null list entries, missing tokens, empty lists included); the nesting and ordering corollaries
    assume the one obligation the parser has: the token slots in order are strictly increasing. *)
From Coq Require Import List Arith Bool Lia Sorting.Sorted.
From PV Require Import C14Model C14Proofs.
Import ListNotations.

Theorem C14_extent_is_hull : forall t,
  first_tree t = hd 0 (toks_tree t) /\ last_tree t = last (toks_tree t) 0 /\
  (toks_tree t <> [] -> first_tree t <> 0 /\ last_tree t <> 0).
Proof.
  intros t. destruct first_hull as (F & _). destruct last_hull as (L & _). destruct toks_nz as (N & _).
  rewrite (F t), (L t). repeat split; intros; auto.
  - intros E. apply (hd_nz _ (N t)) in E. contradiction.
  - intros E. apply (last_nz _ (N t)) in E. contradiction.
Qed.

Lemma sorted_hd_min l x : StronglySorted lt l -> In x l -> hd 0 l <= x.
Proof.
  destruct l as [|y l]; [intros _ Hx; destruct Hx|]. cbn [hd]. intros H Hx.
  destruct Hx as [E|Hx]; [lia|]. inversion H as [|? ? _ Ha]; subst. rewrite Forall_forall in Ha. specialize (Ha x Hx). lia.
Qed.
Lemma sorted_last_max l x : StronglySorted lt l -> In x l -> x <= last l 0.
Proof.
  revert x. induction l as [|y l IH]; intros x; [intros _ Hx; destruct Hx|]. intros H Hx. inversion H as [|? ? Hs Ha]; subst.
  destruct l as [|z l].
  - destruct Hx as [E|Hx]; [cbn; lia|destruct Hx].
  - change (last (y :: z :: l) 0) with (last (z :: l) 0). destruct Hx as [E|Hx]; [|apply IH; auto].
    rewrite Forall_forall in Ha. assert (y < z) by (apply Ha; left; reflexivity).
    assert (z <= last (z :: l) 0) by (apply IH; [exact Hs|left; reflexivity]). lia.
Qed.

(** every token slot of a node — its own or a descendant's — lies within [firstToken, lastToken] *)
Theorem C14_extent_encloses : forall t x, StronglySorted lt (toks_tree t) -> In x (toks_tree t) ->
  first_tree t <= x <= last_tree t.
Proof.
  intros t x Hs Hx. destruct (C14_extent_is_hull t) as (F & L & _). rewrite F, L.
  split; [apply sorted_hd_min | apply sorted_last_max]; assumption.
Qed.

(** nesting: the extent of a child lies within the extent of its parent *)
Theorem C14_nesting : forall t c, StronglySorted lt (toks_tree t) ->
  In c (children t) -> toks_tree c <> [] ->
  first_tree t <= first_tree c /\ last_tree c <= last_tree t.
Proof.
  intros t c Hs Hin Hne. destruct children_subseq as (S & _).
  assert (Hsub : forall x, In x (toks_tree c) -> In x (toks_tree t)).
  { intros x Hx. eapply Subseq_In; [apply (S t)|]. apply in_concat. exists (toks_tree c). split; [apply in_map; exact Hin|exact Hx]. }
  destruct (C14_extent_is_hull c) as (Fc & Lc & _).
  assert (In (first_tree c) (toks_tree c)) by (rewrite Fc; destruct (toks_tree c); [congruence|left; reflexivity]).
  assert (In (last_tree c) (toks_tree c)).
  { rewrite Lc. destruct (toks_tree c) as [|y l] eqn:E; [congruence|]. apply (@exists_last _ (y :: l)) in Hne as (l' & z & E2).
    rewrite E2. rewrite last_last. apply in_or_app. right. left. reflexivity. }
  split; [apply (C14_extent_encloses t _ Hs); auto | apply (C14_extent_encloses t _ Hs); auto].
Qed.

(** siblings appear in increasing source order without overlap *)
Theorem C14_siblings_ordered : forall t i j a b, StronglySorted lt (toks_tree t) ->
  i < j -> nth_error (children t) i = Some a -> nth_error (children t) j = Some b ->
  toks_tree a <> [] -> toks_tree b <> [] -> last_tree a < first_tree b.
Proof.
  intros t i j a b Hs Hij Hi Hj Na Nb. destruct children_subseq as (S & _).
  pose proof (Subseq_sorted _ _ (S t) Hs) as Hc.
  destruct (C14_extent_is_hull a) as (_ & La & _). destruct (C14_extent_is_hull b) as (Fb & _ & _).
  apply (sorted_concat_blocks (map toks_tree (children t)) Hc i j (toks_tree a) (toks_tree b) Hij).
  - rewrite nth_error_map, Hi. reflexivity.
  - rewrite nth_error_map, Hj. reflexivity.
  - rewrite La. destruct (toks_tree a) as [|y l] eqn:E; [congruence|]. apply (@exists_last _ (y :: l)) in Na as (l' & z & E2).
    rewrite E2, last_last. apply in_or_app. right. left. reflexivity.
  - rewrite Fb. destruct (toks_tree b); [congruence|left; reflexivity].
Qed.

Example C14_nonvacuous :
  let leaf n := Node 1 (ICons (Tok n) INil) in
  let t := Node 9 (ICons (Tok 0) (ICons (Sub (leaf 3)) (ICons (Tok 4) (ICons Null (ICons (Lst (ECons ENone (ECons (ESome (leaf 5)) (ECons ENone (ECons (ESome (leaf 7)) (ECons ENone ENil)))))) INil))))) in
  toks_tree t = [3; 4; 5; 7] /\ first_tree t = 3 /\ last_tree t = 7.
Proof. vm_compute. repeat split; reflexivity. Qed.

Print Assumptions C14_extent_is_hull.
Print Assumptions C14_nesting.
Print Assumptions C14_siblings_ordered.

(** Every node class's child list (the arguments of its AST_CHILD_LSTn, regenerated from the
    headers on every run) names no member twice and names every token, node and list member the
    class declares — so that the default traversal and the extents reach them. *)
From PV.gen Require Import Gen_Schema.
Fixpoint nodupb (l : list nat) : bool :=
  match l with [] => true | x :: l' => negb (existsb (Nat.eqb x) l') && nodupb l' end.
Definition class_sane (c : nat * list nat * list nat) : bool :=
  let '(cls, members, childlist) := c in
  existsb (Nat.eqb cls) schema_exempt ||
  (nodupb childlist && forallb (fun m => existsb (Nat.eqb m) childlist || existsb (Nat.eqb m) schema_exempt) members).
Lemma C14_child_lists_sane : forallb class_sane schema = true.
Proof. vm_compute. reflexivity. Qed.
Theorem C14_child_lists : forall cls members childlist, In (cls, members, childlist) schema -> ~ In cls schema_exempt ->
  NoDup childlist /\ (forall m, In m members -> ~ In m schema_exempt -> In m childlist).
Proof.
  intros cls members childlist Hin Hex. pose proof C14_child_lists_sane as H. rewrite forallb_forall in H. specialize (H _ Hin).
  unfold class_sane in H. apply orb_true_iff in H as [H|H].
  - exfalso. apply Hex. apply existsb_exists in H as [x [Hx E]]. apply Nat.eqb_eq in E. subst. exact Hx.
  - apply andb_true_iff in H as [H1 H2]. split.
    + clear -H1. induction childlist as [|x l IH]; [constructor|]. cbn in H1. apply andb_true_iff in H1 as [A B]. constructor; [|auto].
      intros Hx. assert (E : existsb (Nat.eqb x) l = true) by (apply existsb_exists; exists x; split; [exact Hx|apply Nat.eqb_refl]). rewrite E in A. discriminate.
    + intros m Hm Hme. rewrite forallb_forall in H2. specialize (H2 m Hm). apply orb_true_iff in H2 as [H2|H2].
      * apply existsb_exists in H2 as [x [Hx E]]. apply Nat.eqb_eq in E. subst. exact Hx.
      * exfalso. apply Hme. apply existsb_exists in H2 as [x [Hx E]]. apply Nat.eqb_eq in E. subst. exact Hx.
Qed.
Print Assumptions C14_child_lists.
