Require Import ExtrOcamlBasic.
From PV Require Import Entry_C04.
Extraction "model.ml" run.
