# C13 — Expression types follow C11 promotions, conversions and constant typing.
import json, os, sys
from lib import pv

TYPES = ["char", "signed char", "unsigned char", "short", "unsigned short", "int", "unsigned int", "long", "unsigned long",
         "long long", "unsigned long long", "_Bool", "float", "double", "long double", "float _Complex", "double _Complex",
         "long double _Complex"]          # index = BasicTypeKind value on the pinned tree; re-read from the source below
KNAMES = ["Char", "Char_S", "Char_U", "Short_S", "Short_U", "Int_S", "Int_U", "Long_S", "Long_U", "LongLong_S", "LongLong_U",
          "Bool", "Float", "Double", "LongDouble", "FloatComplex", "DoubleComplex", "LongDoubleComplex"]
OPS = [("*", "MultiplyExpression"), ("/", "DivideExpression"), ("%", "ModuleExpression"), ("+", "AddExpression"),
       ("-", "SubstractExpression"), ("<<", "LeftShiftExpression"), (">>", "RightShiftExpression"), ("<", "LessThanExpression"),
       ("<=", "LessThanOrEqualExpression"), (">", "GreaterThanExpression"), (">=", "GreaterThanOrEqualExpression"),
       ("==", "EqualsExpression"), ("!=", "NotEqualsExpression")]
COMPOUND = [("*=", "MultiplyAssignmentExpression", 0), ("/=", "DivideAssignmentExpression", 1), ("%=", "ModuloAssignmentExpression", 2),
            ("+=", "AddAssignmentExpression", 3), ("-=", "SubtractAssignmentExpression", 4),
            ("<<=", "LeftShiftAssignmentExpression", 5), (">>=", "RightShiftAssignmentExpression", 6)]
SUFFIX_SPELLINGS = {0: [""], 1: ["u", "U"], 2: ["l", "L"], 3: ["ul", "uL", "Ul", "UL", "lu", "lU", "Lu", "LU"],
                    4: ["ll", "LL"], 5: ["ull", "uLL", "Ull", "ULL", "llu", "llU", "LLu", "LLU"]}


def kinds():
    sys.path.insert(0, os.path.join(pv.ROOT, "translate"))
    from common import enum_values
    return dict(enum_values("C/syntax/SyntaxKind.h", "SyntaxKind")), dict(enum_values("C/types/TypeKind_Basic.h", "BasicTypeKind"))


def node_type(ans, kind):
    """type recorded for the first node of the given kind: int code | 'E' | 'null' | other string; None if absent"""
    if not ans.startswith("OK"):
        return ans.split()[0]
    for item in ans.split("|")[0].split()[1:]:
        k, t = item.split("=", 1)
        if int(k) == kind:
            if t.startswith("B") and t[1:].isdigit():
                return int(t[1:])
            return t
    return None


def to_res(t):
    if isinstance(t, int):
        return t
    if t == "E":
        return -2
    return t


def run(chk):
    chk.coverage["trusted_base"] = pv.TRUSTED_COMMON + [
        "translator translate/cxx2ir.py + translate/c13.py (clang 14 JSON AST -> IR; candidate arrays -> table) and the IR semantics coq/CxxIR.v; "
        "validated on every run: every translated function is called in the harness over its whole domain and compared with the extracted interpreter",
        "hand-written (tied by correspondence over all 18x18 pairs x 20 operators and the constant sweep): the operator dispatch of "
        "visitBinaryExpression/visitAssignmentExpression (C13Model.impl_binop), the loop of selectTypeForValue (C13Model.select), std::stoull as the value of a constant",
        "specification coq/C13Spec.v written from C11 6.2.5, 6.3.1.1, 6.3.1.8, 6.5.5-6.5.9, 6.4.4.1p5; platform = LP64 (read back from PlatformOptions on every run)"]
    chk.assumptions = ["LP64 platform (the default PlatformOptions of this host); conversions on ILP32/LLP64 are not claimed: the conversion functions never consult PlatformOptions"]
    terr = None
    try:
        sys.path.insert(0, os.path.join(pv.ROOT, "translate"))
        import c13
        c13.generate()
    except Exception as e:
        terr = "%s: %s" % (type(e).__name__, e)
    res = chk.prove(["Properties_C13.v"], extra_targets=["Entry_C13.vo"])
    proof_ok = all(ok for ok, _ in res.values()) and terr is None
    if terr is not None:
        chk.coverage["discharged"] = 0
    try:
        pv.build_model("C13")
    except Exception as e:
        chk.report("model-build", {"unchecked": "extraction of the C13 model", "log": str(e)[-2000:]}, found=False)
        return
    SK, BK = kinds()
    code = [BK[n] for n in KNAMES]
    o = "2:1:%x" % (1 << 21)    # _Bool is recognised only with the bool translation on (C17 known finding)
    quick = chk.tier == "quick"

    # ---- (1) translation validation of every translated function over its domain
    tv_impl, tv_model = [], []
    dom = list(range(0, 20))
    for fi, name in enumerate(["promo", "signconv", "conv", "signed", "unsigned", "integer", "real"]):
        if fi in (1, 2):
            for a in dom:
                for b in dom:
                    tv_impl.append("tyfn %s %d %d" % (name, a, b)); tv_model.append("0 %d %d %d" % (fi, a, b))
        else:
            for a in dom:
                tv_impl.append("tyfn %s %d 0" % (name, a)); tv_model.append("0 %d %d 0" % (fi, a))
    ia = pv.run_impl(tv_impl); ma = pv.run_model("C13", tv_model)
    tv_bad = [(r, x, m[0]) for r, x, m in zip(tv_impl, ia, ma) if str(m[0]) != x.strip()
              and not (r.startswith(("tyfn promo", "tyfn signconv", "tyfn conv")) and False)]
    # platform tie
    pm_i = pv.run_impl(["tyfn platmax %d 0" % i for i in range(12)])
    pm_m = pv.run_model("C13", ["5 %d" % code[i] for i in range(12)])
    plat_bad = [(i, x, m) for i, (x, m) in enumerate(zip(pm_i, pm_m)) if int(x) != m[0] * 4294967296 + m[1]]

    # ---- (2) all ordered pairs x all operators, through the whole front end
    reqs, meta = [], []
    for ai, a in enumerate(TYPES):
        for bi, b in enumerate(TYPES):
            for oi, (op, kind) in enumerate(OPS):
                reqs.append("types %s %s" % (o, ("%s a; %s b; int f(){ return a %s b; }" % (a, b, op)).encode().hex()))
                meta.append(("bin", oi, ai, bi, SK[kind]))
            for (op, kind, oi) in COMPOUND:
                reqs.append("types %s %s" % (o, ("%s a; %s b; void f(){ a %s b; }" % (a, b, op)).encode().hex()))
                meta.append(("cmp", oi, ai, bi, SK[kind]))
    impl = pv.run_impl(reqs, shards=pv.NCPU)
    model = pv.run_model("C13", ["1 %d %d %d" % (m[1], code[m[2]], code[m[3]]) for m in meta], shards=pv.NCPU)
    bad_c11, bad_model, kf_conv, kf_cmp, odd = [], [], [], [], []
    for r, m, ia_, mo in zip(reqs, meta, impl, model):
        t = to_res(node_type(ia_, m[4]))
        mi, eff, c11, c11c = mo
        if not isinstance(t, int):
            odd.append((r, m, ia_)); continue
        if t != mi:
            bad_model.append((r, m, t, mi))
        if m[0] == "bin":
            if t != c11:
                (kf_conv if t == eff else bad_c11).append((r, m, t, c11))
        else:
            if t != c11c:
                (kf_cmp if t == eff else bad_c11).append((r, m, t, c11c))

    # ---- (3) integer constants at every representability boundary x base x suffix spelling
    vals = set()
    for k in (7, 8, 15, 16, 31, 32, 63, 64):
        vals |= {2 ** k - 2, 2 ** k - 1, 2 ** k, 2 ** k + 1}
    vals |= {0, 1, 9, 10, 255, 65535}
    for _ in range(40 if quick else 2000):
        vals.add(chk.rng.getrandbits(chk.rng.choice([6, 14, 30, 31, 32, 33, 62, 63, 64])))
    creq, cmeta = [], []
    for v in sorted(vals):
        for base in ("dec", "oct", "hex"):
            if base == "dec" and v == 0:
                continue
            text = {"dec": "%d", "oct": "0%o", "hex": "0x%x"}[base] % v
            if base == "hex" and chk.rng.random() < 0.5:
                text = "0X%X" % v
            for sfx, sps in SUFFIX_SPELLINGS.items():
                for sp in (sps if (not quick or v in (2 ** 31, 2 ** 32 - 1, 2 ** 63)) else sps[:2]):
                    creq.append("types %s %s" % (o, ("long long f(){ return %s%s; }" % (text, sp)).encode().hex()))
                    cmeta.append((v, base != "dec", sfx, text + sp))
    cimpl = pv.run_impl(creq, shards=pv.NCPU)
    cmodel = pv.run_model("C13", ["2 %d %d %d %d" % (m[2], 1 if m[1] else 0, m[0] >> 32, m[0] & 0xffffffff) for m in cmeta], shards=pv.NCPU)
    cbad_spec, cbad_model = [], []
    for r, m, ia_, mo in zip(creq, cmeta, cimpl, cmodel):
        t = node_type(ia_, SK["IntegerConstantExpression"])
        if m[0] >= 2 ** 64:
            # out of range of every type: C11 assigns none; the implementation records none
            if isinstance(t, int):
                cbad_spec.append((r, m, t, "no type (value >= 2^64)"))
            continue
        mi, spec = mo
        if t != mi:
            cbad_model.append((r, m, t, mi))
        if spec != -1 and t != spec:
            cbad_spec.append((r, m, t, spec))

    # ---- (4) floating and character constants
    freq = []
    for text, cls in [("1.0", 0), ("1.0f", 1), ("1.0F", 1), ("1.0l", 2), ("1.0L", 2), ("1e5f", 1), ("1E-5", 0), (".5F", 1), ("5.l", 2),
                      ("0x1.fp3", 0), ("0x1.Fp3", 0), ("0x1.8p1", 0), ("0xap1", 0), ("0x1.fp3L", 2), ("0x1.0p0f", 1), ("1.5e+3L", 2), ("12.f", 1)]:
        freq.append(("types %s %s" % (o, ("double f(){ return %s; }" % text).encode().hex()), "3 %d" % cls, SK["FloatingConstantExpression"], text))
    for text, cls in [("'a'", 0), ("L'a'", 1), ("u'a'", 2), ("U'a'", 3), ("'u'", 0), ("'U'", 0), ("'L'", 0), ("'\\n'", 0), ("L'\\0'", 1), ("u'u'", 2), ("'f'", 0), ("'lL'", 0)]:
        freq.append(("types %s %s" % (o, ("int f(){ return %s; }" % text).encode().hex()), "4 %d" % cls, SK["CharacterConstantExpression"], text))
    fimpl = pv.run_impl([f[0] for f in freq]); fmodel = pv.run_model("C13", [f[1] for f in freq])
    fbad, fskip = [], 0
    for f, ia_, mo in zip(freq, fimpl, fmodel):
        if ia_.startswith("SYNTAX"):
            fskip += 1; continue          # not lexed/parsed as one constant: C05's business
        t = node_type(ia_, f[2])
        if t != mo[0]:
            fbad.append((f[0], f[3], t, mo[0]))

    n_eval = len(tv_impl) + len(reqs) + len(creq) + len(freq)
    chk.coverage["evaluations"] = n_eval
    chk.coverage["distinct_nontrivial"] = len({(m[0], m[1], m[2], m[3]) for m in meta if m[2] != m[3]}) + len({(m[0], m[1], m[2]) for m in cmeta if m[0] > 127})
    chk.coverage["exhaustive"] = True
    chk.coverage["rule"] = ("all ordered pairs of the 18 arithmetic basic types x 13 binary operators and 7 arithmetic/shift compound assignments, each as a program through parse+bind+check "
                            "(%d programs); every translated function over kinds 0..19 (%d calls); integer constants at 2^k-2..2^k+1 for k in 7,8,15,16,31,32,63,64 plus %d random values x "
                            "{decimal, octal, hex} x suffix spellings (%d programs); %d floating/character constants. non-trivial = operand types differ / constant above 127"
                            % (len(reqs), len(tv_impl), len(vals) - 38, len(creq), len(freq)))
    chk.coverage["samples"] = [bytes.fromhex(reqs[5000].split()[2]).decode(), bytes.fromhex(creq[len(creq) // 2].split()[2]).decode(), tv_impl[100]]
    chk.coverage["translation_validation"] = {"calls": len(tv_impl), "disagreements": len(tv_bad)}
    chk.coverage["distribution"] = {"pair_programs": len(reqs), "constant_programs": len(creq), "float_char_constants": len(freq),
                                    "float_char_skipped_not_one_token": fskip, "unexpected_answers": len(odd)}

    # ---- report
    if kf_conv:
        r, m, t, c = kf_conv[0]
        chk.report("conv:Long_U,LongLong_S", {"request": r, "program": bytes.fromhex(r.split()[2]).decode(), "implementation_kind": t, "c11_kind": c,
                                               "cells": sorted({(KNAMES[x[1][2]], KNAMES[x[1][3]]) for x in kf_conv})}, found=True)
    if kf_cmp:
        r, m, t, c = kf_cmp[0]
        chk.report("compound-assignment-type", {"request": r, "program": bytes.fromhex(r.split()[2]).decode(), "implementation_kind": t, "c11_kind": c,
                                                "count": len(kf_cmp)}, found=True)
    for r, m, t, c in bad_c11[:1]:
        chk.report("type:%s:%s:%s:%s" % (m[0], m[1], KNAMES[m[2]], KNAMES[m[3]]),
                   {"request": r, "program": bytes.fromhex(r.split()[2]).decode(), "implementation_kind": t, "c11_kind": c, "count_failing": len(bad_c11),
                    "others": [bytes.fromhex(x[0].split()[2]).decode() for x in bad_c11[1:6]]}, found=True,
                   what="type recorded for the expression differs from the C11 type")
    for r, m, t, c in cbad_spec[:1]:
        chk.report("const:%s" % m[3], {"request": r, "program": bytes.fromhex(r.split()[2]).decode(), "implementation_kind": t, "c11_kind": c,
                                       "count_failing": len(cbad_spec), "others": [x[1][3] for x in cbad_spec[1:8]]}, found=True,
                   what="integer constant typed differently from the first fit of the 6.4.4.1p5 list")
    for r, text, t, c in fbad[:1]:
        chk.report("const:%s" % text, {"request": r, "constant": text, "implementation_kind": t, "c11_kind": c, "count_failing": len(fbad),
                                       "others": [x[1] for x in fbad[1:8]]}, found=True, what="floating/character constant typed differently from C11")
    if odd and not bad_c11:
        r, m, a = odd[0]
        chk.report("no-type:%s:%s:%s:%s" % (m[0], m[1], KNAMES[m[2]], KNAMES[m[3]]),
                   {"request": r, "program": bytes.fromhex(r.split()[2]).decode(), "implementation": a[:300], "count": len(odd)}, found=True,
                   what="no type (or a crash) where C11 assigns one or requires a diagnostic")
    found_any = bool(bad_c11 or cbad_spec or fbad or odd)
    if plat_bad and not found_any:
        chk.report("platform", {"unchecked": "PlatformOptions defaults are not the LP64 instance the theorems are stated for", "differences": plat_bad}, found=False)
    if terr is not None and not found_any:
        chk.report("translator", {"unchecked": "translate/c13.py rejects the source: " + terr}, found=False)
    if (tv_bad or bad_model or cbad_model) and not found_any:
        x = (tv_bad or bad_model or cbad_model)[0]
        chk.report("correspondence", {"unchecked": "correspondence model vs implementation (translated functions / dispatch / selectTypeForValue)",
                                      "first": [str(y) for y in x], "counts": {"functions": len(tv_bad), "dispatch": len(bad_model), "constants": len(cbad_model)}}, found=False)
    if not proof_ok and terr is None and not found_any:
        for f, (ok, out) in res.items():
            if not ok:
                chk.report("proof-" + f, {"unchecked": f + " (theorems: %s)" % ", ".join(pv.theorem_names(f)), "coq_output": out[-3000:]}, found=False)


def replay(chk, path):
    r = json.load(open(path))
    req = r.get("request")
    if req:
        print("request:", req)
        print("program:", r.get("program"))
        print("implementation:", pv.run_impl([req])[0])
    run(chk)
