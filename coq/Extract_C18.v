Require Import ExtrOcamlBasic.
From PV Require Import Entry_C18.
Extraction "model.ml" run.
