// types <opts> <hex text> -> for every expression node in pre-order: "<kind>=<type>" ; then diagnostics
// tyfn <name> <args...>   -> direct call of a conversion function / kind predicate (translation validation)
#include "sema.h"
#include "C/sema/TypeChecker.h"
#include "C/types/TypeKind_Basic.h"
using namespace pvh;

namespace {
struct ExprWalker : SyntaxVisitor {
    const SemanticModel* sema; std::ostringstream out;
    ExprWalker(const SyntaxTree* t, const SemanticModel* s) : SyntaxVisitor(t), sema(s) {}
    bool preVisit(const SyntaxNode* n) override {
        if (auto e = n->asExpression()) {
            auto ti = sema->typeInfoOf(e);
            out << " " << (unsigned)n->kind() << "=" << typestr(ti.type());
        }
        return true;
    }
};
}

HANDLER(types)
{
    std::string o, h; in >> o >> h;
    auto tree = parse(unhex(h), makeOpts(o));
    if (!tree->diagnostics().empty()) return "SYNTAX" + diagstr(tree.get());
    auto c = compile(std::move(tree));
    if (!c.sema) return "NOSEMA";
    ExprWalker w(c.tree, c.sema);
    w.visit(c.tree->rootNode());
    return "OK" + w.out.str() + " |" + diagstr(c.tree);
}

HANDLER(tyfn)
{
    std::string f; in >> f;
    int a = 0, b = 0; in >> a >> b;
    auto K = [](int x) { return (BasicTypeKind)x; };
    if (f == "promo") return std::to_string((int)TypeChecker::performIntegerPromotion(K(a)));
    if (f == "signconv") return std::to_string((int)TypeChecker::performSignBasedIntegerConversion(K(a), K(b)));
    if (f == "conv") return std::to_string((int)TypeChecker::performArithmeticConversions(K(a), K(b)));
    if (f == "signed") return std::to_string((int)isSignedIntegerTypeKind(K(a)));
    if (f == "unsigned") return std::to_string((int)isUnsignedIntegerTypeKind(K(a)));
    if (f == "integer") return std::to_string((int)isIntegerTypeKind(K(a)));
    if (f == "real") return std::to_string((int)isRealTypeKind(K(a)));
    if (f == "platmax") { PlatformOptions p; return std::to_string(p.maxValueOf((PlatformOptions::ArithmeticIntegerType)a)); }
    return "ERR unknown-fn";
}
