(** C13 — Expression types follow C11 promotions, conversions and constant typing (LP64).
    The conversion functions and predicates are the IR programs regenerated from
    TypeChecker.cpp / TypeKind_Basic.h on this run; the candidate arrays of
    visitConstantExpression are regenerated as a table. *)
From Coq Require Import List ZArith Bool Lia.
From PV Require Import CxxIR C13Spec C13Model C13Proofs C13Findings.
From PV.gen Require Import Gen_C13.
Import ListNotations.
Local Open Scope Z_scope.

Definition res_eqb (x y : res) : bool :=
  match x, y with RErr, RErr | RReject, RReject => true | RType a, RType b => a =? b | _, _ => false end.
Lemma res_eqb_eq x y : res_eqb x y = true -> x = y.
Proof. destruct x, y; cbn; try discriminate; auto. intros H. apply Z.eqb_eq in H. congruence. Qed.

Lemma C13_codes_distinct : codes_distinct = true.
Proof. vm_compute. reflexivity. Qed.

(** every operator of the property x every ordered pair of the 18 arithmetic types *)
Theorem C13_binary_types : forall (op : bop) (a b : bk),
  impl_binop op (code a) (code b) = enc (c11_binop_eff op a b).
Proof.
  intros op a b. apply res_eqb_eq.
  apply (sweep3 (fun o x y => res_eqb (impl_binop o (code x) (code y)) (enc (c11_binop_eff o x y)))).
  vm_compute. reflexivity.
Qed.

(** outside the recorded (and still active) findings the proved table IS C11's *)
Theorem C13_effective_is_c11 : forall op a b, in_active a b = false ->
  c11_binop_eff op a b = c11_binop LP64 op a b.
Proof. intros op a b H. unfold c11_binop_eff, uac_eff. rewrite H. destruct op; reflexivity. Qed.

(** integer promotions, alone (6.3.1.1p2) *)
Theorem C13_promotions : forall k, is_integer k = true -> i_promo (code k) = Some (code (promote LP64 k)).
Proof. destruct k; intros H; try discriminate H; vm_compute; reflexivity. Qed.

(** the kind predicates are the 6.2.5 classification *)
Definition b2z (b : bool) : Z := if b then 1 else 0.
Definition is_signed_int (k : bk) : bool := match k with SChar | Short | Int | Long | LLong => true | _ => false end.
Theorem C13_predicates : forall k,
  i_integer (code k) = Some (b2z (is_integer k)) /\ i_real (code k) = Some (b2z (is_real k)) /\
  i_unsigned (code k) = Some (b2z (is_unsigned k)) /\ i_signed (code k) = Some (b2z (is_signed_int k)).
Proof. destruct k; vm_compute; repeat split; reflexivity. Qed.

(** the candidate arrays are the lists of 6.4.4.1p5 *)
Lemma C13_candidate_table : forall s oh, impl_candidates s oh = Some (map code (const_list s oh)).
Proof. destruct s, oh; vm_compute; reflexivity. Qed.

(** integer constants: EVERY value (not only the boundaries), every suffix, both base classes —
    whenever some type of the list can represent the value, the implementation picks the first that can *)
Theorem C13_integer_constant : forall (s : isuffix) (octhex : bool) (v : Z),
  (exists k, In k (const_list s octhex) /\ v <= LP64 k) ->
  impl_const LP64 s octhex v = option_map code (first_fit LP64 (const_list s octhex) v).
Proof.
  intros s oh v H. unfold impl_const. rewrite C13_candidate_table.
  apply select_first_fit; [exact C13_codes_distinct | exact H].
Qed.

(** ... and the first-fit list always has a fitting member for values below 2^64 except for the
    decimal lists without u suffix, whose last member is long long *)
Theorem C13_integer_constant_total : forall s oh v, v < 2^64 ->
  (oh = true \/ s = SfxU \/ s = SfxUL \/ s = SfxULL \/ v < 2^63) ->
  exists k, impl_const LP64 s oh v = Some (code k) /\ first_fit LP64 (const_list s oh) v = Some k.
Proof.
  intros s oh v Hv Hc.
  assert (Hfit : exists k, In k (const_list s oh) /\ v <= LP64 k).
  { destruct s, oh; cbn; destruct Hc as [Hc|[Hc|[Hc|[Hc|Hc]]]]; try discriminate;
      try (exists ULLong; cbn; split; [tauto|lia]); try (exists LLong; cbn; split; [tauto|lia]). }
  rewrite (C13_integer_constant s oh v Hfit).
  destruct (first_fit LP64 (const_list s oh) v) as [k|] eqn:E.
  - exists k. split; reflexivity.
  - exfalso. destruct Hfit as [k [Hin Hle]]. revert E Hin. generalize (const_list s oh).
    induction l as [|x l IH]; cbn; [tauto|]. destruct (v <=? LP64 x) eqn:E2; [discriminate|].
    intros E [->|Hin]; [apply Z.leb_gt in E2; lia|]. exact (IH E Hin).
Qed.

(** the recorded findings are real disagreements with C11, not slack *)
Lemma C13_conv_findings_real : forallb (fun ab => negb (bk_eqb LLong (uac LP64 (fst ab) (snd ab)))) conv_findings = true.
Proof. vm_compute. reflexivity. Qed.
Lemma C13_compound_refuted :
  let '(op, a, b) := compound_finding_witness in
  impl_binop op (code a) (code b) <> enc (c11_compound op a b).
Proof. vm_compute. discriminate. Qed.

Example C13_nonvacuous :
  impl_binop Add (code Float) (code Double) = RType (code Double) /\
  impl_binop Shl (code UChar) (code Long) = RType (code Int) /\
  impl_binop Rem (code Int) (code Double) = RReject /\
  impl_const LP64 SfxNone true 2147483648 = Some (code UInt) /\
  impl_const LP64 SfxNone false 2147483648 = Some (code Long).
Proof. vm_compute. repeat split; reflexivity. Qed.

Print Assumptions C13_binary_types.
Print Assumptions C13_promotions.
Print Assumptions C13_predicates.
Print Assumptions C13_integer_constant.
Print Assumptions C13_integer_constant_total.
