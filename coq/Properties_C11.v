(** C11 — Well-typed programs produce no error diagnostics.  PARTIAL: the theorems are about the
    model of TypeChecker::typesAreCompatible and TypeChecker::isTypeAssignableFromOtherType over
    type terms (typedef names resolved on either side as C12 proves; with qualifiers ignored the
    relation compares the terms with every qualifier erased):
    - the laws every use of compatibility relies on: symmetric on every pair, reflexive on every
      error-free type, in all four flag settings;
    - COMPLETENESS, the direction C11 needs: whatever C11 6.2.7 calls compatible the relation
      accepts, and whatever 6.5.16.1-1 allows in a simple assignment (arithmetic operands,
      compatible structures, pointers to compatible types with qualifier inclusion, void
      pointers, the null pointer constant, pointer to _Bool, array-to-pointer conversion of the
      right operand) the assignability test accepts — so no well-typed assignment,
      initialisation or argument passing of these forms can be rejected by these two functions.
    That whole well-typed programs get no error diagnostic is decided by differential testing
    against gcc. *)
From Coq Require Import List NArith Bool Arith Lia.
From PV Require Import C12Model C12Proofs C11Model C11Proofs.
Import ListNotations.

Theorem C11_compatibility_symmetric : forall d v q t1 t2, compat d v q t1 t2 = compat d v q t2 t1.
Proof. intros. unfold compat. apply compat_tf_sym. Qed.

Theorem C11_compatibility_reflexive : forall d v q t, clean (den d t) = true -> compat d v q t t = true.
Proof. intros d v q t Hc. unfold compat. apply compat_tf_refl. exact Hc. Qed.

Theorem C11_compatibility_complete : forall a b v q, compat_spec a b -> compat_tf v q a b = true.
Proof. intros. apply compat_tf_complete. assumption. Qed.

Theorem C11_assignability_complete : forall l r nullc, assignable_spec l r nullc -> clean l = true -> clean r = true ->
  assignable l r nullc = true.
Proof. exact assignable_complete. Qed.

(** Non-vacuity: typedef const int CI; typedef CI *P;  —  P vs const int * ; int * vs const int * (only with qualifiers ignored);
    const char *s = "x" (array of char decays); _Bool b = p; p = 0 *)
Example C11_nonvacuous :
  let d := denv [(2, TPtr (TName 1)); (1, TQual 1 (TBasic 5))]%N in
  compat d false false (TName 2) (TPtr (TQual 1 (TBasic 5))) = true /\
  compat d false false (TPtr (TBasic 5)) (TName 2) = false /\
  compat d false true (TPtr (TBasic 5)) (TName 2) = true /\
  compat d true false (TPtr TVoid) (TName 2) = true /\
  assignable (TPtr (TQual 1 (TBasic 0))) (TArr (TBasic 0)) false = true /\
  assignable (TBasic 11) (TPtr (TBasic 5)) false = true /\
  assignable (TPtr (TBasic 5)) (TBasic 5) true = true /\
  assignable (TPtr (TBasic 5)) (TBasic 5) false = false /\
  assignable_spec (TPtr (TQual 1 (TBasic 0))) (TArr (TBasic 0)) false.
Proof.
  vm_compute. repeat split; try reflexivity.
  apply as_decay. apply as_ptr; [constructor|reflexivity].
Qed.

Print Assumptions C11_compatibility_symmetric.
Print Assumptions C11_compatibility_reflexive.
Print Assumptions C11_compatibility_complete.
Print Assumptions C11_assignability_complete.
