(** C20 — the algorithm as it stood at the pinned commit 926d554 (before the
    "fix:" commit), kept only to document the finding: it is refuted by a
    five-operation branching history and by a switch to revision 0. *)
From PV Require Import C20Model.
From Coq Require Import NArith.

Section Pinned.
Variables K V : Type.
(* pinned walk: pushes it->second (the parents), indexes commands_[current] *)
Fixpoint chain_pinned (fuel : nat) (ps : list nat) (r : nat) : list nat :=
  match fuel with
  | 0 => []
  | S f => match r with
           | 0 => []
           | S r' => match nth_error ps r' with
                     | None => []
                     | Some p => p :: chain_pinned f ps p
                     end
           end
  end.
Definition replay_pinned (cmds : list (K * V)) (ord : list nat) : amap K V :=
  fold_left (fun m r => match nth_error cmds r with
                        | Some c => assign K V c m | None => m end) ord [].
Definition apply_revision_pinned (s : vstate K V) (r : nat) : vstate K V :=
  let ord := chain_pinned (S (cnt K V s)) (parents s) r in
  match ord with
  | [] => mkV K V (commands s) (parents s) r (vmap s)
  | _ => mkV K V (commands s) (parents s) r (replay_pinned (commands s) (rev ord))
  end.
Definition vstep_pinned (s : vstate K V) (o : vop K V) : vstate K V :=
  match o with Ins c => insert_or_assign K V s c | App r => apply_revision_pinned s r end.
End Pinned.

Local Open Scope N_scope.
Definition w1 : list (vop N N) := [Ins (1,10); Ins (2,20); App 1%nat; Ins (3,30); App 3%nat].
Definition w2 : list (vop N N) := [Ins (1,10); App 0%nat].

Lemma C20_pinned_refuted_branch :
  lookup N.eqb 3 (vmap (fold_left (vstep_pinned N N) w1 (vinit N N))) = None /\
  lookup N.eqb 3 (scontents N N (srun N N w1)) = Some 30.
Proof. vm_compute. split; reflexivity. Qed.

Lemma C20_pinned_refuted_zero :
  lookup N.eqb 1 (vmap (fold_left (vstep_pinned N N) w2 (vinit N N))) = Some 10 /\
  lookup N.eqb 1 (scontents N N (srun N N w2)) = None.
Proof. vm_compute. split; reflexivity. Qed.
