"""Declaration-centred random programs: syntactically well-formed (mostly), semantically ARBITRARY.
Meant to stress the binder, the canonicaliser, the typedef resolver and the type checker (C02, C15): specifiers of every
form in every position (file scope, block scope, members, parameters, type names inside sizeof / casts / compound literals /
_Alignas / typeof / _Atomic / _Generic), nested declarators, several declarators per declaration, bit-fields (named, unnamed,
zero width), anonymous members, tags declared inside parameter lists and type names, attributes and asm labels with
expressions (GNU mode), K&R definitions, redeclarations and uses of undeclared names."""
import random


class D:
    def __init__(self, rng, gnu=False):
        self.rng = rng
        self.gnu = gnu
        self.tnames = ["T%d" % i for i in range(4)]
        self.tags = ["S%d" % i for i in range(3)]
        self.ids = ["a", "b", "c", "p", "q", "f", "g", "x", "y", "E0", "E1"]
        self.n = 0

    def ch(self, *xs):
        return self.rng.choice(xs)

    def p(self, x):
        return self.rng.random() < x

    def ident(self):
        return self.rng.choice(self.ids)

    # ---------------------------------------------------------------- specifiers
    def basic(self):
        r = self.rng.random()
        if r < 0.75:
            return self.ch("int", "char", "short", "long", "long long", "unsigned", "unsigned char", "signed char", "unsigned long", "float", "double", "long double", "_Bool", "void",
                           "double _Complex", "long unsigned int", "short int", "int long")
        ks = ["int", "char", "short", "long", "signed", "unsigned", "float", "double", "_Bool", "void", "_Complex"]
        return " ".join(self.rng.choice(ks) for _ in range(self.rng.randint(1, 4)))

    def tag_spec(self, d):
        kw = self.ch("struct", "struct", "union")
        tag = self.ch("", self.rng.choice(self.tags))
        attr = " __attribute__((packed))" if self.gnu and self.p(0.1) else ""
        if (self.p(0.55) or not tag) and d < 4:
            return "%s%s %s { %s }" % (kw, attr, tag, self.members(d + 1))
        return "%s %s" % (kw, tag)

    def enum_spec(self, d):
        tag = self.ch("", self.rng.choice(self.tags))
        if self.p(0.6) or not tag:
            es = []
            for i in range(self.rng.randint(1, 3)):
                e = self.ch("E0", "E1", "E2", "A", "B")
                if self.p(0.4):
                    e += " = " + self.expr(d + 2)
                es.append(e)
            return "enum %s { %s%s }" % (tag, ", ".join(es), "," if self.p(0.2) else "")
        return "enum " + tag

    def members(self, d):
        out = []
        for _ in range(self.rng.randint(0 if self.p(0.1) else 1, 3)):
            r = self.rng.random()
            if r < 0.15 and d < 4:
                out.append("%s;" % self.tag_spec(d))                      # anonymous member / nested tag declaration
            elif r < 0.2:
                out.append("_Static_assert(%s, \"m\");" % self.expr(d + 2))
            else:
                ds = []
                for _ in range(self.rng.randint(1, 3)):
                    q = self.rng.random()
                    if q < 0.2:
                        ds.append(": %s" % self.ch("0", "3", self.expr(d + 2)))
                    elif q < 0.4:
                        ds.append("%s : %s" % (self.ident(), self.ch("1", "3", self.expr(d + 2))))
                    else:
                        ds.append(self.declarator(d + 1, self.ident()))
                out.append("%s %s;" % (self.specs(d, member=True), ", ".join(ds)))
        return " ".join(out)

    def specs(self, d, member=False, param=False, storage=False):
        parts = []
        if storage and self.p(0.3):
            parts.append(self.ch("static", "extern", "typedef", "register", "auto", "_Thread_local", "inline", "_Noreturn"))
        if param and self.p(0.1):
            parts.append("register")
        if self.p(0.25):
            parts.append(self.ch("const", "volatile", "restrict", "_Atomic", "const volatile"))
        if self.p(0.06) and not param:
            parts.append("_Alignas(%s)" % (self.type_name(d + 1) if self.p(0.5) else self.expr(d + 2)))
        if self.gnu and self.p(0.08):
            parts.append("__attribute__((%s))" % self.attr(d))
        r = self.rng.random()
        if r < 0.4:
            parts.append(self.basic())
        elif r < 0.6:
            parts.append(self.rng.choice(self.tnames))
        elif r < 0.78 and d < 4:
            parts.append(self.tag_spec(d))
        elif r < 0.86 and d < 4:
            parts.append(self.enum_spec(d))
        elif r < 0.9 and d < 4:
            parts.append("_Atomic(%s)" % self.type_name(d + 1))
        elif r < 0.94 and self.gnu and d < 4:
            parts.append("%s(%s)" % (self.ch("typeof", "__typeof__"), self.type_name(d + 1) if self.p(0.5) else self.expr(d + 2)))
        elif r < 0.97:
            parts.append(self.basic())
        # else: no type specifier at all
        if self.p(0.1):
            parts.append(self.ch("const", "volatile"))
        self.rng.shuffle(parts) if self.p(0.3) else None
        return " ".join(parts)

    def attr(self, d):
        return self.ch("packed", "unused", "aligned(8)", "aligned(sizeof(%s))" % self.type_name(d + 1), "aligned(%s)" % self.expr(d + 2), "deprecated(\"x\")", "format(printf, 1, 2)",
                       "cleanup(%s)" % self.ident(), "vector_size(16)", "mode(%s)" % self.ident())

    # ---------------------------------------------------------------- declarators
    def declarator(self, d, name, abstract=False):
        s = ""
        for _ in range(self.rng.choice([0, 0, 0, 1, 1, 2])):
            s += "*" + self.ch("", "", " const ", " volatile ", " restrict ")
        if self.gnu and self.p(0.04):
            s += " __attribute__((%s)) " % self.attr(d)
        if d < 5 and self.p(0.25):
            inner = self.declarator(d + 1, name, abstract)
            core = "(%s)" % inner if inner or not abstract else ""
        else:
            core = "" if abstract else (name or self.ident())
        for _ in range(self.rng.choice([0, 0, 0, 1, 1, 2])):
            if self.p(0.5) or d >= 5:
                core += "[%s]" % self.ch("", "2", "3", "static 4", "*", "const 2", self.expr(d + 2))
            else:
                core += "(%s)" % self.params(d + 1)
        s += core
        if self.gnu and not abstract and self.p(0.04):
            s += self.ch(" __asm__(\"sym\")", " __attribute__((%s))" % self.attr(d))
        return s

    def params(self, d):
        r = self.rng.random()
        if r < 0.1:
            return ""
        if r < 0.2:
            return "void"
        if r < 0.27:
            return ", ".join(self.ident() for _ in range(self.rng.randint(1, 3)))          # identifier list
        ps = []
        for _ in range(self.rng.randint(1, 3)):
            q = self.rng.random()
            sp = self.specs(d, param=True)
            if q < 0.3:
                ps.append(sp)
            elif q < 0.5:
                ps.append("%s %s" % (sp, self.declarator(d + 1, None, abstract=True)))
            else:
                ps.append("%s %s" % (sp, self.declarator(d + 1, self.ident())))
        if self.p(0.15):
            ps.append("...")
        return ", ".join(ps)

    def type_name(self, d):
        return ("%s %s" % (self.specs(d, param=True), self.declarator(d + 1, None, abstract=True) if self.p(0.5) else "")).strip()

    # ---------------------------------------------------------------- expressions
    def expr(self, d):
        if d > 5:
            return self.ch("1", "0", self.ident(), "2u", "'c'", "1.5", "\"s\"")
        r = self.rng.random()
        if r < 0.25:
            return self.ch("1", "0", "2u", "3L", "'c'", "1.5", "1.5f", "\"s\"", "0x10", "E0")
        if r < 0.45:
            return self.ident()
        if r < 0.52:
            return "sizeof(%s)" % (self.type_name(d + 1) if self.p(0.6) else self.expr(d + 1))
        if r < 0.57:
            return "_Alignof(%s)" % self.type_name(d + 1)
        if r < 0.65:
            return "(%s)%s" % (self.type_name(d + 1), self.expr(d + 1))
        if r < 0.7:
            return "(%s){ %s }" % (self.type_name(d + 1), self.init_list(d + 1))
        if r < 0.8:
            return "%s %s %s" % (self.expr(d + 1), self.ch("+", "-", "*", "/", "%", "<<", "<", "==", "&", "&&", "||", ",", "=", "+="), self.expr(d + 1))
        if r < 0.85:
            return "%s%s" % (self.ch("-", "!", "~", "*", "&", "++", "sizeof "), self.expr(d + 1))
        if r < 0.9:
            return "%s%s" % (self.expr(d + 1), self.ch("++", "[%s]" % self.expr(d + 2), ".%s" % self.ident(), "->%s" % self.ident(), "(%s)" % ", ".join(self.expr(d + 2) for _ in range(self.rng.randint(0, 2)))))
        if r < 0.93:
            return "%s ? %s : %s" % (self.expr(d + 1), self.expr(d + 1), self.expr(d + 1))
        if r < 0.96:
            return "_Generic(%s, %s: %s, default: %s)" % (self.expr(d + 1), self.type_name(d + 1), self.expr(d + 2), self.expr(d + 2))
        if self.gnu and r < 0.98:
            return self.ch("({ %s %s; })" % (self.local_decl(d + 1), self.expr(d + 2)), "__func__", "__builtin_offsetof(%s, %s)" % (self.type_name(d + 1), self.ident()),
                           "__builtin_va_arg(%s, %s)" % (self.ident(), self.type_name(d + 1)), "__extension__ %s" % self.expr(d + 1), "__real__ %s" % self.expr(d + 1))
        return "(%s)" % self.expr(d + 1)

    def init_list(self, d):
        items = []
        for _ in range(self.rng.randint(0, 3)):
            des = self.ch("", "", ".%s = " % self.ident(), "[%s] = " % self.ch("0", "1", self.expr(d + 2)), ".%s[1] = " % self.ident())
            items.append(des + (self.expr(d + 1) if self.p(0.75) or d > 4 else "{ %s }" % self.init_list(d + 1)))
        return ", ".join(items)

    # ---------------------------------------------------------------- declarations, statements
    def declaration(self, d, storage=True):
        sp = self.specs(d, storage=storage)
        if self.p(0.1):
            return sp + ";"
        ds = []
        for _ in range(self.rng.choice([1, 1, 2, 3])):
            name = self.rng.choice(self.tnames) if sp.startswith("typedef") or self.p(0.1) else self.ident()
            x = self.declarator(d, name)
            if self.p(0.3) and "typedef" not in sp:
                x += " = " + (self.expr(d + 1) if self.p(0.6) else "{ %s }" % self.init_list(d + 1))
            ds.append(x)
        return "%s %s;" % (sp, ", ".join(ds))

    def local_decl(self, d):
        return self.declaration(d + 1)

    def stmt(self, d):
        r = self.rng.random()
        if d > 3 or r < 0.35:
            return self.expr(d + 1) + ";"
        if r < 0.55:
            return self.local_decl(d)
        if r < 0.62:
            return "{ %s }" % " ".join(self.stmt(d + 1) for _ in range(self.rng.randint(0, 3)))
        if r < 0.7:
            return "if (%s) %s%s" % (self.expr(d + 1), self.stmt(d + 1), " else " + self.stmt(d + 1) if self.p(0.3) else "")
        if r < 0.76:
            return "for (%s %s; %s) %s" % (self.local_decl(d) if self.p(0.5) else self.expr(d + 1) + ";", self.expr(d + 1), self.expr(d + 1), self.stmt(d + 1))
        if r < 0.8:
            return "while (%s) %s" % (self.expr(d + 1), self.stmt(d + 1))
        if r < 0.86:
            return "return %s;" % self.expr(d + 1) if self.p(0.8) else "return;"
        if r < 0.9:
            return "switch (%s) { case %s: %s default: %s }" % (self.expr(d + 1), self.expr(d + 2), self.stmt(d + 1), self.stmt(d + 1))
        if r < 0.93:
            return "%s: %s" % (self.ident(), self.stmt(d + 1))
        if r < 0.95:
            return "goto %s;" % self.ident()
        if self.gnu and r < 0.97:
            return "__asm__ volatile (\"nop\" : \"=r\"(%s) : \"r\"(%s));" % (self.ident(), self.expr(d + 2))
        return "do %s while (%s);" % (self.stmt(d + 1), self.expr(d + 1))

    def function(self):
        sp = self.specs(0, storage=self.p(0.3)).replace("typedef", "static")
        name = self.ch("f", "g", "h", "main")
        ptr = self.ch("", "", "*")
        if self.p(0.15):
            ids = [self.ident() for _ in range(self.rng.randint(1, 3))]
            kr = " ".join("%s %s;" % (self.specs(1, param=True), self.declarator(1, i)) for i in ids if self.p(0.8))
            head = "%s %s%s(%s) %s" % (sp, ptr, name, ", ".join(ids), kr)
        else:
            head = "%s %s%s(%s)" % (sp, ptr, name, self.params(0))
        return "%s { %s }" % (head, " ".join(self.stmt(0) for _ in range(self.rng.randint(0, 4))))

    def unit(self):
        out = []
        for _ in range(self.rng.randint(1, 6)):
            r = self.rng.random()
            if r < 0.25:
                out.append(self.function())
            elif r < 0.3:
                out.append("_Static_assert(%s, \"u\");" % self.expr(2))
            else:
                out.append(self.declaration(0))
        return "\n".join(out) + "\n"


def struct_graph(rng):
    """2..4 structure/union types whose members refer to one another by value, pointer, array or bit-field (cycles included, as incomplete
    code has them), objects of them, and a function that assigns, passes, compares and accesses them"""
    n = rng.randint(2, 4)
    tags = ["G%d" % i for i in range(n)]
    kw = [rng.choice(["struct", "struct", "union"]) for _ in tags]
    out = []
    order = list(range(n)); rng.shuffle(order)
    if rng.random() < 0.5:
        out.append("".join("%s %s; " % (kw[i], tags[i]) for i in range(n)))
    for i in order:
        ms = []
        for j in range(rng.randint(1, 3)):
            t = rng.randrange(n)
            form = rng.choice(["val", "val", "ptr", "arr", "const", "int", "bits", "anon", "tagbits", "qanon"])
            nm = "m%d" % j
            if form == "val":
                ms.append("%s %s %s;" % (kw[t], tags[t], nm))
            elif form == "ptr":
                ms.append("%s %s *%s;" % (kw[t], tags[t], nm))
            elif form == "arr":
                ms.append("%s %s %s[2];" % (kw[t], tags[t], nm))
            elif form == "const":
                ms.append("const %s %s %s;" % (kw[t], tags[t], nm))
            elif form == "bits":
                ms.append("int %s : 3, : 2;" % nm)
            elif form == "tagbits":
                ms.append("%s %s *%s, : 2;" % (kw[t], tags[t], nm))           # an unnamed bit-field that shares a tag type with a named declarator
            elif form == "qanon":
                ms.append("const %s { int c%d; };" % (rng.choice(["struct", "union"]), j))
            elif form == "anon":
                ms.append("%s { int a%d; %s %s *p%d; };" % (rng.choice(["struct", "union"]), j, kw[t], tags[t], j))
            else:
                ms.append("int %s;" % nm)
        out.append("%s %s { %s };" % (kw[i], tags[i], " ".join(ms)))
    objs = []
    for i in range(n):
        out.append("%s %s x%d, y%d, *q%d;" % (kw[i], tags[i], i, i, i)); objs.append(i)
    body = []
    for _ in range(rng.randint(2, 6)):
        i, j = rng.choice(objs), rng.choice(objs)
        body.append(rng.choice(["x%d = y%d;" % (i, j), "x%d = *q%d;" % (i, j), "q%d = &x%d;" % (i, j), "x%d.m0 = y%d.m0;" % (i, j), "q%d->m1 = x%d.m0;" % (i, j),
                                "g(x%d, q%d);" % (i, j), "x%d == y%d;" % (i, j), "x%d.m0.m0.m0 = 1;" % i, "(void)sizeof(x%d);" % i, "x%d = (%s %s){ 0 };" % (i, kw[i], tags[i]),
                                "x%d.a0 = q%d->p0->a0;" % (i, j), "x%d.zz = 1;" % i, "q%d->nope;" % j, "x%d.c0 + x%d.m0.zz;" % (i, j)]))
    out.append("void g(%s %s a, %s %s *b);" % (kw[0], tags[0], kw[-1], tags[-1]))
    out.append("void f(void) { %s }" % " ".join(body))
    return "\n".join(out) + "\n"


def units(rng, n, gnu_share=0.3):
    out = []
    for _ in range(n):
        if rng.random() < 0.15:
            out.append(struct_graph(random.Random(rng.getrandbits(48))))
        else:
            out.append(D(random.Random(rng.getrandbits(48)), gnu=rng.random() < gnu_share).unit())
    return out


if __name__ == "__main__":
    import sys
    for u in units(random.Random(int(sys.argv[1]) if len(sys.argv) > 1 else 1), 5):
        print(u, "\n------")
