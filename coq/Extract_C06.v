Require Import ExtrOcamlBasic.
From PV Require Import Entry_C06.
Extraction "model.ml" run.
