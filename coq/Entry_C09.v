(** Request decoder for the C09 catalogue model.  Items in prefix code: 1 n = use as type, 2 n = use as non-type,
    3 id n = ambiguity site on n, 4 k <k items> = nested block.  Request: [k; <k items of the translation unit>]
    -> for every site (in traversal order): id; decision for expression forms; decision for statement forms (0 type, 1 non-type, 2 inconclusive) *)
From Coq Require Import ZArith List Bool NArith.
From PV Require Import C09Model.
Import ListNotations.
Local Open Scope Z_scope.

Fixpoint dec_items (fuel : nat) (k : nat) (l : list Z) : option (list item * list Z) :=
  match fuel with
  | O => None
  | S f =>
      match k with
      | O => Some ([], l)
      | S k' =>
          match l with
          | 1 :: n :: r => match dec_items f k' r with Some (its, r') => Some (IType (Z.to_N n) :: its, r') | None => None end
          | 2 :: n :: r => match dec_items f k' r with Some (its, r') => Some (INon (Z.to_N n) :: its, r') | None => None end
          | 3 :: id :: n :: r => match dec_items f k' r with Some (its, r') => Some (ISite (Z.to_nat id) (Z.to_N n) :: its, r') | None => None end
          | 4 :: m :: r => match dec_items f (Z.to_nat m) r with
                           | Some (sub, r') => match dec_items f k' r' with Some (its, r'') => Some (IBlock sub :: its, r'') | None => None end
                           | None => None
                           end
          | _ => None
          end
      end
  end.
Definition dcode (d : decision) : Z := match d with KeepType => 0 | KeepNonType => 1 | Inconclusive => 2 end.
Definition run (req : list Z) : list Z :=
  match req with
  | k :: r => match dec_items (S (length r)) (Z.to_nat k) r with
              | Some (its, _) => flat_map (fun s => match s with (id, n, c) => [Z.of_nat id; dcode (decide_expr c n); dcode (decide_stmt c n)] end) (unit_sites its)
              | None => [-2]
              end
  | [] => []
  end.
