// types <opts> <hex text> -> for every expression node in pre-order: "<kind>=<type>" ; then diagnostics
// tyfn <name> <args...>   -> direct call of a conversion function / kind predicate (translation validation)
#include "sema.h"
#include "C/sema/TypeChecker.h"
#include "C/types/TypeKind_Basic.h"
using namespace pvh;

namespace {
struct ExprWalker : SyntaxVisitor {
    const SemanticModel* sema; std::ostringstream out;
    ExprWalker(const SyntaxTree* t, const SemanticModel* s) : SyntaxVisitor(t), sema(s) {}
    bool preVisit(const SyntaxNode* n) override {
        if (auto e = n->asExpression()) {
            auto ti = sema->typeInfoOf(e);
            out << " " << (unsigned)n->kind() << "=" << typestr(ti.type());
        }
        return true;
    }
};
}

HANDLER(types)
{
    std::string o, h; in >> o >> h;
    auto tree = parse(unhex(h), makeOpts(o));
    if (!tree->diagnostics().empty()) return "SYNTAX" + diagstr(tree.get());
    auto c = compile(std::move(tree));
    if (!c.sema) return "NOSEMA";
    ExprWalker w(c.tree, c.sema);
    w.visit(c.tree->rootNode());
    return "OK" + w.out.str() + " |" + diagstr(c.tree);
}

HANDLER(tyfn)
{
    std::string f; in >> f;
    int a = 0, b = 0; in >> a >> b;
    auto K = [](int x) { return (BasicTypeKind)x; };
    if (f == "promo") return std::to_string((int)TypeChecker::performIntegerPromotion(K(a)));
    if (f == "signconv") return std::to_string((int)TypeChecker::performSignBasedIntegerConversion(K(a), K(b)));
    if (f == "conv") return std::to_string((int)TypeChecker::performArithmeticConversions(K(a), K(b)));
    if (f == "signed") return std::to_string((int)isSignedIntegerTypeKind(K(a)));
    if (f == "unsigned") return std::to_string((int)isUnsignedIntegerTypeKind(K(a)));
    if (f == "integer") return std::to_string((int)isIntegerTypeKind(K(a)));
    if (f == "real") return std::to_string((int)isRealTypeKind(K(a)));
    if (f == "platmax") { PlatformOptions p; return std::to_string(p.maxValueOf((PlatformOptions::ArithmeticIntegerType)a)); }
    return "ERR unknown-fn";
}

// compat <opts> <hex text> -> for every ordered pair of OBJECT declarations (in source order) four bits:
//   typesAreCompatible(t1, t2, treatVoidAsAny, ignoreQualifier) for (0,0) (0,1) (1,0) (1,1), then isTypeAssignableFromOtherType(t1, t2, not-a-null-constant)
namespace {
struct ObjCollector : SyntaxVisitor {
    const SemanticModel* sema; std::vector<const Type*> tys;
    ObjCollector(const SyntaxTree* t, const SemanticModel* s) : SyntaxVisitor(t), sema(s) {}
    bool preVisit(const SyntaxNode* n) override {
        if (n->kind() == SyntaxKind::IdentifierDeclarator) {
            auto sym = sema->declarationBy(n->asDeclarator());
            if (sym) if (auto o = sym->asObjectDeclaration()) tys.push_back(o->type());
        }
        return true;
    }
};
}
HANDLER(compat)
{
    std::string o, h; in >> o >> h;
    auto tree = parse(unhex(h), makeOpts(o), SyntaxTree::SyntaxCategory::Any, TextCompleteness::Full);
    if (!tree->diagnostics().empty()) return "SYNTAX" + diagstr(tree.get());
    auto c = compile(std::move(tree));
    if (!c.sema) return "NOSEMA";
    ObjCollector col(c.tree, c.sema);
    col.visit(c.tree->rootNode());
    TypeChecker checker(const_cast<SemanticModel*>(c.sema), c.tree);
    std::ostringstream out;
    out << "OK";
    for (auto t1 : col.tys)
        for (auto t2 : col.tys) {
            out << " ";
            for (int v = 0; v < 2; ++v)
                for (int q = 0; q < 2; ++q)
                    out << (t1 && t2 && checker.typesAreCompatible(t1, t2, v, q) ? 1 : 0);
            // fifth bit: isTypeAssignableFromOtherType(t1, t2, <a node that is not the constant 0>)
            out << (t1 && t2 && checker.isTypeAssignableFromOtherType(t1, t2, c.tree->rootNode()) ? 1 : 0);
        }
    return out.str();
}
