// ParseOptions from a compact description: "<std>:<kr>:<hex bitmask of switches>"
// std: 0=C89 1=C99 2=C11 3=C17 ; kr: keyword recognition 0/1 ; switch numbering = coq/gen/kw_options.txt
#ifndef PSYVERIF_OPTS_H
#define PSYVERIF_OPTS_H
#include "access.h"
#include "C/parser/ParseOptions.h"
#include "C/parser/LanguageDialect.h"
#include "C/parser/LanguageExtensions.h"
#include "C/parser/MacroTranslations.h"
inline psy::C::ParseOptions makeOpts(const std::string& d)
{
    using namespace psy::C;
    int std_ = 2, kr = 1; unsigned long mask = 0;
    int cm = -1, dm = -1;
    if (!d.empty() && d[0] == 'D') {
        // "D<std>:<cm>:<dm>": what the cnip driver builds: ParseOptions{LanguageDialect(std)} with default extensions
        int s_ = 2;
        sscanf(d.c_str() + 1, "%d:%d:%d", &s_, &cm, &dm);
        LanguageDialect::Std sd = s_ == 0 ? LanguageDialect::Std::C89_90 : s_ == 1 ? LanguageDialect::Std::C99
                                : s_ == 2 ? LanguageDialect::Std::C11 : LanguageDialect::Std::C17_18;
        ParseOptions po{LanguageDialect(sd)};
        if (cm >= 0) po.setCommentMode((ParseOptions::CommentMode)cm);
        if (dm >= 0) po.setDisambiguationMode((ParseOptions::DisambiguationMode)dm);
        return po;
    }
    {
        std::istringstream is(d); std::string a;
        std::vector<std::string> parts;
        while (std::getline(is, a, ':')) parts.push_back(a);
        if (parts.size() > 0) std_ = atoi(parts[0].c_str());
        if (parts.size() > 1) kr = atoi(parts[1].c_str());
        if (parts.size() > 2) mask = strtoul(parts[2].c_str(), nullptr, 16);
        if (parts.size() > 3) cm = atoi(parts[3].c_str());
        if (parts.size() > 4) dm = atoi(parts[4].c_str());
    }
    LanguageDialect::Std s = std_ == 0 ? LanguageDialect::Std::C89_90 : std_ == 1 ? LanguageDialect::Std::C99
                           : std_ == 2 ? LanguageDialect::Std::C11 : LanguageDialect::Std::C17_18;
    MacroTranslations tr;
    auto b = [&](int i) { return (mask >> i) & 1ul; };
    tr.enable_Translate_static_assert_AsKeyword(b(13));
    tr.enable_Translate_complex_AsKeyword(b(14));
    tr.enable_Translate_operatorNames(b(15));
    tr.enable_Translate_alignas_AsKeyword(b(16));
    tr.enable_Translate_alignof_AsKeyword(b(17));
    tr.enable_Translate_va_arg_AsKeyword(b(18));
    tr.enable_Translate_offsetof_AsKeyword(b(19));
    tr.enable_Translate_thread_local_AsKeyword(b(20));
    tr.enable_Translate_bool_AsKeyword(b(21));
    LanguageExtensions ext(tr);
    ext.enable_extGNU_AlternateKeywords(b(0));
    ext.enable_extGNU_AttributeSpecifiers(b(1));
    ext.enable_extGNU_Complex(b(2));
    ext.enable_extGNU_FunctionNames(b(3));
    ext.enable_extGNU_Asm(b(4));
    ext.enable_extGNU_InternalBuiltins(b(5));
    ext.enable_extPSY_Generics(b(6));
    ext.enable_CPP_nullptr(b(7));
    ext.enable_nativeBooleans(b(8));
    ext.enable_NULLAsBuiltin(b(9));
    ext.enable_extC_wchar_t_Keyword(b(10));
    ext.enable_extC_char16_t_Keyword(b(11));
    ext.enable_extC_char32_t_Keyword(b(12));
    ParseOptions po{LanguageDialect(s), ext};
    po.enable_keywordRecognition(kr != 0);
    if (cm >= 0) po.setCommentMode((ParseOptions::CommentMode)cm);
    if (dm >= 0) po.setDisambiguationMode((ParseOptions::DisambiguationMode)dm);
    return po;
}
#endif
