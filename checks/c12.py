# C12 — Typedef names resolve to their declared synonym and basic types are canonical.
import json, os, re, sys
from lib import pv
sys.path.insert(0, os.path.join(pv.ROOT, "gen"))
import tdprog

OPTS = "2:1:200000:0:2"


def parse_answer(a):
    """-> ([(symkind, name, offset, type)], diagnostics)"""
    head, _, diags = a.partition(" |")
    out = []
    for item in head.split()[1:]:
        if item == "SYNTAX":
            out.append(("SYNTAX", "", 0, "")); continue
        m = re.match(r"(\d+):([^@]*)@(\d+|\?|-)=(.*)$", item)
        if m:
            out.append((int(m.group(1)), m.group(2), int(m.group(3)) if m.group(3).isdigit() else -1, m.group(4)))
    return out, diags.split()


def enc_env(p, upto_off):
    """the typedef declarations before byte offset upto_off at file scope as a model environment, most recent first"""
    env = [(off, ty) for k, n, off, ty in p.decls if k == "t" and off < upto_off]
    return list(reversed(env))


def run(chk, only=None):
    chk.coverage["trusted_base"] = pv.TRUSTED_COMMON + [
        "hand-written model coq/C12Model.v of TypedefNameTypeResolver::resolve over immutable type terms in a well-scoped environment (tied by correspondence: the extracted resolver is run on the "
        "typedef environment of every generated program and compared with the types the implementation holds after computeSemanticModel)",
        "reference interpreter gen/tdprog.py (scoping of typedef names and tags, type construction per declarator, printing)",
        "NOT a theorem (decided by correspondence only): which declaration the canonicaliser binds a name to (block scoping, shadowing), tag references, in-place mutation/sharing of type objects, canonical singletons"]
    chk.assumptions = ["complete programs; typedef names in casts/sizeof/compound literals are not observed (only declarations' types)"]
    res = chk.prove(["Properties_C12.v"], extra_targets=["Entry_C12.vo"])
    proof_ok = all(ok for ok, _ in res.values())
    pv.build_model("C12")
    quick = chk.tier == "quick"
    rng = chk.rng
    progs = []
    if only:
        class P: pass
        progs = []
    n = 1500 if quick else 20000
    import random
    for i in range(n):
        p = tdprog.Prog(random.Random(rng.getrandbits(48)))
        p.generate(blocks=(i % 3 != 0))
        progs.append(p)
    # long chains: typedef T1 -> T2 -> ... with qualifiers and derivations along the way
    for L in (3, 10, 50, 200) if quick else (3, 10, 50, 200, 1000):
        for variant in range(4):
            p = tdprog.Prog(random.Random(L * 7 + variant))
            p.dens = {}
            prev = None
            for i in range(L):
                name = "C%d" % i
                if prev is None:
                    pre, ty = "typedef int ", ("B", 5)
                else:
                    q = {0: set(), 1: {"c"}, 2: {"v"}, 3: set()}[(i + variant) % 4]
                    base = ("N", prev[0], prev[1])
                    ty = ("Q", frozenset(q), base) if q else base
                    pre = "typedef " + "".join(tdprog.QWORD[x] + " " for x in sorted(q)) + prev[0] + " "
                decl = name
                if variant >= 2 and i % 5 == 4:
                    decl, ty = "*" + name, ("P", ty)
                off = len(p.text.encode()) + len(pre) + decl.index(name)
                p.emit(pre + decl + ";\n")
                p.dens[off] = p.den(ty)
                p.scopes[-1][name] = (off, ty)
                p.decls.append(("t", name, off, ty))
                prev = (name, off)
            pre = prev[0] + " "
            off = len(p.text.encode()) + len(pre)
            p.emit(pre + "last;\n")
            p.decls.append(("v", "last", off, ("N", prev[0], prev[1])))
            progs.append(p)
    reqs = ["tydefs %s %s" % (OPTS, p.text.encode().hex()) for p in progs]
    impl = pv.run_impl(reqs, shards=pv.NCPU)
    bad, bad_model = [], []
    mreqs, mmeta = [], []
    dist = {"programs": len(progs), "declarations": 0, "typedef_uses_checked": 0, "with_blocks": 0, "shadowing": 0, "non_canonical_marks": 0}
    for p, a in zip(progs, impl):
        if not a.startswith("OK"):
            bad.append((p, "crash-or-error", a[:200])); continue
        got, diags = parse_answer(a)
        if any(g[0] == "SYNTAX" for g in got):
            bad.append((p, "generator-produced-a-syntax-error", a[:200])); continue
        if "{" in p.text.split("\n", 1)[-1] and "void f" in p.text:
            dist["with_blocks"] += 1
        names = [n for k, n, off, ty in p.decls if k == "t"]
        if len(set(names)) != len(names):
            dist["shadowing"] += 1
        byoff = {(g[2]): g for g in got}
        for (k, n, off, want) in p.expected():
            dist["declarations"] += 1
            g = byoff.get(off)
            if g is None:
                bad.append((p, "declaration-missing", (n, off))); continue
            have = g[3]
            dist["typedef_uses_checked"] += want.count("T:")
            if "!" in have:
                dist["non_canonical_marks"] += 1
                bad.append((p, "non-canonical-basic-or-void", (n, have)))
                have = have.replace("!", "")
            if have != want:
                # classify
                hq = re.sub(r"Q[cvra]*\(", "Q(", have); wq = re.sub(r"Q[cvra]*\(", "Q(", want)
                hd = re.sub(r"\{D\d+\}", "{D}", have); wd = re.sub(r"\{D\d+\}", "{D}", want)
                if hd == wd:
                    why = "wrong-declaration-selected"
                elif hq == wq:
                    why = "qualifiers-differ"
                else:
                    why = "type-differs"
                bad.append((p, why, (n, have, want)))
        # function definitions: the symbol of f itself (not in p.decls)
        for g in got:
            if g[0] != "SYNTAX" and "!" in g[3] and g[2] not in {d[2] for d in p.decls}:
                dist["non_canonical_marks"] += 1
                bad.append((p, "non-canonical-basic-or-void:function-definition", (g[1], g[3])))
        if diags:
            bad.append((p, "diagnostic-on-a-well-typed-program", diags[:3]))
        # model: every file-scope-visible typedef resolved in the environment of the earlier ones
        for k, nme, off, ty in p.decls:
            if k != "t":
                continue
            env = [(o2, t2) for k2, n2, o2, t2 in p.decls if k2 == "t" and o2 < off]
            env.reverse()
            req = [len(env)]
            for o2, t2 in env:
                req += [o2] + p.enc(t2, None)
            req += p.enc(ty, None)
            mreqs.append(" ".join(map(str, req))); mmeta.append((p, off, ty))
    model = pv.run_model("C12", mreqs, shards=pv.NCPU)
    for (p, off, ty), m in zip(mmeta, model):
        want = p.enc(p.dens[off], None)
        if m != want:
            bad_model.append((p.text[:300], off, m[:40], want[:40]))
    dist["model_resolutions"] = len(mreqs)
    chk.coverage["evaluations"] = len(reqs) + len(mreqs)
    chk.coverage["distinct_nontrivial"] = len({p.text for p in progs if sum(1 for d in p.decls if d[0] == "t") >= 2})
    chk.coverage["rule"] = ("generated complete programs: typedefs of basic/void/struct/earlier-typedef bases with const/volatile and pointer, pointer-to-pointer, const pointer, array, array of pointers, pointer to function, "
                            "function declarators; variables of such types; struct definitions; one function with nested blocks that redeclare visible typedef names and tags (never after a use in the same block: "
                            "that is C10's known finding) ; chains of 3..%d typedefs alternating qualifiers and pointers.  For every declaration the implementation's type after computeSemanticModel (names kept with the "
                            "declaration they are bound to and their resolved type; '!' marks a non-canonical basic/void object) is compared with the reference interpreter; every typedef is also resolved by the "
                            "extracted Coq resolver in the environment of the earlier typedefs and compared with the reference. non-trivial = at least two typedefs" % (200 if quick else 1000))
    chk.coverage["samples"] = [progs[1].text[:400], progs[-3].text[:200]]
    chk.coverage["distribution"] = dist
    seen = set()
    bad.sort(key=lambda x: len(x[0].text))
    for p, why, det in bad:
        key = why
        if key in seen:
            continue
        seen.add(key)
        chk.report(key, {"text": p.text, "options": OPTS, "why": why, "detail": str(det)[:800], "count_same_kind": sum(1 for b in bad if b[1] == why)}, found=True,
                   what="a declaration's type after computeSemanticModel is not what C gives it")
    if bad_model and not bad:
        chk.report("model-correspondence", {"unchecked": "correspondence C12Model.resolve vs reference", "first": str(bad_model[0])[:800], "count": len(bad_model)}, found=False)
    if not proof_ok and not bad:
        for f, (ok, out) in res.items():
            if not ok:
                chk.report("proof-" + f, {"unchecked": f + " (theorems: %s)" % ", ".join(pv.theorem_names(f)), "coq_output": out[-3000:]}, found=False)


def replay(chk, path):
    r = json.load(open(path))
    if r.get("text"):
        print("implementation:", pv.run_impl(["tydefs %s %s" % (r.get("options", OPTS), r["text"].encode().hex())])[0][:3000])
    run(chk)
