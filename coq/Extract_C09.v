Require Import ExtrOcamlBasic.
From PV Require Import Entry_C09.
Extraction "model.ml" run.
