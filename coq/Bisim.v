(** Generic lemma: two deterministic machines agree on the outputs after EVERY input list if a
    finite relation contains the initial pair, is closed under every input, and relates only
    states with equal outputs.  The relation is a list checked by computation. *)
From Coq Require Import List Bool.
Import ListNotations.

Section Bisim.
  Variables A B I Out : Type.
  Variable stepA : A -> I -> A.
  Variable stepB : B -> I -> B.
  Variable outA : A -> Out.
  Variable outB : B -> Out.
  Variable eqA : A -> A -> bool.
  Variable eqB : B -> B -> bool.
  Variable eqO : Out -> Out -> bool.
  Hypothesis eqA_ok : forall x y, eqA x y = true -> x = y.
  Hypothesis eqB_ok : forall x y, eqB x y = true -> x = y.
  Hypothesis eqO_ok : forall x y, eqO x y = true -> x = y.
  Variable inputs : list I.
  Hypothesis inputs_complete : forall i, In i inputs.

  Definition memR (R : list (A * B)) (p : A * B) : bool :=
    existsb (fun q => eqA (fst p) (fst q) && eqB (snd p) (snd q)) R.

  Lemma memR_In R p : memR R p = true -> In p R.
  Proof.
    unfold memR. intros H. apply existsb_exists in H as [q [Hq H]].
    apply andb_true_iff in H as [H1 H2]. apply eqA_ok in H1. apply eqB_ok in H2.
    destruct p, q; cbn in *; subst. exact Hq.
  Qed.

  Definition bisim_check (R : list (A * B)) (a0 : A) (b0 : B) : bool :=
    memR R (a0, b0) &&
    forallb (fun p => eqO (outA (fst p)) (outB (snd p)) &&
                      forallb (fun i => memR R (stepA (fst p) i, stepB (snd p) i)) inputs) R.

  Theorem bisim_sound R a0 b0 : bisim_check R a0 b0 = true ->
    forall l : list I, outA (fold_left stepA l a0) = outB (fold_left stepB l b0).
  Proof.
    unfold bisim_check. intros H. apply andb_true_iff in H as [H0 HR].
    rewrite forallb_forall in HR. apply memR_In in H0.
    assert (Hinv : forall l a b, In (a, b) R -> In (fold_left stepA l a, fold_left stepB l b) R).
    { induction l as [|i l IH]; intros a b Hab; [exact Hab|]. cbn [fold_left]. apply IH.
      specialize (HR _ Hab). apply andb_true_iff in HR as [_ HR]. rewrite forallb_forall in HR.
      apply memR_In. exact (HR i (inputs_complete i)). }
    intros l. specialize (Hinv l a0 b0 H0). specialize (HR _ Hinv).
    apply andb_true_iff in HR as [HR _]. apply eqO_ok in HR. exact HR.
  Qed.

  (** breadth-first closure from the initial pair (fuel = rounds) *)
  Fixpoint closure (fuel : nat) (frontier seen : list (A * B)) : list (A * B) :=
    match fuel with
    | O => seen
    | S f =>
        let next := flat_map (fun p => map (fun i => (stepA (fst p) i, stepB (snd p) i)) inputs) frontier in
        let fresh := fold_left (fun acc p => if memR (acc ++ seen) p then acc else p :: acc) next [] in
        match fresh with
        | [] => seen
        | _ => closure f fresh (fresh ++ seen)
        end
    end.
End Bisim.
