(** C08 — Type-specifier multisets map to the basic types of C11 6.7.2 — for keyword sequences of
    EVERY length (not only 1..5), by bisimulation with the multiset-counting automaton. *)
From Coq Require Import List Arith Bool Lia.
From PV Require Import C13Spec C08Model C08Proofs Bisim.
Import ListNotations.

Lemma bk_eqb_eq a b : bk_eqb a b = true -> a = b.
Proof. destruct a, b; cbn; intros H; try discriminate H; reflexivity. Qed.

Definition top_eqb (a b : top) : bool :=
  match a, b with TEmpty, TEmpty | TVoid, TVoid => true | TBasic x, TBasic y => bk_eqb x y | _, _ => false end.
Definition st_eqb (a b : st) : bool :=
  top_eqb (tp a) (tp b) && Bool.eqb (fI a) (fI b) && Bool.eqb (fD a) (fD b) && Bool.eqb (fS a) (fS b) && Bool.eqb (bad a) (bad b).
Lemma st_eqb_ok a b : st_eqb a b = true -> a = b.
Proof.
  unfold st_eqb. destruct a as [t1 i1 d1 s1 b1], b as [t2 i2 d2 s2 b2]; cbn.
  intros H. repeat (apply andb_true_iff in H as [H ?]).
  repeat match goal with X : Bool.eqb _ _ = true |- _ => apply eqb_prop in X end. subst.
  destruct t1, t2; cbn in H; try discriminate; try reflexivity. apply bk_eqb_eq in H. subst. reflexivity.
Qed.

Definition bst_eqb (a b : bstate) : bool :=
  match a, b with None, None => true | Some x, Some y => vec_eqb x y | _, _ => false end.
Lemma bst_eqb_ok a b : bst_eqb a b = true -> a = b.
Proof. destruct a, b; cbn; try discriminate; auto. intros H. apply vec_eqb_eq in H. congruence. Qed.

Definition rty_eqb (a b : rty) : bool :=
  match a, b with RVoid, RVoid => true | RBasic x, RBasic y => bk_eqb x y | _, _ => false end.
Definition out_eqb (a b : option rty) : bool :=
  match a, b with None, None => true | Some x, Some y => rty_eqb x y | _, _ => false end.
Lemma out_eqb_ok a b : out_eqb a b = true -> a = b.
Proof.
  destruct a as [[|x]|], b as [[|y]|]; cbn; try discriminate; auto. intros H. apply bk_eqb_eq in H. congruence.
Qed.

Lemma all_kw_complete : forall k : kw, In k all_kw.
Proof. destruct k; cbn; tauto. Qed.

(** the relation: every pair (implementation state, multiset state) reachable from the initial pair *)
Definition R : list (st * bstate) :=
  closure st bstate kw stepN stepB st_eqb bst_eqb all_kw 40 [(init, stB [])] [(init, stB [])].

Lemma C08_bisim_check :
  bisim_check st bstate kw (option rty) stepN stepB outA outB st_eqb bst_eqb out_eqb all_kw R init (stB []) = true.
Proof. vm_compute. reflexivity. Qed.

(** every sequence of type-specifier keywords, of any length: the declaration is bound to the row's
    type with no invalid-type report exactly when the multiset is a row of the table, and an
    invalid type is reported otherwise *)
Theorem C08_all_sequences : forall l : list kw, l <> [] ->
  match spec l with
  | Some t => v_ty (run_kws l) = t /\ v_invalid (run_kws l) = false
  | None => v_invalid (run_kws l) = true
  end.
Proof.
  intros l Hne.
  pose proof (bisim_sound st bstate kw (option rty) stepN stepB outA outB st_eqb bst_eqb out_eqb
                st_eqb_ok bst_eqb_ok out_eqb_ok all_kw all_kw_complete R init (stB []) C08_bisim_check l) as H.
  rewrite outB_spec in H. change init with (norm init) in H at 1. rewrite foldN, outA_norm in H.
  unfold run_kws. unfold outA in H.
  assert (Hne' : tp (fold_left step l init) <> TEmpty).
  { destruct l as [|k l]; [congruence|]. cbn [fold_left].
    assert (forall l s, tp s <> TEmpty -> tp (fold_left step l s) <> TEmpty).
    { induction l0 as [|k0 l0 IH]; intros s Hs; [exact Hs|]. cbn [fold_left]. apply IH.
      unfold step. destruct (tp s) eqn:T; [congruence| cbn; rewrite T; discriminate|].
      unfold next_basic. destruct k0; repeat (match goal with |- context [match ?x with _ => _ end] => destruct x end); cbn; try rewrite T; discriminate. }
    apply H0. destruct k; cbn; discriminate. }
  destruct (tp (fold_left step l init)) eqn:T; [congruence| |];
    destruct (spec l); destruct (v_invalid (finish (fold_left step l init))); try discriminate; try (inversion H; subst; auto); auto.
Qed.

(** qualifiers and storage-class specifiers anywhere in the list do not change the verdict *)
Theorem C08_interleaving : forall l : list spec_item, run_decl l = run_kws (type_kws l).
Proof.
  intros l. unfold run_decl, run_kws. f_equal. generalize init.
  induction l as [|i l IH]; intros s; cbn [fold_left type_kws flat_map]; [reflexivity|].
  destruct i; cbn [step_item app]; [cbn [fold_left]|..]; apply IH.
Qed.

(** no type specifier at all: int, with the missing-specifier report *)
Theorem C08_implicit_int : forall l, type_kws l = [] ->
  v_ty (run_decl l) = RBasic Int /\ v_missing (run_decl l) = true /\ v_invalid (run_decl l) = false.
Proof. intros l H. rewrite C08_interleaving, H. vm_compute. auto. Qed.

(** the property's own words, as corollaries *)
Corollary C08_permutation_invariant : forall l1 l2, l1 <> [] -> same_multiset l1 l2 = true ->
  forall t, spec l1 = Some t -> v_ty (run_kws l2) = t /\ v_invalid (run_kws l2) = false.
Proof.
  intros l1 l2 Hne Hm t Hs.
  assert (Hv : vec l1 = vec l2).
  { apply vec_eqb_eq. unfold same_multiset in Hm. unfold vec. clear -Hm.
    induction all_kw as [|k ks IH]; cbn in *; [reflexivity|]. apply andb_true_iff in Hm as [H1 H2]. rewrite H1. auto. }
  assert (Hs2 : spec l2 = Some t). { unfold spec in *. rewrite lookup_row_vec in *. rewrite <- Hv. exact Hs. }
  assert (Hne2 : l2 <> []).
  { intros ->. destruct l1 as [|k l1]; [congruence|]. cbn in Hv. clear -Hv.
    assert (count k (k :: l1) <> 0). { unfold count. cbn. rewrite Nat.eqb_refl. cbn. discriminate. }
    destruct k; cbn in Hv; inversion Hv; unfold count in *; cbn in *; congruence. }
  pose proof (C08_all_sequences l2 Hne2) as H. rewrite Hs2 in H. exact H.
Qed.

Example C08_nonvacuous :
  spec [KLong; KUnsigned; KInt; KLong] = Some (RBasic ULLong) /\ v_ty (run_kws [KLong; KUnsigned; KInt; KLong]) = RBasic ULLong /\
  spec [KInt; KLong; KDouble] = None /\ v_invalid (run_kws [KInt; KLong; KDouble]) = true /\
  spec [KComplex; KLong; KDouble] = Some (RBasic LDoubleC) /\ 40 <? length R = true.
Proof. vm_compute. repeat split; reflexivity. Qed.

Print Assumptions C08_all_sequences.
Print Assumptions C08_interleaving.
Print Assumptions C08_implicit_int.
Print Assumptions C08_permutation_invariant.
