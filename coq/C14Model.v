(** C14 — extents of syntax nodes: SyntaxNode::firstToken / lastToken / findValidToken and
    CoreSyntaxNodeList::firstToken / lastToken, transcribed by hand over the generic shape of a
    syntax tree (what childNodesAndTokens() and the lists' next links expose).  Token index 0 is
    "no token" (LexedTokens::invalidIndex / a missing token).  No proofs here. *)
From Coq Require Import List Arith Bool.
Import ListNotations.

Inductive tree := Node (kind : nat) (cs : items)
with items := INil | ICons (i : item) (r : items)
with item := Tok (n : nat) | Sub (t : tree) | Null | Lst (es : elems)
with elems := ENil | ECons (e : elem) (r : elems)
with elem := ESome (t : tree) | ENone.

(** the token slots of a tree, in order (missing tokens dropped) *)
Fixpoint toks_tree (t : tree) : list nat := match t with Node _ cs => toks_items cs end
with toks_items (cs : items) : list nat := match cs with INil => [] | ICons i r => toks_item i ++ toks_items r end
with toks_item (i : item) : list nat :=
  match i with Tok n => if n =? 0 then [] else [n] | Sub t => toks_tree t | Null => [] | Lst es => toks_elems es end
with toks_elems (es : elems) : list nat := match es with ENil => [] | ECons e r => toks_elem e ++ toks_elems r end
with toks_elem (e : elem) : list nat := match e with ESome t => toks_tree t | ENone => [] end.

(** firstToken(): findValidToken over the child list, left to right *)
Fixpoint first_tree (t : tree) : nat := match t with Node _ cs => first_items cs end
with first_items (cs : items) : nat :=
  match cs with INil => 0 | ICons i r => let v := first_item i in if v =? 0 then first_items r else v end
with first_item (i : item) : nat :=
  match i with Tok n => n | Sub t => first_tree t | Null => 0 | Lst es => first_elems es end
with first_elems (es : elems) : nat :=      (* the first entry that is non-null and owns a token *)
  match es with ENil => 0 | ECons e r => let v := first_elem e in if v =? 0 then first_elems r else v end
with first_elem (e : elem) : nat := match e with ESome t => first_tree t | ENone => 0 end.

(** lastToken(): findValidToken over the reversed child list *)
Fixpoint last_tree (t : tree) : nat := match t with Node _ cs => last_items cs end
with last_items (cs : items) : nat :=
  match cs with INil => 0 | ICons i r => let v := last_items r in if v =? 0 then last_item i else v end
with last_item (i : item) : nat :=
  match i with Tok n => n | Sub t => last_tree t | Null => 0 | Lst es => last_elems es end
with last_elems (es : elems) : nat :=       (* the last entry that is non-null and owns a token *)
  match es with ENil => 0 | ECons e r => let v := last_elems r in if v =? 0 then last_elem e else v end
with last_elem (e : elem) : nat := match e with ESome t => last_tree t | ENone => 0 end.

(** every node in pre-order with its extent *)
Fixpoint extents_tree (t : tree) : list (nat * nat * nat) :=
  match t with Node k cs => (k, first_tree t, last_tree t) :: extents_items cs end
with extents_items (cs : items) : list (nat * nat * nat) := match cs with INil => [] | ICons i r => extents_item i ++ extents_items r end
with extents_item (i : item) : list (nat * nat * nat) :=
  match i with Sub t => extents_tree t | Lst es => extents_elems es | _ => [] end
with extents_elems (es : elems) : list (nat * nat * nat) := match es with ENil => [] | ECons e r => extents_elem e ++ extents_elems r end
with extents_elem (e : elem) : list (nat * nat * nat) := match e with ESome t => extents_tree t | ENone => [] end.
