// diag <opts> <hex text> -> "P <sev>:<cat>:<id> ... | S <sev>:<cat>:<id> ..." : diagnostics after parsing, and those added by
//   computeSemanticModel (bind, canonicalise, resolve, check); "ROOT<kind>" first (is the root a translation unit?)
#include "sema.h"
using namespace pvh;

HANDLER(diag)
{
    std::string o, h; in >> o >> h;
    if (h == "-") h = "";
    auto tree = parse(unhex(h), makeOpts(o));
    std::ostringstream out;
    out << "TU" << (tree->translationUnit() ? 1 : 0) << " P";
    auto pd = tree->diagnostics();
    for (auto& d : pd) out << " " << (int)d.severity() << ":" << (int)d.descriptor().category() << ":" << d.descriptor().id();
    size_t n = pd.size();
    auto c = compile(std::move(tree));
    out << " | S";
    auto sd = c.tree->diagnostics();
    for (size_t i = n; i < sd.size(); ++i)
        out << " " << (int)sd[i].severity() << ":" << (int)sd[i].descriptor().category() << ":" << sd[i].descriptor().id();
    return out.str();
}
