(** C18 — model of TextElementTable<ElemT> (common/text/TextElementTable.h) and TextElement
    (constructor's strncpy, operator of find: size + strncmp, hashCode).  An element's identity is
    its index in elements_ (objects are created once, never moved or freed before reset); a bucket's
    chain through next_ is a list of indices, head first.  Transcribed by hand; tied by correspondence
    (the harness prints elements, bucket chains and results).  No proofs here. *)
From Coq Require Import List Arith NArith Bool.
Import ListNotations.

Definition word := list N.

(** TextElement::hashCode with the 32-bit wrap and the signed-char addend written out *)
Definition sext (c : N) : N := if N.ltb c 128 then c else (c + 4294967040)%N. (* c - 256 mod 2^32 *)
Definition hash_step (h c : N) : N :=
  let h1 := ((N.shiftl h 4 + sext c) mod 4294967296)%N in
  let h2 := N.lxor h1 (N.shiftr (N.land h1 4026531840) 23) in
  N.land h2 268435455.
Definition hash_code (w : word) : N := fold_left hash_step w 0%N.

Section Table.
Variable hash : word -> N.

(** h % bucketCount_ (the bucket count is small; the hash is not, so the remainder is taken in N) *)
Definition bidx (h : N) (bc : nat) : nat := N.to_nat (N.modulo h (N.of_nat bc)).

Record tbl := { elems : list word; buckets : list (list nat) }.
Definition empty : tbl := {| elems := []; buckets := [] |}.

(** strncpy(chars_, chars, size): copy up to the first NUL, pad with NULs *)
Fixpoint upto0 (w : word) : word :=
  match w with [] => [] | c :: w' => if N.eqb c 0 then [] else c :: upto0 w' end.
Definition store (w : word) : word := upto0 w ++ repeat 0%N (length w - length (upto0 w)).

(** !strncmp(elem->c_str(), chars, size) on two byte strings of the same length *)
Fixpoint strncmp_eq (a b : word) : bool :=
  match a, b with
  | x :: a', y :: b' => if N.eqb x y then (if N.eqb x 0 then true else strncmp_eq a' b') else false
  | _, _ => true
  end.
Definition match_elem (e w : word) : bool := Nat.eqb (length e) (length w) && strncmp_eq e w.

Fixpoint find_first (p : nat -> bool) (l : list nat) : option nat :=
  match l with [] => None | i :: l' => if p i then Some i else find_first p l' end.

Definition find (t : tbl) (w : word) : option nat :=
  match buckets t with
  | [] => None
  | bs => find_first (fun i => match_elem (nth i (elems t) []) w) (nth (bidx (hash w) (length bs)) bs [])
  end.

Fixpoint cons_at (h i : nat) (bs : list (list nat)) : list (list nat) :=
  match bs, h with
  | b :: bs', O => (i :: b) :: bs'
  | b :: bs', S h' => b :: cons_at h' i bs'
  | [], _ => []
  end.

Definition rehash_buckets (es : list word) (bc : nat) : list (list nat) :=
  fold_left (fun bs i => cons_at (bidx (hash (nth i es [])) bc) i bs) (seq 0 (length es)) (repeat [] bc).

Definition find_or_insert (t : tbl) (w : word) : tbl * nat :=
  match find t w with
  | Some i => (t, i)
  | None =>
      let i := length (elems t) in          (* ++count_ *)
      let es := elems t ++ [store w] in
      let bc := length (buckets t) in
      if (bc =? 0) || (bc * 3 <=? i * 5)
      then ({| elems := es; buckets := rehash_buckets es (if bc =? 0 then 4 else 2 * bc) |}, i)
      else ({| elems := es; buckets := cons_at (bidx (hash (store w)) bc) i (buckets t) |}, i)
  end.

Fixpoint run_table (t : tbl) (ws : list word) : tbl * list nat :=
  match ws with
  | [] => (t, [])
  | w :: ws' => let (t1, i) := find_or_insert t w in
                let (t2, rs) := run_table t1 ws' in (t2, i :: rs)
  end.
End Table.
