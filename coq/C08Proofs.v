(** C08 — the implementation machine agrees with the 6.7.2p2 table on EVERY keyword sequence:
    bisimulation with the multiset-counting automaton, relation computed and checked by the kernel. *)
From Coq Require Import List Arith Bool Lia.
From PV Require Import C13Spec C08Model Bisim.
Import ListNotations.

(* ---------- the specification as an automaton over count vectors ---------- *)
Definition vec (l : list kw) : list nat := map (fun k => count k l) all_kw.
Definition row_vecs : list (list nat * rty) := map (fun r => (vec (fst r), snd r)) rows.

Fixpoint vec_le (a b : list nat) : bool :=
  match a, b with
  | x :: a', y :: b' => (x <=? y) && vec_le a' b'
  | [], [] => true
  | _, _ => false
  end.
Fixpoint vec_eqb (a b : list nat) : bool :=
  match a, b with
  | x :: a', y :: b' => (x =? y) && vec_eqb a' b'
  | [], [] => true
  | _, _ => false
  end.
Lemma vec_eqb_eq a b : vec_eqb a b = true -> a = b.
Proof.
  revert b; induction a as [|x a IH]; intros [|y b]; cbn; try discriminate; auto.
  intros H. apply andb_true_iff in H as [H1 H2]. apply Nat.eqb_eq in H1. f_equal; auto.
Qed.
Lemma vec_eqb_refl a : vec_eqb a a = true.
Proof. induction a; cbn; auto. rewrite Nat.eqb_refl. auto. Qed.

Definition sub_any (v : list nat) : bool := existsb (fun r => vec_le v (fst r)) row_vecs.
Fixpoint inc (v : list nat) (i : nat) : list nat :=
  match v, i with
  | x :: v', O => S x :: v'
  | x :: v', S i' => x :: inc v' i'
  | [], _ => []
  end.

Definition bstate := option (list nat).
Definition stB (l : list kw) : bstate := if sub_any (vec l) then Some (vec l) else None.
Definition stepB (b : bstate) (k : kw) : bstate :=
  match b with
  | None => None
  | Some v => let v' := inc v (kw_index k) in if sub_any v' then Some v' else None
  end.
Fixpoint lookup_vec (v : list nat) (rs : list (list nat * rty)) : option rty :=
  match rs with
  | [] => None
  | (r, t) :: rs' => if vec_eqb v r then Some t else lookup_vec v rs'
  end.
Definition outB (b : bstate) : option rty :=
  match b with None => None | Some v => lookup_vec v row_vecs end.

(* vec of an extended list *)
Lemma count_app k a b : count k (a ++ b) = count k a + count k b.
Proof. unfold count. rewrite filter_app, app_length. reflexivity. Qed.

Lemma vec_snoc l k : vec (l ++ [k]) = inc (vec l) (kw_index k).
Proof.
  unfold vec. destruct k; cbn [all_kw map kw_index inc]; rewrite !count_app; cbn; f_equal; try lia;
    repeat (f_equal; try lia).
Qed.

Lemma vec_le_trans a b c : vec_le a b = true -> vec_le b c = true -> vec_le a c = true.
Proof.
  revert b c; induction a as [|x a IH]; intros [|y b] [|z c]; cbn; try discriminate; auto.
  intros H1 H2. apply andb_true_iff in H1 as [A1 A2]. apply andb_true_iff in H2 as [B1 B2].
  apply Nat.leb_le in A1. apply Nat.leb_le in B1. apply andb_true_iff. split; [apply Nat.leb_le; lia|eauto].
Qed.
Lemma vec_le_inc v i : vec_le v (inc v i) = true.
Proof.
  revert i; induction v as [|x v IH]; intros i; cbn; [destruct i; reflexivity|].
  destruct i; cbn.
  - rewrite (proj2 (Nat.leb_le x (S x))) by lia. cbn.
    clear. induction v; cbn; auto. rewrite Nat.leb_refl. auto.
  - rewrite Nat.leb_refl. cbn. apply IH.
Qed.

Lemma sub_any_mono v i : sub_any v = false -> sub_any (inc v i) = false.
Proof.
  unfold sub_any. intros H.
  destruct (existsb (fun r => vec_le (inc v i) (fst r)) row_vecs) eqn:E; [|reflexivity].
  apply existsb_exists in E as [r [Hr E]].
  assert (H2 : existsb (fun r => vec_le v (fst r)) row_vecs = true); [|congruence].
  apply existsb_exists. exists r. split; [exact Hr|]. eapply vec_le_trans; [apply vec_le_inc|exact E].
Qed.

Lemma stepB_stB l k : stepB (stB l) k = stB (l ++ [k]).
Proof.
  unfold stB, stepB. rewrite vec_snoc. destruct (sub_any (vec l)) eqn:E; [reflexivity|].
  rewrite (sub_any_mono _ _ E). reflexivity.
Qed.

Lemma foldB l : forall acc, fold_left stepB l (stB acc) = stB (acc ++ l).
Proof.
  induction l as [|k l IH]; intros acc; cbn [fold_left]; [rewrite app_nil_r; reflexivity|].
  rewrite stepB_stB, IH, <- app_assoc. reflexivity.
Qed.

(** the automaton computes [spec] *)
Lemma lookup_row_vec l rs :
  lookup_row l rs = lookup_vec (vec l) (map (fun r => (vec (fst r), snd r)) rs).
Proof.
  induction rs as [|[r t] rs IH]; cbn [lookup_row lookup_vec map fst snd]; [reflexivity|].
  assert (H : same_multiset l r = vec_eqb (vec l) (vec r)).
  { unfold same_multiset, vec. induction all_kw as [|k ks IHk]; cbn; [reflexivity|]. rewrite IHk. reflexivity. }
  rewrite H, IH. reflexivity.
Qed.

Lemma lookup_vec_sub v rs : (exists t, lookup_vec v rs = Some t) -> existsb (fun r => vec_le v (fst r)) rs = true.
Proof.
  induction rs as [|[r t] rs IH]; cbn; intros [t0 H]; [discriminate|].
  destruct (vec_eqb v r) eqn:E.
  - apply vec_eqb_eq in E. subst. apply orb_true_iff. left.
    clear. induction r; cbn; auto. rewrite Nat.leb_refl. auto.
  - apply orb_true_iff. right. apply IH. eauto.
Qed.

Theorem outB_spec l : outB (fold_left stepB l (stB [])) = spec l.
Proof.
  rewrite foldB. cbn [app]. unfold stB, outB, spec. rewrite lookup_row_vec. fold row_vecs.
  destruct (sub_any (vec l)) eqn:E; [reflexivity|].
  destruct (lookup_vec (vec l) row_vecs) eqn:E2; [|reflexivity].
  unfold sub_any in E. rewrite (lookup_vec_sub _ _ (ex_intro _ _ E2)) in E. discriminate.
Qed.

(* ---------- the implementation's observable output ---------- *)
Definition outA (s : st) : option rty :=
  match tp s with
  | TEmpty => None
  | _ => let v := finish s in if v_invalid v then None else Some (v_ty v)
  end.

(** once an invalid type has been reported the declaration stays invalid: collapse those states *)
Definition BAD : st := {| tp := TVoid; fI := false; fD := false; fS := false; bad := true |}.
Definition norm (s : st) : st := if bad s then BAD else s.
Definition stepN (s : st) (k : kw) : st := norm (step s k).

Lemma bad_sticky s k : bad s = true -> bad (step s k) = true.
Proof.
  intros H. unfold step. destruct (tp s) eqn:T.
  - destruct k; cbn; exact H.
  - cbn; reflexivity.
  - unfold next_basic. destruct k; repeat (match goal with |- context [match ?x with _ => _ end] => destruct x end); cbn; auto.
Qed.

Lemma norm_step s k : norm (step (norm s) k) = norm (step s k).
Proof.
  unfold norm at 2. destruct (bad s) eqn:E; [|reflexivity].
  unfold norm. rewrite (bad_sticky s k E). cbn. reflexivity.
Qed.

Lemma foldN l : forall s, fold_left stepN l (norm s) = norm (fold_left step l s).
Proof.
  induction l as [|k l IH]; intros s; cbn [fold_left]; [reflexivity|].
  unfold stepN at 2. rewrite norm_step. fold (stepN s k). unfold stepN. apply IH.
Qed.

Lemma outA_norm s : outA (norm s) = outA s.
Proof.
  unfold norm. destruct (bad s) eqn:E; [|reflexivity].
  unfold outA, finish. destruct (tp s); cbn; rewrite ?E; cbn; try reflexivity.
Qed.
