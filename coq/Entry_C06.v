(** Request decoder for the C06 model: a token-kind string -> climb result and grammar result,
    each as [status (0 ok complete, 1 ok with rest, 2 fail, 3 fuel); preorder of node kinds ...; -9] *)
From Coq Require Import ZArith List Bool.
From PV Require Import CxxIR C06Model C06Spec Properties_C06.
From PV.gen Require Import Gen_SyntaxKind Gen_C06.
Import ListNotations.
Local Open Scope Z_scope.

Fixpoint enc (kindof : Z -> Z) (t : tree) : list Z :=
  match t with
  | Atom => [zk K_IntegerConstantExpression]
  | Paren e => zk K_ParenthesizedExpression :: enc kindof e
  | Bin o l r => kindof o :: enc kindof l ++ enc kindof r
  | Cond c (Some m) e => zk K_ConditionalExpression :: enc kindof c ++ enc kindof m ++ enc kindof e
  | Cond c None e => zk K_ConditionalExpression :: enc kindof c ++ [-1] ++ enc kindof e
  end.
Definition enc_res (kindof : Z -> Z) (r : res) : list Z :=
  match r with
  | OK t [] => 0 :: enc kindof t ++ [-9]
  | OK t rest => 1 :: Z.of_nat (length rest) :: enc kindof t ++ [-9]
  | Fail => [2; -9]
  | Fuel => [3; -9]
  end.
Definition run (req : list Z) : list Z :=
  enc_res i_kindof (climb_parse req) ++ enc_res node_kind (grammar_parse req).
