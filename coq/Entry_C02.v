(** Request decoder for the C02 model: [k; name1; ty1; ...; namek; tyk; ty] (type code of Entry_C12; the environment is a flat
    declaration graph, first entry of a name wins) -> the resolved type, or [-1] *)
From Coq Require Import ZArith List Bool NArith.
From PV Require Import C12Model C02Model TyCode.
Import ListNotations.
Local Open Scope Z_scope.

Definition run (req : list Z) : list Z :=
  match req with
  | k :: r =>
      match dec_env (Z.to_nat k) r with
      | Some (e, r') =>
          match dec (length r') r' with
          | Some (t, _) => match resolve_g (bound e t) e [] t with Some x => enc x | None => [-1] end
          | None => [-2]
          end
      | None => [-2]
      end
  | [] => []
  end.
