(** Request decoder for the C19 model: [nargs; len; bytes...; ...; nfiles; (readable syntax sema)...; pp_ok; analysis_ok; sub_status]
    -> [exit status; message class (-1 none)] *)
From Coq Require Import ZArith List Bool.
From PV Require Import C19Model.
Import ListNotations.
Local Open Scope Z_scope.

Fixpoint take (n : nat) (l : list Z) : list Z * list Z :=
  match n, l with
  | O, _ => ([], l)
  | Datatypes.S n', x :: l' => let (a, b) := take n' l' in (x :: a, b)
  | _, [] => ([], [])
  end.
Fixpoint take_args (n : nat) (l : list Z) : list str * list Z :=
  match n with
  | O => ([], l)
  | Datatypes.S n' => match l with
                      | len :: l' => let (a, r) := take (Z.to_nat len) l' in
                                     let (rest, r2) := take_args n' r in (a :: rest, r2)
                      | [] => ([], [])
                      end
  end.
Fixpoint take_files (n : nat) (l : list Z) : list file_result * list Z :=
  match n with
  | O => ([], l)
  | Datatypes.S n' => match l with
                      | a :: b :: c :: l' => let (fs, r) := take_files n' l' in
                          ({| f_readable := negb (a =? 0); f_syntax_error := negb (b =? 0); f_sema_error := negb (c =? 0) |} :: fs, r)
                      | _ => ([], [])
                      end
  end.
Definition msg_code (m : msg) : Z :=
  match m with
  | MUnhandledPath => 0 | MExpectedOption => 1 | MExpectedValue => 2 | MUnrecognized => 3 | MWip => 4 | MNoInput => 5
  | MNoSuchFile => 6 | MBadStd => 7 | MBadDisamb => 8 | MBadComment => 9 | MBadPP => 10 | MPPFailed => 11 | MSyntax => 12
  | MSema => 13 | MAnalysis => 14
  end.
Definition run (req : list Z) : list Z :=
  match req with
  | n :: r =>
      let (args, r1) := take_args (Z.to_nat n) r in
      match r1 with
      | nf :: r2 =>
          let (fs, r3) := take_files (Z.to_nat nf) r2 in
          match r3 with
          | pp :: an :: sub :: _ =>
              let w := {| w_files := fs; w_pp_ok := negb (pp =? 0); w_analysis_ok := negb (an =? 0); w_sub_status := sub |} in
              let (st, m) := go args w in
              [st; match m with Some x => msg_code x | None => -1 end]
          | _ => []
          end
      | [] => []
      end
  | [] => []
  end.
