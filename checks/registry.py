# which properties have an extracted model runner, and which translators regenerate coq/gen/*.v
import os, sys
MODELS = ["C20", "C17", "C13", "C08", "C18", "C06", "C16", "C19", "C14", "C07", "C10", "C05", "C01", "C12", "C02", "C09", "C04", "C11", "LEX"]


def _kw():
    sys.path.insert(0, os.path.join(os.path.dirname(os.path.abspath(__file__)), "..", "translate"))
    import kw
    kw.generate()


def _mod(name):
    def f():
        sys.path.insert(0, os.path.join(os.path.dirname(os.path.abspath(__file__)), "..", "translate"))
        __import__(name).generate()
    return f


def translators():
    return [("kw", _kw), ("c13", _mod("c13")), ("c06", _mod("c06")), ("schema", _mod("schema")), ("punct", _mod("punct")), ("recov", _mod("recov")), ("disamb", _mod("disamb"))]
