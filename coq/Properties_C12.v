(** C12 — Typedef names resolve to their declared synonym.  PARTIAL: the theorems are about the
    resolver's recursion over immutable type terms in a well-scoped environment (a typedef sees
    only earlier ones); which declaration a name is bound to (scoping), in-place mutation and
    sharing of type objects, tag references and the canonical singletons are decided by
    correspondence with a reference interpreter on generated programs. *)
From Coq Require Import List NArith Bool Arith Lia.
From PV Require Import C12Model C12Proofs.
Import ListNotations.

(** For EVERY environment of typedef declarations (any number, any chain length, any nesting of
    pointer/array/function/qualified types, names redeclared any number of times) and EVERY type:
    the resolver terminates (fuel = size of what is in view) and returns exactly what the chain
    denotes. *)
Theorem C12_resolve_is_denotation : forall (e : env) (t : ty),
  resolve (S (size t + total e)) e t = Some (den (denv e) t).
Proof. intros. apply resolve_den. lia. Qed.

(** the result mentions no typedef name (an undeclared name became the error type) *)
Theorem C12_resolved_is_typedef_free : forall e t r, resolve (S (size t + total e)) e t = Some r -> tdfree r = true.
Proof.
  intros e t r H. rewrite C12_resolve_is_denotation in H. inversion H; subst. apply den_tdfree. apply denv_tdfree.
Qed.

(** derivations written along the chain are preserved, one for one *)
Theorem C12_derivations_preserved : forall d t r ps,
  den d (TPtr t) = TPtr (den d t) /\ den d (TArr t) = TArr (den d t) /\ den d (TFun r ps) = TFun (den d r) (map (den d) ps).
Proof. intros. repeat split; reflexivity. Qed.

(** qualifiers written along the chain of names are all preserved: the top-level qualifiers of
    the resolved type are the union of those written on the way *)
Theorem C12_qualifiers_preserved : forall e t r, resolve (S (size t + total e)) e t = Some r ->
  top_quals r = spine_quals (qenv_of e) t.
Proof. intros e t r H. rewrite C12_resolve_is_denotation in H. inversion H; subst. apply spine_top. Qed.

(** the most recent visible declaration of a name is the one used (shadowing) *)
Theorem C12_most_recent_declaration : forall e n t0 t1 any,
  den (denv ((n, t1) :: any ++ (n, t0) :: e)) (TName n) = den (denv (any ++ (n, t0) :: e)) t1.
Proof. intros. cbn [denv den assoc]. rewrite N.eqb_refl. reflexivity. Qed.

(** Non-vacuity: typedef const int CI; typedef volatile CI VCI; typedef VCI *P; typedef P A[]; — A resolves to
    array of pointer to const volatile int *)
Example C12_nonvacuous :
  let e : env := [(4, TArr (TName 3)); (3, TPtr (TName 2)); (2, TQual 2 (TName 1)); (1, TQual 1 (TBasic 5))]%N in
  resolve 30 e (TName 4) = Some (TArr (TPtr (TQual 3 (TBasic 5)))) /\
  resolve 30 e (TQual 4 (TName 2)) = Some (TQual 7 (TBasic 5)) /\
  resolve 30 e (TName 9) = Some TErr.
Proof. vm_compute. repeat split; reflexivity. Qed.

Print Assumptions C12_resolve_is_denotation.
Print Assumptions C12_resolved_is_typedef_free.
Print Assumptions C12_derivations_preserved.
Print Assumptions C12_qualifiers_preserved.
Print Assumptions C12_most_recent_declaration.
