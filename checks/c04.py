# C04 — Every valid C11 translation unit is accepted by the parser.
import concurrent.futures, json, os, random, re, subprocess, sys
from lib import pv
sys.path.insert(0, os.path.join(pv.ROOT, "gen"))
import cgen, corpus

KEYWORDS = set(("auto break case char const continue default do double else enum extern float for goto if inline int long register restrict return short signed sizeof static struct switch "
                "typedef union unsigned void volatile while _Alignas _Alignof _Atomic _Bool _Complex _Generic _Noreturn _Static_assert _Thread_local").split())


def kinds():
    sys.path.insert(0, os.path.join(pv.ROOT, "translate"))
    from common import enum_values
    return dict(enum_values("C/syntax/SyntaxKind.h", "SyntaxKind"))


def gcc_ok(args):
    text, gnu = args
    try:
        r = subprocess.run(["gcc", "-std=" + ("gnu11" if gnu else "c11"), "-fsyntax-only", "-w", "-x", "c", "-"], input=text, capture_output=True, universal_newlines=True, timeout=20)
        return r.returncode == 0
    except Exception:
        return False


def opts_for(gnu, std=2):
    # GNU forms need the GNU switches (alternate keywords, attributes, asm, statement expressions are parsed under these)
    return "%d:1:%s:0:2" % (std, "20003f" if gnu else "200000")


def errors_of(a):
    head, _, diags = a.partition(" |")
    errs = [d for d in diags.split() if d.endswith(":2")]
    return head, errs


def run(chk, only=None):
    chk.coverage["trusted_base"] = pv.TRUSTED_COMMON + [
        "gcc 12 (-std=c11 / -std=gnu11 -fsyntax-only) as the oracle of validity; generator gen/cgen.py",
        "hand-written model coq/C04Model.v of Parser::guessRoleOfIdentifier (tied by correspondence: the compiled function vs the extracted model at every identifier of generated and corpus texts, both contexts, K&R flag on/off)",
        "NOT modelled: the grammar productions; acceptance of valid programs is decided by differential testing only"]
    chk.assumptions = ["a program is valid iff gcc accepts it; only programs gcc accepts are used"]
    res = chk.prove(["Properties_C04.v"], extra_targets=["Entry_C04.vo"])
    proof_ok = all(ok for ok, _ in res.values())
    SK = kinds()
    quick = chk.tier == "quick"
    rng = chk.rng
    bad, bad_model = [], []
    dist = {}
    terr = None
    # ---- (1) the guess model against the compiled function
    try:
        pv.build_model("C04")
        snippets = [t for c, t in corpus.test_snippets() if c == 0]
        texts = [cgen.G(random.Random(rng.getrandbits(40)), gnu=(i % 3 == 0)).unit() for i in range(40 if quick else 400)] + rng.sample(snippets, 150 if quick else len(snippets))
        # hand-made declarator soups around an identifier
        soup_alpha = ["T", "x", "(", ")", "[", "]", "*", ",", ";", "{", "int", "const", "static", "struct", "3", "=", "typedef", "__attribute__"]
        for _ in range(300 if quick else 5000):
            texts.append("T " + " ".join(rng.choice(soup_alpha) for _ in range(rng.randint(0, 10))))
        lx = pv.run_impl(["lex 2:1:200000:0:2 " + (t.encode("utf-8", "replace").hex() or "-") for t in texts], shards=pv.NCPU)
        reqs, mreqs = [], []
        for t, a in zip(texts, lx):
            try:
                ks = [int(p.split()[0]) for p in a.split(" | ")[1:]]
            except Exception:
                continue
            idents = [i for i, k in enumerate(ks) if k == SK["IdentifierToken"] and i >= 1 and i + 1 < len(ks)]
            for i in (idents if len(idents) <= 12 else rng.sample(idents, 12)):
                for ctx in (0, 2):
                    for kr in (0, 1):
                        reqs.append("guess %d %d 2:1:200000:0:2 %s %d" % (ctx, kr, t.encode("utf-8", "replace").hex(), i))
                        mreqs.append("%d %d %d %s" % (i, 1 if ctx == 2 else 0, kr, " ".join(map(str, ks))))
        im = pv.run_impl(reqs, shards=pv.NCPU)
        mo = pv.run_model("C04", mreqs, shards=pv.NCPU)
        for r, a, m in zip(reqs, im, mo):
            if not m or str(m[0]) != a.strip():
                bad_model.append((r, a, m))
        dist["guess_cases"] = len(reqs)
    except Exception as e:
        terr = "model runner: %r" % (e,)
    # ---- (2) generated valid programs
    n = 1500 if quick else 20000
    units = []
    for i in range(n):
        g = cgen.G(random.Random(rng.getrandbits(48)), gnu=(i % 4 == 0))
        units.append((g.unit(), g.gnu, list(g.typedefs)))
    if only:
        units = [(only, False, [])]
    with concurrent.futures.ThreadPoolExecutor(max_workers=pv.NCPU) as ex:
        oks = list(ex.map(gcc_ok, [(u[0], u[1]) for u in units]))
    valid = [u for u, ok in zip(units, oks) if ok]
    dist["generated"] = len(units); dist["accepted_by_gcc"] = len(valid); dist["gnu_units"] = sum(1 for u in valid if u[1])
    reqs, meta = [], []
    for text, gnu, tds in valid:
        for std in ((2,) if quick else (2, 3)):
            reqs.append("tree 0 %s %s" % (opts_for(gnu, std), text.encode().hex())); meta.append((text, gnu, "as-is"))
        # the same unit with the typedef declarations removed from view: still syntactically a C program
        if tds and not gnu:
            stripped = "\n".join(l for l in text.split("\n") if not l.startswith("typedef "))
            reqs.append("tree 0 %s %s" % (opts_for(gnu), stripped.encode().hex())); meta.append((stripped, gnu, "typedefs-removed"))
    impl = pv.run_impl(reqs, shards=pv.NCPU)
    for (text, gnu, variant), a in zip(meta, impl):
        if not a.startswith("OK"):
            bad.append((text, gnu, variant, "crash-or-error", a[:200])); continue
        head, errs = errors_of(a)
        if errs:
            bad.append((text, gnu, variant, "error-diagnostic", errs[:4]))
        elif " EARLY " in head[:40]:
            bad.append((text, gnu, variant, "parse-exited-early", head[:60]))
    chk.coverage["evaluations"] = len(reqs) + dist.get("guess_cases", 0)
    chk.coverage["distinct_nontrivial"] = len({m[0] for m in meta if len(m[0]) > 200})
    chk.coverage["rule"] = ("grammar-directed units (declarations with storage/qualifier/alignment/function specifiers, typedef names, _Atomic(T), nested declarators, function pointers, arrays incl. [static n], prototypes incl. "
                            "variadic and abstract parameters, struct/union with bit-fields and anonymous members, enums, designated initialisers, compound literals, _Generic, _Static_assert, every statement kind, every "
                            "operator; one unit in four with GNU forms: attributes, asm, typeof, statement expressions, ?:, K&R definitions), kept only when gcc -fsyntax-only accepts them (%d of %d); each parsed as a "
                            "whole unit and, for units with typedefs, again with the typedef declarations removed; an Error diagnostic or an early exit is a failure, shrunk line by line before it is reported. "
                            "non-trivial = more than 200 bytes" % (len(valid), len(units)))
    chk.coverage["samples"] = [valid[0][0][:600]] if valid else []
    chk.coverage["distribution"] = dist

    def fails(text, gnu, variant):
        a = pv.run_impl(["tree 0 %s %s" % (opts_for(gnu), text.encode().hex())])[0]
        if not a.startswith("OK"):
            return True
        head, errs = errors_of(a)
        return bool(errs) or " EARLY " in head[:40]

    def shrink(text, gnu, variant):
        lines = text.split("\n")
        for _ in range(6):
            changed = False
            for i in range(len(lines) - 1, -1, -1):
                cand = lines[:i] + lines[i + 1:]
                ct = "\n".join(cand)
                if not ct.strip():
                    continue
                if (variant != "as-is" or gcc_ok((ct, gnu))) and fails(ct, gnu, variant):
                    lines = cand; changed = True
            if not changed:
                break
        # then statement-level: split the last function's body on ';'
        return "\n".join(lines)
    seen = set()
    bad.sort(key=lambda x: len(x[0]))
    for text, gnu, variant, why, det in bad[:12]:
        try:
            text = shrink(text, gnu, variant)
        except Exception as e:
            chk.notes.append("shrink failed: %r" % (e,))
        canon = re.sub(r"[A-Za-z_][A-Za-z0-9_]*", lambda m: m.group(0) if m.group(0) in KEYWORDS else "x", text)
        canon = re.sub(r"\s+", " ", canon).strip()
        # identify by the failing line's shape; a typedef name followed by a parenthesised declarator that contains an array
        # declarator is ONE known weakness of guessRoleOfIdentifier's parenthesis heuristic (identified by that call site)
        last = [l for l in text.split("\n") if l.strip() and not l.startswith("typedef ")]
        last = last[-1] if last else text
        lc = re.sub(r"[A-Za-z_][A-Za-z0-9_]*", lambda m: m.group(0) if m.group(0) in KEYWORDS else "x", last)
        lc = re.sub(r"\s+", " ", lc).strip()
        key = "%s:%s:%s" % (why, variant, lc[-60:])
        mparen = re.search(r"\bT\d+\s+(?:_Alignas\(\d+\)\s+)?(\(.*)$", last)
        if why == "error-diagnostic" and mparen:
            grp, depth = "", 0
            for ch_ in mparen.group(1):
                depth += ch_ == "("; depth -= ch_ == ")"
                grp += ch_
                if depth == 0:
                    break
            # what is inside the outermost parentheses, with pointer stars, qualifiers and REDUNDANT parentheses peeled off: a lone identifier is the plain case
            inner = grp
            while True:
                t_ = re.sub(r"^\s*(\*|const\b|volatile\b|restrict\b|_Atomic\b)\s*", "", inner.strip())
                if t_.startswith("(") and t_.endswith(")"):
                    d_, ok_ = 0, True
                    for i_, ch2 in enumerate(t_):
                        d_ += ch2 == "("; d_ -= ch2 == ")"
                        if d_ == 0 and i_ < len(t_) - 1:
                            ok_ = False; break
                    if ok_:
                        t_ = t_[1:-1]
                if t_ == inner:
                    break
                inner = t_
            if not re.fullmatch(r"[A-Za-z_][A-Za-z0-9_]*", inner.strip() or ""):
                key = "typedef-name-guessed-as-declarator:parenthesised-declarator"
        if key in seen:
            continue
        seen.add(key)
        chk.report(key, {"text": text, "gnu": gnu, "variant": variant, "options": opts_for(gnu), "why": why, "detail": str(det)[:500], "count_failing": len(bad)}, found=True,
                   what="a translation unit gcc accepts is not parsed without error")
    if bad_model and not chk.violations:
        chk.report("model-correspondence", {"unchecked": "correspondence C04Model.guess vs Parser::guessRoleOfIdentifier", "first": str(bad_model[0])[:600], "count": len(bad_model)}, found=False)
    if terr is not None and not chk.violations:
        chk.report("model-runner", {"unchecked": terr}, found=False)
    if not proof_ok and not chk.violations:
        for f, (ok, out) in res.items():
            if not ok:
                chk.report("proof-" + f, {"unchecked": f + " (theorems: %s)" % ", ".join(pv.theorem_names(f)), "coq_output": out[-3000:]}, found=False)


def replay(chk, path):
    r = json.load(open(path))
    if r.get("text"):
        print("gcc accepts:", gcc_ok((r["text"], r.get("gnu", False))))
        print("implementation:", pv.run_impl(["tree 0 %s %s" % (r.get("options", opts_for(False)), r["text"].encode().hex())])[0][-600:])
        return run(chk, only=r["text"])
    run(chk)
