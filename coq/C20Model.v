(** C20 — executable model of data-structures/VersionedMap.h and its
    specification (one snapshot per revision).  No proofs here. *)
From Coq Require Export List Arith Bool.
Export ListNotations.

Section VMap.
Variables K V : Type.
Variable keqb : K -> K -> bool.

(** The underlying map: an association list, newest binding first; what the
    C++ [unordered_map] lets a client observe is [lookup]. *)
Definition amap := list (K * V).
Fixpoint lookup (k : K) (m : amap) : option V :=
  match m with
  | [] => None
  | (k', v) :: m' => if keqb k k' then Some v else lookup k m'
  end.
Definition assign (c : K * V) (m : amap) : amap := c :: m.

(** State of a VersionedMap.  [commands] is commands_ (command of revision
    [i+1] at index [i]); [parents] is reverts_ (parent of revision [i+1] at
    index [i]; reverts_.find(r) succeeds iff 1 <= r <= revisionCnt_). *)
Record vstate := mkV {
  commands : list (K * V);
  parents  : list nat;
  cur      : nat;
  vmap     : amap }.

Definition cnt (s : vstate) : nat := length (commands s).
Definition vinit : vstate := mkV [] [] 0 [].

(** storeCommand + insertOrAssign_CORE *)
Definition insert_or_assign (s : vstate) (c : K * V) : vstate :=
  mkV (commands s ++ [c]) (parents s ++ [cur s]) (S (cnt s)) (assign c (vmap s)).

(** The walk of applyRevision over reverts_: the revisions r, parent r, ...
    down to (excluding) revision 0, i.e. [it->first] of each entry found. *)
Fixpoint chain (fuel : nat) (ps : list nat) (r : nat) : list nat :=
  match fuel with
  | 0 => []
  | S f =>
    match r with
    | 0 => []
    | S r' => match nth_error ps r' with
              | None => []
              | Some p => r :: chain f ps p
              end
    end
  end.

Definition replay (cmds : list (K * V)) (ord : list nat) : amap :=
  fold_left (fun m r => match nth_error cmds (pred r) with
                        | Some c => assign c m
                        | None => m
                        end) ord [].

(** applyRevision: collect the chain, set curRevision_, return early when the
    revision is unknown (and not 0), otherwise clear and replay oldest first. *)
Definition apply_revision (s : vstate) (r : nat) : vstate :=
  let ord := chain (S (cnt s)) (parents s) r in
  match ord, r with
  | [], S _ => mkV (commands s) (parents s) r (vmap s)
  | _, _ => mkV (commands s) (parents s) r (replay (commands s) (rev ord))
  end.

Inductive vop := Ins (c : K * V) | App (r : nat).
Definition vstep (s : vstate) (o : vop) : vstate :=
  match o with Ins c => insert_or_assign s c | App r => apply_revision s r end.
Definition vrun (ops : list vop) : vstate := fold_left vstep ops vinit.

(** Specification: the list of snapshots, one per revision, and the current
    revision.  Revision 0 is the empty map. *)
Record sstate := mkS { snaps : list amap; scur : nat }.
Definition sinit : sstate := mkS [[]] 0.
Definition sstep (s : sstate) (o : vop) : sstate :=
  match o with
  | Ins c => mkS (snaps s ++ [assign c (nth (scur s) (snaps s) [])]) (length (snaps s))
  | App r => mkS (snaps s) r
  end.
Definition srun (ops : list vop) : sstate := fold_left sstep ops sinit.
Definition scontents (s : sstate) : amap := nth (scur s) (snaps s) [].

(** A history is valid when every switch names an existing revision. *)
Fixpoint valid_from (n : nat) (ops : list vop) : bool :=
  match ops with
  | [] => true
  | Ins _ :: t => valid_from (S n) t
  | App r :: t => (r <=? n) && valid_from n t
  end.
Definition valid (ops : list vop) := valid_from 0 ops.

End VMap.

Arguments lookup {K V}.
Arguments Ins {K V}.
Arguments App {K V}.
Arguments commands {K V}.
Arguments parents {K V}.
Arguments cur {K V}.
Arguments vmap {K V}.
Arguments snaps {K V}.
Arguments scur {K V}.
