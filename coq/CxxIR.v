(** Deep-embedded IR for small pure C++ functions (what translate/cxx2ir.py emits) and its
    fuelled interpreter; semantics of switch fall-through as clang nests case labels. *)
From Coq Require Import List ZArith Bool.
Import ListNotations.
Local Open Scope Z_scope.

Inductive binop := OEq | ONe | OLt | OLe | OGt | OGe | OAnd | OOr.
Inductive expr :=
| EConst (z : Z) | EVar (x : nat) | EBin (op : binop) (a b : expr) | ENot (a : expr)
| ECall (f : nat) (args : list expr).
Inductive stmt :=
| SSkip | SSeq (a b : stmt) | SAssign (x : nat) (e : expr)
| SIf (c : expr) (t e : stmt)
| SSwitch (e : expr) (body : list (list (option Z) * stmt))
| SBreak | SReturn (e : expr).

Inductive outcome := ONormal (env : list Z) | OBreak (env : list Z) | OReturn (v : Z) | OErr.

Definition b2z (b : bool) : Z := if b then 1 else 0.
Definition binop_eval (op : binop) (a b : Z) : Z :=
  match op with
  | OEq => b2z (a =? b) | ONe => b2z (negb (a =? b)) | OLt => b2z (a <? b) | OLe => b2z (a <=? b)
  | OGt => b2z (a >? b) | OGe => b2z (a >=? b)
  | OAnd => b2z (negb (a =? 0) && negb (b =? 0)) | OOr => b2z (negb (a =? 0) || negb (b =? 0))
  end.

Fixpoint upd (env : list Z) (x : nat) (v : Z) : list Z :=
  match x, env with
  | O, _ :: t => v :: t | O, [] => [v]
  | S x', h :: t => h :: upd t x' v | S x', [] => 0 :: upd [] x' v
  end.

Definition opt_eqb (a b : option Z) : bool :=
  match a, b with Some x, Some y => x =? y | None, None => true | _, _ => false end.
Definition has_label (l : option Z) (ls : list (option Z)) : bool := existsb (opt_eqb l) ls.

Section Interp.
  Variable call : nat -> list Z -> option Z.

  Fixpoint eval (e : expr) (env : list Z) : option Z :=
    match e with
    | EConst z => Some z
    | EVar x => Some (nth x env 0)
    | EBin OAnd a b => match eval a env with Some 0 => Some 0 | Some _ => match eval b env with Some v => Some (b2z (negb (v =? 0))) | None => None end | None => None end
    | EBin OOr a b => match eval a env with Some 0 => match eval b env with Some v => Some (b2z (negb (v =? 0))) | None => None end | Some _ => Some 1 | None => None end
    | EBin op a b => match eval a env, eval b env with Some x, Some y => Some (binop_eval op x y) | _, _ => None end
    | ENot a => match eval a env with Some v => Some (b2z (v =? 0)) | None => None end
    | ECall f args =>
        (fix go (l : list expr) (acc : list Z) : option Z :=
           match l with
           | [] => call f (rev acc)
           | a :: l' => match eval a env with Some v => go l' (v :: acc) | None => None end
           end) args []
    end.

  Fixpoint exec (s : stmt) (env : list Z) : outcome :=
    match s with
    | SSkip => ONormal env
    | SSeq a b => match exec a env with ONormal env' => exec b env' | o => o end
    | SAssign x e => match eval e env with Some v => ONormal (upd env x v) | None => OErr end
    | SIf c t e => match eval c env with Some 0 => exec e env | Some _ => exec t env | None => OErr end
    | SBreak => OBreak env
    | SReturn e => match eval e env with Some v => OReturn v | None => OErr end
    | SSwitch e body =>
        match eval e env with
        | None => OErr
        | Some v =>
            let target := if existsb (fun b => has_label (Some v) (fst b)) body then Some v else None in
            (fix go (bs : list (list (option Z) * stmt)) (active : bool) (env : list Z) : outcome :=
               match bs with
               | [] => ONormal env
               | (ls, st) :: bs' =>
                   if active || has_label target ls then
                     match exec st env with
                     | ONormal env' => go bs' true env'
                     | OBreak env' => ONormal env'
                     | o => o
                     end
                   else go bs' false env
               end) body false env
        end
    end.
End Interp.

Definition func := stmt.
Fixpoint callf (fuel : nat) (prog : list func) (f : nat) (args : list Z) : option Z :=
  match fuel with
  | O => None
  | S k => match nth_error prog f with
           | Some body => match exec (callf k prog) body args with OReturn v => Some v | _ => None end
           | None => None
           end
  end.
