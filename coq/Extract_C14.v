Require Import ExtrOcamlBasic.
From PV Require Import Entry_C14.
Extraction "model.ml" run.
