// table <len:hexword|-> ...   history of findOrInsert on a TextElementTable<Identifier>
//   -> results (element indices), -1, number of elements, -1, every bucket chain as "len i1 i2 ..."
// lexemes <opts> <hex text>  -> per token: kind:lexemeId:hex(valueText)  (lexemeId = first-occurrence number of the Lexeme object)
#include "opts.h"
#include "common/text/TextElement.h"
#include "common/text/TextElementTable.h"
#include "C/syntax/SyntaxTree.h"
#include "C/syntax/SyntaxToken.h"
#include "C/syntax/Lexeme_ALL.h"
#include "C/parser/Lexer.h"
#include "C/parser/TextCompleteness.h"
#include "C/parser/TextPreprocessingState.h"
#include "handlers.h"
using namespace psy; using namespace psy::C;

HANDLER(table)
{
    TextElementTable<Identifier> tbl;
    std::string w;
    std::ostringstream out;
    std::unordered_map<const void*, int> idx;
    auto index_of = [&](const TextElement* e) {
        for (unsigned i = 0; i < tbl.size(); ++i)
            if (static_cast<const TextElement*>(tbl.at(i)) == e) return (int)i;
        return -7;
    };
    std::vector<const Identifier*> results;
    while (in >> w) {
        std::string bytes = (w == "-") ? std::string() : unhex(w);
        results.push_back(tbl.findOrInsert(bytes.data(), bytes.size()));
    }
    for (unsigned i = 0; i < tbl.size(); ++i) idx[static_cast<const TextElement*>(tbl.at(i))] = i;
    for (auto r : results) { auto it = idx.find(static_cast<const TextElement*>(r)); out << (it == idx.end() ? -7 : it->second) << " "; }
    out << "-1 " << tbl.size() << " -1";
    for (int b = 0; b < tbl.bucketCount_; ++b) {
        std::vector<int> chain;
        int guard = 0;
        for (TextElement* e = tbl.buckets_[b]; e && guard < 10000000; e = e->next_, ++guard) {
            auto it = idx.find(e); chain.push_back(it == idx.end() ? -7 : it->second);
        }
        out << " " << chain.size();
        for (int c : chain) out << " " << c;
    }
    return out.str();
}

HANDLER(lexemes)
{
    std::string o, h; in >> o >> h;
    std::unique_ptr<SyntaxTree> tree(new SyntaxTree(SourceText(unhex(h)), TextPreprocessingState::Unknown,
                                                    TextCompleteness::Unknown, makeOpts(o), ""));
    Lexer lexer(tree.get());
    lexer.lex();
    std::unordered_map<const void*, int> ids;
    std::ostringstream out;
    auto n = tree->tokenCount();
    out << n;
    for (unsigned i = 1; i + 1 < n; ++i) {
        const SyntaxToken& tk = tree->tokenAt(i);
        const Lexeme* lx = nullptr;
        switch (tk.category()) {
            case SyntaxToken::Category::Identifiers:
            case SyntaxToken::Category::Constants:
            case SyntaxToken::Category::StringLiterals:
                lx = tk.lexeme(); break;
            default: break;
        }
        int id = -1;
        if (lx) { auto it = ids.find(lx); if (it == ids.end()) it = ids.emplace(lx, (int)ids.size()).first; id = it->second; }
        const char* s = tk.valueText_c_str();
        out << " " << (unsigned)tk.kind() << ":" << id << ":x" << tohex(s ? s : "");
    }
    return out.str();
}
