(** Request decoder for the C04 model: [cur; param; kr; kinds...] -> [0 declarator | 1 typedef-name | -1 out of bounds] *)
From Coq Require Import ZArith List Bool NArith.
From PV Require Import C04Model.
Import ListNotations.
Local Open Scope Z_scope.
Definition run (req : list Z) : list Z :=
  match req with
  | cur :: param :: kr :: ks =>
      match guess (map Z.to_N ks) (Z.to_nat cur) (negb (param =? 0)) (negb (kr =? 0)) with
      | Some Declarator => [0] | Some TypedefName => [1] | None => [-1]
      end
  | _ => []
  end.
