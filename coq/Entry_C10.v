(** Request decoder for the C10 model.  items (prefix): [0;ns;name;id] declaration | [1;name;id] enumerator | [2;name;uid] use |
    [3;n;items...] block | [4;name;id;np;(pname pid)...;n;items...] function definition.  The request is [n; items...].
    Answer per use, in order: uid, the frame model's answer (enumerators as members), C11's answer (-1 = none). *)
From Coq Require Import ZArith List Bool.
From PV Require Import C10Model.
Import ListNotations.
Local Open Scope Z_scope.

Fixpoint dec_items (f : nat) (k : nat) (l : list Z) : list item * list Z :=
  match f with
  | O => ([], l)
  | S f' =>
      match k with
      | O => ([], l)
      | S k' =>
          let '(it, r) :=
            match l with
            | 0 :: ns :: n :: id :: r => (Some (IDecl (Z.to_nat ns) (Z.to_nat n) (Z.to_nat id)), r)
            | 1 :: n :: id :: r => (Some (IEnumerator (Z.to_nat n) (Z.to_nat id)), r)
            | 2 :: n :: u :: r => (Some (IUse (Z.to_nat n) (Z.to_nat u)), r)
            | 3 :: m :: r => let (b, r') := dec_items f' (Z.to_nat m) r in (Some (IBlock b), r')
            | 4 :: n :: id :: np :: r =>
                let fix ps (q : nat) (r : list Z) : list (nat * nat) * list Z :=
                  match q with
                  | O => ([], r)
                  | S q' => match r with a :: b :: r' => let (p, r'') := ps q' r' in ((Z.to_nat a, Z.to_nat b) :: p, r'') | _ => ([], r) end
                  end in
                let (pl, r1) := ps (Z.to_nat np) r in
                match r1 with
                | m :: r2 => let (b, r3) := dec_items f' (Z.to_nat m) r2 in (Some (IFun (Z.to_nat n) (Z.to_nat id) pl b), r3)
                | [] => (None, [])
                end
            | _ => (None, [])
            end in
          match it with
          | Some i => let (rest, r') := dec_items f' k' r in (i :: rest, r')
          | None => ([], r)
          end
      end
  end.

Definition enc (o : option nat) : Z := match o with Some n => Z.of_nat n | None => -1 end.
Definition run (req : list Z) : list Z :=
  match req with
  | n :: r =>
      let prog := fst (dec_items (length req) (Z.to_nat n) r) in
      flat_map (fun ab => [Z.of_nat (fst (fst ab)); enc (snd (fst ab)); enc (snd (snd ab))])
               (combine (impl_resolve prog) (c_resolve prog))
  | [] => []
  end.
