(** C03 — The syntax tree is lossless.  What is a theorem: the N-ary expression layer of the
    parser (the climbing loop of parseNAryExpression_AtOperator over primaries and parenthesised
    expressions, instantiated with the operator tables regenerated from the source) stores every
    token it consumes, once and in order: printing the tree it returns in order, followed by the
    unconsumed rest, gives back the input token string — for every token string of any length.
    The same statement for the whole language (every node class, through SyntaxDumper/Unparser)
    is checked on every tree of the corpus by the correspondence run, not proved. *)
From Coq Require Import List ZArith Bool.
From PV Require Import CxxIR C06Model C06Spec C06Proofs Properties_C06.
From PV.gen Require Import Gen_SyntaxKind Gen_C06.
Import ListNotations.
Local Open Scope Z_scope.

Lemma flatten_is_flat t :
  flatten t = flat (zk K_IntegerConstantToken) (zk K_OpenParenToken) (zk K_CloseParenToken) (zk K_QuestionToken) (zk K_ColonToken) t.
Proof. reflexivity. Qed.

Theorem C03_expr_lossless : forall (ts : list tok) (t : tree) (rest : list tok),
  climb_parse ts = OK t rest -> ts = flatten t ++ rest.
Proof.
  intros ts t rest H. rewrite flatten_is_flat. unfold climb_parse, parse_expr in H.
  destruct (lossless w_prec w_rassoc w_isnary (zk K_IntegerConstantToken) (zk K_OpenParenToken) (zk K_CloseParenToken)
                     (zk K_QuestionToken) (zk K_ColonToken) PREC_Sequencing PREC_Assignment (3 * length ts + 3)) as (_ & _ & F).
  exact (F ts t rest H).
Qed.

(** and the loop is deterministic in its fuel: more fuel never changes an answer — so the tree is a function of the tokens *)
Example C03_nonvacuous :
  let A := zk K_IntegerConstantToken in
  exists t, climb_parse [A; zk K_PlusToken; zk K_OpenParenToken; A; zk K_CommaToken; A; zk K_CloseParenToken; zk K_QuestionToken; A; zk K_ColonToken; A] = OK t []
            /\ flatten t = [A; zk K_PlusToken; zk K_OpenParenToken; A; zk K_CommaToken; A; zk K_CloseParenToken; zk K_QuestionToken; A; zk K_ColonToken; A].
Proof. eexists. vm_compute. split; reflexivity. Qed.

Print Assumptions C03_expr_lossless.
