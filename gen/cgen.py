"""C04: a grammar-directed generator of C11 translation units (declarations, declarators, initialisers, statements, expressions;
optionally GNU forms).  Programs are meant to be semantically valid too (gcc -fsyntax-only checks that), so expressions are built
over a fixed typed environment.  Each generated unit is filtered through gcc before it is used."""


class G:
    def __init__(self, rng, gnu=False):
        self.rng = rng
        self.gnu = gnu
        self.n = 0
        self.typedefs = []          # typedef names of integer type
        self.ptypedefs = []         # typedef names of pointer-to-int type
        self.depth = 0

    def fresh(self, p):
        self.n += 1
        return "%s%d" % (p, self.n)

    def ch(self, *xs):
        return self.rng.choice(xs)

    # ------------------------------------------------------------------ expressions (all of type int unless noted)
    def int_lit(self):
        return self.ch("0", "1", "42", "0x1F", "017", "1u", "2L", "3ul", "4LL", "5ull", "'a'", "'\\n'", "L'x'", "sizeof(int)", "_Alignof(long)")

    def ivar(self):
        return self.ch("a", "b", "c", "s.m", "ps->m", "arr[1]", "*p", "p[2]", "u.i", "(*ps).m", "s.in.k", "e1")

    def lval(self):
        return self.ch("a", "b", "c", "s.m", "ps->m", "arr[1]", "*p", "p[2]", "u.i", "s.in.k")

    def tname(self):
        base = ["int", "unsigned", "long", "char", "short", "unsigned long", "long long", "_Bool", "signed char"] + self.typedefs
        return self.ch(*base)

    def expr(self, d=0):
        r = self.rng.random()
        if d > 3 or r < 0.22:
            return self.ch(self.int_lit(), self.ivar(), self.ivar())
        d += 1
        k = self.rng.randint(0, 21)
        if k == 0:
            return "(%s)" % self.expr(d)
        if k == 1:
            return "%s %s %s" % (self.expr(d), self.ch("+", "-", "*", "/", "%", "<<", ">>", "&", "|", "^", "&&", "||", "<", ">", "<=", ">=", "==", "!="), self.expr(d))
        if k == 2:
            return "%s%s" % (self.ch("-", "+", "~", "!"), self.prim(d))
        if k == 3:
            return "(%s)%s" % (self.tname(), self.prim(d))
        if k == 4:
            return "%s ? %s : %s" % (self.expr(d), self.expr(d), self.expr(d))
        if k == 5:
            return "%s %s %s" % (self.lval(), self.ch("=", "+=", "-=", "*=", "/=", "%=", "<<=", ">>=", "&=", "|=", "^="), self.expr(d))
        if k == 6:
            return "f(%s)" % self.expr(d)
        if k == 7:
            return "g(%s, %s)" % (self.expr(d), self.expr(d))
        if k == 8:
            return self.ch("++%s", "--%s", "%s++", "%s--") % self.lval()
        if k == 9:
            return "sizeof %s" % self.prim(d)
        if k == 10:
            return "sizeof(%s)" % self.ch(self.tname(), "struct S", "int *", "int[3]", "int (*)(int)")
        if k == 11:
            return "(%s, %s)" % (self.expr(d), self.expr(d))
        if k == 12:
            return "arr[%s]" % self.expr(d)
        if k == 13:
            return "*(p + %s)" % self.expr(d)
        if k == 14:
            return "(int){%s}" % self.expr(d)
        if k == 15:
            return "((struct S){.m = %s, .in = {%s}}).m" % (self.expr(d), self.expr(d))
        if k == 16:
            return "_Generic(%s, int: %s, long: %s, default: %s)" % (self.expr(d), self.expr(d), self.expr(d), self.expr(d))
        if k == 17:
            return "(*fp)(%s)" % self.expr(d)
        if k == 18:
            return "fp(%s)" % self.expr(d)
        if k == 19:
            return "_Alignof(%s)" % self.tname()
        if k == 20:
            return "(&a)[0]" if self.rng.random() < 0.5 else "*&b"
        if self.gnu:
            return self.ch("({ int t_ = %s; t_; })" % self.expr(d), "%s ?: %s" % (self.ivar(), self.expr(d)), "__extension__ %s" % self.prim(d), "__alignof__(int)", "__builtin_offsetof(struct S, m)")
        return self.ivar()

    def prim(self, d):
        return self.ch(self.int_lit(), self.ivar(), "(%s)" % self.expr(d + 1))

    # ------------------------------------------------------------------ statements
    def stmt(self, d=0, in_loop=False, in_switch=False):
        r = self.rng.randint(0, 17)
        if d > 2:
            r = self.rng.choice([0, 0, 1, 12])
        d += 1
        if r == 0:
            return "%s;" % self.expr()
        if r == 1:
            return ";"
        if r == 2:
            return "{ %s }" % " ".join(self.block_item(d, in_loop, in_switch) for _ in range(self.rng.randint(0, 3)))
        if r == 3:
            return "if (%s) %s" % (self.expr(), self.stmt(d, in_loop, in_switch))
        if r == 4:
            return "if (%s) %s else %s" % (self.expr(), self.stmt(d, in_loop, in_switch), self.stmt(d, in_loop, in_switch))
        if r == 5:
            return "while (%s) %s" % (self.expr(), self.stmt(d, True, in_switch))
        if r == 6:
            return "do %s while (%s);" % (self.stmt(d, True, in_switch), self.expr())
        if r == 7:
            init = self.ch("", self.expr(), "int i_ = %s" % self.expr(), "int i_ = 0, j_ = 1")
            return "for (%s; %s; %s) %s" % (init, self.ch("", self.expr()), self.ch("", self.expr()), self.stmt(d, True, in_switch))
        if r == 8:
            body = " ".join("case %d: %s" % (i, self.stmt(d, in_loop, True)) for i in range(self.rng.randint(1, 3)))
            return "switch (%s) { %s default: %s }" % (self.expr(), body, self.stmt(d, in_loop, True))
        if r == 9:
            return "break;" if (in_loop or in_switch) else ";"
        if r == 10:
            return "continue;" if in_loop else ";"
        if r == 11:
            return "return %s;" % self.expr()
        if r == 12:
            l = self.fresh("L")
            return "%s: %s" % (l, self.stmt(d, in_loop, in_switch))
        if r == 13:
            l = self.fresh("L")
            return "{ goto %s; %s: ; }" % (l, l)
        if r == 14 and self.gnu:
            return self.ch("__asm__ (\"nop\");", "__asm__ volatile (\"\" : \"=r\"(a) : \"r\"(b) : \"memory\");", "{ __label__ l_; l_: ; }")
        if r == 15:
            return "(void)%s;" % self.expr()
        return "%s;" % self.expr()

    def block_item(self, d, in_loop=False, in_switch=False):
        if self.rng.random() < 0.3:
            return self.local_decl()
        return self.stmt(d, in_loop, in_switch)

    def local_decl(self):
        v = self.fresh("l")
        k = self.rng.randint(0, 9)
        if k == 0:
            return "%s %s = %s;" % (self.tname(), v, self.expr())
        if k == 1:
            if self.rng.random() < 0.3:
                return "int %s[*&a + 1][sizeof(int)];" % v          # variable-length array whose size begins with a unary operator
            return "int %s[3] = {%s, [2] = %s};" % (v, self.expr(), self.expr())
        if k == 2:
            return "struct S %s = {.m = %s, .in.k = %s};" % (v, self.expr(), self.expr())
        if k == 3:
            return "%s int *%s = &a;" % (self.ch("const", "volatile", ""), v)
        if k == 4:
            return "static const int %s = 7;" % v
        if k == 5:
            return "int (*%s)(int) = f;" % v
        if k == 6 and self.typedefs:
            r_ = self.rng.random()
            if r_ < 0.25:
                # several declarators after a typedef name, with a parenthesised sizeof operand in between: the statement is first tried as an
                # expression, inner speculations succeed, and the expression reading fails late
                return "%s *%s[sizeof (a)], %s_f(int), (*%s_g)(%s);" % (self.ch(*self.typedefs), v, v, v, self.ch("void", "int, long", self.ch(*self.typedefs)))
            if r_ < 0.5:
                # a typedef name followed by any declarator, at block scope (where a statement that starts with an identifier is first tried as an expression)
                return "%s %s;" % (self.ch(*self.typedefs), self.declarator(v))
            return "%s %s, *%s_p = 0;" % (self.ch(*self.typedefs), v, v)
        if k == 7:
            return "_Static_assert(sizeof(int) >= 2, \"w\");"
        if k == 8:
            return "register int %s = %s;" % (v, self.expr())
        return "int %s = %s, %s_2 = %s;" % (v, self.expr(), v, self.expr())

    # ------------------------------------------------------------------ file scope
    def declarator(self, name, d=0):
        k = self.rng.randint(0, 9)
        if d > 2:
            k = 0
        if k <= 2:
            return name
        if k == 3:
            return "*%s" % self.declarator(name, d + 1)
        if k == 4:
            return "* %s %s" % (self.ch("const", "volatile", "restrict", "const volatile"), name)
        if k == 5:
            return "%s[%s]" % (self.declarator(name, d + 1), self.ch("3", "", "2+1", "sizeof(int)"))
        if k == 6:
            return "(%s)" % self.declarator(name, d + 1)
        if k == 7:
            return "(*%s)(%s)" % (name, self.params())
        if k == 8:
            return "(*%s[2])(int)" % name
        return "%s[2][3]" % name

    def params(self):
        k = self.rng.randint(0, 7)
        ps = ["void", "int", "int x_", "int x_, long y_", "int *, const char *", "int x_, ...", "int a_[], int b_[static 3]", "int (*cb_)(int), void *ud_", "struct S s_, union U *"]
        if self.typedefs and self.rng.random() < 0.4:
            t = self.ch(*self.typedefs)
            ps += ["%s" % t, "%s x_" % t, "%s *x_, %s" % (t, t), "const %s x_" % t, "%s (*cb_)(%s)" % (t, t), "%s x_[]" % t]
        return self.ch(*ps)

    def file_decl(self):
        k = self.rng.randint(0, 15)
        v = self.fresh("v")
        if k == 0:
            t = self.fresh("T")
            self.typedefs.append(t)
            return "typedef %s %s;" % (self.ch("int", "unsigned long", "short", "signed char"), t)
        if k == 1 and self.typedefs:
            specs = [self.ch(*self.typedefs)]
            if self.rng.random() < 0.4:
                specs.insert(self.rng.randint(0, 1), self.ch("const", "volatile", "static", "extern", "_Alignas(8)"))
            if "extern" in specs:
                return "%s %s;" % (" ".join(specs), self.declarator(v))
            return "%s %s;" % (" ".join(specs), self.declarator(v))
        if k == 2:
            return "%s %s %s;" % (self.ch("static", "extern", "", "_Thread_local static"), self.tname(), self.declarator(v))
        if k == 3:
            return "%s %s(%s);" % (self.tname(), v, self.params())
        if k == 4:
            return "struct %s { int a_; %s b_ : 3; unsigned : 0; struct { int c_; }; union { long d_; char e_[4]; } f_; %s *g_; };" % (self.fresh("R"), self.ch("int", "unsigned"), self.tname())
        if k == 5:
            return "enum %s { %s_A, %s_B = 3, %s_C = %s_B + 1, };" % ((self.fresh("E"),) + (v,) * 4)
        if k == 6:
            return "_Static_assert(1, \"ok\");"
        if k == 7:
            return "int %s[] = {1, 2, [5] = 3};" % v
        if k == 8:
            return "struct S %s = {1, {2}};" % v
        if k == 9:
            return "%s int %s(int x_) { return x_; }" % (self.ch("static", "static inline", "inline static", ""), v) if True else ""
        if k == 10 and self.typedefs:
            t = self.ch(*self.typedefs)
            return "%s %s(%s x_, %s *y_) { %s z_ = x_; return z_ + *y_; }" % (t, v, t, t, t)
        if k == 11:
            return "_Noreturn void %s(void);" % v
        if k == 12:
            return "const char *%s = \"s\" \"t\";" % v
        if k == 13 and self.typedefs:
            t = self.ch(*self.typedefs)
            return "_Atomic(%s) %s, %s_2;" % (t, v, v) if self.rng.random() < 0.5 else "_Atomic %s %s;" % (t, v)
        if k == 14 and self.gnu:
            return self.ch("int %s __attribute__((unused));" % v, "__attribute__((noreturn)) void %s(void);" % v, "__typeof__(int) %s;" % v, "int %s __asm__(\"x%s\");" % (v, v),
                           "__extension__ typedef long long %s_t;" % v, "struct __attribute__((packed)) %s_s { char c_; int i_; };" % v)
        if k == 15:
            return "int %s(int a_, int b_) { if (a_) return b_; return a_; }" % v
        return "int %s;" % v

    def kr_def(self):
        v = self.fresh("k")
        return "int %s(x_, y_) int x_; long y_; { return x_ + (int)y_; }" % v

    def unit(self):
        rng = self.rng
        out = ["struct In { int k; };", "struct S { int m; struct In in; };", "union U { int i; float f; };", "enum E0 { e1, e2 };",
               "int a, b, c; int arr[10]; int *p; struct S s, *ps; union U u;", "int f(int); int g(int, int); int (*fp)(int);"]
        for _ in range(rng.randint(2, 8)):
            out.append(self.file_decl())
        if self.gnu and rng.random() < 0.3:
            out.append(self.kr_def())
        body = " ".join(self.block_item(0) for _ in range(rng.randint(1, 6)))
        out.append("int main_%d(void) { %s return 0; }" % (self.n, body))
        return "\n".join(out) + "\n"
