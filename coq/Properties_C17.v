(** C17 — Keywords are recognised exactly as the dialect and extensions
    prescribe.  Reflective obligations are evaluated on the decision programs
    regenerated from Keywords.cpp by translate/kw.py on every run. *)
From Coq Require Import List NArith String Bool Arith.
From PV Require Import KwDefs KwProofs KwModel KwSpec KwFindings.
From PV.gen Require Import Gen_SyntaxKind Gen_Keywords.
Import ListNotations.

Notation IDENT := K_IdentifierToken.
Definition lex_word := KwModel.lex_word IDENT recognize_table translate_table O_Translate_operatorNames.
Definition kw_spec := KwModel.word_spec IDENT kw_effective opname_oracle O_Translate_operatorNames.

(** The checker accepts the regenerated trie against the table. *)
Lemma C17_trie_check : check_table IDENT recognize_table kw_effective = true.
Proof. vm_compute. reflexivity. Qed.
Lemma C17_opnames_check : check_table IDENT translate_table opname_oracle = true.
Proof. vm_compute. reflexivity. Qed.

(** Every word (any bytes, any length), every standard, every valuation of the
    switches, keyword recognition on or off: the kind the lexer assigns is the
    kind of the table row spelled exactly like the word whose gate holds, else
    identifier; and no s[i] beyond the word is read ([Some], never [None]). *)
Theorem C17_all_words : forall (kr : bool) (o : opts) (w : word),
  lex_word kr o w = Some (kw_spec kr o w).
Proof. exact (lex_word_sound IDENT _ _ _ _ _ C17_trie_check C17_opnames_check). Qed.

(** keyword <-> exact spelling of a row whose gate holds *)
Theorem C17_keyword_only_if : forall o w k, lex_word true o w = Some k -> k <> IDENT ->
  exists r, In r kw_effective /\ r_word r = w /\ gate_eval o (r_gate r) = true /\ r_kind r = k.
Proof.
  intros o w k H Hk. rewrite C17_all_words in H.
  assert (H0 : kw_spec true o w = k) by congruence.
  apply (spec_keyword IDENT kw_effective o w k); [exact H0 | exact Hk].
Qed.

(** in particular every prefix, extension, case variant of a keyword that is
    not itself spelled like an enabled row is an identifier *)
Theorem C17_neighbours : forall o w,
  (forall r, In r kw_effective -> r_word r = w -> gate_eval o (r_gate r) = false) ->
  lex_word true o w = Some IDENT.
Proof.
  intros o w H. rewrite C17_all_words. f_equal.
  apply (spec_identifier IDENT kw_effective o w H).
Qed.

Theorem C17_recognition_off : forall o w k, lex_word false o w = Some k ->
  k = IDENT \/ (snd o O_Translate_operatorNames = true /\
                exists r, In r opname_oracle /\ r_word r = w /\ r_kind r = k).
Proof.
  intros o w k H. rewrite C17_all_words in H.
  assert (H0 : kw_spec false o w = k) by congruence. clear H. subst k.
  unfold kw_spec, word_spec. destruct (snd o O_Translate_operatorNames) eqn:E; [|left; reflexivity].
  destruct (N.eqb (spec IDENT opname_oracle o w) IDENT) eqn:E2.
  - left. apply N.eqb_eq. exact E2.
  - right. split; [reflexivity|]. apply N.eqb_neq in E2.
    destruct (spec_keyword IDENT opname_oracle o w _ eq_refl E2) as [r [A [B [_ D]]]].
    exists r. auto.
Qed.

(** The known findings are real disagreements with the oracle, not slack. *)
Lemma C17_findings_real : forallb finding_real kw_findings = true.
Proof. vm_compute. reflexivity. Qed.

(** Outside the listed words the proved table IS the oracle. *)
Lemma C17_effective_is_oracle_elsewhere : forall r r',
  In (r, r') (combine kw_oracle kw_effective) ->
  find_finding (r_word r) kw_active = None -> r' = r.
Proof.
  unfold kw_effective. intros r r'. generalize kw_oracle as l.
  induction l as [|x l IH]; cbn; [tauto|]. intros [H|H] Hn.
  - inversion H; subst. rewrite Hn. reflexivity.
  - apply IH; assumption.
Qed.

(** Non-vacuity: concrete words under concrete options. *)
Example C17_nonvacuous :
  let c11 : opts := (2, fun _ => false) in
  let c89 : opts := (0, fun _ => false) in
  lex_word true c11 (W "_Atomic") = Some K_Keyword__Atomic /\
  lex_word true c89 (W "_Atomic") = Some IDENT /\
  lex_word true c11 (W "_Atomi") = Some IDENT /\
  lex_word true c11 (W "__func__") = Some K_Keyword___func__ /\
  lex_word false (2, fun k => Nat.eqb k O_Translate_operatorNames) (W "bitand") = Some K_AmpersandToken.
Proof. vm_compute. repeat split; reflexivity. Qed.

Print Assumptions C17_all_words.
Print Assumptions C17_keyword_only_if.
Print Assumptions C17_neighbours.
Print Assumptions C17_recognition_off.
