# token-level mutations of C text (for erroneous-program streams)
import re
_TOK = re.compile(r'\s+|[A-Za-z_]\w*|\d[\w.]*|"(?:\\.|[^"\\])*"|\'(?:\\.|[^\'\\])*\'|<<=|>>=|\.\.\.|->|\+\+|--|<<|>>|<=|>=|==|!=|&&|\|\||[-+*/%&|^]=|.', re.S)


def tokens(text):
    return [t for t in _TOK.findall(text) if not t.isspace()]


def mutants(rng, text, n):
    toks = tokens(text)
    out = []
    if not toks:
        return out
    for _ in range(n):
        t = list(toks)
        k = rng.random()
        i = rng.randrange(len(t))
        if k < 0.3:
            del t[i]
        elif k < 0.5:
            t.insert(i, t[i])
        elif k < 0.65 and len(t) > 1:
            j = rng.randrange(len(t)); t[i], t[j] = t[j], t[i]
        elif k < 0.8:
            t = t[:i]                                   # truncation
        elif k < 0.9:
            t.insert(i, rng.choice(["(", ")", "{", "}", "[", "]", ";", ",", "*", "int", "x", "=", ":", "?", "struct", "+"]))
        else:
            t[i] = rng.choice(["(", ")", "{", "}", ";", "typedef", "return", "1", "x", "->", "sizeof", "case"])
        out.append(" ".join(t))
    return out
