(** C15 — the bookkeeping of Compilation: addSyntaxTree / computeSemanticModel / semanticModel with
    the dirty map, transcribed by hand (NDEBUG behaviour of the asserting look-ups included).
    The analysis of one tree (bind, canonicalise, resolve, check) is a parameter: that it reads
    nothing another tree's analysis wrote is NOT proved here — it is what the correspondence
    run tests.  No proofs here. *)
From Coq Require Import List Arith Bool.
Import ListNotations.

Section Comp.
Variable result : Type.
Variable analyse : nat -> result.          (* the semantic model of tree [t], as a function of the tree alone *)

Record entry := { e_tree : nat; e_dirty : bool; e_model : option result }.
Definition state := list entry.

Inductive op := Add (t : nat) | Compute (t : nat) | Get (t : nat).

Fixpoint find_entry (s : state) (t : nat) : option entry :=
  match s with [] => None | e :: s' => if e_tree e =? t then Some e else find_entry s' t end.

(** addSyntaxTree: a tree that is already there is ignored *)
Definition add (s : state) (t : nat) : state :=
  match find_entry s t with
  | Some _ => s
  | None => s ++ [{| e_tree := t; e_dirty := true; e_model := None |}]
  end.

(** computeSemanticModel: only a dirty tree is analysed (an unknown tree: nothing happens under NDEBUG) *)
Fixpoint compute (s : state) (t : nat) : state :=
  match s with
  | [] => []
  | e :: s' =>
      if e_tree e =? t
      then (if e_dirty e then {| e_tree := t; e_dirty := false; e_model := Some (analyse t) |} else e) :: s'
      else e :: compute s' t
  end.

Definition step (s : state) (o : op) : state :=
  match o with Add t => add s t | Compute t => compute s t | Get _ => s end.
Definition run (h : list op) : state := fold_left step h [].
Definition model_of (s : state) (t : nat) : option result :=
  match find_entry s t with Some e => e_model e | None => None end.
End Comp.
