# C11 — Well-typed complete programs produce no error diagnostics in any semantic phase.
import concurrent.futures, json, os, random, re, subprocess, sys
from lib import pv
sys.path.insert(0, os.path.join(pv.ROOT, "gen"))
import cgen, tdprog

OPTS = "2:1:200000:0:2"
KEYWORDS = set(("auto break case char const continue default do double else enum extern float for goto if inline int long register restrict return short signed sizeof static struct switch "
                "typedef union unsigned void volatile while _Alignas _Alignof _Atomic _Bool _Complex _Generic _Noreturn _Static_assert _Thread_local").split())
GCC = ["gcc", "-std=c11", "-pedantic-errors", "-Wall", "-Werror=incompatible-pointer-types", "-fsyntax-only", "-x", "c", "-"]


def gcc_ok(text):
    try:
        return subprocess.run(GCC, input=text, capture_output=True, universal_newlines=True, timeout=20).returncode == 0
    except Exception:
        return False


def sem_errors(a):
    """-> None when fine, else a class string"""
    if a.startswith("SYNTAX"):
        return "syntax-error"          # C04's business; counted, not reported here
    if not a.startswith("OK"):
        return a.split()[0].lower() if a else "empty"
    ds = [m.group(1) for m in re.finditer(r"D:(.*?):2(?= D:|$)", a.split(" |")[-1].strip())]
    return ("error:" + ds[0]) if ds else None          # the first error (type checking ends at the first one)


def typed_programs(rng, n):
    """programs aimed at the type checker: all arithmetic operand pairs, pointer arithmetic/comparison, member access, calls, assignments, initialisers"""
    out = []
    ar = ["char", "signed char", "unsigned char", "short", "unsigned short", "int", "unsigned", "long", "unsigned long", "long long", "unsigned long long", "_Bool", "float", "double", "long double"]
    integer = ar[:12]
    for _i in range(n):
        with_enum = (_i % 4 == 0)        # an enumeration constant in an expression ends type checking silently (C10's known finding): most units avoid it
        t1, t2 = rng.choice(ar), rng.choice(ar)
        i1, i2 = rng.choice(integer), rng.choice(integer)
        lines = ["typedef %s T1; typedef T1 T2; typedef const T2 CT;" % t1,
                 "struct S { %s m; T2 n; struct S *next; const char *name; int arr[4]; };" % t2,
                 "union U { int i; double d; };",
                 "enum E { A, B = 3 };",
                 "%s x1; %s x2; T1 y1; T2 y2; CT y3 = 0; %s k1; %s k2;" % (t1, t2, i1, i2),
                 "struct S s, *ps = &s, sa[3]; union U u; enum E e%s;" % (" = A" if with_enum else ""),
                 "%s *p1, *p2; const %s *cp; void *vp; T1 *tp; int (*fp)(int, %s); int f(int, %s); void g(const char *, ...);" % (t1, t1, t2, t2),
                 "typedef int FT(int, %s); typedef FT *PFT; FT *ft1 = f; PFT ft2 = f; struct OP { char nm; FT *fn; PFT fn2; } op;" % t2,
                 "int h(void) {"]
        body = []
        ops_ar = ["+", "-", "*", "/", "<", ">", "<=", ">=", "==", "!=", "&&", "||"]
        ops_int = ["%", "<<", ">>", "&", "|", "^"]
        for _k in range(rng.randint(3, 10)):
            c = rng.randint(0, 21)
            if c == 0:
                body.append("x1 = x1 %s x2;" % rng.choice(ops_ar))
            elif c == 1:
                body.append("k1 = k1 %s k2;" % rng.choice(ops_int))
            elif c == 2:
                body.append("y1 = y2 %s x2; y2 %s= 1;" % (rng.choice(ops_ar[:4]), rng.choice(["+", "-", "*", "/"])))
            elif c == 3:
                body.append("p1 = p2 + k1; p1 = k1 + p2; p1 += 1; p1++; --p2; k1 = (int)(p1 - p2);")
            elif c == 4:
                body.append("k1 = p1 < p2; k1 = p1 == p2; k1 = p1 != 0; k1 = cp == p1; k1 = cp < p1; k1 = vp == p1; k1 = !p1; k1 = p1 && p2;")
            elif c == 5:
                body.append("x2 = s.m; s.n = y1; ps->m = x2; k1 = ps->arr[1]; ps = ps->next; k1 = sa[2].arr[0]; u.i = 1; u.d = 2.0; x2 = (*ps).m;")
            elif c == 6:
                body.append("k1 = f(1, x2); k1 = fp(k1, s.m); k1 = (*fp)(2, x2); fp = f; fp = &f; g(\"%d\", k1); g(ps->name);")
                # calls through pointers to a typedef'd function type, with and without the explicit indirection, also as members
                body.append("k1 = ft1(1, x2); k1 = (*ft1)(2, x2); k1 = ft2(3, x2); op.fn = f; op.fn2 = ft1; k1 = op.fn(4, x2) + op.fn2(5, x2); ft1 = fp; fp = ft2;")
            elif c == 7:
                body.append("p1 = 0; vp = p1; p1 = vp; cp = p1; vp = ps; ps = vp; tp = p1; p1 = tp; vp = (void *)0; p1 = (void *)0;")
            elif c == 8:
                body.append("x1 = k1; k1 = x2; %sk1 = e; x1 = 'a'; x2 = 1.5; k1 = 1u; k1 = 2L;" % ("e = B; k1 = A + 1; " if with_enum else ""))
            elif c == 9:
                body.append("{ %s l1 = x1; T1 l2 = l1; const T2 l3 = 3; int la[3] = {1, 2, 3}; struct S ls = {0}; struct S l4 = s; char str[] = \"ab\"; const char *cs = \"cd\"; (void)l2; (void)l3; (void)la; (void)ls; (void)l4; (void)str; (void)cs; }" % t1)
            elif c == 10:
                body.append("k1 = sizeof x1 + sizeof(T2) + sizeof(struct S) + sizeof s.arr + _Alignof(T1);")
            elif c == 11:
                body.append("x1 = k1 ? x1 : x2; p1 = k1 ? p1 : 0; vp = k1 ? vp : p1; ps = k1 ? ps : &s;")
            elif c == 12:
                body.append("x1 = (%s)x2; k1 = (int)x1; p1 = (%s *)vp; vp = (void *)ps; k1 = (int)(long)p1; x1 = -x1; x1 = +x2; k1 = ~k1; k1 = !x1;" % (t1, t1))
            elif c == 13:
                body.append("k1++; ++k1; x1--; --x2; p1 = &x1; x1 = *p1; k1 = *&k1; p1 = &*p1; k1 = ps->arr[k1 & 3];")
            elif c == 14:
                body.append("x1 += x2; x1 -= 1; x1 *= x2; x1 /= 2; k1 %= 3; k1 <<= 1; k1 >>= k2; k1 &= k2; k1 |= 1; k1 ^= k2;")
            elif c == 15:
                body.append("k1 = (x1, k2); for (k1 = 0; k1 < 3; k1++) k2 += k1; while (k1) k1--; do k2++; while (k2 < 3); if (p1) k1 = 1; else k1 = 2; switch (k1) { case 1: break; default: break; }")
            elif c == 16:
                body.append("y3 == y1; k1 = y3 < y2; k1 = y3 + 1; y2 = y3;")
            elif c == 17:
                body.append("ps = sa; ps = &sa[1]; k1 = sa[0].arr[1]; p1 = &x1; k1 = ps == sa; k1 = (ps + 1)->arr[0]; k1 = *s.arr; k1 = s.arr[0] + *(s.arr + 1);")
            elif c == 18:
                body.append("g(\"x\", x1, p1, ps, s.m, e); k1 = f(k1, 0) + f(e, 1);")
            elif c == 19:
                body.append("s = sa[0]; sa[1] = s; *ps = s; u = u; s.arr[0] = k1;")
            elif c == 20:
                body.append("k1 = x1 > x2 && p1 != p2 || !ps; k1 = (k1 == 0) != (k2 == 0);")
            else:
                body.append("return (int)x1;")
        lines.append(" ".join(body) + " return 0; }")
        out.append("\n".join(lines) + "\n")
    return out


def run(chk, only=None):
    chk.coverage["trusted_base"] = pv.TRUSTED_COMMON + [
        "gcc 12 (-std=c11 -pedantic-errors -Wall -Werror=incompatible-pointer-types -fsyntax-only) as the oracle of well-typedness; generators gen/cgen.py and checks/c11.py:typed_programs",
        "hand-written model coq/C11Model.v of TypeChecker::typesAreCompatible and isTypeAssignableFromOtherType over type terms (tied by correspondence: every ordered pair of declared objects of generated programs, four flag settings + assignability)",
        "NOT modelled: the per-operator constraints (decided by the differential check only)"]
    chk.assumptions = ["a program is well-typed iff gcc accepts it under the flags of the property; only such programs are used"]
    res = chk.prove(["Properties_C11.v"], extra_targets=["Entry_C11.vo"])
    proof_ok = all(ok for ok, _ in res.values())
    quick = chk.tier == "quick"
    rng = chk.rng
    bad, bad_model = [], []
    dist = {}
    terr = None
    # ---- (1) the compatibility model against the compiled relation
    try:
        pv.build_model("C11")
        progs = []
        for i in range(150 if quick else 2000):
            p = tdprog.Prog(random.Random(rng.getrandbits(48))); p.generate(blocks=False)
            progs.append(p)
        im = pv.run_impl(["compat %s %s" % (OPTS, p.text.encode().hex()) for p in progs], shards=pv.NCPU)
        mreqs, meta = [], []
        for p, a in zip(progs, im):
            if not a.startswith("OK"):
                bad.append((p.text, "compat-handler:" + (a.split()[0].lower() if a else "empty"), a[:200])); continue
            objs = [(n, off, ty) for k, n, off, ty in p.decls if k == "v"]
            rows = a.split()[1:]
            if len(rows) != len(objs) * len(objs):
                continue
            env = [(off, ty) for k, n, off, ty in p.decls if k == "t"]
            env.reverse()
            envcode = [len(env)]
            for o2, t2 in env:
                envcode += [o2] + p.enc(t2, None)
            idx = 0
            for (n1, o1, t1) in objs:
                for (n2, o2, t2) in objs:
                    bits = rows[idx]; idx += 1
                    mreqs.append(" ".join(map(str, envcode + p.enc(t1, None) + p.enc(t2, None))))
                    meta.append((p.text, n1, n2, bits))
        mo = pv.run_model("C11", mreqs, shards=pv.NCPU)
        for (text, n1, n2, bits), m in zip(meta, mo):
            want = "".join(str(x) for x in m)
            if want != bits:
                bad_model.append((text, n1, n2, "implementation " + bits, "model " + want))
        dist["compat_pairs"] = len(mreqs)
    except Exception as e:
        terr = "model runner: %r" % (e,)
    # ---- (2) well-typed programs
    units = typed_programs(rng, 600 if quick else 8000)
    for i in range(500 if quick else 8000):
        units.append(cgen.G(random.Random(rng.getrandbits(48))).unit())
    if only:
        units = [only]
    with concurrent.futures.ThreadPoolExecutor(max_workers=pv.NCPU) as ex:
        oks = list(ex.map(gcc_ok, units))
    valid = [u for u, ok in zip(units, oks) if ok]
    dist["generated"] = len(units); dist["accepted_by_gcc"] = len(valid)
    impl = pv.run_impl(["types %s %s" % (OPTS, u.encode().hex()) for u in valid], shards=pv.NCPU)
    nsyn = 0
    for u, a in zip(valid, impl):
        c = sem_errors(a)
        if c == "syntax-error":
            nsyn += 1
        elif c:
            bad.append((u, c, a[-300:]))
    dist["rejected_by_the_parser_(C04)"] = nsyn
    chk.coverage["evaluations"] = len(valid) + dist.get("compat_pairs", 0)
    chk.coverage["distinct_nontrivial"] = len({u for u in valid if len(u) > 200})
    chk.coverage["rule"] = ("self-contained programs: (a) typed templates — typedef chains, struct/union/enum definitions and uses, every pair of arithmetic operand types under every operator, pointer arithmetic and comparison "
                            "(incl. qualified and void pointers, typedef'd pointees), member access, calls through prototypes/function pointers/variadics, assignments and initialisers incl. null pointer constants and void*, "
                            "casts, conditionals, compound assignment; (b) the grammar-directed units of C04 — kept when gcc with the property's flags accepts them (%d of %d).  An Error diagnostic of the binder, resolver or type "
                            "checker (or a crash) is a failure, shrunk statement by statement under the oracle before it is reported.  Compatibility model: every ordered pair of declared objects of generated typedef "
                            "programs under the four flag settings. non-trivial = more than 200 bytes" % (len(valid), len(units)))
    chk.coverage["samples"] = [valid[0][:500]] if valid else []
    chk.coverage["distribution"] = dist

    def cls_of(text):
        return sem_errors(pv.run_impl(["types %s %s" % (OPTS, text.encode().hex())])[0])

    def shrink(text, c):
        # statements of the last function body, then lines
        for _ in range(4):
            m = re.search(r"\{(.*)\}\s*$", text, re.S)
            changed = False
            if m:
                head = text[:m.start(1)]
                stmts = [x for x in re.split(r"(?<=;)\s+", m.group(1).strip()) if x]
                i = len(stmts) - 1
                while i >= 0 and len(stmts) > 1:
                    cand = head + " ".join(stmts[:i] + stmts[i + 1:]) + " }\n"
                    if gcc_ok(cand) and cls_of(cand) == c:
                        stmts = stmts[:i] + stmts[i + 1:]; changed = True
                    i -= 1
                text = head + " ".join(stmts) + " }\n"
            lines = text.split("\n")
            i = len(lines) - 2
            while i >= 0:
                cand = "\n".join(lines[:i] + lines[i + 1:])
                if cand.strip() and gcc_ok(cand) and cls_of(cand) == c:
                    lines = lines[:i] + lines[i + 1:]; changed = True
                i -= 1
            text = "\n".join(lines)
            if not changed:
                break
        return text
    seen = set()
    bad.sort(key=lambda x: len(x[0]))
    # round-robin over the first diagnostic so that every kind of failure gets shrunk and classified
    byc = {}
    for b in bad:
        byc.setdefault(b[1], []).append(b)
    order = []
    while any(byc.values()) and len(order) < (40 if quick else 120):
        for c_ in list(byc):
            if byc[c_]:
                order.append(byc[c_].pop(0))
    for text, c, det in order:
        if c.startswith("compat-handler"):
            key = c
        else:
            try:
                text = shrink(text, c)
            except Exception as e:
                chk.notes.append("shrink failed: %r" % (e,))
            body = re.search(r"\{([^{}]*)\}\s*$", text)
            stm = (body.group(1).strip() if body else text.strip().split("\n")[-1])
            canon = re.sub(r"[A-Za-z_][A-Za-z0-9_]*", lambda m: m.group(0) if m.group(0) in KEYWORDS else "x", stm)
            canon = re.sub(r"\s+", " ", canon).strip()
            key = "%s:%s" % (c, canon[:70])
            # classes of known weaknesses, identified by the construct (see known_findings.json)
            stm_ids = set(re.findall(r"[A-Za-z_][A-Za-z0-9_]*", stm))
            decls = text[:text.rfind("{")] if "{" in text else text
            enum_objs = set(re.findall(r"enum\s+\w+\s+(\w+)", decls)) | set(re.findall(r"\b([A-Za-z_]\w*)\b(?=\s*[,=}])", " ".join(re.findall(r"enum\s*\w*\s*\{([^}]*)\}", decls))))
            arr_objs = set(re.findall(r"(\w+)\s*\[\d*\]", decls))
            if re.search(r"\(\s*[A-Za-z_]\w*\s*(\[[^\]]*\]|\((?:[^()]|\([^()]*\))*\))\s*\)\s*(&&|\*|\+|-|&)", stm):
                # '( p[2] ) && x', '( f(x) ) * y', '( a[i] ) - 1': the parenthesised text also parses as a type name (identifier + abstract declarator), the
                # cast reading wins and is never made ambiguous
                key = "construct:parenthesised-subscript-or-call-read-as-type-name"
            elif c.startswith("error:TypeChecker-0") and (stm_ids & enum_objs):
                key = "operand:of-enumerated-type"
            elif c in ("error:TypeChecker-000", "error:TypeChecker-001", "error:TypeChecker-004") and (stm_ids & arr_objs):
                key = "operand:array-in-binary-operator"
            elif "_Atomic(" in text.replace(" (", "("):
                key = "construct:atomic-type-specifier"
            elif "_Generic" in text:
                key = "construct:generic-selection"
            elif re.search(r"\bT\d+\s+(?:_Alignas\(\d+\)\s+)?\(\s*\*?\s*\w+\s*\[", text) or re.search(r"\bT\d+\s+\(\(", text):
                key = "construct:parenthesised-declarator-after-typedef-name(C04)"
            elif re.search(r"\w+\s*\([^()]*\bT\d+\s+\*?\w+_[^()]*\)\s*\{", text):
                key = "construct:function-definition-with-typedef-named-parameter-types"
        if key in seen or len(seen) > 14:
            continue
        seen.add(key)
        chk.report(key, {"text": text, "options": OPTS, "why": c, "detail": str(det)[:400], "count_failing": len(bad)}, found=True,
                   what="a program gcc accepts as well-typed gets an error diagnostic from semantic analysis")
    if bad_model and not chk.violations:
        chk.report("model-correspondence", {"unchecked": "correspondence C11Model.compat vs TypeChecker::typesAreCompatible", "first": str(bad_model[0])[:900], "count": len(bad_model)}, found=False)
    if terr is not None and not chk.violations:
        chk.report("model-runner", {"unchecked": terr}, found=False)
    if not proof_ok and not chk.violations:
        for f, (ok, out) in res.items():
            if not ok:
                chk.report("proof-" + f, {"unchecked": f + " (theorems: %s)" % ", ".join(pv.theorem_names(f)), "coq_output": out[-3000:]}, found=False)


def replay(chk, path):
    r = json.load(open(path))
    if r.get("text"):
        print("gcc accepts:", gcc_ok(r["text"]))
        print("implementation:", pv.run_impl(["types %s %s" % (r.get("options", OPTS), r["text"].encode().hex())])[0][-600:])
        return run(chk, only=r["text"])
    run(chk)
