(** C05 — proofs about LexModel against LexSpec: every sub-lexer consumes exactly the spelling of a valid token of
    its class and answers its kind, whatever follows the token (subject to the class's boundary condition). *)
From Coq Require Import List NArith Bool Arith Lia.
From PV Require Import C01Model PunctDefs LexModel LexSpec.
From PV.gen Require Import Gen_SyntaxKind.
Import ListNotations.
Local Open Scope N_scope.

(* ------------------------------------------------------------------ bytes below 128 *)
Lemma lt128_not_mb b : b < 128 -> is_mb b = false.
Proof.
  intros H. unfold is_mb. destruct (N.eq_dec b 0) as [->|Hz]; [reflexivity|].
  apply N.bits_above_log2. apply N.log2_lt_pow2; [lia|]. exact H.
Qed.

Lemma leb_lt128 a b : (b <=? a) = true -> a < 128 -> is_mb b = false.
Proof. intros H Ha. apply lt128_not_mb. apply N.leb_le in H. lia. Qed.

Ltac range_mb :=
  match goal with
  | |- is_mb ?b = false =>
      apply lt128_not_mb;
      repeat match goal with
             | H : _ && _ = true |- _ => apply andb_true_iff in H; destruct H
             | H : _ || _ = true |- _ => apply orb_true_iff in H; destruct H
             | H : (_ <=? _) = true |- _ => apply N.leb_le in H
             | H : (_ =? _) = true |- _ => apply N.eqb_eq in H
             end; lia
  end.

Lemma isdigit_ascii b : isdigit b = true -> is_mb b = false.
Proof. unfold isdigit. intros H. range_mb. Qed.
Lemma isxdigit_ascii b : isxdigit b = true -> is_mb b = false.
Proof. unfold isxdigit, isdigit. intros H. range_mb. Qed.
Lemma isoct_ascii b : isoct b = true -> is_mb b = false.
Proof. unfold isoct. intros H. range_mb. Qed.
Lemma isalnum__ascii b : isalnum_ b = true -> is_mb b = false.
Proof. unfold isalnum_, isalnum, isalpha, isupper, islower, isdigit. intros H. range_mb. Qed.
Lemma isspace_ascii b : isspace b = true -> is_mb b = false.
Proof. unfold isspace. intros H. range_mb. Qed.

Lemma adv_cons c r : is_mb c = false -> adv (c :: r) = r.
Proof. intros H. unfold adv. rewrite H. reflexivity. Qed.

(* ------------------------------------------------------------------ runs of a class *)
Lemma skipw_run (p : N -> bool) (Hp : forall b, p b = true -> is_mb b = false) :
  forall ds rest fuel, all p ds -> p (ahead rest) = false -> (length ds <= fuel)%nat -> skipw p fuel (ds ++ rest) = rest.
Proof.
  induction ds as [|d ds IH]; intros rest fuel Hds Hr Hf.
  - cbn [app]. destruct fuel as [|f]; cbn [skipw]; [reflexivity|]. rewrite Hr. reflexivity.
  - inversion Hds as [|? ? Hd Hds']; subst. destruct fuel as [|f]; [cbn in Hf; lia|].
    cbn [app skipw ahead]. rewrite Hd. rewrite (adv_cons d _ (Hp d Hd)). apply IH; [assumption|assumption|cbn in Hf; lia].
Qed.

Lemma sw_run (p : N -> bool) (Hp : forall b, p b = true -> is_mb b = false) ds rest :
  all p ds -> p (ahead rest) = false -> sw p (ds ++ rest) = rest.
Proof. intros H1 H2. unfold sw. apply skipw_run; try assumption. rewrite app_length. lia. Qed.

Lemma sw_stop (p : N -> bool) s : p (ahead s) = false -> sw p s = s.
Proof. intros H. unfold sw. destruct (length s); cbn [skipw]; [reflexivity|]. rewrite H. reflexivity. Qed.

(* ------------------------------------------------------------------ what a byte that cannot continue a number is not *)
Lemma na_neq r c : isalnum_ r = false -> isalnum_ c = true -> (r =? c) = false.
Proof. intros Hr Hc. destruct (N.eqb_spec r c) as [->|]; [congruence|reflexivity]. Qed.

Lemma na_in2 r c d : isalnum_ r = false -> isalnum_ c = true -> isalnum_ d = true -> in2 r c d = false.
Proof. intros Hr Hc Hd. unfold in2. rewrite (na_neq r c Hr Hc), (na_neq r d Hr Hd). reflexivity. Qed.

Lemma na_isdigit r : isalnum_ r = false -> isdigit r = false.
Proof. unfold isalnum_, isalnum. intros H. apply orb_false_iff in H as [H _]. apply orb_false_iff in H as [_ H]. exact H. Qed.
Lemma isxdigit_alnum b : isxdigit b = true -> isalnum_ b = true.
Proof.
  unfold isxdigit, isalnum_, isalnum, isalpha, isupper, islower. intros H.
  apply orb_true_iff in H as [H|H]; [apply orb_true_iff in H as [H|H]|].
  - rewrite H. rewrite orb_true_r. reflexivity.
  - apply andb_true_iff in H as [H1 H2]. apply N.leb_le in H1, H2.
    assert (E : ((97 <=? b) && (b <=? 122)) = true) by (apply andb_true_iff; split; apply N.leb_le; lia). rewrite E. rewrite !orb_true_r. reflexivity.
  - apply andb_true_iff in H as [H1 H2]. apply N.leb_le in H1, H2.
    assert (E : ((65 <=? b) && (b <=? 90)) = true) by (apply andb_true_iff; split; apply N.leb_le; lia). rewrite E. reflexivity.
Qed.
Lemma na_isxdigit r : isalnum_ r = false -> isxdigit r = false.
Proof. intros H. destruct (isxdigit r) eqn:E; [|reflexivity]. apply isxdigit_alnum in E. congruence. Qed.
Lemma isoct_digit b : isoct b = true -> isdigit b = true.
Proof. unfold isoct, isdigit. intros H. apply andb_true_iff in H as [H1 H2]. apply N.leb_le in H1, H2. apply andb_true_iff; split; apply N.leb_le; lia. Qed.
Lemma na_isoct r : isalnum_ r = false -> isoct r = false.
Proof. intros H. destruct (isoct r) eqn:E; [|reflexivity]. apply isoct_digit in E. rewrite (na_isdigit r H) in E. discriminate. Qed.

(** rewrite every test the numeric sub-lexers make on a boundary byte *)
Ltac bound r H :=
  repeat first
    [ rewrite (na_isdigit r H) | rewrite (na_isxdigit r H) | rewrite (na_isoct r H) | rewrite H
    | match goal with
      | |- context [in2 r ?c ?d] => rewrite (na_in2 r c d H eq_refl eq_refl)
      | |- context [r =? ?c] => rewrite (na_neq r c H eq_refl)
      end ].

(* ------------------------------------------------------------------ 6.4.4.1: the suffix and the end of an integer constant *)
Lemma finish_boundary k rest : isalnum_ (ahead rest) = false -> finish k rest = (k, rest).
Proof. intros H. unfold finish. rewrite H. reflexivity. Qed.

(** unfolding equations of lexIntegerSuffix at each letter it knows *)
Lemma isfx_u n s : int_suffix (S n) (117 :: s) = if in2 (ahead s) 108 76 then int_suffix n s else s.
Proof. reflexivity. Qed.
Lemma isfx_U n s : int_suffix (S n) (85 :: s) = if in2 (ahead s) 108 76 then int_suffix n s else s.
Proof. reflexivity. Qed.
Lemma isfx_l n s : int_suffix (S n) (108 :: s) =
  let s2 := if ahead s =? 108 then adv s else s in if in2 (ahead s2) 117 85 then int_suffix n s2 else s2.
Proof. reflexivity. Qed.
Lemma isfx_L n s : int_suffix (S n) (76 :: s) =
  let s2 := if ahead s =? 76 then adv s else s in if in2 (ahead s2) 117 85 then int_suffix n s2 else s2.
Proof. reflexivity. Qed.
Lemma isfx_stop n s : isalnum_ (ahead s) = false -> int_suffix n s = s.
Proof.
  intros H. destruct n as [|n]; [reflexivity|]. cbn [int_suffix].
  rewrite (na_in2 _ 117 85 H eq_refl eq_refl), (na_neq _ 108 H eq_refl), (na_neq _ 76 H eq_refl). reflexivity.
Qed.
Lemma isfx_0 s : int_suffix 0 s = s.
Proof. reflexivity. Qed.

Lemma int_suffix_consumes suf rest : In suf int_suffixes -> isalnum_ (ahead rest) = false -> int_suffix 2 (suf ++ rest) = rest.
Proof.
  intros Hs Hb.
  assert (Hul : in2 (ahead rest) 108 76 = false) by (apply na_in2; [exact Hb|reflexivity|reflexivity]).
  assert (Huu : in2 (ahead rest) 117 85 = false) by (apply na_in2; [exact Hb|reflexivity|reflexivity]).
  assert (Hl : (ahead rest =? 108) = false) by (apply na_neq; [exact Hb|reflexivity]).
  assert (HL : (ahead rest =? 76) = false) by (apply na_neq; [exact Hb|reflexivity]).
  cbn in Hs.
  repeat (destruct Hs as [<-|Hs];
          [ cbn [app];
            repeat first [ rewrite isfx_u | rewrite isfx_U | rewrite isfx_l | rewrite isfx_L | rewrite isfx_0
                         | progress cbn [ahead] | rewrite adv_cons by reflexivity
                         | rewrite Hul | rewrite Huu | rewrite Hl | rewrite HL
                         | progress cbv beta zeta
                         | progress change (in2 108 108 76) with true | progress change (in2 76 108 76) with true
                         | progress change (in2 117 117 85) with true | progress change (in2 85 117 85) with true
                         | progress change (108 =? 108) with true | progress change (76 =? 76) with true
                         | progress change (in2 108 117 85) with false | progress change (in2 76 117 85) with false
                         | progress change (76 =? 108) with false | progress change (108 =? 76) with false
                         | progress change (117 =? 108) with false | progress change (117 =? 76) with false
                         | progress change (85 =? 108) with false | progress change (85 =? 76) with false ];
            first [ reflexivity | apply isfx_stop; exact Hb ] | ]).
  contradiction.
Qed.

Lemma int_tail_suffix suf rest : In suf int_suffixes -> num_boundary rest -> int_tail (suf ++ rest) = (K_IntegerConstantToken, rest).
Proof.
  intros Hs [Hb _]. unfold int_tail.
  assert (Hij : forall s, In s int_suffixes -> in2 (ahead (s ++ rest)) 105 106 = false).
  { intros s Hin. cbn in Hin.
    repeat (destruct Hin as [<-|Hin]; [first [reflexivity | cbn [app]; apply na_in2; [exact Hb|reflexivity|reflexivity]]|]). contradiction. }
  rewrite (Hij suf Hs). rewrite (int_suffix_consumes suf rest Hs Hb).
  rewrite (na_in2 _ 105 106 Hb eq_refl eq_refl). apply finish_boundary. exact Hb.
Qed.

(* ------------------------------------------------------------------ 6.4.4.1: integer constants *)
Definition stop_facts (c : N) : Prop :=
  (c =? 46) = false /\ in2 c 101 69 = false /\ isdigit c = false /\ isxdigit c = false /\ isoct c = false /\
  in2 c 120 88 = false /\ in2 c 98 66 = false /\ in2 c 112 80 = false.

Lemma boundary_stop rest : num_boundary rest -> stop_facts (ahead rest).
Proof.
  intros [Hb Hd]. unfold stop_facts. repeat split;
    first [ apply N.eqb_neq; exact Hd | apply na_in2; [exact Hb|reflexivity|reflexivity] | apply na_isdigit; exact Hb
          | apply na_isxdigit; exact Hb | apply na_isoct; exact Hb ].
Qed.

Lemma suffix_head_stop suf rest : In suf int_suffixes -> num_boundary rest -> stop_facts (ahead (suf ++ rest)).
Proof.
  intros Hs Hb. cbn in Hs.
  repeat (destruct Hs as [<-|Hs]; [first [ cbn [app]; apply boundary_stop; exact Hb | cbn [app ahead]; unfold stop_facts; repeat split; reflexivity ]|]).
  contradiction.
Qed.

Lemma digit_facts d : isdigit d = true -> (d =? 0) = false /\ (d =? 46) = false /\ in2 d 101 69 = false.
Proof.
  unfold isdigit, in2. intros H. apply andb_true_iff in H as [H1 H2]. apply N.leb_le in H1, H2.
  repeat split; try apply orb_false_iff; repeat split; apply N.eqb_neq; lia.
Qed.

Lemma num_loop_int ds suf rest : all isdigit ds -> In suf int_suffixes -> num_boundary rest ->
  forall fuel, (length ds <= fuel)%nat -> num_loop fuel (ds ++ suf ++ rest) = (K_IntegerConstantToken, rest).
Proof.
  intros Hds Hs Hb. induction ds as [|d ds IH]; intros fuel Hf.
  - cbn [app]. destruct (suffix_head_stop suf rest Hs Hb) as (S1 & S2 & S3 & _).
    destruct fuel as [|f]; cbn [num_loop]; [apply int_tail_suffix; assumption|].
    rewrite S1, S2, S3. cbn [negb]. destruct (ahead (suf ++ rest) =? 0); apply int_tail_suffix; assumption.
  - inversion Hds as [|? ? Hd Hds']; subst. destruct fuel as [|f]; [cbn in Hf; lia|].
    destruct (digit_facts d Hd) as (D1 & D2 & D3).
    cbn [app num_loop ahead]. rewrite D1, D2, D3, Hd. cbn [negb]. rewrite (adv_cons d _ (isdigit_ascii d Hd)).
    apply IH; [assumption|cbn in Hf; lia].
Qed.

Lemma in2_elim x c d : in2 x c d = true -> x = c \/ x = d.
Proof. unfold in2. intros H. apply orb_true_iff in H as [H|H]; apply N.eqb_eq in H; auto. Qed.

Theorem number_int body suf rest : int_body body -> In suf int_suffixes -> num_boundary rest ->
  forall c0 tl, c0 :: tl = body ++ suf ++ rest -> number c0 tl = (K_IntegerConstantToken, rest).
Proof.
  intros Hbody Hs Hb c0 tl E.
  destruct (suffix_head_stop suf rest Hs Hb) as (S1 & S2 & S3 & S4 & S5 & S6 & S7 & S8).
  destruct Hbody as [d ds Hd Hds | ds Hds | x h hs Hx Hhs]; cbn [app] in E; inversion E; subst c0 tl; clear E.
  - (* decimal *)
    unfold number. assert (E48 : (d =? 48) = false).
    { unfold nonzero_digit in Hd. apply andb_true_iff in Hd as [H1 _]. apply N.leb_le in H1. apply N.eqb_neq. lia. }
    rewrite E48. cbn [andb]. apply num_loop_int; try assumption. rewrite app_length. lia.
  - (* octal *)
    unfold number. change (48 =? 48) with true. cbn [andb].
    destruct ds as [|o ds'].
    + cbn [app]. assert (L : num_loop (length (suf ++ rest)) (suf ++ rest) = (K_IntegerConstantToken, rest)).
      { apply (num_loop_int [] suf rest); [constructor|assumption|assumption|cbn; lia]. }
      destruct (ahead (suf ++ rest) =? 0); cbn [negb]; [exact L|]. rewrite S6, S7, S5. exact L.
    + inversion Hds as [|? ? Ho Hds']; subst.
      assert (Od : isdigit o = true) by (apply isoct_digit; exact Ho).
      destruct (digit_facts o Od) as (D1 & _ & _).
      cbn [app ahead]. rewrite D1. cbn [negb].
      assert (X1 : in2 o 120 88 = false).
      { unfold isoct in Ho. apply andb_true_iff in Ho as [H1 H2]. apply N.leb_le in H1, H2. unfold in2. apply orb_false_iff; split; apply N.eqb_neq; lia. }
      assert (X2 : in2 o 98 66 = false).
      { unfold isoct in Ho. apply andb_true_iff in Ho as [H1 H2]. apply N.leb_le in H1, H2. unfold in2. apply orb_false_iff; split; apply N.eqb_neq; lia. }
      rewrite X1, X2, Ho. rewrite (adv_cons o _ (isoct_ascii o Ho)).
      rewrite (sw_run isoct isoct_ascii ds' (suf ++ rest) Hds' S5).
      cbv zeta. rewrite S3, S1, S2. cbn [negb andb]. apply int_tail_suffix; assumption.
  - (* hexadecimal *)
    unfold number. change (48 =? 48) with true. cbn [andb ahead].
    assert (X0 : (x =? 0) = false) by (destruct (in2_elim _ _ _ Hx) as [->| ->]; reflexivity).
    assert (Xmb : is_mb x = false) by (destruct (in2_elim _ _ _ Hx) as [->| ->]; reflexivity).
    rewrite X0, Hx. cbn [negb]. rewrite (adv_cons x _ Xmb).
    change (h :: hs ++ suf ++ rest) with ((h :: hs) ++ suf ++ rest).
    rewrite (sw_run isxdigit isxdigit_ascii (h :: hs) (suf ++ rest) Hhs S4).
    cbv zeta. rewrite S1, S8. apply int_tail_suffix; assumption.
Qed.
