(** Request decoder for the C01 models:
    [0; bytes...]                 -> positions visited by repeated yyinput (or [-1])
    [1; fn; cur; kinds...]        -> cursor after recovery loop fn (0..3)     (or [-1])
    [2; k; cur; kinds...]         -> cursor after skipTo(k)
    [3; k; cur; kinds...]         -> cursor after match(k)
    [4; ref; cur; kinds...]       -> cursor after Backtracker(ref)::backtrack()
    [5; max; n]                   -> depth after n nested DepthControl guards (or [-1]: the limit error) *)
From Coq Require Import ZArith List Bool NArith.
From PV Require Import C01Model.
From PV.gen Require Import Gen_Recover.
Import ListNotations.
Local Open Scope Z_scope.

Definition opt (o : option nat) : list Z := match o with Some n => [Z.of_nat n] | None => [-1] end.
Definition run (req : list Z) : list Z :=
  match req with
  | 0 :: bytes => let text := map Z.to_N bytes in
                  match scan text (S (length text)) 0 with Some l => map Z.of_nat l | None => [-1] end
  | 1 :: fn :: cur :: ks =>
      let toks := map Z.to_N ks in
      match nth_error recover_tables (Z.to_nat fn) with
      | Some t => opt (ignore_loop (fst t) (snd t) toks (length toks) (Z.to_nat cur))
      | None => [-2]
      end
  | 2 :: k :: cur :: ks => opt (skip_to EOF_kind (Z.to_N k) (map Z.to_N ks) (Z.to_nat cur))
  | 3 :: k :: cur :: ks => opt (match_tok EOF_kind (Z.to_N k) (map Z.to_N ks) (Z.to_nat cur))
  | 4 :: ref :: cur :: ks => [Z.of_nat (backtrack (map Z.to_N ks) (Z.to_nat ref) (Z.to_nat cur))]
  | 5 :: mx :: n :: _ =>
      (* n nested DepthControl guards entered one inside the other, then left: the depth at the end, or -1 for the declared runtime_error *)
      opt (depth_run (Z.to_nat mx) 0 (repeat Enter (Z.to_nat n) ++ repeat Leave (Z.to_nat n)))
  | _ => []
  end.
