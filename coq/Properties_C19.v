(** C19 — The cnip driver's exit status and options reflect what the front end found. *)
From Coq Require Import List ZArith Bool String Lia.
From PV Require Import C19Model.
Import ListNotations.
Local Open Scope string_scope.
Local Open Scope Z_scope.

Lemma front_end_clean so fs :
  front_end so fs = None <-> Forall (fun f => f_syntax_error f = false /\ (so = true \/ f_sema_error f = false)) fs.
Proof.
  induction fs as [|f fs IH]; cbn; [split; [constructor|reflexivity]|].
  destruct (f_syntax_error f) eqn:E1.
  - split; [discriminate|]. intros H. inversion H as [|? ? [A _] _]; subst. congruence.
  - destruct so.
    + rewrite IH. split; intros H; [constructor; auto | inversion H; auto].
    + destruct (f_sema_error f) eqn:E2.
      * split; [discriminate|]. intros H. inversion H as [|? ? [_ [A|A]] _]; subst; congruence.
      * rewrite IH. split; intros H; [constructor; auto | inversion H; auto].
Qed.

(** Exit status zero exactly when preprocessing succeeded and the front end reported no error for
    any file under the configuration — for every argument vector that decodes to documented
    option values (no plug-in, no sub-command), every number of files, every outcome per file. *)
Theorem C19_exit_iff_clean : forall (args : list str) (w : world) (o : options),
  parse_command_line args = inl (o, []) ->
  o_help o = false -> o_analysis o = [] ->
  (0 < List.length (w_files w))%nat -> List.length (w_files w) = (List.length (o_cfiles o) + List.length (o_ifiles o))%nat ->
  forallb f_readable (w_files w) = true ->
  known (o_pp o) ["none"; "s"; "r"] = true -> known (o_std o) ["c89"; "c90"; "c99"; "c17"; "c18"; "c11"] = true ->
  known (o_disamb o) ["a"; "h"; "ah"; "none"] = true -> known (o_comment o) ["ka"; "kdo"; "d"] = true ->
  (fst (go args w) = 0 <->
   ((str_eqb (o_pp o) (S "none") = true \/ w_pp_ok w = true) /\
    Forall (fun f => f_syntax_error f = false /\ (o_syntax_only o = true \/ f_sema_error f = false)) (w_files w))).
Proof.
  intros args w o Hp Hh Ha Hn Hl Hr Kpp Kstd Kd Kc. unfold go. rewrite Hp, Hh, Hr, Kpp, Kstd, Kd, Kc, Ha. cbn [negb].
  assert (E0 : Nat.eqb (List.length (o_cfiles o) + List.length (o_ifiles o)) 0 = false) by (apply Nat.eqb_neq; lia).
  rewrite E0. cbn [List.length Nat.eqb negb andb].
  assert (E1 : Nat.eqb (List.length (w_files w)) 0 = false) by (apply Nat.eqb_neq; lia). rewrite E1, andb_false_r.
  rewrite <- front_end_clean.
  destruct (str_eqb (o_pp o) (S "none")); destruct (w_pp_ok w); cbn [negb andb fst];
    destruct (front_end (o_syntax_only o) (w_files w)); cbn [fst];
    split; intros H; try lia; try (split; [auto|reflexivity]); try (destruct H as [[H|H] H2]; discriminate);
    try (destruct H as [_ H2]; discriminate).
Qed.

(** every malformed command line is answered with a message and status 1 *)
Theorem C19_malformed_rejected : forall args w m, parse_command_line args = inr m -> go args w = (1, Some m).
Proof. intros args w m H. unfold go. rewrite H. reflexivity. Qed.

(** a lone "-", an unknown option, an option missing its value, a path with an unknown suffix *)
Lemma C19_malformed_examples :
  parse_command_line [S "-"; S "a.c"] = inr MExpectedOption /\
  parse_command_line [S "-frobnicate"; S "a.c"] = inr MUnrecognized /\
  parse_command_line [S "a.c"; S "-comment"] = inr MExpectedValue /\
  parse_command_line [S "a.c"; S "-std="] = inr MExpectedValue /\
  parse_command_line [S "a.cpp"] = inr MUnhandledPath /\
  parse_command_line [S ""] = inr MUnhandledPath.
Proof. vm_compute. repeat split; reflexivity. Qed.

(** every documented value of every option is decoded to that value, and no configuration ladder rejects it *)
Definition documented : list (list string) :=
  [["c89"; "c90"; "c99"; "c11"; "c17"; "c18"]; ["a"; "h"; "ah"; "none"]; ["d"; "ka"; "kdo"]; ["s"; "r"; "none"]].
Definition clean_world : world :=
  {| w_files := [{| f_readable := true; f_syntax_error := false; f_sema_error := false |}]; w_pp_ok := true; w_analysis_ok := true; w_sub_status := 0 |}.
Definition doc_ok (st d c p : string) (so dump : bool) : bool :=
  let args := List.app [S (String.append "-std=" st); S "-disambiguation"; S d; S "-comment"; S c; S "-pp"; S p]
              (List.app (if so then [S "-fsyntax-only"] else []) (List.app (if dump then [S "-dump-ast"] else []) [S "f.c"])) in
  match parse_command_line args with
  | inl (o, []) => str_eqb (o_std o) (S st) && str_eqb (o_disamb o) (S d) && str_eqb (o_comment o) (S c) && str_eqb (o_pp o) (S p)
                   && Bool.eqb (o_syntax_only o) so && Bool.eqb (o_dump o) dump
                   && match go args clean_world with (0, None) => true | _ => false end
  | _ => false
  end.
Lemma C19_documented_values_accepted :
  forallb (fun st => forallb (fun d => forallb (fun c => forallb (fun p => forallb (fun so => forallb (fun du =>
    doc_ok st d c p so du) [false; true]) [false; true])
    ["s"; "r"; "none"]) ["d"; "ka"; "kdo"]) ["a"; "h"; "ah"; "none"]) ["c89"; "c90"; "c99"; "c11"; "c17"; "c18"] = true.
Proof. vm_compute. reflexivity. Qed.

Example C19_nonvacuous :
  let args := [S "-pp"; S "none"; S "-fsyntax-only"; S "a.c"; S "b.c"] in
  let bad := {| f_readable := true; f_syntax_error := false; f_sema_error := true |} in
  let w := {| w_files := [bad; bad]; w_pp_ok := false; w_analysis_ok := true; w_sub_status := 0 |} in
  (exists o, parse_command_line args = inl (o, []) /\ o_syntax_only o = true) /\ go args w = (0, None) /\
  go [S "-pp"; S "none"; S "a.c"; S "b.c"] w = (1, Some MSema).
Proof. cbn zeta. split; [eexists; split; vm_compute; reflexivity | split; vm_compute; reflexivity]. Qed.

Print Assumptions C19_exit_iff_clean.
Print Assumptions C19_malformed_rejected.
Print Assumptions C19_documented_values_accepted.
