# C01 — Syntax analysis is total and memory-safe on arbitrary bytes.
import json, os, re, sys
from lib import pv
sys.path.insert(0, os.path.join(pv.ROOT, "gen"))
import corpus, mutate

DECLARED = ("maximum depth of statements reached", "maximum depth of expressions reached")
KEYWORDS = set(("auto break case char const continue default do double else enum extern float for goto if inline int long register restrict return short signed sizeof static struct switch "
                "typedef union unsigned void volatile while _Alignas _Alignof _Atomic _Bool _Complex _Generic _Noreturn _Static_assert _Thread_local __attribute__ __extension__ __asm__ __typeof__ typeof asm").split())
OPTSETS = ["2:1:0:0:2", "2:1:3fffff:1:0", "0:1:0:2:1", "3:0:8000:0:3", "1:1:200001:1:2"]


def kinds():
    sys.path.insert(0, os.path.join(pv.ROOT, "translate"))
    from common import enum_values
    return dict(enum_values("C/syntax/SyntaxKind.h", "SyntaxKind"))


def hexof(b):
    return b.hex() if b else "-"


def pathological(rng, quick):
    out = []
    for n in (1, 5, 50, 90, 99):
        out.append((0, ("void f(){" + "{" * n + "x;" + "}" * n + "}").encode()))
        out.append((0, ("int x = " + "(" * n + "1" + ")" * n + ";").encode()))
        out.append((0, ("int x = " + "-" * n + "1;").encode()))
        out.append((0, ("int x = " + "(int)" * n + "1;").encode()))
        out.append((0, ("int " + "*" * n + "p;").encode()))
        out.append((0, ("int " + "(" * n + "p" + ")" * n + ";").encode()))
        out.append((0, ("int a" + "[1]" * n + ";").encode()))
        out.append((0, ("int x = 1" + "+1" * n + ";").encode()))
        out.append((0, ("int x = a" + "?b:c" * n + ";").encode()))
        out.append((0, ("int x = " + "a=" * n + "1;").encode()))
        out.append((0, ("void f(){" + "if(x)" * n + ";}").encode()))
        out.append((0, ("struct s {" + "struct {" * n + "int a;" + "};" * n + "};").encode()))
        out.append((0, ("int x = " + "{" * n + "1" + "}" * n + ";").encode()))
        out.append((0, ("int f(" + "int (*" * n + "p" + ")(void)" * n + ");").encode()))
    # just beyond the declared limits: only the declared error may come out
    for n in (101, 150, 1001, 1100):
        out.append((0, ("void f(){" + "{" * n + "}" * n + "}").encode()))
        out.append((0, ("int x = 1" + "+1" * n + ";").encode()))
        out.append((0, ("int x = " + "(" * n + "1" + ")" * n + ";").encode()))
    # unbalanced and unterminated
    for s in ["(", ")", "{", "}", "[", "]", "((((((((", "}}}}}}}}", "int x = (", "int f(", "int a[", "struct s {", "void f() { if (", "void f() { for (;;",
              "\"abc", "'a", "'", "\"", "/* abc", "//", "/", "\\", "\\\n", "int x = \"a\\", "L\"", "u8\"x", "R\"(abc", "R\"x(abc)y\"", "R\"", "LR\"(", "#", "# 1", "#define", "#line",
              "#\n#\n", "# 1 \"f.c\"\nint x;", "int x = 1 {", "sizeof ( x )", "-.1", "( x ) - 1", "__extension__ ;", "x = c ?: (T)*d;", "(T) y", "void f(T x);",
              "enum { enum x", "enum{enum x ) ;", "y={,} , 7 , 8 } } ;", "int a[] = {,};", "int a[] = {,1};", "struct s x = {.};", "int a[] = {[};", "struct s { struct", "struct s { enum", "union u { static int", "enum e { typedef", "struct s { int a; static", "_Generic(", "_Generic(x", "_Generic(x,", "_Generic(x, int:", "_Static_assert(", "__attribute__((", "__asm__(", "typeof(", "_Alignas(", "_Atomic(",
              "int x = {.a", "int x = {[", "enum {", "enum e { A =", "a ? b", "a ? : ", "case", "default", "goto", "return", "do", "while", "for", "switch", "else", "if",
              "int (*", "int (*)(", "int (*f)(int,", "...", "int f(...", "int x, ", "int x = ,", "= 1;", "; ; ;", ",", "->", ".", "++", "x++", "++x", "x.", "x->", "x[", "x(",
              "0x", "0x.", "0x1p", "1e", "1e+", "1.e", "0b", "08", "1u1", "1.0fx", "'\\", "'\\x", "'\\777'", "\"\\u12\"", "\"\\U1234567\"", "\x80", "\xff\xfe", "\xf0\x9f", "a\xf0", "int \xe4\xb8",
              "\xef\xbb\xbfint x;", "int x;\x00int y;", "\x00", "a\x00"]:
        b = s.encode("latin-1")
        for c in (0, 1, 2, 3):
            out.append((c, b))
    return out


def run(chk, only=None):
    chk.coverage["trusted_base"] = pv.TRUSTED_COMMON + [
        "hand-written model coq/C01Model.v of Lexer::yyinput_CORE, Parser::peek/consume/match/skipTo, Backtracker::backtrack, DepthControl (tied by correspondence: positions visited on random byte strings; "
        "cursor after each recovery call on lexed corpus texts at every cursor position)",
        "translate/recov.py: the four ignore* loops of Parser.cpp -> stop / consume-and-stop tables (validated each run: extracted loop vs the compiled functions)",
        "NOT modelled (explored only, under ASan+UBSan with and without NDEBUG and in the plain NDEBUG build): the sub-lexers' own loops (each tests yychar_ before yyinput()), the ~6000 lines of grammar productions, "
        "the reparser/disambiguator, MemoryPool; that each production makes progress or stops at EndOfFile; stack depth of the unguarded recursions"]
    chk.assumptions = ["the token vector ends with EndOfFile (Lexer::lex's loop condition; checked on every explored input)",
                       "callers of yyinput() test yychar_ != 0 first (proved for the punctuator cases in C05; explored for the rest)"]
    terr = None
    try:
        sys.path.insert(0, os.path.join(pv.ROOT, "translate"))
        import recov
        recov.generate()
    except Exception as e:
        terr = "%s: %s" % (type(e).__name__, e)
    res = chk.prove(["Properties_C01.v"], extra_targets=["Entry_C01.vo"])
    proof_ok = all(ok for ok, _ in res.values()) and terr is None
    if terr is not None:
        chk.coverage["discharged"] = 0
    SK = kinds()
    quick = chk.tier == "quick"
    rng = chk.rng
    dist = {}
    bad, bad_model = [], []
    snippets = corpus.test_snippets()

    # ---------------- (1) correspondence of the cursor models
    if terr is None and not only:
        try:
            pv.build_model("C01")
            # (a) byte cursor
            texts = [b"", b"a", b"\xf0", b"\xf0\x9f", b"\xf0\x9f\x98", b"\xf0\x9f\x98\x80", b"a\xc3", b"\xe4\xb8", b"\xff", b"\x80\x80\x80", b"\xfc\x80", b"\xfe", b"a\x00b", b"\xc3\x00\xa9"]
            for _ in range(3000 if quick else 40000):
                n = rng.randint(0, 12)
                texts.append(bytes(rng.choice([rng.randint(1, 127), rng.randint(128, 255), rng.randint(128, 255), rng.choice([0xc3, 0xe4, 0xf0, 0xf8, 0xfc, 0xfe, 0xff, 0x80, 0xbf]), 0 if rng.random() < 0.03 else 65]) for _ in range(n)))
            im = pv.run_impl(["advance " + hexof(t) for t in texts], shards=pv.NCPU)
            mo = pv.run_model("C01", ["0 " + " ".join(map(str, t)) if t else "0" for t in texts], shards=pv.NCPU)
            for t, a, m in zip(texts, im, mo):
                try:
                    pos = [int(x) for x in a.split("|")[0].split()]
                except ValueError:
                    bad.append((0, t, "plain", "byte-cursor", a[:120])); continue
                if pos != m:
                    bad_model.append(("advance", t.hex(), pos, m))
                if any(p > len(t) for p in pos):
                    bad.append((0, t, "plain", "byte-cursor-past-end", a[:120]))
            dist["byte_cursor_cases"] = len(texts)
            # (b) token cursor
            sample = rng.sample(snippets, 150 if quick else 800)
            srcs = [t.encode("utf-8", "replace") for c, t in sample] + [b"int x", b";", b"", b"} } }", b"int x = ( ( ;", b", , ,"]
            lx = pv.run_impl(["lex 2:1:200000:0:2 " + hexof(t) for t in srcs], shards=pv.NCPU)
            reqs, mreqs, meta = [], [], []
            stopk = [SK["SemicolonToken"], SK["CloseBraceToken"], SK["CloseParenToken"], SK["CommaToken"], SK["IdentifierToken"], SK["Keyword_int"], SK["ColonToken"]]
            for t, a in zip(srcs, lx):
                try:
                    ks = [int(p.split()[0]) for p in a.split(" | ")[1:]]
                except Exception:
                    continue
                n = len(ks)
                for cur in range(1, n):
                    if n > 40 and rng.random() < 0.7:
                        continue
                    ksl = " ".join(map(str, ks))
                    for fi, fn in enumerate("dDms"):
                        reqs.append("recover %s 2:1:200000:0:2 %s %d" % (fn, hexof(t), cur)); mreqs.append("1 %d %d %s" % (fi, cur, ksl)); meta.append((fn, t, cur))
                    k = rng.choice(stopk)
                    reqs.append("recover k%d 2:1:200000:0:2 %s %d" % (k, hexof(t), cur)); mreqs.append("2 %d %d %s" % (k, cur, ksl)); meta.append(("skipTo", t, cur))
                    k = rng.choice(stopk)
                    reqs.append("recover t%d 2:1:200000:0:2 %s %d" % (k, hexof(t), cur)); mreqs.append("3 %d %d %s" % (k, cur, ksl)); meta.append(("match", t, cur))
                    ref = rng.randint(1, n - 1)
                    c2 = rng.choice([cur, n, n + 3])
                    if c2 < n:
                        reqs.append("recover b%d 2:1:200000:0:2 %s %d" % (ref, hexof(t), c2)); mreqs.append("4 %d %d %s" % (ref, c2, ksl)); meta.append(("backtrack", t, c2))
            im = pv.run_impl(reqs, shards=pv.NCPU)
            mo = pv.run_model("C01", mreqs, shards=pv.NCPU)
            for (fn, t, cur), a, m in zip(meta, im, mo):
                try:
                    newcur, n = int(a.split()[0]), int(a.split()[1])
                except Exception:
                    bad.append((0, t, "plain", "token-cursor:" + fn, a[:120])); continue
                if not m or m[0] != newcur:
                    bad_model.append((fn, t.hex(), cur, newcur, m))
                if not (cur <= newcur < n) and fn != "backtrack" or newcur >= n:
                    bad.append((0, t, "plain", "token-cursor-out-of-range:" + fn, a))
            dist["token_cursor_cases"] = len(reqs)
            # the nesting counter: n blocks one inside the other in a function body are n + 1 DepthControl guards; the declared error must come
            # exactly when the model's counter (depth_run, MAX_DEPTH_OF_STMTS read from the source) says so
            mx = int(re.search(r"#define\s+MAX_DEPTH_OF_STMTS\s+(\d+)", open(os.path.join(pv.REPO, "C/parser/Parser__IMPL__.inc")).read()).group(1))
            ns = list(range(mx - 6, mx + 8)) + [mx + 50, 3 * mx]
            texts = [("void f(){" + "{" * n + "}" * n + "}").encode() for n in ns]
            im = pv.run_impl(["total 0 2:1:0:0:2 " + t.hex() for t in texts], shards=4)
            mo = pv.run_model("C01", ["5 %d %d" % (mx, n + 1) for n in ns])
            for n, t, a, m in zip(ns, texts, im, mo):
                want_limit = bool(m) and m[0] == -1
                got_limit = a.startswith("LIMIT ")
                if not (a.startswith("OK ") or got_limit):
                    bad.append((0, t, "plain", a.split()[0].lower() if a else "empty", a[:200]))
                elif want_limit != got_limit:
                    bad.append((0, t, "plain", "nesting-limit-not-as-declared", "%d nested blocks: model %s, implementation %s" % (n, "limit error" if want_limit else "no error", a[:60])))
            dist["nesting_limit_cases"] = len(ns)
        except Exception as e:
            terr = "model runner: %r" % (e,)

    # ---------------- (2) exploration of the whole front end
    inputs = []
    if only:
        inputs = [only]
    else:
        for c, t in snippets:
            inputs.append((c, t.encode("utf-8", "replace")))
        valid = len(inputs)
        for c, t in rng.sample(snippets, 300 if quick else len(snippets)):
            for m in mutate.mutants(rng, t, 4 if quick else 12):
                inputs.append((c, m.encode("utf-8", "replace")))
        # truncation at every byte
        for c, t in rng.sample(snippets, 40 if quick else 400):
            b = t.encode("utf-8", "replace")
            for i in range(len(b)):
                inputs.append((c, b[:i]))
        # byte-level damage: random bytes, invalid UTF-8, NULs
        for c, t in rng.sample(snippets, 200 if quick else 1166):
            b = bytearray(t.encode("utf-8", "replace"))
            for _ in range(rng.randint(1, 4)):
                if not b:
                    break
                i = rng.randrange(len(b))
                op = rng.randint(0, 3)
                if op == 0:
                    b[i] = rng.randint(0, 255)
                elif op == 1:
                    b.insert(i, rng.choice([0x80, 0xc3, 0xe4, 0xf0, 0xff, 0x22, 0x27, 0x5c, 0x2f, 0x2a, 0x23, 0x0a, 0x3f, 0x00]))
                elif op == 2:
                    del b[i]
                else:
                    b[i:i] = bytes(rng.randint(0, 255) for _ in range(rng.randint(1, 5)))
            inputs.append((c, bytes(b)))
        for _ in range(500 if quick else 5000):
            inputs.append((rng.randint(0, 3), bytes(rng.randint(0, 255) for _ in range(rng.randint(0, 40)))))
        for _ in range(500 if quick else 5000):
            inputs.append((rng.randint(0, 3), bytes(rng.choice(b"(){}[];,*&=+-<>?:.#\"'\\/ \nintxyTuL01%^|~!") for _ in range(rng.randint(1, 30)))))
        inputs += pathological(rng, quick)
        # declaration-centred random units (gen/declgen.py): every specifier / declarator / type-name form in every position, as units and as fragments
        import declgen
        for u in declgen.units(rng, 300 if quick else 6000):
            inputs.append((0, u.encode()))
            if rng.random() < 0.3:
                b = u.encode()
                cut = rng.randrange(len(b) + 1)
                inputs.append((rng.choice([0, 1, 2, 3]), b[:cut] if rng.random() < 0.5 else b[cut:]))
        # the directive and marker code of Lexer::lex ('#' at the start of a line: line directives, Qt Creator expansion markers)
        dwords = [b"expansion", b"begin", b"end", b"line", b"~", b"~3", b"~4000000000", b"~18446744073709551615", b"1", b"7", b"1,2", b"4:5", b":", b",", b"\"f.c\"", b"x", b"include", b"<a.h>",
                  b"define", b"\\\n", b"\n", b"#", b"##", b"/*", b"*/", b"//", b"'", b"\"", b"0x", b"99999999999999999999", b"int y;"]
        for _ in range(400 if quick else 6000):
            line = b"#" + rng.choice([b"", b" "]) + b" ".join(rng.choice(dwords) for _ in range(rng.randint(0, 9)))
            inputs.append((rng.choice([0, 0, 0, 1, 2, 3]), rng.choice([b"", b"int a;\n", b"\\\n"]) + line + rng.choice([b"", b"\nint x;", b"\n#line 3\nint z;"])))
    # the witnesses of the defects repaired so far (known_findings.json, "fixed"): run first, in every flavour
    corpus_plan = []
    if not only:
        for e in pv.known_findings().get("fixed", []):
            w = (e.get("witness") or "").split()
            if e.get("property") in ("C01", "C02") and len(w) == 4 and w[0] == "total":
                try:
                    corpus_plan += [(fl, int(w[1]), w[2], bytes.fromhex(w[3])) for fl in ("plain", "asan", "asan-ndebug")]
                except ValueError:
                    pass
            elif e.get("property") in ("C01", "C02") and len(w) == 3 and w[0] == "lex":
                try:
                    corpus_plan += [(fl, 0, w[1] + ":0:2" if w[1].count(":") == 2 else w[1], bytes.fromhex(w[2])) for fl in ("plain", "asan", "asan-ndebug")]
                except ValueError:
                    pass
    # a known finding, probed once in the plain build: nested '( a ) (' at the end of a truncated text is parsed twice per level (cast, then call)
    EXPO = ("void f(){ x = " + "(a)(" * 26).encode()
    if not only:
        corpus_plan.append(("plain", 0, OPTSETS[0], EXPO))
    dist["regression_corpus_requests"] = len(corpus_plan)
    flavours = ["plain", "asan", "asan-ndebug"]
    plan = list(corpus_plan)     # (flavour, cat, opts, text)
    for i, (c, t) in enumerate(inputs):
        if only:
            for fl in flavours:
                for o in OPTSETS:
                    plan.append((fl, c, o, t))
            continue
        o = OPTSETS[i % len(OPTSETS)]
        plan.append(("plain", c, o, t))
        o2 = OPTSETS[(i + 1) % len(OPTSETS)]
        plan.append(("plain", c, o2, t))
        r = rng.random()
        if r < (0.12 if quick else 0.5):
            plan.append(("asan", c, o, t))
        elif r < (0.24 if quick else 1.0):
            plan.append(("asan-ndebug", c, o, t))
    n_expl = 0
    shapes = {"ok": 0, "limit": 0}
    for fl in flavours:
        part = [p for p in plan if p[0] == fl]
        if not part:
            continue
        reqs = ["total %d %s %s" % (c, o, hexof(t)) for _, c, o, t in part]
        try:
            ans = pv.run_impl(reqs, flavour=fl, shards=pv.NCPU, limit=10)
        except pv.BuildError:
            raise
        n_expl += len(reqs)
        for (f_, c, o, t), a in zip(part, ans):
            if a.startswith("OK "):
                shapes["ok"] += 1
                f = a.split()
                root, ntok, ndiag, maxend, size, early, lastk = (int(x) for x in f[1:8])
                nul = t.find(b"\0")
                eff = len(t) if nul < 0 else nul
                if maxend > len(t):
                    bad.append((c, t, fl, "token-extent-beyond-text", a))
                if lastk != SK["EndOfFile"]:
                    bad.append((c, t, fl, "last-token-not-EOF", a))
                if c == 0 and root != SK["TranslationUnit"]:
                    bad.append((c, t, fl, "root-not-translation-unit", a))
                if root < 0 and ndiag == 0:
                    bad.append((c, t, fl, "no-root-and-no-diagnostic", a))      # a fragment that is not parseable has no root node; it must then be answered with a diagnostic
            elif a.startswith("LIMIT "):
                shapes["limit"] += 1
                if a[6:].strip() not in DECLARED:
                    bad.append((c, t, fl, "undeclared-exception", a[:200]))
            else:
                bad.append((c, t, fl, a.split()[0].lower() if a else "empty", a[:300]))
    dist.update(shapes)
    dist["inputs"] = len(inputs)
    dist["requests_per_flavour"] = {fl: sum(1 for p in plan if p[0] == fl) for fl in flavours}
    chk.coverage["evaluations"] = n_expl + dist.get("byte_cursor_cases", 0) + dist.get("token_cursor_cases", 0)
    chk.coverage["distinct_nontrivial"] = len({(c, t) for c, t in inputs if len(t) >= 4})
    chk.coverage["rule"] = ("cursor models: random byte strings (ASCII, lead/continuation bytes, truncated sequences, NULs) through repeated yyinput_CORE; every recovery function, skipTo, match and backtrack at "
                            "(sampled) every cursor position of lexed corpus texts — extracted model vs compiled code.  Whole front end (parseText in all four syntax categories, option sets %s): the %d snippets of the "
                            "repository's tests, token-level mutants, truncation at every byte, byte-level damage (random bytes, invalid UTF-8, quotes, NULs), random bytes, random punctuation soup, nesting at 1..99 and just beyond the "
                            "declared limits, unterminated constructs, '#' lines (line directives and expansion markers with random arguments), the witnesses of every repaired defect — in the plain NDEBUG build and (a share of them) under ASan+UBSan with and without NDEBUG, each batch re-run per request in a forked child after a crash. "
                            "Accepted outcomes: a tree (TranslationUnit root for whole units, all token extents inside the text, final EOF) or one of the two declared nesting errors. non-trivial = at least 4 bytes" % (OPTSETS, len(snippets)))
    chk.coverage["samples"] = [repr(inputs[i][1][:80]) for i in (3, len(inputs) // 2, len(inputs) - 5) if i < len(inputs)] if not only else [repr(only[1][:80])]
    chk.coverage["distribution"] = dist
    # shrink and report
    def failing_class(a):
        if a.startswith("OK "):
            f = a.split()
            return "no-root-and-no-diagnostic" if int(f[1]) < 0 and int(f[3]) == 0 else None
        if a.startswith("LIMIT "):
            return None if a[6:].strip() in DECLARED else "undeclared-exception"
        return a.split()[0].lower() if a else "empty"

    def shrink(c, t, fl, o, cls):
        """greedy removal of white-space separated pieces, then of single bytes, while the same class of failure persists"""
        cur = t
        for unit in ("tok", "byte"):
            for _ in range(8):
                parts = cur.split() if unit == "tok" else [cur[i:i + 1] for i in range(len(cur))]
                if len(parts) <= 1 or len(parts) > 60:
                    break
                sep = b" " if unit == "tok" else b""
                cands = [sep.join(parts[:i] + parts[i + 1:]) for i in range(len(parts))]
                ans = pv.run_impl(["total %d %s %s" % (c, o, hexof(x)) for x in cands], flavour=fl, shards=pv.NCPU, limit=10)
                nxt = [x for x, a in zip(cands, ans) if failing_class(a) == cls]
                if not nxt:
                    break
                cur = min(nxt, key=len)
        return cur

    seen = set()
    bad.sort(key=lambda x: len(x[1]))
    shrunk = []
    for c, t, fl, why, det in bad[:40]:
        if re.search(rb"(\(a\)\(){12,}$", t):
            shrunk.append((c, t, fl, "exponential-backtracking", det, OPTSETS[0])); continue
        cls = failing_class(det) if why in ("no-root-and-no-diagnostic", "undeclared-exception") or det.startswith(("CRASH", "EXC", "TIMEOUT")) else None
        o = next((p[2] for p in plan if p[0] == fl and p[1] == c and p[3] == t), OPTSETS[0])
        if cls:
            try:
                # find the option set under which it fails (the plan used two for plain)
                for oo in [p[2] for p in plan if p[0] == fl and p[1] == c and p[3] == t]:
                    if failing_class(pv.run_impl(["total %d %s %s" % (c, oo, hexof(t))], flavour=fl, limit=10)[0]) == cls:
                        o = oo; break
                t = shrink(c, t, fl, o, cls)
            except Exception as e:
                chk.notes.append("shrink failed: %r" % (e,))
        shrunk.append((c, t, fl, why, det, o))
    shrunk.sort(key=lambda x: len(x[1]))
    for c, t, fl, why, det, o in shrunk:
        canon = re.sub(r"[A-Za-z_$\x80-\xff][A-Za-z0-9_$\x80-\xff]*", lambda m: m.group(0) if m.group(0) in KEYWORDS else "x", t.decode("latin-1"))
        canon = re.sub(r"\s+", " ", canon).strip()
        key = "%s:cat%d:%s" % (why.split(":")[0] if why.startswith(("crash", "exc", "timeout")) else why, c, canon[:40])
        if why == "exponential-backtracking":
            key = "exponential-backtracking:cast-or-call-chain"
        if why == "no-root-and-no-diagnostic":
            key = "%s:cat%d" % (why, c)      # the known findings of this kind are identified per syntax category (see known_findings.json)
        sig = (why, c, t[:6])
        if sig in seen or len(seen) > 14:
            continue
        seen.add(sig)
        chk.report(key, {"category": c, "text_hex": t.hex(), "text": t.decode("latin-1"), "flavour": fl, "options": o, "why": why, "answer": det,
                         "count_failing": sum(1 for b in bad if b[3] == why)}, found=True, what="syntax analysis is not total / memory-safe on this input")
    if bad_model and not bad:
        chk.report("model-correspondence", {"unchecked": "correspondence C01Model vs compiled cursor functions", "first": str(bad_model[0])[:600], "count": len(bad_model)}, found=False)
    if terr is not None and not bad:
        chk.report("translator", {"unchecked": "translate/recov.py / model runner: " + terr}, found=False)
    if not proof_ok and terr is None and not bad:
        for f, (ok, out) in res.items():
            if not ok:
                chk.report("proof-" + f, {"unchecked": f + " (theorems: %s)" % ", ".join(pv.theorem_names(f)), "coq_output": out[-3000:]}, found=False)


def replay(chk, path):
    r = json.load(open(path))
    if r.get("text_hex") is not None:
        return run(chk, only=(r["category"], bytes.fromhex(r["text_hex"])))
    run(chk)
