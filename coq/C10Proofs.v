(** C10 — resolution through whole-scope frames (what the binder records) equals C's positional
    scoping (6.2.1) whenever no declaration that comes later in a scope matters for a use that
    comes earlier ([ok_items]); in particular for every program whose blocks declare before they
    use. *)
From Coq Require Import List Arith Bool Lia.
From PV Require Import C10Model.
Import ListNotations.

Section ItemInd.
  Variable P : item -> Prop.
  Hypothesis Hd : forall ns n id, P (IDecl ns n id).
  Hypothesis He : forall n id, P (IEnumerator n id).
  Hypothesis Hu : forall n uid, P (IUse n uid).
  Hypothesis Hb : forall b, Forall P b -> P (IBlock b).
  Hypothesis Hf : forall n id ps body, Forall P body -> P (IFun n id ps body).
  Fixpoint item_ind' (i : item) : P i :=
    let fix go (l : list item) : Forall P l :=
      match l with [] => Forall_nil _ | x :: l' => Forall_cons x (item_ind' x) (go l') end in
    match i with
    | IDecl ns n id => Hd ns n id
    | IEnumerator n id => He n id
    | IUse n uid => Hu n uid
    | IBlock b => Hb b (go b)
    | IFun n id ps body => Hf n id ps body (go body)
    end.
End ItemInd.

(** the names used (as ordinary identifiers) anywhere inside an item *)
Fixpoint used (i : item) : list nat :=
  match i with
  | IUse n _ => [n]
  | IBlock b => flat_map used b
  | IFun _ _ _ body => flat_map used body
  | _ => []
  end.

(** the positional frame after an item *)
Definition after (cur : frame) (i : item) : frame :=
  match i with
  | IDecl ns n id => add_decl cur ns n id
  | IEnumerator n id => add_decl cur NS_ORD n id
  | IFun n id _ _ => add_decl cur NS_ORD n id
  | _ => cur
  end.
Lemma spec_item_after cur env i : snd (spec_item cur env i) = after cur i.
Proof. destruct i; reflexivity. Qed.

(** the frame the items would complete to, under the specification's name space for enumerators *)
Definition agree (c F : frame) (U : list nat) : Prop := forall n, In n U -> lookup_frame c NS_ORD n = lookup_frame F NS_ORD n.

(** no later declaration of the block matters for an earlier use: [c] is the frame so far, [F] the complete one *)
Fixpoint ok_item (i : item) : Prop :=
  match i with
  | IBlock b =>
      (fix go (l : list item) (c : frame) : Prop :=
         match l with [] => True | x :: l' => agree (match x with IFun n id _ _ => add_decl c NS_ORD n id | _ => c end) (frame_of NS_ORD b []) (used x) /\ ok_item x /\ go l' (after c x) end) b []
  | IFun _ _ ps body =>
      (fix go (l : list item) (c : frame) : Prop :=
         match l with [] => True | x :: l' => agree (match x with IFun n id _ _ => add_decl c NS_ORD n id | _ => c end) (frame_of NS_ORD body (params_frame ps)) (used x) /\ ok_item x /\ go l' (after c x) end) body (params_frame ps)
  | _ => True
  end.
Fixpoint ok_items (F : frame) (l : list item) (c : frame) : Prop :=
  match l with
  | [] => True
  | x :: l' => agree (match x with IFun n id _ _ => add_decl c NS_ORD n id | _ => c end) F (used x) /\ ok_item x /\ ok_items F l' (after c x)
  end.

Definition env_agree (eS eI : list frame) (U : list nat) : Prop := forall n, In n U -> lookup eS NS_ORD n = lookup eI NS_ORD n.

Lemma env_agree_cons c F eS eI U : agree c F U -> env_agree eS eI U -> env_agree (c :: eS) (F :: eI) U.
Proof. intros A E n Hn. cbn. rewrite (A n Hn). destruct (lookup_frame F NS_ORD n); [reflexivity|]. apply E. exact Hn. Qed.
Lemma env_agree_sub eS eI U U' : env_agree eS eI U -> (forall n, In n U' -> In n U) -> env_agree eS eI U'.
Proof. intros E S n Hn. apply E, S, Hn. Qed.

(** main lemma, per item: the specification (with enumerators as ordinary identifiers on BOTH sides) and the frame model agree *)
Lemma item_agree : forall i cur F eS eI,
  ok_item i ->
  env_agree (match i with IFun n id _ _ => add_decl cur NS_ORD n id | _ => cur end :: eS) (F :: eI) (used i) ->
  fst (spec_item cur eS i) = resolve_item NS_ORD (F :: eI) i.
Proof.
  induction i using item_ind'; intros cur F eS eI Hok Henv; cbn [spec_item resolve_item fst]; try reflexivity.
  - (* use *) cbn in Henv. rewrite (Henv n (or_introl eq_refl)). reflexivity.
  - (* block *)
    cbn [ok_item used] in Hok, Henv.
    set (Fb := frame_of NS_ORD b []) in *.
    assert (G : forall l c, Forall (fun i => forall cur F eS eI, ok_item i ->
                               env_agree (match i with IFun n id _ _ => add_decl cur NS_ORD n id | _ => cur end :: eS) (F :: eI) (used i) ->
                               fst (spec_item cur eS i) = resolve_item NS_ORD (F :: eI) i) l ->
              (fix go (l : list item) (c : frame) : Prop :=
                 match l with [] => True | x :: l' => agree (match x with IFun n id _ _ => add_decl c NS_ORD n id | _ => c end) Fb (used x) /\ ok_item x /\ go l' (after c x) end) l c ->
              env_agree (cur :: eS) (F :: eI) (flat_map used l) ->
              (fix go (l : list item) (c : frame) : list (nat * option nat) :=
                 match l with [] => [] | x :: l' => let (r, c') := spec_item c (cur :: eS) x in r ++ go l' c' end) l c
              = (fix go (l : list item) : list (nat * option nat) :=
                   match l with [] => [] | x :: l' => resolve_item NS_ORD (Fb :: F :: eI) x ++ go l' end) l).
    { induction l as [|x l IHl]; intros c HF Hgo He; [reflexivity|].
      inversion HF as [|? ? Hx HF']; subst. destruct Hgo as (Ha & Hox & Hgo').
      destruct (spec_item c (cur :: eS) x) as [r c'] eqn:E.
      assert (Er : r = fst (spec_item c (cur :: eS) x)) by (rewrite E; reflexivity).
      assert (Ec : c' = after c x) by (rewrite <- (spec_item_after c (cur :: eS) x), E; reflexivity).
      rewrite Er, Ec. f_equal.
      - apply Hx; [exact Hox|]. apply env_agree_cons; [exact Ha|].
        eapply env_agree_sub; [exact He|]. intros n Hn. cbn. apply in_or_app. left. exact Hn.
      - apply IHl; [exact HF'|exact Hgo'|]. eapply env_agree_sub; [exact He|]. intros n Hn. cbn. apply in_or_app. right. exact Hn. }
    apply G; [exact H|exact Hok|exact Henv].
  - (* function definition *)
    cbn [ok_item used] in Hok, Henv.
    set (Fb := frame_of NS_ORD body (params_frame ps)) in *. set (cur' := add_decl cur NS_ORD n id) in *.
    assert (G : forall l c, Forall (fun i => forall cur F eS eI, ok_item i ->
                               env_agree (match i with IFun n id _ _ => add_decl cur NS_ORD n id | _ => cur end :: eS) (F :: eI) (used i) ->
                               fst (spec_item cur eS i) = resolve_item NS_ORD (F :: eI) i) l ->
              (fix go (l : list item) (c : frame) : Prop :=
                 match l with [] => True | x :: l' => agree (match x with IFun n id _ _ => add_decl c NS_ORD n id | _ => c end) Fb (used x) /\ ok_item x /\ go l' (after c x) end) l c ->
              env_agree (cur' :: eS) (F :: eI) (flat_map used l) ->
              (fix go (l : list item) (c : frame) : list (nat * option nat) :=
                 match l with [] => [] | x :: l' => let (r, c') := spec_item c (cur' :: eS) x in r ++ go l' c' end) l c
              = (fix go (l : list item) : list (nat * option nat) :=
                   match l with [] => [] | x :: l' => resolve_item NS_ORD (Fb :: F :: eI) x ++ go l' end) l).
    { induction l as [|x l IHl]; intros c HF Hgo He; [reflexivity|].
      inversion HF as [|? ? Hx HF']; subst. destruct Hgo as (Ha & Hox & Hgo').
      destruct (spec_item c (cur' :: eS) x) as [r c'] eqn:E.
      assert (Er : r = fst (spec_item c (cur' :: eS) x)) by (rewrite E; reflexivity).
      assert (Ec : c' = after c x) by (rewrite <- (spec_item_after c (cur' :: eS) x), E; reflexivity).
      rewrite Er, Ec. f_equal.
      - apply Hx; [exact Hox|]. apply env_agree_cons; [exact Ha|].
        eapply env_agree_sub; [exact He|]. intros m Hm. cbn. apply in_or_app. left. exact Hm.
      - apply IHl; [exact HF'|exact Hgo'|]. eapply env_agree_sub; [exact He|]. intros m Hm. cbn. apply in_or_app. right. exact Hm. }
    apply G; [exact H|exact Hok|exact Henv].
Qed.

(** for a whole list of items at one level *)
Lemma items_agree : forall l c F eS eI,
  ok_items F l c -> env_agree eS eI (flat_map used l) ->
  spec_items c eS l = resolve NS_ORD (F :: eI) l.
Proof.
  induction l as [|x l IH]; intros c F eS eI Hok He; [reflexivity|]. cbn [spec_items]. unfold resolve. cbn [flat_map].
  destruct Hok as (Ha & Hox & Hok').
  destruct (spec_item c eS x) as [r c'] eqn:E.
  assert (Er : r = fst (spec_item c eS x)) by (rewrite E; reflexivity).
  assert (Ec : c' = after c x) by (rewrite <- (spec_item_after c eS x), E; reflexivity).
  rewrite Er, Ec. f_equal.
  - apply item_agree; [exact Hox|]. apply env_agree_cons; [exact Ha|].
    eapply env_agree_sub; [exact He|]. intros n Hn. cbn. apply in_or_app. left. exact Hn.
  - apply (IH (after c x) F eS eI Hok'). eapply env_agree_sub; [exact He|]. intros n Hn. cbn. apply in_or_app. right. exact Hn.
Qed.
