(** C01 — models of the two cursors whose safety the totality of syntax analysis rests on:
    the lexer's byte cursor (Lexer::yyinput_CORE) and the parser's token cursor (Parser::peek,
    consume, match, skipTo, the four ignore* recovery loops, Backtracker::backtrack), plus the
    nesting counter of Parser::DepthControl.  A read outside the buffer is a VALUE of the model
    ([None]), not something a totalised [nth] hides. *)
From Coq Require Import List NArith Bool Arith.
Import ListNotations.

(* ------------------------------------------------------------------ the lexer's byte cursor *)
(** the buffer is the text followed by one terminating NUL (std::string::c_str()); index
    [length text] may be read, anything beyond may not *)
Definition byte_at (text : list N) (i : nat) : option N :=
  match nth_error text i with
  | Some b => Some b
  | None => if Nat.eqb i (length text) then Some 0%N else None
  end.

Definition is_mb (c : N) : bool := N.testbit c 7.                (* isByteOfMultiByteCP: byte & 0x80 *)

(** for (unsigned char c = yychar << 2; isByteOfMultiByteCP(c); c <<= 1) ++trailBytesCurCP; *)
Fixpoint trail_loop (fuel : nat) (c : N) (n : nat) : nat :=
  match fuel with
  | O => n
  | S f => if is_mb c then trail_loop f ((c * 2) mod 256)%N (S n) else n
  end.
Definition trail (c : N) : nat := trail_loop 8 ((c * 4) mod 256)%N 1.

(** while (trailBytesCurCP > 0 && *yy) { ++yy; --trailBytesCurCP; } *)
Fixpoint skip_trail (text : list N) (t pos : nat) : option nat :=
  match t with
  | O => Some pos
  | S t' => match byte_at text pos with
            | None => None
            | Some b => if N.eqb b 0 then Some pos else skip_trail text t' (S pos)
            end
  end.

(** one call of yyinput_CORE with the cursor at [pos]: the new cursor, or None when some read
    (of *yy while stepping, or of the new yychar) is outside the buffer *)
Definition advance (text : list N) (pos : nat) : option nat :=
  match byte_at text pos with
  | None => None
  | Some c =>
      if is_mb c then
        match skip_trail text (trail c) (S pos) with
        | Some p => match byte_at text p with Some _ => Some p | None => None end
        | None => None
        end
      else match byte_at text (S pos) with Some _ => Some (S pos) | None => None end
  end.

(** UTF-16 units added to offset_ by the same call *)
Definition units (c : N) : nat := if is_mb c then (if Nat.leb 3 (trail c) then 2 else 1) else 1.

(** repeated yyinput from [pos] until the NUL: the cursor positions visited *)
Fixpoint scan (text : list N) (fuel pos : nat) : option (list nat) :=
  match fuel with
  | O => None
  | S f => match byte_at text pos with
           | None => None
           | Some c => if N.eqb c 0 then Some [] else
                         match advance text pos with
                         | None => None
                         | Some p => match scan text f p with Some l => Some (p :: l) | None => None end
                         end
           end
  end.

(* ------------------------------------------------------------------ the parser's token cursor *)
(** the lexed tokens as their kinds; tokenAt(i) is tks_[i] unchecked: an index >= size is a read
    outside the vector *)
Definition mem (k : N) (l : list N) : bool := existsb (N.eqb k) l.

(** while (true) switch (peek().kind()) { ret: return; cret: consume(); return; default: consume(); } *)
Fixpoint ignore_loop (ret cret toks : list N) (fuel cur : nat) : option nat :=
  match fuel with
  | O => None
  | S f => match nth_error toks cur with
           | None => None
           | Some k => if mem k ret then Some cur
                       else if mem k cret then Some (S cur)
                       else ignore_loop ret cret toks f (S cur)
           end
  end.

(** Parser::skipTo(k): stop at k or at EndOfFile *)
Definition skip_to (eof k : N) (toks : list N) (cur : nat) : option nat := ignore_loop [k; eof] [] toks (S (length toks)) cur.

(** Parser::match(k): consume on a match; on a mismatch consume unless at EndOfFile *)
Definition match_tok (eof k : N) (toks : list N) (cur : nat) : option nat :=
  match nth_error toks cur with
  | None => None
  | Some c => if N.eqb c k then Some (S cur) else if N.eqb c eof then Some cur else Some (S cur)
  end.

(** Backtracker::backtrack with reference index [ref] and the cursor at [cur] *)
Definition backtrack (toks : list N) (ref cur : nat) : nat :=
  if Nat.eqb cur ref then cur else if Nat.ltb cur (length toks) then ref else length toks - 1.

(** peek(LA) reads index cur + LA - 1 *)
Definition peek (toks : list N) (cur la : nat) : option N := nth_error toks (cur + la - 1).

(* ------------------------------------------------------------------ the nesting counter *)
(** DepthControl: constructor throws when depth > max, else ++depth; destructor --depth *)
Inductive ev := Enter | Leave.
Fixpoint depth_run (max : nat) (d : nat) (evs : list ev) : option nat :=     (* None: the declared runtime_error *)
  match evs with
  | [] => Some d
  | Enter :: r => if Nat.ltb max d then None else depth_run max (S d) r
  | Leave :: r => depth_run max (d - 1) r
  end.

(* ------------------------------------------------------------------ the member loop of a tag specifier *)
(** Parser::parseTagTypeSpecifier_AtFirst after the opening brace: members are parsed until the
    closing brace; a member that fails is followed by panic-mode recovery; [guard] is the repair
    (skip one token when neither the member nor the recovery moved).  The member parser is ANY
    function of the cursor (it stands for parseStructDeclaration / parseEnumerator).
    Result: Some (Some cur') = the closing brace was consumed, Some None = returned at end of file,
    None = fuel exhausted. *)
Section MemberLoop.
  Variable guard : bool.
  Variables eof close_brace : N.
  Variables ret cret : list N.                       (* the tables of ignoreMemberDeclaration *)
  Variable toks : list N.
  Variable parse_member : nat -> bool * nat.

  Fixpoint member_loop (fuel cur : nat) : option (option nat) :=
    match fuel with
    | O => None
    | S f =>
        match nth_error toks cur with
        | None => None
        | Some k =>
            if N.eqb k close_brace then Some (Some (S cur))
            else
              let (ok, c1) := parse_member cur in
              if ok then member_loop f c1
              else match ignore_loop ret cret toks (S (length toks)) c1 with
                   | None => None
                   | Some c2 =>
                       match nth_error toks c2 with
                       | None => None
                       | Some k2 =>
                           if N.eqb k2 eof then Some None
                           else if guard && Nat.eqb c2 cur && negb (N.eqb k2 close_brace) then member_loop f (S c2)
                           else member_loop f c2
                       end
                   end
        end
    end.
End MemberLoop.
