(** Request decoder for the C11 model: [k; name1; ty1; ...; namek; tyk (most recent first); t1; t2] (type code of TyCode.v)
    -> five bits: compat for (treatVoidAsAny, ignoreQualifier) = (0,0) (0,1) (1,0) (1,1), then assignable (no null constant) *)
From Coq Require Import ZArith List Bool NArith.
From PV Require Import C12Model C11Model TyCode.
Import ListNotations.
Local Open Scope Z_scope.
Definition bit (b : bool) : Z := if b then 1 else 0.
Definition run (req : list Z) : list Z :=
  match req with
  | k :: r =>
      match dec_env (Z.to_nat k) r with
      | Some (e, r1) =>
          match dec (length r1) r1 with
          | Some (t1, r2) =>
              match dec (length r2) r2 with
              | Some (t2, _) => let d := denv e in
                                [bit (compat d false false t1 t2); bit (compat d false true t1 t2); bit (compat d true false t1 t2); bit (compat d true true t1 t2);
                                 bit (assignable (den d t1) (den d t2) false)]
              | None => [-2]
              end
          | None => [-2]
          end
      | None => [-2]
      end
  | [] => []
  end.
