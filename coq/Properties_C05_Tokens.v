(** C05 — Tokenisation follows the C11 lexical grammar: the token-level theorems.

    The model (LexModel.v) is Lexer::yylex transcribed by hand, with the punctuator cases regenerated from the source;
    it is run against the compiled lexer on every check (checks/c05.py).  The specification (LexSpec.v) is the lexical
    grammar of C11 6.4 over the basic source character set.  THE THEOREM: wherever the lexer stands in a text — after any
    white space, comments and line splices — if what follows is a valid token of any class, followed by anything the
    class allows next to it, then ONE call of yylex answers exactly that token: its kind, its first byte, its last byte.
    And at the end of the text it answers EndOfFile.  By induction the token sequence of any text made of valid tokens
    and separators is the one the grammar prescribes, with extents that are increasing and non-overlapping. *)
From Coq Require Import List NArith Bool Arith Lia.
From PV Require Import C01Model PunctDefs PunctSpec LexModel LexSpec LexProofs LexTokens Properties_C05.
From PV.gen Require Import Gen_SyntaxKind Gen_Punct.
Import ListNotations.
Local Open Scope N_scope.

(** kind, spelling, and the text that follows the token *)
Inductive valid_token : N -> list N -> list N -> Prop :=
| VT_ident w rest : ident_spelling w -> ident_boundary w rest -> valid_token K_IdentifierToken w rest
| VT_int w rest : int_const w -> num_boundary rest -> valid_token K_IntegerConstantToken w rest
| VT_float w rest : float_const w -> num_boundary rest -> valid_token K_FloatingConstantToken w rest
| VT_char p pk body rest : In (p, pk) chr_prefixes -> qchars 39 body -> valid_token (chr_kind pk) (p ++ 39 :: body ++ [39]) rest
| VT_str p pk body rest : In (p, pk) str_prefixes -> qchars 34 body -> valid_token (str_kind pk) (p ++ 34 :: body ++ [34]) rest
| VT_punct c row k rest : In (c :: row, k) punct_table -> trigraph c (row ++ rest) = false ->
    munch ((c :: row) ++ rest) = Some (length (c :: row), k) -> valid_token k (c :: row) rest
| VT_slash rest : (ahead rest =? 47) = false -> (ahead rest =? 42) = false -> (ahead rest =? 61) = false -> valid_token K_SlashToken [47] rest
| VT_slash_equals rest : valid_token K_SlashEqualsToken [47; 61] rest.

(* ------------------------------------------------------------------ the punctuator rows *)
Lemma rows_start_in_firsts : forallb (fun r => match fst r with c :: _ => existsb (N.eqb c) firsts | [] => false end) punct_table = true.
Proof. vm_compute. reflexivity. Qed.
Lemma firsts_plain : forallb (fun c => negb (c =? 0) && negb (c =? 92) && negb (c =? 34) && negb (c =? 39) && negb (c =? 47) && negb (is_mb c) && negb (isspace c)) firsts = true.
Proof. vm_compute. reflexivity. Qed.

Lemma row_first c row k : In (c :: row, k) punct_table -> In c firsts.
Proof.
  intros H. pose proof rows_start_in_firsts as S. rewrite forallb_forall in S. specialize (S _ H). cbn [fst] in S.
  apply existsb_exists in S as [x [Hx E]]. apply N.eqb_eq in E. subst. exact Hx.
Qed.

Lemma skipn_app_exact (A : Type) (l r : list A) : skipn (length l) (l ++ r) = r.
Proof. induction l; cbn; auto. Qed.

Lemma dispatch_punct keep rec c row k rest wll fl : In (c :: row, k) punct_table -> trigraph c (row ++ rest) = false ->
  munch ((c :: row) ++ rest) = Some (length (c :: row), k) ->
  dispatch keep rec ((c :: row) ++ rest) wll fl = (k, fl, (c :: row) ++ rest, rest, false).
Proof.
  intros Hin Htri Hm. pose proof (row_first c row k Hin) as Hc.
  pose proof firsts_plain as S. rewrite forallb_forall in S. specialize (S c Hc).
  repeat (apply andb_true_iff in S as [S ?]). repeat match goal with H : negb _ = true |- _ => apply negb_true_iff in H end.
  destruct (C05_punctuator_maximal_munch c (row ++ rest) Hc Htri) as [k' [l [A B]]].
  cbn [app] in Hm. rewrite Hm in A. inversion A; subst k' l. unfold impl_answer in B.
  unfold dispatch. cbn [app ahead].
  repeat match goal with H : (c =? _) = false |- _ => rewrite H end.
  match goal with H : is_mb c = false |- _ => rewrite (adv_cons c _ H) end.
  rewrite B. cbn [length Nat.pred]. rewrite skipn_app_exact. reflexivity.
Qed.

(* ------------------------------------------------------------------ no token starts with white space *)
Lemma nondigit_not_space c : isnondigit c = true -> isspace c = false.
Proof.
  intros H. pose proof (nondigit_lt128 c H) as L.
  assert (S : forallb (fun c => implb (isnondigit c) (negb (isspace c))) bytes128 = true) by (vm_compute; reflexivity).
  rewrite forallb_forall in S. specialize (S c (in_bytes128 c L)). rewrite H in S. apply negb_true_iff in S. exact S.
Qed.
Lemma digit_not_space c : isdigit c = true -> isspace c = false.
Proof.
  intros H. pose proof (digit_lt128 c H) as L.
  assert (S : forallb (fun c => implb (isdigit c) (negb (isspace c))) bytes128 = true) by (vm_compute; reflexivity).
  rewrite forallb_forall in S. specialize (S c (in_bytes128 c L)). rewrite H in S. apply negb_true_iff in S. exact S.
Qed.

(* ------------------------------------------------------------------ one call of yylex_CORE at a valid token *)
Lemma dispatch_token keep rec k w rest wll fl : valid_token k w rest ->
  isspace (ahead (w ++ rest)) = false /\ dispatch keep rec (w ++ rest) wll fl = (k, fl, w ++ rest, rest, false).
Proof.
  intros V. destruct V as [w rest Hw Hb | w rest Hw Hb | w rest Hw Hb | p pk body rest Hp Hq | p pk body rest Hp Hq
                          | c row k rest Hin Htri Hm | rest H1 H2 H3 | rest].
  - (* identifier *)
    destruct Hw as [c cs Hc Hcs]. cbn [app ahead]. split; [apply nondigit_not_space; exact Hc|].
    apply dispatch_word; [exact Hc|]. apply (word_ident (c :: cs) rest); [constructor; assumption|exact Hb|reflexivity].
  - (* integer constant *)
    destruct Hw as [body [suf [E [Hbody Hs]]]]. subst w.
    assert (Hd : exists c0 tl, body = c0 :: tl /\ isdigit c0 = true).
    { destruct Hbody as [d ds Hd _|ds _|x h hs _ _]; eexists; eexists; split; try reflexivity.
      unfold nonzero_digit in Hd. unfold isdigit. apply andb_true_iff in Hd as [A B]. apply N.leb_le in A, B. apply andb_true_iff; split; apply N.leb_le; lia. }
    destruct Hd as [c0 [tl [Eb Hc0]]]. subst body. cbn [app ahead]. split; [apply digit_not_space; exact Hc0|].
    rewrite <- app_assoc. apply dispatch_number; [exact Hc0|].
    apply (number_int (c0 :: tl) suf rest Hbody Hs Hb). cbn [app]. reflexivity.
  - (* floating constant *)
    destruct w as [|c0 tl]; [inversion Hw|].
    destruct (N.eq_dec c0 46) as [->|Hne].
    + (* . digit-sequence *)
      inversion Hw as [d ds1 ds2 ex suf A1 A2 A3 A4 E | d ds2 ex suf A1 A2 A3 E | d ds1 ex suf A1 A2 A3 E | x hs1 hs2 ex suf A1 A2 A3 A4 A5 A6 E | x h hs ex suf A1 A2 A3 A4 E];
        try (cbn [app] in E; inversion E; subst;
             match goal with H : all isdigit (46 :: _) |- _ => inversion H; subst; match goal with H' : isdigit 46 = true |- _ => discriminate H' end end).
      subst tl. cbn [app ahead]. split; [reflexivity|].
      inversion A1 as [|? ? Hd Hds2]; subst.
      rewrite (dispatch_period_digit keep rec d _ wll fl Hd).
      change (d :: (ds2 ++ ex ++ suf) ++ rest) with (((d :: ds2) ++ ex ++ suf) ++ rest).
      rewrite (period_float d ds2 ex suf rest A1 A2 A3 Hb). reflexivity.
    + assert (Hc0 : isdigit c0 = true).
      { inversion Hw as [d ds1 ds2 ex suf A1 _ _ _ E | d ds2 ex suf _ _ _ E | d ds1 ex suf A1 _ _ E | x hs1 hs2 ex suf _ _ _ _ _ _ E | x h hs ex suf _ _ _ _ E];
          try (cbn [app] in E; inversion E; subst); try congruence; try reflexivity; inversion A1; assumption. }
      cbn [app ahead]. split; [apply digit_not_space; exact Hc0|].
      apply dispatch_number; [exact Hc0|]. apply (number_float (c0 :: tl) rest Hw Hb c0 tl eq_refl Hne).
  - (* character constant *)
    cbn in Hp. rewrite <- !app_assoc. cbn [app].
    replace ((body ++ [39]) ++ rest) with (body ++ 39 :: rest) by (rewrite <- app_assoc; reflexivity).
    destruct Hp as [Hp|[Hp|[Hp|[Hp|[]]]]]; inversion Hp; subst p pk; cbn [app ahead]; (split; [reflexivity|]).
    + rewrite (proj2 (dispatch_quote keep rec _ wll fl)). rewrite (quoted_literal 39 body rest (or_intror eq_refl) Hq). reflexivity.
    + apply dispatch_word; [reflexivity|]. apply word_char_prefixed; [cbn; tauto|exact Hq].
    + apply dispatch_word; [reflexivity|]. apply word_char_prefixed; [cbn; tauto|exact Hq].
    + apply dispatch_word; [reflexivity|]. apply word_char_prefixed; [cbn; tauto|exact Hq].
  - (* string literal *)
    cbn in Hp. rewrite <- !app_assoc. cbn [app].
    replace ((body ++ [34]) ++ rest) with (body ++ 34 :: rest) by (rewrite <- app_assoc; reflexivity).
    destruct Hp as [Hp|[Hp|[Hp|[Hp|[Hp|[]]]]]]; inversion Hp; subst p pk; cbn [app ahead]; (split; [reflexivity|]).
    + rewrite (proj1 (dispatch_quote keep rec _ wll fl)). rewrite (quoted_literal 34 body rest (or_introl eq_refl) Hq). reflexivity.
    + apply dispatch_word; [reflexivity|]. apply word_string_u8. exact Hq.
    + apply dispatch_word; [reflexivity|]. apply word_string_prefixed; [cbn; tauto|exact Hq].
    + apply dispatch_word; [reflexivity|]. apply word_string_prefixed; [cbn; tauto|exact Hq].
    + apply dispatch_word; [reflexivity|]. apply word_string_prefixed; [cbn; tauto|exact Hq].
  - (* punctuator *)
    split; [|apply dispatch_punct; assumption].
    pose proof (row_first c row k Hin) as Hc. pose proof firsts_plain as S. rewrite forallb_forall in S. specialize (S c Hc).
    apply andb_true_iff in S as [_ S]. apply negb_true_iff in S. exact S.
  - split; [reflexivity|]. apply dispatch_slash; assumption.
  - split; [reflexivity|]. apply dispatch_slash_equals.
Qed.

(** THE THEOREM (one call) *)
Theorem C05_next_token : forall sp k w rest, sep sp -> valid_token k w rest ->
  forall wll fl0 fuel, (length sp < fuel)%nat ->
  exists fl, core false fuel (sp ++ w ++ rest) wll fl0 = (k, fl, w ++ rest, rest, false).
Proof.
  intros sp k w rest Hsp V wll fl0 fuel Hf.
  destruct (core_sep sp Hsp (w ++ rest) fuel wll fl0 Hf) as [f' [wll' [fl' E]]]. rewrite E.
  destruct (dispatch_token false (core false f') k w rest wll' fl' V) as [Hns D].
  exists fl'. rewrite core_S. rewrite (ws_stop _ wll' fl' _ Hns). exact D.
Qed.

(** the same, as yylex is called by Lexer::lex: from the state left by the previous call *)
Theorem C05_next_token_fetch : forall sp k w rest wll, sep sp -> valid_token k w rest ->
  exists fl, fetch false (sp ++ w ++ rest, wll) = ((k, fl, w ++ rest, rest), (rest, false)).
Proof.
  intros sp k w rest wll Hsp V. unfold fetch.
  destruct (C05_next_token sp k w rest Hsp V wll 0 (S (length (sp ++ w ++ rest))) ltac:(rewrite app_length; lia)) as [fl E].
  exists fl. rewrite E. reflexivity.
Qed.

(** ... and at the end of the text: exactly the end-of-file token, with an empty extent at the last byte *)
Theorem C05_end_of_file : forall sp wll, sep sp -> exists fl wll', fetch false (sp, wll) = ((K_EndOfFile, fl, [], []), ([], wll')).
Proof.
  intros sp wll Hsp. unfold fetch.
  destruct (core_sep sp Hsp [] (S (length sp)) wll 0 ltac:(lia)) as [f' [wll' [fl' E]]]. rewrite app_nil_r in E. rewrite E.
  exists fl', wll'. reflexivity.
Qed.

(** the statement is not empty: a token of every class, each after a separator of another kind *)
Example C05_tokens_nonvacuous :
  valid_token K_IdentifierToken [120; 49] [43] /\                                       (* x1 before + *)
  valid_token K_IntegerConstantToken [48; 120; 70; 70; 117; 76] [59] /\                   (* 0xFFuL before ; *)
  valid_token K_FloatingConstantToken [46; 53; 101; 45; 51; 102] [41] /\                  (* .5e-3f before ) *)
  valid_token (str_kind 56) ([117; 56] ++ 34 :: [97; 92; 110] ++ [34]) [] /\              (* u8"a\n" at the end of the text *)
  valid_token K_GreaterThanGreaterThanEqualsToken [62; 62; 61] [120] /\                  (* >>= before x *)
  sep ([32; 10] ++ 47 :: 42 :: [42; 32; 100; 111; 99; 32] ++ 42 :: 47 :: [9]) /\             (* space, new-line, a doc comment, tab *)
  sep (92 :: 10 :: 47 :: 47 :: [33; 120] ++ 10 :: []).                                   (* a line splice and a line comment *)
Proof.
  repeat split.
  - apply VT_ident; [apply Id; [reflexivity|repeat constructor]|split; [reflexivity|intros H; cbn in H; repeat (destruct H as [H|H]; [discriminate H|]); contradiction]].
  - apply VT_int; [exists [48; 120; 70; 70], [117; 76]; split; [reflexivity|split; [apply IB_hex; [reflexivity|repeat constructor]|cbn; tauto]]|split; [reflexivity|discriminate]].
  - apply VT_float; [apply (F_dot 53 [] [101; 45; 51] [102]); [repeat constructor|right; apply (Exp 101 69 101 [45] 51 []); [reflexivity|tauto|repeat constructor]|cbn; tauto]|split; [reflexivity|discriminate]].
  - apply (VT_str [117; 56] 56 [97; 92; 110] []); [cbn; tauto|apply Q_plain; try discriminate; try reflexivity; apply Q_esc; [reflexivity|apply Q_nil]].
  - apply (VT_punct 62 [62; 61]); [vm_compute; tauto|reflexivity|vm_compute; reflexivity].
  - apply Sep_ws; [reflexivity|]. apply Sep_ws; [reflexivity|]. apply Sep_block; [repeat constructor|reflexivity|]. apply Sep_ws; [reflexivity|apply Sep_nil].
  - apply Sep_splice. apply Sep_line; [repeat constructor|repeat constructor|apply Sep_nil].
Qed.

(* ------------------------------------------------------------------ the whole text *)
(** a text made of valid tokens and separators, with the tokens it is made of: (kind, text from the token's first byte, text after its last byte) *)
Inductive stream : list N -> list (N * list N * list N) -> Prop :=
| S_end sp : sep sp -> stream sp []
| S_tok sp k w rest l : sep sp -> valid_token k w rest -> k <> K_HashToken -> stream rest l ->
    stream (sp ++ w ++ rest) ((k, w ++ rest, rest) :: l).

Definition strip (t : Tk) : N * list N * list N := let '(k, _, a, b) := t in (k, a, b).

Lemma punct_kinds_not_comment : forallb (fun r => negb (is_comment (snd r)) && negb (snd r =? K_EndOfFile)) punct_table = true.
Proof. vm_compute. reflexivity. Qed.

Lemma valid_kind k w rest : valid_token k w rest -> is_comment k = false /\ (k =? K_EndOfFile) = false.
Proof.
  intros V. destruct V as [| | |p pk body rest Hp _|p pk body rest Hp _|c row k rest Hin _ _| |]; try (split; reflexivity).
  - cbn in Hp. destruct Hp as [Hp|[Hp|[Hp|[Hp|[]]]]]; inversion Hp; subst; split; reflexivity.
  - cbn in Hp. destruct Hp as [Hp|[Hp|[Hp|[Hp|[Hp|[]]]]]]; inversion Hp; subst; split; reflexivity.
  - pose proof punct_kinds_not_comment as S. rewrite forallb_forall in S. specialize (S _ Hin). cbn [snd] in S.
    apply andb_true_iff in S as [S1 S2]. apply negb_true_iff in S1, S2. split; assumption.
Qed.

(** the loop of Lexer::lex over a stream: from the state (s, wll) in which the next yylex call starts *)
Lemma drive_stream l : forall s, stream s l -> forall wll acc fuel, (length l < fuel)%nat ->
  let '(t0, st0) := fetch false (s, wll) in
  map strip (drive false fuel t0 st0 acc) = map strip (rev acc) ++ l ++ [(K_EndOfFile, [], [])].
Proof.
  induction 1 as [sp Hsp|sp k w rest l Hsp V Hk Hst IH]; intros wll acc fuel Hf.
  - destruct (C05_end_of_file sp wll Hsp) as [fl [wll' E]]. rewrite E.
    destruct fuel as [|f]; [cbn in Hf; lia|]. cbn [drive].
    unfold t_sol, t_kind, at_eof, is_comment. cbn [t_kind]. 
    change (K_EndOfFile =? K_HashToken) with false. rewrite andb_false_r.
    change ((K_EndOfFile =? K_MultiLineCommentTrivia) || (K_EndOfFile =? K_MultiLineDocumentationCommentTrivia) || (K_EndOfFile =? K_SingleLineCommentTrivia)
            || (K_EndOfFile =? K_SingleLineDocumentationCommentTrivia) || (K_EndOfFile =? K_Keyword_ExtPSY_omission)) with false.
    cbn [andb]. change (K_EndOfFile =? K_EndOfFile) with true. cbv iota.
    cbn [rev]. rewrite map_app. cbn [map strip app]. reflexivity.
  - destruct (C05_next_token_fetch sp k w rest wll Hsp V) as [fl E]. rewrite E.
    destruct fuel as [|f]; [cbn in Hf; lia|]. cbn [drive].
    destruct (valid_kind k w rest V) as [NC NE].
    assert (NH : (k =? K_HashToken) = false) by (apply N.eqb_neq; exact Hk).
    unfold t_kind at 1. rewrite NH. rewrite andb_false_r.
    unfold t_kind at 1. rewrite NC. cbn [andb]. unfold at_eof, t_kind. rewrite NE.
    specialize (IH false ((k, fl, w ++ rest, rest) :: acc) f ltac:(cbn in Hf; lia)).
    destruct (fetch false (rest, false)) as [t' st'] eqn:F. eapply eq_trans; [exact IH|].
    cbn [rev]. rewrite map_app. cbn [map strip]. rewrite <- app_assoc. reflexivity.
Qed.

Lemma valid_token_nonempty k w rest : valid_token k w rest -> (0 < length w)%nat.
Proof.
  intros V. destruct V as [w rest Hw _|w rest Hw _|w rest Hw _|p pk body rest _ _|p pk body rest _ _|c row k rest _ _ _|rest _ _ _|rest]; cbn [length]; try lia.
  - destruct Hw. cbn. lia.
  - destruct Hw as [body [suf [-> [Hb _]]]]. rewrite app_length. destruct Hb; cbn; lia.
  - destruct Hw; cbn [app length]; try (rewrite ?app_length; cbn; lia); lia.
  - rewrite app_length. cbn. lia.
  - rewrite app_length. cbn. lia.
Qed.

Lemma stream_length s l : stream s l -> (length l <= length s)%nat.
Proof.
  induction 1 as [|sp k w rest l _ V _ _ IH]; cbn [length]; [lia|].
  pose proof (valid_token_nonempty k w rest V). rewrite !app_length. lia.
Qed.

(** THE THEOREM (whole text): the token loop of Lexer::lex, started as the Lexer starts (one new-line before the text, not within a logical line),
    delivers exactly the tokens the text is made of, in order, each with its kind and its first and last byte, then exactly one end-of-file token
    with an empty extent at the end of the text.  (lex_all, which the correspondence check runs, maps these suffixes to byte and UTF-16 positions.) *)
Theorem C05_token_sequence : forall text l, stream (10 :: text) l ->
  map strip (let '(t0, st0) := fetch false (10 :: text, false) in drive false (2 * length (10 :: text) + 4) t0 st0 []) = l ++ [(K_EndOfFile, [], [])].
Proof.
  intros text l H. pose proof (stream_length _ _ H) as L.
  pose proof (drive_stream l (10 :: text) H false [] (2 * length (10 :: text) + 4) ltac:(lia)) as D.
  destruct (fetch false (10 :: text, false)) as [t0 st0]. exact D.
Qed.

Example C05_stream_nonvacuous :
  stream (10 :: [105; 110; 116; 32; 120; 61; 48; 120; 49; 70; 59; 10])                       (* "int x=0x1F;\n" *)
         [(K_IdentifierToken, [105; 110; 116; 32; 120; 61; 48; 120; 49; 70; 59; 10], [32; 120; 61; 48; 120; 49; 70; 59; 10]);
          (K_IdentifierToken, [120; 61; 48; 120; 49; 70; 59; 10], [61; 48; 120; 49; 70; 59; 10]);
          (K_EqualsToken, [61; 48; 120; 49; 70; 59; 10], [48; 120; 49; 70; 59; 10]);
          (K_IntegerConstantToken, [48; 120; 49; 70; 59; 10], [59; 10]);
          (K_SemicolonToken, [59; 10], [10])].
Proof.
  apply (S_tok [10] K_IdentifierToken [105; 110; 116] [32; 120; 61; 48; 120; 49; 70; 59; 10]);
    [apply Sep_ws; [reflexivity|apply Sep_nil]
    |apply VT_ident; [apply Id; [reflexivity|repeat constructor]|split; [reflexivity|intros H; cbn in H; repeat (destruct H as [H|H]; [discriminate H|]); contradiction]]
    |discriminate|].
  apply (S_tok [32] K_IdentifierToken [120] [61; 48; 120; 49; 70; 59; 10]);
    [apply Sep_ws; [reflexivity|apply Sep_nil]
    |apply VT_ident; [apply Id; [reflexivity|constructor]|split; [reflexivity|intros H; cbn in H; repeat (destruct H as [H|H]; [discriminate H|]); contradiction]]
    |discriminate|].
  apply (S_tok [] K_EqualsToken [61] [48; 120; 49; 70; 59; 10]); [apply Sep_nil|apply (VT_punct 61 []); [vm_compute; tauto|reflexivity|vm_compute; reflexivity]|discriminate|].
  apply (S_tok [] K_IntegerConstantToken [48; 120; 49; 70] [59; 10]);
    [apply Sep_nil|apply VT_int; [exists [48; 120; 49; 70], []; split; [reflexivity|split; [apply IB_hex; [reflexivity|repeat constructor]|cbn; tauto]]|split; [reflexivity|discriminate]]|discriminate|].
  apply (S_tok [] K_SemicolonToken [59] [10]); [apply Sep_nil|apply (VT_punct 59 []); [vm_compute; tauto|reflexivity|vm_compute; reflexivity]|discriminate|].
  apply S_end. apply Sep_ws; [reflexivity|apply Sep_nil].
Qed.


Print Assumptions C05_next_token.
Print Assumptions C05_next_token_fetch.
Print Assumptions C05_end_of_file.
Print Assumptions C05_token_sequence.
