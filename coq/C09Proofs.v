From Coq Require Import List NArith Bool Arith Lia.
From PV Require Import C09Model.
Import ListNotations.

Section TrInd.
  Variable P : tr -> Prop.
  Hypothesis Hl : P Leaf.
  Hypothesis Hn : forall c kids, Forall (fun sk => P (snd sk)) kids -> P (Node c kids).
  Hypothesis Ha : forall a b, P a -> P b -> P (Amb a b).
  Fixpoint tr_ind' (t : tr) : P t :=
    match t with
    | Leaf => Hl
    | Node c kids => Hn c kids ((fix go (l : list (nat * tr)) : Forall (fun sk => P (snd sk)) l :=
                                   match l with [] => Forall_nil _ | x :: l' => Forall_cons x (tr_ind' (snd x)) (go l') end) kids)
    | Amb a b => Ha a b (tr_ind' a) (tr_ind' b)
    end.
End TrInd.

Definition good handled pick (t : tr) : Prop := exists t', dis handled pick t = Some t' /\ noamb t' = true.

(** when every slot is handled and decisions are conclusive, the traversal completes and leaves no ambiguity node *)
Lemma dis_complete_gen handled pick : (forall c s, handled c s = true) ->
  forall t, wf t = true ->
  match t with Amb a b => good handled pick a /\ good handled pick b | _ => good handled pick t end.
Proof.
  intros Hh. induction t using tr_ind'; intros Hwf.
  - exists Leaf. split; reflexivity.
  - cbn [wf] in Hwf. unfold good. cbn [dis].
    assert (exists l', (fix go (l : list (nat * tr)) : option (list (nat * tr)) :=
              match l with
              | [] => Some []
              | (s, k) :: l' =>
                  match (if handled c s then match k with Amb a b => if pick a b then dis handled pick a else dis handled pick b | _ => dis handled pick k end else dis handled pick k),
                        go l' with Some x, Some y => Some ((s, x) :: y) | _, _ => None end
              end) kids = Some l' /\ forallb (fun sk => noamb (snd sk)) l' = true) as [l' [E N]].
    { induction kids as [|[s k] kids IHk]; [exists []; split; reflexivity|].
      inversion H as [|? ? Hk Hrest]; subst. cbn [forallb snd] in Hwf. apply andb_true_iff in Hwf as [Wk Wr].
      destruct (IHk Hrest Wr) as [l' [E N]]. rewrite E. rewrite Hh. cbn [snd] in Hk. specialize (Hk Wk).
      destruct k as [|c' kids'|a b].
      - destruct Hk as [x [Ex Nx]]. rewrite Ex. exists ((s, x) :: l'). split; [reflexivity|]. cbn [forallb snd]. rewrite Nx, N. reflexivity.
      - destruct Hk as [x [Ex Nx]]. rewrite Ex. exists ((s, x) :: l'). split; [reflexivity|]. cbn [forallb snd]. rewrite Nx, N. reflexivity.
      - destruct Hk as [[x [Ex Nx]] [y [Ey Ny]]]. destruct (pick a b).
        + rewrite Ex. exists ((s, x) :: l'). split; [reflexivity|]. cbn [forallb snd]. rewrite Nx, N. reflexivity.
        + rewrite Ey. exists ((s, y) :: l'). split; [reflexivity|]. cbn [forallb snd]. rewrite Ny, N. reflexivity. }
    rewrite E. cbn. exists (Node c l'). split; [reflexivity|]. cbn [noamb]. exact N.
  - cbn [wf] in Hwf. apply andb_true_iff in Hwf as [Hwf Wb]. apply andb_true_iff in Hwf as [Hwf Wa]. apply andb_true_iff in Hwf as [Pa Pb].
    specialize (IHt1 Wa). specialize (IHt2 Wb). split.
    + destruct t1; [exact IHt1|exact IHt1|discriminate Pa].
    + destruct t2; [exact IHt2|exact IHt2|discriminate Pb].
Qed.

Lemma dis_complete handled pick : (forall c s, handled c s = true) ->
  forall t, wf t = true -> plain t = true -> exists t', dis handled pick t = Some t' /\ noamb t' = true.
Proof.
  intros Hh t Hwf Hp. pose proof (dis_complete_gen handled pick Hh t Hwf) as H. destruct t; [exact H|exact H|discriminate Hp].
Qed.

(** and an unhandled slot holding an ambiguity node makes the traversal quit with the node still there *)
Lemma dis_unhandled handled pick c s a b rest : handled c s = false -> dis handled pick (Node c ((s, Amb a b) :: rest)) = None.
Proof. intros H. cbn [dis]. rewrite H. cbn [dis]. reflexivity. Qed.

(* ------------------------------------------------------------------ the name catalogue *)
Definition ment_t (l : list item) (n : N) : bool := existsb (fun it => match it with IType m => N.eqb m n | _ => false end) l.
Definition ment_n (l : list item) (n : N) : bool := existsb (fun it => match it with INon m => N.eqb m n | _ => false end) l.

Lemma mt_t n r m : ment_t (IType n :: r) m = N.eqb n m || ment_t r m.  Proof. reflexivity. Qed.
Lemma mt_n n r m : ment_t (INon n :: r) m = ment_t r m.  Proof. reflexivity. Qed.
Lemma mn_t n r m : ment_n (IType n :: r) m = ment_n r m.  Proof. reflexivity. Qed.
Lemma mn_n n r m : ment_n (INon n :: r) m = N.eqb n m || ment_n r m.  Proof. reflexivity. Qed.
Lemma mt_b b r m : ment_t (IBlock b :: r) m = ment_t r m.  Proof. reflexivity. Qed.
Lemma mn_b b r m : ment_n (IBlock b :: r) m = ment_n r m.  Proof. reflexivity. Qed.
Lemma mt_s i n r m : ment_t (ISite i n :: r) m = ment_t r m.  Proof. reflexivity. Qed.
Lemma mn_s i n r m : ment_n (ISite i n :: r) m = ment_n r m.  Proof. reflexivity. Qed.
Ltac mm := rewrite ?mt_t, ?mt_n, ?mn_t, ?mn_n, ?mt_b, ?mn_b, ?mt_s, ?mn_s.
Ltac mmin H := rewrite ?mt_t, ?mt_n, ?mn_t, ?mn_n, ?mt_b, ?mn_b, ?mt_s, ?mn_s in H.

Lemma depth_remove_same l n : depth_of (remove l n) n = None.
Proof. induction l as [|[m d] l IH]; cbn; [reflexivity|]. destruct (N.eqb_spec n m); [exact IH|]. cbn. destruct (N.eqb_spec n m); [contradiction|exact IH]. Qed.
Lemma depth_remove_other l n m : m <> n -> depth_of (remove l n) m = depth_of l m.
Proof.
  intros Hne. induction l as [|[k d] l IH]; cbn; [reflexivity|]. destruct (N.eqb_spec n k) as [->|].
  - destruct (N.eqb_spec m k); [contradiction|exact IH].
  - cbn. destruct (N.eqb_spec m k); [reflexivity|exact IH].
Qed.

(** the effect of one catalogUse on both maps, in terms of depths *)
Lemma use_in_own own other d n m :
  depth_of (fst (use_in own other d n)) m =
  if N.eqb m n then (match depth_of own n with Some k => Some k | None => Some d end) else depth_of own m.
Proof.
  unfold use_in, has. cbn [fst]. destruct (depth_of own n) eqn:E.
  - destruct (N.eqb_spec m n) as [->|]; [exact E|reflexivity].
  - cbn [depth_of]. destruct (N.eqb_spec m n) as [->|]; reflexivity.
Qed.
Lemma use_in_other own other d n m :
  depth_of (snd (use_in own other d n)) m =
  if N.eqb m n then (match depth_of other n with Some k => if Nat.ltb k d then None else Some k | None => None end) else depth_of other m.
Proof.
  unfold use_in. cbn [snd]. destruct (depth_of other n) as [k|] eqn:E.
  - destruct (Nat.ltb k d).
    + destruct (N.eqb_spec m n) as [->|Hne]; [apply depth_remove_same|apply depth_remove_other; exact Hne].
    + destruct (N.eqb_spec m n) as [->|]; [exact E|reflexivity].
  - destruct (N.eqb_spec m n) as [->|]; [exact E|reflexivity].
Qed.

Definition pre (d : nat) (c : cat) (l : list item) : Prop :=
  (forall m k, depth_of (tys c) m = Some k -> k < d \/ ment_n l m = false) /\
  (forall m k, depth_of (nts c) m = Some k -> k < d \/ ment_t l m = false) /\
  (forall m, ment_t l m && ment_n l m = false).

Definition hasb (o : option nat) : bool := match o with Some _ => true | None => false end.

(** the catalogue of a block after all its own mentions, for every start catalogue and item list *)
Lemma final_char d : forall l c, pre d c l -> forall m,
  has (tys (final_of d c l)) m = ment_t l m || (has (tys c) m && negb (ment_n l m)) /\
  has (nts (final_of d c l)) m = ment_n l m || (has (nts c) m && negb (ment_t l m)).
Proof.
  induction l as [|it r IH]; intros c [P1 [P2 P3]] m.
  - cbn. rewrite !andb_true_r. split; reflexivity.
  - unfold final_of. cbn [fold_left]. fold (final_of d (step d c it) r).
    destruct it as [n|n|b|id n].
    + (* a use as a type *)
      assert (Hsc : ment_n r n = false).
      { specialize (P3 n). mmin P3. rewrite N.eqb_refl in P3. cbn in P3. exact P3. }
      set (c1 := step d c (IType n)).
      assert (Dt : forall x, depth_of (tys c1) x = if N.eqb x n then (match depth_of (tys c) n with Some k => Some k | None => Some d end) else depth_of (tys c) x).
      { intros x. unfold c1, step, use_type. pose proof (use_in_own (tys c) (nts c) d n x) as H. destruct (use_in (tys c) (nts c) d n). exact H. }
      assert (Dn : forall x, depth_of (nts c1) x = if N.eqb x n then (match depth_of (nts c) n with Some k => if Nat.ltb k d then None else Some k | None => None end) else depth_of (nts c) x).
      { intros x. unfold c1, step, use_type. pose proof (use_in_other (tys c) (nts c) d n x) as H. destruct (use_in (tys c) (nts c) d n). exact H. }
      assert (Hn_gone : depth_of (nts c1) n = None).
      { rewrite Dn, N.eqb_refl. destruct (depth_of (nts c) n) as [k|] eqn:E; [|reflexivity].
        destruct (Nat.ltb_spec k d); [reflexivity|]. destruct (P2 n k E) as [H1|H1]; [lia|]. mmin H1. rewrite N.eqb_refl in H1. discriminate. }
      assert (Hpre : pre d c1 r).
      { split; [|split].
        - intros x k Hx. rewrite Dt in Hx. destruct (N.eqb_spec x n) as [->|Hne]; [right; exact Hsc|].
          destruct (P1 x k Hx) as [H1|H1]; [left; exact H1|right]. mmin H1. exact H1.
        - intros x k Hx. destruct (N.eqb_spec x n) as [->|Hne]; [rewrite Hn_gone in Hx; discriminate|].
          rewrite Dn in Hx. destruct (N.eqb_spec x n); [contradiction|]. destruct (P2 x k Hx) as [H1|H1]; [left; exact H1|right].
          mmin H1. destruct (N.eqb_spec n x); [congruence|]. exact H1.
        - intros x. specialize (P3 x). mmin P3. destruct (N.eqb n x); cbn in P3; [|exact P3].
          destruct (ment_n r x); [discriminate|]. apply andb_false_r. }
      destruct (IH c1 Hpre m) as [A B]. rewrite A, B. unfold has. mm.
      destruct (N.eqb_spec m n) as [->|Hne].
      * pose proof Hn_gone as G. rewrite Dn, N.eqb_refl in G. rewrite Dt, Dn, !N.eqb_refl, G, Hsc. cbn [negb orb]. rewrite andb_true_r. split.
        -- destruct (depth_of (tys c) n); cbn; rewrite ?orb_true_r; reflexivity.
        -- cbn. rewrite andb_false_r. reflexivity.
      * rewrite Dt, Dn. destruct (N.eqb_spec m n); [contradiction|]. destruct (N.eqb_spec n m); [congruence|]. cbn [orb]. split; reflexivity.
    + (* a use as a non-type: symmetric *)
      assert (Hsc : ment_t r n = false).
      { specialize (P3 n). mmin P3. rewrite N.eqb_refl in P3. cbn in P3. rewrite andb_true_r in P3. exact P3. }
      set (c1 := step d c (INon n)).
      assert (Dn : forall x, depth_of (nts c1) x = if N.eqb x n then (match depth_of (nts c) n with Some k => Some k | None => Some d end) else depth_of (nts c) x).
      { intros x. unfold c1, step, use_nontype. pose proof (use_in_own (nts c) (tys c) d n x) as H. destruct (use_in (nts c) (tys c) d n). exact H. }
      assert (Dt : forall x, depth_of (tys c1) x = if N.eqb x n then (match depth_of (tys c) n with Some k => if Nat.ltb k d then None else Some k | None => None end) else depth_of (tys c) x).
      { intros x. unfold c1, step, use_nontype. pose proof (use_in_other (nts c) (tys c) d n x) as H. destruct (use_in (nts c) (tys c) d n). exact H. }
      assert (Ht_gone : depth_of (tys c1) n = None).
      { rewrite Dt, N.eqb_refl. destruct (depth_of (tys c) n) as [k|] eqn:E; [|reflexivity].
        destruct (Nat.ltb_spec k d); [reflexivity|]. destruct (P1 n k E) as [H1|H1]; [lia|]. mmin H1. rewrite N.eqb_refl in H1. discriminate. }
      assert (Hpre : pre d c1 r).
      { split; [|split].
        - intros x k Hx. destruct (N.eqb_spec x n) as [->|Hne]; [rewrite Ht_gone in Hx; discriminate|].
          rewrite Dt in Hx. destruct (N.eqb_spec x n); [contradiction|]. destruct (P1 x k Hx) as [H1|H1]; [left; exact H1|right].
          mmin H1. destruct (N.eqb_spec n x); [congruence|]. exact H1.
        - intros x k Hx. rewrite Dn in Hx. destruct (N.eqb_spec x n) as [->|Hne]; [right; exact Hsc|].
          destruct (P2 x k Hx) as [H1|H1]; [left; exact H1|right]. mmin H1. exact H1.
        - intros x. specialize (P3 x). mmin P3. destruct (N.eqb n x); cbn in P3; [|exact P3].
          rewrite andb_true_r in P3. rewrite P3. reflexivity. }
      destruct (IH c1 Hpre m) as [A B]. rewrite A, B. unfold has. mm.
      destruct (N.eqb_spec m n) as [->|Hne].
      * pose proof Ht_gone as G. rewrite Dt, N.eqb_refl in G. rewrite Dt, Dn, !N.eqb_refl, G, Hsc. cbn [negb orb]. rewrite andb_true_r. split.
        -- cbn. rewrite andb_false_r. reflexivity.
        -- destruct (depth_of (nts c) n); cbn; rewrite ?orb_true_r; reflexivity.
      * rewrite Dt, Dn. destruct (N.eqb_spec m n); [contradiction|]. destruct (N.eqb_spec n m); [congruence|]. cbn [orb]. split; reflexivity.
    + cbn [step]. apply IH. destruct (conj P1 (conj P2 P3)) as [Q1 [Q2 Q3]]. split; [|split]; [exact Q1|exact Q2|exact Q3].
    + cbn [step]. apply IH. split; [|split]; [exact P1|exact P2|exact P3].
Qed.

(* ------------------------------------------------------------------ composition over nesting: the catalogue against a scoping environment *)
(** a scoping environment: the declarations (and consistent uses) in view, innermost / most recent first; true = type *)
Definition senv := list (N * bool).
Fixpoint slook (e : senv) (n : N) : option bool :=
  match e with [] => None | (m, b) :: e' => if N.eqb n m then Some b else slook e' n end.
(** the items of a block, most recent first, as environment entries *)
Fixpoint entries (l : list item) (acc : senv) : senv :=
  match l with
  | [] => acc
  | IType n :: r => entries r ((n, true) :: acc)
  | INon n :: r => entries r ((n, false) :: acc)
  | _ :: r => entries r acc
  end.

Definition agrees (c : cat) (e : senv) : Prop :=
  forall n, has (tys c) n = (match slook e n with Some true => true | _ => false end) /\
            has (nts c) n = (match slook e n with Some false => true | _ => false end).

Lemma slook_entries l : forall acc n,
  (forall m, ment_t l m && ment_n l m = false) ->
  slook (entries l acc) n = if ment_t l n then Some true else if ment_n l n then Some false else slook acc n.
Proof.
  induction l as [|it r IH]; intros acc n Hs; [reflexivity|].
  assert (Hr : forall m, ment_t r m && ment_n r m = false).
  { intros m. specialize (Hs m). destruct it; mmin Hs; try exact Hs.
    - destruct (N.eqb n0 m); cbn in Hs; [destruct (ment_n r m); [discriminate|apply andb_false_r]|exact Hs].
    - destruct (N.eqb n0 m); cbn in Hs; [rewrite andb_true_r in Hs; rewrite Hs; reflexivity|exact Hs]. }
  destruct it as [m|m|b|i m]; cbn [entries]; mm; rewrite (IH _ n Hr); cbn [slook].
  - specialize (Hs n). mmin Hs. destruct (N.eqb_spec m n) as [->|Hne].
    + cbn [orb] in *. cbn in Hs. rewrite N.eqb_refl. destruct (ment_t r n); [reflexivity|]. rewrite Hs. reflexivity.
    + cbn [orb]. destruct (N.eqb_spec n m); [congruence|]. reflexivity.
  - specialize (Hs n). mmin Hs. destruct (N.eqb_spec m n) as [->|Hne].
    + cbn [orb] in *. rewrite N.eqb_refl. rewrite andb_true_r in Hs. rewrite Hs. destruct (ment_n r n); reflexivity.
    + cbn [orb]. destruct (N.eqb_spec n m); [congruence|]. reflexivity.
  - reflexivity.
  - reflexivity.
Qed.

(** a block keeps the catalogue in agreement with the scoping environment: its final catalogue
    agrees with the enclosing environment extended by all of the block's own mentions *)
Lemma block_agrees d l c e : pre d c l -> agrees c e -> agrees (final_of d c l) (entries l e).
Proof.
  intros Hp Ha n. destruct (final_char d l c Hp n) as [A B]. destruct Hp as [_ [_ P3]]. destruct (Ha n) as [A0 B0].
  rewrite A, B, A0, B0, (slook_entries l e n P3). pose proof (P3 n) as Hn.
  destruct (ment_t l n), (ment_n l n); cbn in *; try discriminate; split; try reflexivity;
    destruct (slook e n) as [[|]|]; reflexivity.
Qed.

(** the decisions, read off an environment that agrees with the catalogue *)
Definition reading (e : senv) (n : N) : decision :=
  match slook e n with Some true => KeepType | Some false => KeepNonType | None => Inconclusive end.
Lemma decide_agrees c e n : agrees c e -> decide_expr c n = reading e n /\ decide_stmt c n = reading e n.
Proof.
  intros Ha. destruct (Ha n) as [A B]. unfold decide_expr, decide_stmt, reading. rewrite A, B.
  destruct (slook e n) as [[|]|]; split; reflexivity.
Qed.

(* ---- over arbitrary nesting *)
Definition depth_le (d : nat) (c : cat) : Prop :=
  (forall m k, depth_of (tys c) m = Some k -> k <= d) /\ (forall m k, depth_of (nts c) m = Some k -> k <= d).

Lemma step_depth d c it : depth_le d c -> depth_le d (step d c it).
Proof.
  intros [A B]. destruct it as [n|n|b|i n]; cbn [step]; try (split; assumption).
  - unfold use_type. pose proof (use_in_own (tys c) (nts c) d n) as Ho. pose proof (use_in_other (tys c) (nts c) d n) as Hx.
    destruct (use_in (tys c) (nts c) d n) as [a b]. cbn [fst snd tys nts] in *. split; intros m k Hk.
    + rewrite Ho in Hk. destruct (N.eqb m n); [destruct (depth_of (tys c) n) eqn:E; inversion Hk; subst; [eapply A; eauto|lia]|eapply A; eauto].
    + rewrite Hx in Hk. destruct (N.eqb m n); [destruct (depth_of (nts c) n) as [k'|] eqn:E; [destruct (Nat.ltb k' d); inversion Hk; subst; eapply B; eauto|discriminate]|eapply B; eauto].
  - unfold use_nontype. pose proof (use_in_own (nts c) (tys c) d n) as Ho. pose proof (use_in_other (nts c) (tys c) d n) as Hx.
    destruct (use_in (nts c) (tys c) d n) as [a b]. cbn [fst snd tys nts] in *. split; intros m k Hk.
    + rewrite Hx in Hk. destruct (N.eqb m n); [destruct (depth_of (tys c) n) as [k'|] eqn:E; [destruct (Nat.ltb k' d); inversion Hk; subst; eapply A; eauto|discriminate]|eapply A; eauto].
    + rewrite Ho in Hk. destruct (N.eqb m n); [destruct (depth_of (nts c) n) eqn:E; inversion Hk; subst; [eapply B; eauto|lia]|eapply B; eauto].
Qed.

Lemma depth_le_S d c : depth_le d c -> depth_le (S d) c.
Proof. intros [A B]. split; intros m k H; [specialize (A m k H)|specialize (B m k H)]; lia. Qed.

(** one item's effect on the scoping environment *)
Definition estep (e : senv) (it : item) : senv :=
  match it with IType n => (n, true) :: e | INon n => (n, false) :: e | _ => e end.
Lemma entries_estep l : forall e, entries l e = fold_left estep l e.
Proof. induction l as [|[n|n|b|i n] r IH]; intros e; cbn [entries fold_left estep]; auto. Qed.

(** a block mentions no name in both categories — at every level *)
Fixpoint single (it : item) : Prop :=
  match it with
  | IBlock sub => (forall m, ment_t sub m && ment_n sub m = false) /\
                  (fix all (l : list item) : Prop := match l with [] => True | x :: r => single x /\ all r end) sub
  | _ => True
  end.
Fixpoint singles (l : list item) : Prop := match l with [] => True | x :: r => single x /\ singles r end.

(** the specification's sites: same traversal, with scoping environments instead of catalogues *)
Fixpoint spec_sites (ef e : senv) (it : item) : list (nat * N * senv) :=
  match it with
  | ISite id n => [(id, n, ef)]
  | IBlock sub =>
      let ef' := entries sub e in
      (fix go (e' : senv) (l : list item) : list (nat * N * senv) :=
         match l with
         | [] => []
         | x :: r => spec_sites ef' e' x ++ go (estep e' x) r
         end) e sub
  | _ => []
  end.

Definition site_ok (s : nat * N * cat) (s' : nat * N * senv) : Prop :=
  fst (fst s) = fst (fst s') /\ snd (fst s) = snd (fst s') /\ agrees (snd s) (snd s').

Section ItemInd.
  Variable P : item -> Prop.
  Hypothesis Ht : forall n, P (IType n).
  Hypothesis Hn : forall n, P (INon n).
  Hypothesis Hs : forall i n, P (ISite i n).
  Hypothesis Hb : forall sub, Forall P sub -> P (IBlock sub).
  Fixpoint item_ind' (it : item) : P it :=
    match it with
    | IType n => Ht n | INon n => Hn n | ISite i n => Hs i n
    | IBlock sub => Hb sub ((fix go (l : list item) : Forall P l := match l with [] => Forall_nil P | x :: r => Forall_cons x (item_ind' x) (go r) end) sub)
    end.
End ItemInd.

Lemma step_agrees d c e it : (match it with IType n | INon n => pre d c [it] | _ => True end) -> agrees c e -> agrees (step d c it) (estep e it).
Proof.
  intros Hp Ha. destruct it as [n|n|b|i n]; cbn [step estep]; try exact Ha.
  - apply (block_agrees d [IType n] c e Hp Ha).
  - apply (block_agrees d [INon n] c e Hp Ha).
Qed.

Lemma singles_all l : (fix all (l : list item) : Prop := match l with [] => True | x :: r => single x /\ all r end) l = singles l.
Proof. induction l as [|x r IH]; cbn; [reflexivity|]. rewrite IH. reflexivity. Qed.

Lemma ment_t_app a b m : ment_t (a ++ b) m = ment_t a m || ment_t b m.
Proof. unfold ment_t. apply existsb_app. Qed.
Lemma ment_n_app a b m : ment_n (a ++ b) m = ment_n a m || ment_n b m.
Proof. unfold ment_n. apply existsb_app. Qed.

Lemma final_depth d l : forall c, depth_le d c -> depth_le d (final_of d c l).
Proof. unfold final_of. induction l as [|x r IH]; intros c H; [exact H|]. cbn [fold_left]. apply IH. apply step_depth. exact H. Qed.

Lemma pre_of_depth d c l : depth_le d c -> (forall m, ment_t l m && ment_n l m = false) -> pre (S d) c l.
Proof.
  intros [A B] Hs. split; [|split]; [intros m k H; left; specialize (A m k H); lia|intros m k H; left; specialize (B m k H); lia|exact Hs].
Qed.

(** THE COMPOSITION: for every nesting of blocks in which no block mentions a name in both categories, every
    site is decided with a catalogue that agrees with the scoping environment made of the enclosing blocks'
    mentions up to the point of entry and ALL of its own block's mentions *)
Lemma sites_agree : forall it d cf c ef e, agrees cf ef -> agrees c e -> depth_le d c -> single it ->
  Forall2 site_ok (sites d cf c it) (spec_sites ef e it).
Proof.
  induction it using item_ind'; intros d cf c ef e Hcf Hc Hd Hs; cbn [sites spec_sites]; try constructor.
  - unfold site_ok; cbn [fst snd]; split; [reflexivity|split; [reflexivity|exact Hcf]].
  - constructor.
  - (* a nested block *)
    destruct Hs as [Hsc Hall]. rewrite singles_all in Hall.
    set (cf' := final_of (S d) c sub). set (ef' := entries sub e).
    assert (Hpre : pre (S d) c sub) by (apply pre_of_depth; assumption).
    assert (Hcf' : agrees cf' ef') by (apply block_agrees; assumption).
    (* the loop, generalised over the items already passed *)
    assert (Loop : forall rest pre_items, sub = pre_items ++ rest ->
              Forall2 site_ok
                ((fix go (c' : cat) (l : list item) : list (nat * N * cat) :=
                    match l with [] => [] | x :: r => sites (S d) cf' c' x ++ go (step (S d) c' x) r end) (final_of (S d) c pre_items) rest)
                ((fix go (e' : senv) (l : list item) : list (nat * N * senv) :=
                    match l with [] => [] | x :: r => spec_sites ef' e' x ++ go (estep e' x) r end) (entries pre_items e) rest)).
    { induction rest as [|x r IHr]; intros pre_items Heq; [constructor|].
      assert (Hin : In x sub) by (rewrite Heq; apply in_or_app; right; left; reflexivity).
      assert (Hsp : forall m, ment_t pre_items m && ment_n pre_items m = false).
      { intros m. specialize (Hsc m). rewrite Heq, ment_t_app, ment_n_app in Hsc.
        destruct (ment_t pre_items m), (ment_n pre_items m); cbn in *; try reflexivity; try discriminate. }
      assert (Hprep : pre (S d) c pre_items) by (apply pre_of_depth; assumption).
      apply Forall2_app.
      - rewrite Forall_forall in H. apply (H x Hin); [exact Hcf'|apply block_agrees; assumption|apply final_depth; apply depth_le_S; exact Hd|].
        clear - Hall Hin. induction sub as [|y l IHl]; [destruct Hin|]. cbn in Hall. destruct Hall as [Hy Hl]. destruct Hin as [->|Hin]; [exact Hy|apply IHl; assumption].
      - specialize (IHr (pre_items ++ [x])). rewrite <- app_assoc in IHr. specialize (IHr Heq).
        unfold final_of in IHr. rewrite fold_left_app in IHr. cbn [fold_left] in IHr.
        rewrite (entries_estep (pre_items ++ [x])), fold_left_app in IHr. cbn [fold_left] in IHr. rewrite <- entries_estep in IHr.
        exact IHr. }
    apply (Loop sub []). reflexivity.
Qed.
