(** Request decoder for the C16 model: chars (0 = line break, w > 0 = a character of width w), -1,
    directives as pairs (offset, line), -1, query offsets.  Answer per query offset:
    reported line, column, raw line index, length of the excerpt in characters. *)
From Coq Require Import ZArith List Bool.
From PV Require Import C16Model.
Import ListNotations.
Local Open Scope Z_scope.

Fixpoint split_at (l : list Z) (acc : list Z) : list Z * list Z :=
  match l with
  | [] => (rev acc, [])
  | x :: l' => if x =? -1 then (rev acc, l') else split_at l' (x :: acc)
  end.
Fixpoint pairs (l : list Z) : list (nat * Z) :=
  match l with a :: b :: l' => (Z.to_nat a, b) :: pairs l' | _ => [] end.
Definition to_ch (z : Z) : ch := if z =? 0 then NL else C (Z.to_nat z).

Definition run (req : list Z) : list Z :=
  let (cs, r1) := split_at req [] in
  let (ds, qs) := split_at r1 [] in
  let t := map to_ch cs in
  let ls := line_starts t in
  let dirs := pairs ds in
  flat_map (fun q =>
    let off := Z.to_nat q in
    let p := compute_position ls dirs off in
    [fst p; Z.of_nat (snd p); Z.of_nat (search_lineno ls off); Z.of_nat (length (excerpt t ls off))]) qs.
