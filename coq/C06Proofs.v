(** C06 / C03 — the precedence-climbing loop loses, duplicates and reorders no token: the in-order
    token string of the tree it returns, followed by the unconsumed rest, is its input.  For every
    table, every fuel, every token string. *)
From Coq Require Import List ZArith Bool Lia.
From PV Require Import C06Model.
Import ListNotations.
Local Open Scope Z_scope.

Section Lossless.
Variable prec : Z -> Z.
Variable rassoc : Z -> bool.
Variable isnary : Z -> bool.
Variables ATOM LPAREN RPAREN QUESTION COLON : Z.
Variables P_SEQ P_ASSIGN : Z.

Notation climb := (climb prec rassoc isnary ATOM LPAREN RPAREN QUESTION COLON P_SEQ P_ASSIGN).
Notation primary := (primary prec rassoc isnary ATOM LPAREN RPAREN QUESTION COLON P_SEQ P_ASSIGN).
Notation primary_full := (primary_full prec rassoc isnary ATOM LPAREN RPAREN QUESTION COLON P_SEQ P_ASSIGN).

Fixpoint flat (t : tree) : list tok :=
  match t with
  | Atom => [ATOM]
  | Paren e => LPAREN :: flat e ++ [RPAREN]
  | Bin op l r => flat l ++ op :: flat r
  | Cond c (Some m) e => flat c ++ QUESTION :: flat m ++ COLON :: flat e
  | Cond c None e => flat c ++ QUESTION :: COLON :: flat e
  end.


(* one-step unfoldings *)
Lemma primary_S f ts : primary (S f) ts =
  match ts with
  | k :: ts1 =>
      if k =? ATOM then OK Atom ts1
      else if k =? LPAREN then
        match primary_full f ts1 with
        | OK e (c :: ts2) => if c =? RPAREN then OK (Paren e) ts2 else Fail
        | OK _ [] => Fail
        | r => r
        end
      else Fail
  | [] => Fail
  end.
Proof. reflexivity. Qed.
Lemma full_S f ts : primary_full (S f) ts = match primary f ts with OK b ts1 => climb f b P_SEQ ts1 | r => r end.
Proof. reflexivity. Qed.
Lemma climb_S f base cutoff ts : climb (S f) base cutoff ts =
  match ts with
  | k :: ts1 =>
      if (cutoff <=? prec k) && (0 <? prec k) then
        let after_mid :=
          if k =? QUESTION then
            match ts1 with
            | k1 :: ts2 =>
                if k1 =? COLON then Some (Some None, ts2)
                else match primary_full f ts1 with
                     | OK m (c :: ts3) => if c =? COLON then Some (Some (Some m), ts3) else None
                     | _ => None
                     end
            | [] => None
            end
          else Some (None, ts1) in
        match after_mid with
        | None => Fail
        | Some (mid, ts2) =>
            match primary f ts2 with
            | OK nxt ts3 =>
                match inner_loop prec rassoc isnary (climb f) f (prec k) nxt ts3 with
                | OK nxt' ts4 =>
                    let pa := match ts4 with k4 :: _ => prec k4 | [] => 0 end in
                    if (pa =? P_ASSIGN) && (pa <? prec k) then Fail
                    else
                      let node := match mid with
                                  | Some m => Cond base m nxt'
                                  | None => Bin k base nxt'
                                  end in
                      climb f node cutoff ts4
                | r => r
                end
            | r => r
            end
        end
      else OK base ts
  | [] => OK base ts
  end.
Proof. reflexivity. Qed.

Definition climb_ok (f : nat) : Prop :=
  forall base c ts t rest, climb f base c ts = OK t rest -> flat base ++ ts = flat t ++ rest.
Definition primary_ok (f : nat) : Prop :=
  forall ts t rest, primary f ts = OK t rest -> ts = flat t ++ rest.
Definition full_ok (f : nat) : Prop :=
  forall ts t rest, primary_full f ts = OK t rest -> ts = flat t ++ rest.

Lemma inner_ok (rec : tree -> Z -> list tok -> res) :
  (forall b c ts t rest, rec b c ts = OK t rest -> flat b ++ ts = flat t ++ rest) ->
  forall g prev next ts t rest, inner_loop prec rassoc isnary rec g prev next ts = OK t rest -> flat next ++ ts = flat t ++ rest.
Proof.
  intros Hrec. induction g as [|g IH]; intros prev next ts t rest H; cbn in H; [discriminate|].
  destruct ts as [|k ts']; [inversion H; subst; reflexivity|].
  destruct (((prev <? prec k) && isnary k) || ((prec k =? prev) && rassoc k)).
  - destruct (rec next (prec k) (k :: ts')) as [n' ts2| |] eqn:E; try discriminate.
    apply Hrec in E. rewrite E. apply (IH _ _ _ _ _ H).
  - inversion H; subst. reflexivity.
Qed.

Lemma Z_eqb_eq' a b : (a =? b) = true -> a = b.
Proof. apply Z.eqb_eq. Qed.

Theorem lossless : forall f, climb_ok f /\ primary_ok f /\ full_ok f.
Proof.
  induction f as [|f (IHc & IHp & IHf)].
  { unfold climb_ok, primary_ok, full_ok. repeat split; intros; match goal with H : _ = OK _ _ |- _ => cbn in H; discriminate H end. }
  assert (Hp : primary_ok (S f)).
  { intros ts t rest H. rewrite primary_S in H. destruct ts as [|k ts1]; [discriminate|].
    destruct (k =? ATOM) eqn:E1.
    - inversion H; subst. apply Z_eqb_eq' in E1. subst. reflexivity.
    - destruct (k =? LPAREN) eqn:E2; [|discriminate]. apply Z_eqb_eq' in E2. subst k.
      destruct (primary_full f ts1) as [e r2| |] eqn:E3; try discriminate.
      destruct r2 as [|c r3]; [discriminate|]. destruct (c =? RPAREN) eqn:E4; [|discriminate].
      apply Z_eqb_eq' in E4. subst c. inversion H; subst. apply IHf in E3. rewrite E3. cbn. rewrite <- app_assoc. reflexivity. }
  assert (Hfu : full_ok (S f)).
  { intros ts t rest H. rewrite full_S in H. destruct (primary f ts) as [b ts1| |] eqn:E; try discriminate.
    apply IHp in E. apply IHc in H. rewrite E. exact H. }
  repeat split; [|exact Hp|exact Hfu].
  intros base c ts t rest H. rewrite climb_S in H. cbv zeta in H.
  destruct ts as [|k ts1]; [inversion H; subst; reflexivity|].
  destruct ((c <=? prec k) && (0 <? prec k)); [|inversion H; subst; reflexivity].
  (* the middle operand of a conditional *)
  destruct (k =? QUESTION) eqn:EQ.
  - apply Z_eqb_eq' in EQ. subst k.
    destruct ts1 as [|k1 ts2]; [discriminate|].
    destruct (k1 =? COLON) eqn:EC.
    + apply Z_eqb_eq' in EC. subst k1.
      destruct (primary f ts2) as [nxt ts3| |] eqn:E1; try discriminate.
      destruct (inner_loop prec rassoc isnary (climb f) f (prec QUESTION) nxt ts3) as [nxt' ts4| |] eqn:E2; try discriminate.
      destruct ((match ts4 with k4 :: _ => prec k4 | [] => 0 end =? P_ASSIGN) && (match ts4 with k4 :: _ => prec k4 | [] => 0 end <? prec QUESTION)); [discriminate|].
      apply IHp in E1. apply (inner_ok (climb f) IHc) in E2. apply IHc in H. cbn [flat] in H.
      rewrite <- H; cbn [flat]; rewrite <- ?app_assoc; cbn [app]; rewrite <- ?app_assoc; cbn [app]; congruence.
    + destruct (primary_full f (k1 :: ts2)) as [m r| |] eqn:E0; try discriminate.
      destruct r as [|c2 ts3]; [discriminate|]. destruct (c2 =? COLON) eqn:EC2; [|discriminate].
      apply Z_eqb_eq' in EC2. subst c2.
      destruct (primary f ts3) as [nxt ts4| |] eqn:E1; try discriminate.
      destruct (inner_loop prec rassoc isnary (climb f) f (prec QUESTION) nxt ts4) as [nxt' ts5| |] eqn:E2; try discriminate.
      destruct ((match ts5 with k4 :: _ => prec k4 | [] => 0 end =? P_ASSIGN) && (match ts5 with k4 :: _ => prec k4 | [] => 0 end <? prec QUESTION)); [discriminate|].
      apply IHf in E0. apply IHp in E1. apply (inner_ok (climb f) IHc) in E2. apply IHc in H. cbn [flat] in H.
      rewrite <- H; cbn [flat]; rewrite <- ?app_assoc; cbn [app]; rewrite <- ?app_assoc; cbn [app]; congruence.
  - destruct (primary f ts1) as [nxt ts3| |] eqn:E1; try discriminate.
    destruct (inner_loop prec rassoc isnary (climb f) f (prec k) nxt ts3) as [nxt' ts4| |] eqn:E2; try discriminate.
    destruct ((match ts4 with k4 :: _ => prec k4 | [] => 0 end =? P_ASSIGN) && (match ts4 with k4 :: _ => prec k4 | [] => 0 end <? prec k)); [discriminate|].
    apply IHp in E1. apply (inner_ok (climb f) IHc) in E2. apply IHc in H. cbn [flat] in H.
    rewrite <- H; cbn [flat]; rewrite <- ?app_assoc; cbn [app]; rewrite <- ?app_assoc; cbn [app]; congruence.
Qed.
End Lossless.
