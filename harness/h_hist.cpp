// hist <opts> <n> <hex text 1> ... <hex text n> <ops...>
//   ops: p<i> parse text i | a<i> addSyntaxTree | c<i> computeSemanticModel | g<i> semanticModel (query)
//   one Compilation.  Answer: for every text i: "T<i> {<parse dump>} {<semantic dump or NOTADDED/NOTCOMPUTED>}" (canonical, pointer-free)
#include "tree.h"
using namespace pvh;

namespace {
struct SemDump : SyntaxVisitor {
    const SemanticModel* sema; std::ostringstream out;
    SemDump(const SyntaxTree* t, const SemanticModel* s) : SyntaxVisitor(t), sema(s) {}
    bool preVisit(const SyntaxNode* n) override
    {
        if (auto d = n->asDeclarator()) {
            auto sym = sema->declarationBy(d);
            if (sym) {
                const Type* ty = nullptr; const Identifier* id = nullptr;
                if (auto f = sym->asFunctionDeclaration()) { ty = f->type(); id = f->name(); }
                else if (auto o = sym->asObjectDeclaration()) { ty = o->type(); id = o->name(); }
                else if (auto m = sym->asFieldDeclaration()) { ty = m->type(); id = m->name(); }
                else if (auto t = sym->asTypedefDeclaration()) { ty = t->synonymizedType(); id = t->introducedSynonymType() ? t->introducedSynonymType()->typedefName() : nullptr; }
                out << " D" << (int)sym->kind() << ":" << (id ? id->valueText() : "?") << "=" << typestr(ty);
            }
        }
        else if (auto e = n->asExpression()) {
            auto ti = sema->typeInfoOf(e);
            out << " E" << (unsigned)n->kind() << "=" << typestr(ti.type());
        }
        return true;
    }
};
}

HANDLER(hist)
{
    std::string o; int n; in >> o >> n;
    std::vector<std::string> texts(n);
    for (auto& t : texts) { std::string h; in >> h; t = (h == "-") ? "" : unhex(h); }
    auto po = makeOpts(o);
    std::vector<std::unique_ptr<SyntaxTree>> owned(n);
    std::vector<const SyntaxTree*> raw(n, nullptr);
    std::vector<bool> added(n, false), computed(n, false);
    std::vector<std::string> parseDump(n);
    auto comp = Compilation::create("verif");
    auto ensureParsed = [&](int i) {
        if (!raw[i]) {
            owned[i] = parse(texts[i], po);
            raw[i] = owned[i].get();
            std::ostringstream d; dumpNode(raw[i]->rootNode(), d); d << " |" << diagstr(raw[i]);
            parseDump[i] = d.str();
        }
    };
    std::string op;
    while (in >> op) {
        int i = atoi(op.c_str() + 1);
        if (i < 0 || i >= n) continue;
        switch (op[0]) {
            case 'p': ensureParsed(i); break;
            case 'a': ensureParsed(i); if (!added[i]) { comp->addSyntaxTree(std::move(owned[i])); added[i] = true; } else {
                          // re-adding: a second unique_ptr to the same tree cannot be formed; add a fresh parse of the same text instead is another tree: skip
                      } break;
            case 'c': if (added[i]) { comp->computeSemanticModel(raw[i]); computed[i] = true; } break;
            case 'g': if (added[i]) { (void)comp->semanticModel(raw[i]); } break;
        }
    }
    std::ostringstream out;
    for (int i = 0; i < n; ++i) {
        out << " T" << i << " {" << parseDump[i] << "} {";
        if (!added[i]) out << "NOTADDED";
        else if (!computed[i]) out << "NOTCOMPUTED";
        else {
            auto sema = comp->semanticModel(raw[i]);
            SemDump d(raw[i], sema);
            d.visit(raw[i]->rootNode());
            out << d.out.str() << " |" << diagstr(raw[i]);
        }
        out << "}";
    }
    return out.str();
}
