(** Request decoder for the C05 punctuator model: [c; b1; b2; ...] (bytes; the terminating NUL is implicit)
    -> [found (1/0); kind (-1: case sets none); bytes consumed after the first; read-at-NUL flag] — the
    translated case of Lexer::yylex_CORE for first byte c run on the following bytes; [] when c has no translated case *)
From Coq Require Import ZArith List Bool NArith.
From PV Require Import PunctDefs.
From PV.gen Require Import Gen_Punct.
Import ListNotations.
Local Open Scope Z_scope.

Definition run (req : list Z) : list Z :=
  match req with
  | c :: rest =>
      match lex_punct punct_cases (Z.to_N c) (map Z.to_N rest) with
      | Some (k, n, nul) => [1; match k with Some k' => Z.of_N k' | None => -1 end; Z.of_nat n; if nul then 1 else 0]
      | None => [0]
      end
  | [] => []
  end.
