(** C10 — Identifiers resolve to the innermost visible declaration of their name space. *)
From Coq Require Import List Arith Bool.
From PV Require Import C10Model C10Proofs.
Import ListNotations.

(** The frame model (with enumerators counted as ordinary identifiers) resolves every use in every
    program — any nesting depth, any number of functions and blocks, names reused across name
    spaces and scopes — exactly as C11 6.2.1 does, provided no declaration that appears LATER in
    a scope matters for a use that appears earlier in it ([ok_items]). *)
Theorem C10_lookup_innermost : forall prog : list item,
  ok_items (frame_of NS_ORD prog []) prog [] ->
  resolve NS_ORD [frame_of NS_ORD prog []] prog = c_resolve prog.
Proof.
  intros prog H. unfold c_resolve. symmetry. apply (items_agree prog [] (frame_of NS_ORD prog []) [] []); [exact H|].
  intros n _. reflexivity.
Qed.

(** what the hypothesis excludes, with the witness (a later declaration in the same block hides the outer one for an earlier use) *)
Lemma C10_late_declaration_refuted :
  let prog := [IDecl NS_ORD 1 10; IFun 2 20 [] [IUse 1 100; IDecl NS_ORD 1 11]] in
  impl_resolve prog = [(100, Some 11)] /\ c_resolve prog = [(100, Some 10)].
Proof. vm_compute. split; reflexivity. Qed.

(** enumeration constants: registered in the member name space, so never found as ordinary identifiers *)
Lemma C10_enumerator_refuted :
  let prog := [IEnumerator 1 10; IFun 2 20 [] [IUse 1 100]] in
  impl_resolve prog = [(100, None)] /\ c_resolve prog = [(100, Some 10)].
Proof. vm_compute. split; reflexivity. Qed.

(** declarations in sibling blocks, inner blocks and other name spaces are never returned *)
Example C10_no_sibling_leak :
  let prog := [IDecl NS_TAG 1 9; IDecl NS_MEM 1 8;
               IFun 2 20 [(3, 30)] [IBlock [IDecl NS_ORD 1 11; IUse 1 100; IUse 3 101]; IBlock [IUse 1 102; IBlock [IDecl NS_ORD 1 12]]; IUse 2 103]] in
  impl_resolve prog = [(100, Some 11); (101, Some 30); (102, None); (103, Some 20)] /\ c_resolve prog = impl_resolve prog.
Proof. vm_compute. split; reflexivity. Qed.

Example C10_nonvacuous :
  let prog := [IDecl NS_ORD 1 10; IFun 2 20 [(1, 30)] [IUse 1 100; IBlock [IDecl NS_ORD 1 11; IUse 1 101]; IUse 2 102]] in
  ok_items (frame_of NS_ORD prog []) prog [] /\ c_resolve prog = [(100, Some 30); (101, Some 11); (102, Some 20)].
Proof. split; [|vm_compute; reflexivity]. cbn. unfold agree. repeat split; intros n H; cbn in H; intuition; subst; reflexivity. Qed.

Print Assumptions C10_lookup_innermost.
