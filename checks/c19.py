# C19 — The cnip driver's exit status and options reflect what the front end found.
import itertools, json, os, subprocess, sys
from lib import pv

STD = {"c89": 0, "c90": 0, "c99": 1, "c11": 2, "c17": 3, "c18": 3}
DIS = {"none": 0, "a": 1, "ah": 2, "h": 3}
COM = {"d": 0, "ka": 1, "kdo": 2}
FILES = {
    "ok1.c": "int x; /* c */ int f(int a) { return a + 1; }\n",
    "ok2.c": "typedef int T; /** doc */ struct s { T m; }; static long g(struct s *p) { return p->m; }\n",
    "amb.c": "void f(void) { int y; x * y; }\n",
    "syn1.c": "int x; int + ;\n",
    "syn2.c": "void f( { }\n",
    "sem1.c": "void f(void){ int *p; double d; p = d; }\n",
    "sem2.c": "long long signed signed q;\n",
    "empty.c": "\n",
    "ok3.i": "int preprocessed;\n",
    "c99.c": "inline int h(void) { _Bool b = 1; return b; }\n",
}
# files on which the external preprocessor fails for a reason of its own (no include involved), in the strict and in the relaxed mode alike;
# and files with a directive it handles.  The outcome of preprocessing THESE is known in advance (gcc -E is run on them by the check itself as well)
PP_FILES = {
    "pperr1.c": "#ifndef CONFIGURED\n#error this translation unit needs -DCONFIGURED\n#endif\nint x;\nint f(void) { return x; }\n",
    "pperr2.c": "#if 1\nint unterminated;\n",
    "pperr3.c": "#if ID(\nint y;\n#endif\n",
    "ppok1.c": "#define N 3\nint a[N];\n#if N > 2\nint big;\n#endif\n",
}
MSG = ["unhandled file path", "expected option: ", "expected option value", "unrecognized option", "wip", "no input files", "no such file",
       "unsupported C Standard", "unrecognized disambiguation mode", "unrecognized comment mode", "unrecognized preprocessing mode",
       "preprocessing failed", None, None, "cannot load analysis"]


def enc(args, files, pp=1, an=1, sub=0):
    r = [len(args)]
    for a in args:
        b = a.encode()
        r += [len(b)] + list(b)
    r += [len(files)]
    for f in files:
        r += list(f)
    return " ".join(map(str, r + [pp, an, sub]))


def run_cnip(exe, args, cwd):
    try:
        p = subprocess.run([exe] + args, cwd=cwd, stdout=subprocess.PIPE, stderr=subprocess.PIPE, timeout=60, universal_newlines=True, errors="replace")
        return p.returncode, p.stdout, p.stderr
    except subprocess.TimeoutExpired:
        return "timeout", "", ""


def run(chk, only=None):
    chk.coverage["trusted_base"] = pv.TRUSTED_COMMON + [
        "hand-written model coq/C19Model.v of CommandLineParser::parseCommandLine/detectCommandOptions and Driver::go/runCPP/runCFrontEnd (tied by running the real executable on the full cross product of documented option values and on malformed argument vectors)",
        "inputs of the model (what the front end reports per file under the configuration) come from the library harness; the external preprocessor, plug-in loading and sub-command execution are oracles"]
    chk.assumptions = ["no plug-in, no sub-command in the exit-status theorem; gcc's preprocessor succeeds on the small include-free files used with -pp s / r"]
    res = chk.prove(["Properties_C19.v"], extra_targets=["Entry_C19.vo"])
    proof_ok = all(ok for ok, _ in res.values())
    pv.build_model("C19")
    pv.build_harness("plain")
    exe = os.path.join(pv.CACHE, "build-plain", "cnip")
    d = os.path.join(pv.CACHE, "tmp", "c19")
    os.makedirs(d, exist_ok=True)
    for n, t in list(FILES.items()) + list(PP_FILES.items()):
        open(os.path.join(d, n), "w").write(t)
    quick = chk.tier == "quick"
    # front-end results per (file, std, comment, disambiguation)
    keys = [(f, s, c, m) for f in FILES for s in (0, 1, 2, 3) for c in (0, 1, 2) for m in (0, 1, 2, 3)]
    fe = pv.run_impl(["diag D%d:%d:%d %s" % (s, c, m, FILES[f].encode().hex()) for f, s, c, m in keys], shards=pv.NCPU)
    FE = {}
    for k, a in zip(keys, fe):
        if not a.startswith("TU"):
            FE[k] = None; continue
        P, _, Sx = a.partition(" | S")
        pd = [x.split(":") for x in P.split()[2:]]
        sd = [x.split(":") for x in Sx.split()]
        FE[k] = {"tu": a.startswith("TU1"), "syn_err": any(x[0] == "2" for x in pd), "sem_err": any(x[0] == "2" for x in sd),
                 "n_syn": sum(1 for x in pd if x[0] in "12" and x[1] == "1"), "n_sem": sum(1 for x in sd if x[0] in "12" and x[1] in "234")}
    cases = []
    stds = list(STD)
    for st, dm, cm in itertools.product(stds, DIS, COM):
        for so, du in itertools.product((False, True), (False, True)):
            if quick and du and st not in ("c11", "c89"):
                continue
            for f in FILES:
                if quick and f in ("ok2.c", "syn2.c", "sem2.c", "empty.c") and (dm not in ("ah", "none") or cm != "d"):
                    continue
                args = ["-std=" + st, "-disambiguation", dm, "-comment", cm, "-pp", "none"] + (["-fsyntax-only"] if so else []) + (["-dump-ast"] if du else []) + [f]
                cases.append((args, [f], (STD[st], COM[cm], DIS[dm])))
    # two files, defaults, value-after forms, -pp s / r
    for a, b in itertools.product(list(FILES)[:8], repeat=2):
        cases.append((["-pp", "none", a, b], [a, b], (3, 0, 2)))
    # preprocessing with a known outcome: the check runs gcc -E on the same file itself; the 4th component is that outcome (1 ok, 0 failed)
    for f in PP_FILES:
        try:
            gcc_ok = subprocess.run(["gcc", "-E", "-x", "c", f], cwd=d, stdout=subprocess.DEVNULL, stderr=subprocess.DEVNULL, timeout=30).returncode == 0
        except Exception:
            gcc_ok = None
        if gcc_ok is None or gcc_ok != (f.startswith("ppok")):
            chk.notes.append("gcc -E on %s: %r (expected %s); cases with it skipped" % (f, gcc_ok, f.startswith("ppok")))
            continue
        for p in ("s", "r"):
            for extra in ([], ["-fsyntax-only"], ["-std=c99"]):
                cases.append((["-pp", p] + extra + [f], [f], (1 if "-std=c99" in extra else 3, 0, 2), 1 if gcc_ok else 0))
    for f in ("ok1.c", "syn1.c", "sem1.c", "ok3.i"):
        for p in ("s", "r"):
            cases.append((["-pp", p, f], [f], (3, 0, 2)))
        cases.append((["--std", "c99", "-pp", "none", f], [f], (1, 0, 2)))
        cases.append((["--std=c99", "-pp", "none", "--syntax-only", f], [f], (1, 0, 2)))
        cases.append((["-x", "c", "-pp", "none", f], [f], (3, 0, 2)))
    # malformed argument vectors
    mal = [[], [""], ["-"], ["--"], ["-pp"], ["-pp", "none"], ["ok1.c", "-comment"], ["-std=", "ok1.c"], ["-std=c23", "-pp", "none", "ok1.c"], ["-frob", "ok1.c"],
           ["ok1.cpp"], ["nosuch.c", "-pp", "none"], ["-pp", "x", "ok1.c"], ["-disambiguation", "q", "-pp", "none", "ok1.c"], ["-comment", "k", "-pp", "none", "ok1.c"],
           ["-I"], ["-D"], ["-x"], ["-x", "c++", "ok1.cc"], ["-help"], ["--help", "-frob"], ["-analysis", "/nonexistent.so", "-pp", "none", "ok1.c"],
           ["-disambiguation"], ["-cc"], ["-analysis"], ["-pp", "none", "-fsyntax-only"], ["ok1.c", "-"], ["-pp", "none", "ok1.c", "", "x"]]
    rng = chk.rng
    vocab = ["-pp", "none", "-std=c11", "-std", "--std", "c99", "-comment", "ka", "-disambiguation", "a", "ok1.c", "syn1.c", "-", "", "--", "-x", "c", "-I", "-Ifoo", "-D", "-fsyntax-only",
             "-dump-ast", "-zz", "file.txt", "-help", "-cc", "gcc", "-undef", "-ansi", "-iquote", "q"]
    for _ in range(60 if quick else 1500):
        mal.append([rng.choice(vocab) for _ in range(rng.randint(1, 6))])
    for m in mal:
        files = [a for a in m if a in FILES] if all(not a.startswith("-") or True for a in m) else []
        cases.append((m, None, (3, 0, 2)))
    if only:
        cases = only
    results, mreqs = [], []
    import concurrent.futures
    with concurrent.futures.ThreadPoolExecutor(max_workers=pv.NCPU) as ex:
        results = list(ex.map(lambda c: run_cnip(exe, c[0], d), cases))
    cases = [c if len(c) == 4 else c + (None,) for c in cases]
    # model inputs: the files the model's own decoding selects are not known here; give the world for the files named on the command line in order (c files first, then .i files, as Driver::go reads them)
    for (args, files, cfg, ppknown), (_rc, _out, _err) in zip(cases, results):
        # whether the external preprocessor run succeeded is an oracle of the world (Section variable of the model), observed on the implementation's stderr
        pp_ok = 0 if "preprocessing failed" in (_err or "") else 1
        if ppknown is not None:
            pp_ok = ppknown            # known independently of what the driver says (PP_FILES)
        named = [a for a in args if a in FILES or a in PP_FILES or a == "nosuch.c"]
        # the decoder takes non-option words that are not option values; approximating which words are values would duplicate the model, so the world lists
        # results for every FILES name / nosuch.c in the order: *.c and *.h first, then *.i (Driver::go validates cFilePaths_ then iFilePaths_)
        order = [a for a in named if not a.endswith(".i")] + [a for a in named if a.endswith(".i")]
        ws = []
        for f in order:
            if f == "nosuch.c":
                ws.append((0, 0, 0)); continue
            if f in PP_FILES:
                ws.append((1, 0, 0)); continue          # what is left of ppok1.c after preprocessing is a valid unit
            r = FE.get((f,) + cfg)
            ws.append((1, 1 if (r is None or r["syn_err"] or not r["tu"]) else 0, 1 if (r is None or r["sem_err"]) else 0))
        mreqs.append(enc(args, ws, pp=pp_ok, an=0, sub=0))
    model = pv.run_model("C19", mreqs, shards=pv.NCPU)
    bad, bad_print, n_zero = [], [], 0
    for (args, files, cfg, ppknown), (rc, out, err), mo in zip(cases, results, model):
        if rc == "timeout" or (isinstance(rc, int) and rc < 0):
            bad.append((args, "terminated by signal/timeout rc=%s" % rc, None)); continue
        if not mo:
            bad.append((args, "model gave no answer", None)); continue
        st, mc = mo
        n_zero += 1 if rc == 0 else 0
        # words consumed as option values can coincide with file names in random vectors: only then may the world handed to the model be off; skip those
        ambiguous = files is None and any(a in FILES for a in args) and any(a in ("-I", "-D", "-U", "-x", "-cc", "-iquote", "-isystem", "-idirafter", "-include", "-imacros", "-std", "--std",
                                                                                   "-pp", "-comment", "-disambiguation", "-analysis") for a in args)
        if rc != st and not ambiguous:
            bad.append((args, "exit status %s, model/specification %s (message class %s)" % (rc, st, mc), err[-300:]))
            continue
        if mc >= 0 and mc < len(MSG) and MSG[mc] and MSG[mc] not in err and not ambiguous and "--" not in args:
            bad_print.append((args, "expected message %r on stderr" % MSG[mc], err[-300:]))
        if files and mc in (12, 13):
            r = FE.get((files[0],) + cfg) if len(files) == 1 else None
            if r:
                want = r["n_syn"] if mc == 12 else r["n_sem"]
                got = err.count(" error: ") + err.count(" warning: ")
                if got < want:
                    bad_print.append((args, "%d diagnostics reported by the front end, %d printed" % (want, got), err[-300:]))
    chk.coverage["evaluations"] = len(cases)
    chk.coverage["distinct_nontrivial"] = len({tuple(c[0]) for c, r in zip(cases, results) if r[0] == 0})
    chk.coverage["exhaustive"] = not quick
    chk.coverage["rule"] = ("cnip (built from /repo) run on the cross product of documented values of -std (6) x -disambiguation (4) x -comment (3) x -fsyntax-only x -dump-ast with -pp none "
                            "x %d files (valid, ambiguous, syntactically invalid, semantically invalid, empty, .i)%s; pairs of files; -pp s/r, --std forms, -x; %d malformed or random argument vectors. "
                            "exit status compared with the model fed with the library's own diagnostics for the file under that configuration. non-trivial = distinct command lines exiting 0"
                            % (len(FILES), " (thinned in the quick tier)" if quick else "", len(mal)))
    chk.coverage["samples"] = [" ".join(cases[i][0]) for i in (0, len(cases) // 2, len(cases) - 1)]
    chk.coverage["distribution"] = {"process_launches": len(cases), "exit_zero": n_zero, "malformed_vectors": len(mal)}
    if bad:
        bad.sort(key=lambda x: len(x[0]))
        a, why, err = bad[0]
        chk.report("cmdline:" + " ".join(a)[:70], {"request": a, "cwd_files": {k: dict(FILES, **PP_FILES)[k] for k in a if k in FILES or k in PP_FILES}, "why": why, "stderr_tail": err,
                                                    "count_failing": len(bad), "others": [" ".join(x[0]) for x in bad[1:8]]}, found=True,
                   what="exit status (or termination) not what the options and the front end's findings prescribe")
    if bad_print:
        a, why, err = bad_print[0]
        chk.report("message:" + " ".join(a)[:70], {"request": a, "why": why, "stderr_tail": err, "count": len(bad_print)}, found=True)
    if not proof_ok and not bad:
        for f, (ok, out) in res.items():
            if not ok:
                chk.report("proof-" + f, {"unchecked": f + " (theorems: %s)" % ", ".join(pv.theorem_names(f)), "coq_output": out[-3000:]}, found=False)


def replay(chk, path):
    r = json.load(open(path))
    if isinstance(r.get("request"), list):
        return run(chk, only=[(r["request"], [a for a in r["request"] if a in FILES] or None, (3, 0, 2))])
    run(chk)
