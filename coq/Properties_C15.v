(** C15 — Results are deterministic; each tree's model is independent of the call history.
    PARTIAL by construction: the analysis of a tree is the section variable [analyse]. *)
From Coq Require Import List Arith Bool Lia.
From PV Require Import C15Model.
Import ListNotations.

Section Props.
Variable result : Type.
Variable analyse : nat -> result.
Notation state := (state result).
Notation step := (step result analyse).
Notation run := (run result analyse).
Notation model_of := (model_of result).
Notation find_entry := (find_entry result).

(** every entry's model is absent (still dirty) or the analysis of its own tree *)
Definition inv (s : state) : Prop :=
  forall e, In e s -> (e_dirty result e = true /\ e_model result e = None) \/ (e_dirty result e = false /\ e_model result e = Some (analyse (e_tree result e))).

Lemma find_entry_in s t e : find_entry s t = Some e -> In e s /\ e_tree result e = t.
Proof.
  induction s as [|x s IH]; cbn; [discriminate|]. destruct (e_tree result x =? t) eqn:E; intros H.
  - inversion H; subst. apply Nat.eqb_eq in E. auto.
  - destruct (IH H). auto.
Qed.

Lemma inv_step s o : inv s -> inv (step s o).
Proof.
  intros Hi. destruct o as [t|t|t]; cbn [C15Model.step]; [| |exact Hi].
  - unfold add. destruct (find_entry s t); [exact Hi|]. intros e He. apply in_app_or in He as [He|[<-|[]]]; [auto|]. left. cbn. auto.
  - induction s as [|x s IH]; [exact Hi|]. cbn [compute]. intros e He.
    assert (Hx : forall e, In e s -> _) by (intros e' He'; apply (Hi e'); right; exact He').
    destruct (e_tree result x =? t) eqn:E.
    + destruct He as [<-|He]; [|apply Hi; right; exact He].
      destruct (e_dirty result x) eqn:D; [right; cbn; auto|]. apply Hi. left. reflexivity.
    + destruct He as [<-|He]; [apply Hi; left; reflexivity|]. exact (IH Hx e He).
Qed.

Lemma inv_run h : inv (run h).
Proof.
  unfold C15Model.run. assert (G : forall s, inv s -> inv (fold_left step h s)).
  { induction h as [|o h IH]; intros s Hs; [exact Hs|]. cbn [fold_left]. apply IH. apply inv_step. exact Hs. }
  apply G. intros e [].
Qed.

(** whatever the history — any number of trees, any order of additions, computations and
    queries, repeated or not — the model recorded for a tree is never anything but the analysis
    of that tree *)
Theorem C15_history_independent : forall (h : list op) (t : nat) (r : result),
  model_of (run h) t = Some r -> r = analyse t.
Proof.
  intros h t r H. unfold C15Model.model_of in H. destruct (find_entry (run h) t) as [e|] eqn:E; [|discriminate].
  destruct (find_entry_in _ _ _ E) as [Hin Ht]. destruct (inv_run h e Hin) as [[_ Hm]|[_ Hm]]; rewrite Hm in H; [discriminate|].
  inversion H. rewrite Ht. reflexivity.
Qed.

(** once computed, a model is there to stay: later operations (on this or any other tree) do not change it *)
Lemma model_stable s o t r : inv s -> model_of s t = Some r -> model_of (step s o) t = Some r.
Proof.
  intros Hi H. destruct o as [t'|t'|t']; cbn [C15Model.step]; [| |exact H].
  - unfold add. destruct (find_entry s t') eqn:E; [exact H|].
    unfold C15Model.model_of in *. assert (G : forall s0, find_entry (s0 ++ [{| e_tree := t'; e_dirty := true; e_model := None |}]) t =
              match find_entry s0 t with Some e => Some e | None => if t' =? t then Some {| e_tree := t'; e_dirty := true; e_model := None |} else None end).
    { induction s0 as [|x s0 IH]; cbn; [reflexivity|]. destruct (e_tree result x =? t); [reflexivity|exact IH]. }
    rewrite G. destruct (find_entry s t); [exact H|discriminate].
  - unfold C15Model.model_of in *. revert H. induction s as [|x s IH]; [auto|]. cbn [compute C15Model.find_entry].
    assert (Hx : inv s) by (intros e' He'; apply (Hi e'); right; exact He').
    destruct (e_tree result x =? t') eqn:E1.
    + destruct (e_tree result x =? t) eqn:E2.
      * intros H. destruct (e_dirty result x) eqn:D.
        { destruct (Hi x (or_introl eq_refl)) as [[_ Hm]|[Hd _]]; [rewrite Hm in H; discriminate|congruence]. }
        { cbn [C15Model.find_entry]. rewrite E2. exact H. }
      * intros H. destruct (e_dirty result x); cbn [C15Model.find_entry e_tree];
          [apply Nat.eqb_eq in E1; rewrite <- E1, E2; exact H | rewrite E2; exact H].
    + cbn [C15Model.find_entry]. destruct (e_tree result x =? t); [auto|]. apply IH. exact Hx.
Qed.

Theorem C15_idempotent : forall (h h' : list op) (t : nat) (r : result),
  model_of (run h) t = Some r -> model_of (run (h ++ h')) t = Some r.
Proof.
  intros h h' t r H. unfold C15Model.run. rewrite fold_left_app. fold (run h).
  assert (G : forall s, inv s -> model_of s t = Some r -> model_of (fold_left step h' s) t = Some r).
  { induction h' as [|o h' IH]; intros s Hs Hm; [exact Hm|]. cbn [fold_left]. apply IH; [apply inv_step; exact Hs|apply model_stable; assumption]. }
  apply G; [apply inv_run|exact H].
Qed.
End Props.

Example C15_nonvacuous :
  model_of nat (run nat (fun t => t * 7) [Add 1; Add 2; Compute 2; Add 1; Get 1; Compute 1; Compute 2; Add 3]) 1 = Some 7 /\
  model_of nat (run nat (fun t => t * 7) [Add 1; Add 2; Compute 2]) 1 = None.
Proof. vm_compute. split; reflexivity. Qed.

Print Assumptions C15_history_independent.
Print Assumptions C15_idempotent.
