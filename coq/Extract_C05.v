Require Import ExtrOcamlBasic.
From PV Require Import Entry_C05.
Extraction "model.ml" run.
