(** Request decoder / answer encoder for the C20 model and spec, over [list Z]
    so that the OCaml driver needs no per-model glue. *)
From Coq Require Import ZArith List.
From PV Require Import C20Model.
Import ListNotations.
Local Open Scope Z_scope.

(** ops: 0 k v = insertOrAssign(k,v); 1 r = applyRevision(r) *)
Fixpoint decode (fuel : nat) (l : list Z) : list (vop Z Z) :=
  match fuel with
  | O => []
  | S f =>
    match l with
    | 0 :: k :: v :: t => Ins (k, v) :: decode f t
    | 1 :: r :: t => App (Z.to_nat r) :: decode f t
    | _ => []
    end
  end.

Definition enc_map (m : amap Z Z) : list Z :=
  Z.of_nat (length m) :: flat_map (fun kv => [fst kv; snd kv]) m.

(** after every operation: model cur, model map, spec cur, spec contents *)
Fixpoint trace (ops : list (vop Z Z)) (s : vstate Z Z) (ss : sstate Z Z) : list Z :=
  match ops with
  | [] => []
  | o :: t =>
    let s' := vstep Z Z s o in
    let ss' := sstep Z Z ss o in
    (Z.of_nat (cur s') :: enc_map (vmap s')) ++
    (Z.of_nat (scur ss') :: enc_map (scontents Z Z ss')) ++ trace t s' ss'
  end.

Definition run (req : list Z) : list Z :=
  trace (decode (length req) req) (vinit Z Z) (sinit Z Z).
