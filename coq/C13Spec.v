(** C13 — the C11 rules the type checker is held to, written from the standard:
    6.2.5 (classification), 6.3.1.1 (rank, integer promotions), 6.3.1.8 (usual
    arithmetic conversions), 6.5.5-6.5.9 (operand constraints and result types),
    6.4.4.1p5 (type of an integer constant).  No proofs here. *)
From Coq Require Import List ZArith Bool.
Import ListNotations.
Local Open Scope Z_scope.

Inductive bk := Char | SChar | UChar | Short | UShort | Int | UInt | Long | ULong | LLong | ULLong
  | Bool | Float | Double | LDouble | FloatC | DoubleC | LDoubleC.
Definition all_bk : list bk :=
  [Char; SChar; UChar; Short; UShort; Int; UInt; Long; ULong; LLong; ULLong; Bool; Float; Double; LDouble; FloatC; DoubleC; LDoubleC].

Definition bk_eqb (a b : bk) : bool :=
  match a, b with
  | Char, Char | SChar, SChar | UChar, UChar | Short, Short | UShort, UShort | Int, Int | UInt, UInt
  | Long, Long | ULong, ULong | LLong, LLong | ULLong, ULLong | Bool, Bool | Float, Float | Double, Double
  | LDouble, LDouble | FloatC, FloatC | DoubleC, DoubleC | LDoubleC, LDoubleC => true
  | _, _ => false
  end.

(** 6.2.5p17: integer types *)
Definition is_integer (k : bk) : bool :=
  match k with Float | Double | LDouble | FloatC | DoubleC | LDoubleC => false | _ => true end.
Definition is_complex (k : bk) : bool :=
  match k with FloatC | DoubleC | LDoubleC => true | _ => false end.
(** 6.2.5p17: real types = integer and real floating types *)
Definition is_real (k : bk) : bool := negb (is_complex k).
(** 6.2.5p6: the unsigned integer types (with _Bool) *)
Definition is_unsigned (k : bk) : bool :=
  match k with UChar | UShort | UInt | ULong | ULLong | Bool => true | _ => false end.

(** 6.3.1.1p1 integer conversion rank *)
Definition rank (k : bk) : Z :=
  match k with
  | Bool => 0 | Char | SChar | UChar => 1 | Short | UShort => 2 | Int | UInt => 3
  | Long | ULong => 4 | LLong | ULLong => 5 | _ => -1
  end.

(** the platform: maximum value of each integer type *)
Definition platform := bk -> Z.
Definition LP64 : platform := fun k =>
  match k with
  | Char | SChar => 127 | UChar => 255 | Short => 32767 | UShort => 65535
  | Int => 2147483647 | UInt => 4294967295
  | Long | LLong => 9223372036854775807 | ULong | ULLong => 18446744073709551615
  | Bool => 1 | _ => 0
  end.

(** 6.3.1.1p2: "If an int can represent all values of the original type, the
    value is converted to an int; otherwise to an unsigned int" — for types
    whose rank is less than that of int; all other types are unchanged. *)
Definition promote (p : platform) (k : bk) : bk :=
  if is_integer k && (rank k <? rank Int) then (if p k <=? p Int then Int else UInt) else k.

Definition to_unsigned (k : bk) : bk :=
  match k with Int => UInt | Long => ULong | LLong => ULLong | Short => UShort | SChar | Char => UChar | _ => k end.

(** corresponding real type (6.2.5p13) as a level 1..3, 0 for integers *)
Definition flevel (k : bk) : Z :=
  match k with Float | FloatC => 1 | Double | DoubleC => 2 | LDouble | LDoubleC => 3 | _ => 0 end.
Definition mkfloat (lvl : Z) (cplx : bool) : bk :=
  if lvl =? 3 then (if cplx then LDoubleC else LDouble)
  else if lvl =? 2 then (if cplx then DoubleC else Double)
  else (if cplx then FloatC else Float).

(** 6.3.1.8 usual arithmetic conversions: the type of the result *)
Definition uac (p : platform) (a b : bk) : bk :=
  if (0 <? flevel a) || (0 <? flevel b) then
    mkfloat (Z.max (flevel a) (flevel b)) (is_complex a || is_complex b)
  else
    let a' := promote p a in let b' := promote p b in
    if bk_eqb a' b' then a'
    else if Bool.eqb (is_unsigned a') (is_unsigned b') then (if rank a' <? rank b' then b' else a')
    else
      let u := if is_unsigned a' then a' else b' in
      let s := if is_unsigned a' then b' else a' in
      if rank s <=? rank u then u
      else if p u <=? p s then s
      else to_unsigned s.

Inductive bop := Mul | Div | Rem | Add | Sub | Shl | Shr | Lt | Le | Gt | Ge | Eq | Ne.
Definition all_bop := [Mul; Div; Rem; Add; Sub; Shl; Shr; Lt; Le; Gt; Ge; Eq; Ne].

(** 6.5.5 - 6.5.9 on arithmetic operands: [None] = constraint violation (no type) *)
Definition c11_binop (p : platform) (op : bop) (a b : bk) : option bk :=
  match op with
  | Mul | Div | Add | Sub => Some (uac p a b)
  | Rem => if is_integer a && is_integer b then Some (uac p a b) else None
  | Shl | Shr => if is_integer a && is_integer b then Some (promote p a) else None
  | Lt | Le | Gt | Ge => if is_real a && is_real b then Some Int else None
  | Eq | Ne => Some Int
  end.

(** 6.4.4.1p5: the list of candidate types per suffix and base *)
Inductive isuffix := SfxNone | SfxU | SfxL | SfxUL | SfxLL | SfxULL.
Definition all_isuffix := [SfxNone; SfxU; SfxL; SfxUL; SfxLL; SfxULL].
Definition const_list (s : isuffix) (octhex : bool) : list bk :=
  match s, octhex with
  | SfxNone, false => [Int; Long; LLong]
  | SfxNone, true => [Int; UInt; Long; ULong; LLong; ULLong]
  | SfxU, _ => [UInt; ULong; ULLong]
  | SfxL, false => [Long; LLong]
  | SfxL, true => [Long; ULong; LLong; ULLong]
  | SfxUL, _ => [ULong; ULLong]
  | SfxLL, false => [LLong]
  | SfxLL, true => [LLong; ULLong]
  | SfxULL, _ => [ULLong]
  end.

(** "the first of the corresponding list in which its value can be represented" *)
Fixpoint first_fit (p : platform) (l : list bk) (v : Z) : option bk :=
  match l with
  | [] => None
  | k :: l' => if v <=? p k then Some k else first_fit p l' v
  end.
