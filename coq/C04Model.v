(** C04 — the symbol-table-free guess of Parser::guessRoleOfIdentifier: with the cursor on an
    identifier in specifier position and no type specifier seen yet, is the identifier a
    typedef-name or the declarator?  Tokens are SyntaxKind values; the class sets are those of the
    function's case labels.  [None] = a read outside the token vector. *)
From Coq Require Import List NArith ZArith Bool Arith.
From PV.gen Require Import Gen_SyntaxKind.
Import ListNotations.

Definition mem (k : N) (l : list N) : bool := existsb (N.eqb k) l.
Definition type_specifier_kw : list N :=
  [K_Keyword_void; K_Keyword_char; K_Keyword_short; K_Keyword_int; K_Keyword_long; K_Keyword_signed; K_Keyword_unsigned; K_Keyword_float;
   K_Keyword_double; K_Keyword__Bool; K_Keyword__Complex; K_Keyword_ExtGNU___complex__; K_Keyword_Ext_char16_t; K_Keyword_Ext_char32_t;
   K_Keyword_Ext_wchar_t; K_Keyword_struct; K_Keyword_union; K_Keyword_enum].
Definition other_specifier_kw : list N :=
  [K_Keyword_typedef; K_Keyword_extern; K_Keyword_static; K_Keyword_auto; K_Keyword_register; K_Keyword__Thread_local; K_Keyword_ExtGNU___thread;
   K_Keyword_const; K_Keyword_volatile; K_Keyword_restrict; K_Keyword__Atomic; K_Keyword_inline; K_Keyword__Noreturn; K_Keyword__Alignas;
   K_Keyword_ExtGNU___attribute__; K_AsteriskToken].

Inductive role := Declarator | TypedefName.

(** the scan of a parenthesised / bracketed group: [check] is 0 at the start, -1 after exactly one identifier and nothing else but
    asterisks and nested groups, positive otherwise; the scan stops at the closer of the group, at `;' or at end of file *)
Fixpoint scan (fuel : nat) (openk closek : N) (toks : list N) (la : nat) (depth : nat) (check : Z) : option role :=
  match fuel with
  | O => None
  | S f =>
      match nth_error toks (la + 1) with
      | None => None
      | Some k =>
          if N.eqb k openk then scan f openk closek toks (S la) (S depth) check
          else if N.eqb k closek then
            (if Nat.eqb depth 1 then Some (if Z.eqb check (-1) then TypedefName else Declarator)
             else scan f openk closek toks (S la) (depth - 1) check)
          else if N.eqb k K_IdentifierToken then scan f openk closek toks (S la) depth (if Z.eqb check 0 then (-1)%Z else 1%Z)
          else if N.eqb k K_AsteriskToken || (N.eqb openk K_OpenParenToken && mem k [K_Keyword_const; K_Keyword_volatile; K_Keyword_restrict; K_Keyword__Atomic])
               then scan f openk closek toks (S la) depth check
          else if N.eqb k K_SemicolonToken || N.eqb k K_EndOfFile then Some Declarator
          else scan f openk closek toks (S la) depth (check + 1)%Z
      end
  end.

(** [cur]: index of the identifier; [param]: the declaration context is Parameter; [kr]: within a K&R function definition *)
Definition guess (toks : list N) (cur : nat) (param kr : bool) : option role :=
  match nth_error toks (S cur) with
  | None => None
  | Some k =>
      if N.eqb k K_IdentifierToken then Some TypedefName
      else if mem k type_specifier_kw then Some Declarator
      else if mem k other_specifier_kw then Some TypedefName
      else if N.eqb k K_OpenParenToken then
        (if param then Some TypedefName else scan (length toks) K_OpenParenToken K_CloseParenToken toks (S cur) 1 0%Z)
      else if N.eqb k K_OpenBracketToken then
        (if param then Some TypedefName else scan (length toks) K_OpenBracketToken K_CloseBracketToken toks (S cur) 1 0%Z)
      else if N.eqb k K_CloseParenToken || N.eqb k K_CloseBracketToken then
        match nth_error toks (S (S cur)) with
        | None => None
        | Some k2 => Some (if N.eqb k2 K_OpenBraceToken then Declarator else if kr then Declarator else TypedefName)
        end
      else if N.eqb k K_CommaToken then Some (if kr then Declarator else TypedefName)
      else Some Declarator
  end.
