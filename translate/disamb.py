#!/usr/bin/env python3
"""C09: which child slots of which node classes can hold an ambiguity node, and whether the Disambiguator replaces them.

An ambiguity node is an ExpressionSyntax (AmbiguousCastOrBinaryExpression), a StatementSyntax
(AmbiguousExpressionOrDeclarationStatement) or a TypeReferenceSyntax (AmbiguousTypeNameOrExpressionAsTypeReference); so a member
whose static type is ExpressionSyntax*, StatementSyntax*, TypeReferenceSyntax* or a list of those can hold one.  The generic
traversal reaches such a child through visit(child), which for an ambiguity node ends in Disambiguator::visitAmbiguous* (an
assertion failure that quits the traversal) — the child is only REPLACED when the visit function of its parent class passes the
member to visitMaybeAmbiguous{Expression,Statement,TypeReference}.

From C/syntax/SyntaxNodes_*.h: for every node class its members of those static types.
From C/reparser/Disambiguator.cpp: for every Disambiguator::visitX the members passed to visitMaybeAmbiguous* (directly, or as
`iter->value` in a loop over a list member / accessor).
Writes coq/gen/Gen_Disamb.v: list of (class, member, sort, handled)."""
import os, re, sys
sys.path.insert(0, os.path.dirname(os.path.abspath(__file__)))
from common import *

HEADERS = ["C/syntax/SyntaxNodes_Common.h", "C/syntax/SyntaxNodes_Declarations.h", "C/syntax/SyntaxNodes_Expressions.h", "C/syntax/SyntaxNodes_Statements.h", "C/syntax/SyntaxNodes_MIXIN.h"]
SORTS = {"ExpressionSyntax": 0, "StatementSyntax": 1, "TypeReferenceSyntax": 2, "ExpressionListSyntax": 3, "StatementListSyntax": 4}
MAYBE = {"visitMaybeAmbiguousExpression": (0, 3), "visitMaybeAmbiguousStatement": (1, 4), "visitMaybeAmbiguousTypeReference": (2,)}


def classes():
    out = {}
    for h in HEADERS:
        p = os.path.join(REPO, h)
        if not os.path.exists(p):
            continue
        src = open(p).read()
        for m in re.finditer(r"class\s+PSY_C_API\s+(\w+)Syntax\b[^{;]*\{(.*?)\n\};", src, re.S):
            name, body = m.group(1), m.group(2)
            mem = []
            for mm in re.finditer(r"^\s*(\w+)\s*\*\s*(\w+_)\s*=\s*nullptr\s*;", body, re.M):
                ty, member = mm.group(1), mm.group(2)
                if ty in SORTS:
                    mem.append((member, SORTS[ty]))
                elif ty.endswith("Syntax"):
                    mem.append((member, 5))        # another node (or list of nodes): must be descended into by a visit function that returns Skip
            acc = {}
            for am in re.finditer(r"const\s+\w+\s*\*\s*(\w+)\s*\(\s*\)\s*const\s*\{\s*return\s+(\w+_)\s*;\s*\}", body):
                acc[am.group(1)] = am.group(2)
            out[name] = (mem, acc)
    if len(out) < 80:
        raise TranslationError("only %d node classes found in the headers" % len(out))
    return out


def visits():
    src = open(os.path.join(REPO, "C/reparser/Disambiguator.cpp")).read()
    out = {}
    for m in re.finditer(r"SyntaxVisitor::Action\s+Disambiguator::visit(\w+)\s*\(\s*const\s+(\w+)Syntax\s*\*\s*(\w*)\s*\)\s*\{(.*?)\n\}", src, re.S):
        fn, cls, var, body = m.groups()
        if fn.startswith("MaybeAmbiguous"):
            continue
        handled = set()
        for mm in re.finditer(r"\bvisit\s*\(\s*%s->(\w+_)\s*\)" % (var or "node"), body):
            handled.add((mm.group(1), "visit"))
        for lm in re.finditer(r"for\s*\(\s*auto\s+(\w+)\s*=\s*%s->(\w+)(\(\))?\s*;[^)]*\)\s*(\{[^}]*\}|[^;]*;)" % (var or "node"), body):
            it, src_member, call, lbody = lm.groups()
            if re.search(r"\bvisit\s*\(\s*%s->value\s*\)" % it, lbody):
                handled.add((("()" + src_member) if call else src_member, "visit"))
        # direct:  visitMaybeAmbiguousX(node->member_)
        for mm in re.finditer(r"(visitMaybeAmbiguous\w+)\s*\(\s*%s->(\w+_)\s*\)" % (var or "node"), body):
            handled.add((mm.group(2), mm.group(1)))
        # loops:   for (auto it = node->accessor() | node->member_; it; it = it->next) visitMaybeAmbiguousX(it->value);
        for lm in re.finditer(r"for\s*\(\s*auto\s+(\w+)\s*=\s*%s->(\w+)(\(\))?\s*;[^)]*\)\s*(\{[^}]*\}|[^;]*;)" % (var or "node"), body):
            it, src_member, call, lbody = lm.groups()
            vm = re.search(r"(visitMaybeAmbiguous\w+)\s*\(\s*%s->value\s*\)" % it, lbody)
            if vm:
                handled.add((("()" + src_member) if call else src_member, vm.group(1)))
        out[cls] = handled
    if len(out) < 20:
        raise TranslationError("only %d Disambiguator::visit* functions found" % len(out))
    return out


def generate():
    cl, vs = classes(), visits()
    rows = []
    for name in sorted(cl):
        mem, acc = cl[name]
        if name.startswith("Ambiguous"):
            continue        # the alternatives of an ambiguity node are visited after the choice
        hs = vs.get(name, set())
        has_fn = name in vs
        resolved = {}
        for member, fn in hs:
            if member.startswith("()"):
                member = acc.get(member[2:], member[2:] + "_")
            resolved[member] = fn
        for member, sort in mem:
            fn = resolved.get(member)
            if sort == 5:
                if not has_fn:
                    continue          # no visit function: the generic traversal descends into every child
                ok = fn is not None
            else:
                ok = fn is not None and fn != "visit" and sort in MAYBE[fn]
            rows.append((name, member, sort, ok))
    out = ["(* generated by translate/disamb.py from C/syntax/SyntaxNodes_*.h and C/reparser/Disambiguator.cpp — do not edit *)",
           "From Coq Require Import List String.", "Import ListNotations.", "Local Open Scope string_scope.", "",
           "(* (node class, member, sort: 0 expression 1 statement 2 type reference 3 expression list 4 statement list 5 other node of a class with a visit function; replaced / descended into by the disambiguator?) *)",
           "Definition ambiguity_slots : list (string * string * nat * bool) := ["]
    out.append(";\n".join('  ("%s", "%s", %d, %s)' % (n, m, s, "true" if ok else "false") for n, m, s, ok in rows))
    out.append("].")
    write_if_changed(os.path.join(GEN, "Gen_Disamb.v"), "\n".join(out) + "\n")
    return rows


if __name__ == "__main__":
    rows = generate()
    print(len(rows), "slots;", sum(1 for r in rows if not r[3]), "not replaced:")
    for r in rows:
        if not r[3]:
            print("  ", r[0], r[1], r[2])
