(** C06 — the precedence-climbing loop of Parser::parseNAryExpression_AtOperator, transcribed by
    hand over abstract tokens and parametrised by the operator tables (instantiated with the IR
    programs regenerated from the source); and the reference: recursive descent, one function per
    level, exactly as C11 6.5.5-6.5.17 is written.  No proofs here. *)
From Coq Require Import List ZArith Bool.
Import ListNotations.
Local Open Scope Z_scope.

(** a token is its SyntaxKind; atoms are the tokens of kind [ATOM] (integer constants) *)
Definition tok := Z.

Inductive tree :=
| Atom
| Paren (e : tree)
| Bin (op : Z) (l r : tree)               (* binary, assignment and comma expressions: the operator token's kind *)
| Cond (c : tree) (t : option tree) (e : tree).

Inductive res := OK (t : tree) (rest : list tok) | Fail | Fuel.

Section Model.
Variable prec : Z -> Z.            (* precedenceOf *)
Variable rassoc : Z -> bool.       (* isRightAssociative *)
Variable isnary : Z -> bool.       (* SyntaxFacts::isNAryOperatorSyntax *)
Variables ATOM LPAREN RPAREN QUESTION COLON : Z.
Variables P_SEQ P_ASSIGN : Z.      (* NAryPrecedence::Sequencing, ::Assignment *)

(** the inner while loop: operators ahead that bind tighter (or equally, if right-associative) *)
Definition inner_loop (rec : tree -> Z -> list tok -> res) :=
  fix inner (g : nat) (prev : Z) (next : tree) (ts : list tok) : res :=
    match g with
    | O => Fuel
    | S g' =>
        match ts with
        | k :: _ =>
            let pa := prec k in
            if ((prev <? pa) && isnary k) || ((pa =? prev) && rassoc k) then
              match rec next pa ts with
              | OK n' ts' => inner g' prev n' ts'
              | r => r
              end
            else OK next ts
        | [] => OK next ts
        end
    end.

Fixpoint climb (f : nat) (base : tree) (cutoff : Z) (ts : list tok) {struct f} : res :=
  match f with
  | O => Fuel
  | S f' =>
      match ts with
      | k :: ts1 =>
          if (cutoff <=? prec k) && (0 <? prec k) then
            (* the operator is consumed; for '?' the middle operand and the colon *)
            let after_mid :=
              if k =? QUESTION then
                match ts1 with
                | k1 :: ts2 =>
                    if k1 =? COLON then Some (Some None, ts2)
                    else match primary_full f' ts1 with
                         | OK m (c :: ts3) => if c =? COLON then Some (Some (Some m), ts3) else None
                         | _ => None
                         end
                | [] => None
                end
              else Some (None, ts1) in
            match after_mid with
            | None => Fail
            | Some (mid, ts2) =>
                match primary f' ts2 with
                | OK nxt ts3 =>
                    match inner_loop (climb f') f' (prec k) nxt ts3 with
                    | OK nxt' ts4 =>
                        let pa := match ts4 with k4 :: _ => prec k4 | [] => 0 end in
                        if (pa =? P_ASSIGN) && (pa <? prec k) then Fail
                        else
                          let node := match mid with
                                      | Some m => Cond base m nxt'
                                      | None => Bin k base nxt'
                                      end in
                          climb f' node cutoff ts4
                    | r => r
                    end
                | r => r
                end
            end
          else OK base ts
      | [] => OK base ts
      end
  end
(** parseExpressionWithPrecedenceCast restricted to primaries: an atom or a parenthesised expression *)
with primary (f : nat) (ts : list tok) {struct f} : res :=
  match f with
  | O => Fuel
  | S f' =>
      match ts with
      | k :: ts1 =>
          if k =? ATOM then OK Atom ts1
          else if k =? LPAREN then
            match primary_full f' ts1 with
            | OK e (c :: ts2) => if c =? RPAREN then OK (Paren e) ts2 else Fail
            | OK _ [] => Fail
            | r => r
            end
          else Fail
      | [] => Fail
      end
  end
(** parseExpression *)
with primary_full (f : nat) (ts : list tok) {struct f} : res :=
  match f with
  | O => Fuel
  | S f' =>
      match primary f' ts with
      | OK b ts1 => climb f' b P_SEQ ts1
      | r => r
      end
  end.

Definition parse_expr (ts : list tok) : res := primary_full (3 * length ts + 3) ts.

(* ------------------------------------------------------------------ reference: the grammar *)
Variable level : Z -> Z.        (* C11 level of an operator token, 0 if none: 1 comma .. 13 multiplicative *)
Variable is_assign_op : Z -> bool.

Definition is_unary_tree (t : tree) : bool := match t with Atom | Paren _ => true | _ => false end.

(** ref f lvl: parse an expression of the given level (14 = primary) *)
Fixpoint ref (f : nat) (lvl : Z) (ts : list tok) {struct f} : res :=
  match f with
  | O => Fuel
  | S f' =>
      if 14 <=? lvl then
        match ts with
        | k :: ts1 =>
            if k =? ATOM then OK Atom ts1
            else if k =? LPAREN then
              match ref f' 1 ts1 with
              | OK e (c :: ts2) => if c =? RPAREN then OK (Paren e) ts2 else Fail
              | OK _ [] => Fail
              | r => r
              end
            else Fail
        | [] => Fail
        end
      else if lvl =? 2 then
        (* assignment-expression: conditional-expression | unary-expression assignment-operator assignment-expression *)
        match ref f' 3 ts with
        | OK l (k :: ts1) =>
            if is_assign_op k then
              (if is_unary_tree l then
                 match ref f' 2 ts1 with
                 | OK r ts2 => OK (Bin k l r) ts2
                 | r => r
                 end
               else Fail)
            else OK l (k :: ts1)
        | r => r
        end
      else if lvl =? 3 then
        (* conditional-expression: logical-OR-expression | logical-OR-expression ? expression : conditional-expression *)
        match ref f' 4 ts with
        | OK c (k :: ts1) =>
            if k =? QUESTION then
              match ts1 with
              | k1 :: ts2 =>
                  if k1 =? COLON then
                    match ref f' 3 ts2 with OK e ts3 => OK (Cond c None e) ts3 | r => r end
                  else
                    match ref f' 1 ts1 with
                    | OK m (c2 :: ts3) =>
                        if c2 =? COLON then
                          match ref f' 3 ts3 with OK e ts4 => OK (Cond c (Some m) e) ts4 | r => r end
                        else Fail
                    | OK _ [] => Fail
                    | r => r
                    end
              | [] => Fail
              end
            else OK c (k :: ts1)
        | r => r
        end
      else
        (* left-associative levels: X: Y | X op Y *)
        match ref f' (lvl + 1) ts with
        | OK l ts1 =>
            (fix loop (g : nat) (l : tree) (ts : list tok) : res :=
               match g with
               | O => Fuel
               | S g' =>
                   match ts with
                   | k :: ts1 =>
                       if level k =? lvl then
                         match ref f' (lvl + 1) ts1 with
                         | OK r ts2 => loop g' (Bin k l r) ts2
                         | r => r
                         end
                       else OK l ts
                   | [] => OK l ts
                   end
               end) f' l ts1
        | r => r
        end
  end.

Definition ref_expr (ts : list tok) : res := ref (16 * (length ts + 2)) 1 ts.
End Model.
