From Coq Require Import List NArith Bool Arith Lia.
From PV Require Import C12Model C12Proofs C02Model.
Import ListNotations.

Lemma glookup_size e n t : glookup e n = Some t -> size t <= maxsize e /\ In n (map fst e).
Proof.
  induction e as [|[m u] e IH]; cbn [glookup maxsize map fst]; [discriminate|].
  destruct (N.eqb_spec n m) as [->|Hne].
  - intros H. inversion H; subst. split; [lia|left; reflexivity].
  - intros H. destruct (IH H) as [A B]. split; [lia|right; exact B].
Qed.

Lemma filter_length_le {A} (f : A -> bool) l : length (filter f l) <= length l.
Proof. induction l as [|x l IH]; cbn; [lia|]. destruct (f x); cbn; lia. Qed.

(** putting a name that occurs in [e] and is not yet under resolution into the set strictly shrinks the unvisited names *)
Lemma filter_mono {A} (f g : A -> bool) l : (forall x, f x = true -> g x = true) -> length (filter f l) <= length (filter g l).
Proof.
  intros H. induction l as [|x l IH]; [simpl; lia|]. simpl. destruct (f x) eqn:Ef.
  - rewrite (H x Ef). simpl. lia.
  - destruct (g x); simpl; lia.
Qed.
Lemma filter_strict {A} (f g : A -> bool) l y : (forall x, f x = true -> g x = true) -> In y l -> f y = false -> g y = true ->
  length (filter f l) < length (filter g l).
Proof.
  intros H. induction l as [|x l IH]; [intros []|]. intros [->|Hin] Hf Hg; simpl.
  - rewrite Hf, Hg. simpl. pose proof (filter_mono f g l H). lia.
  - specialize (IH Hin Hf Hg). destruct (f x) eqn:Ef; [rewrite (H x Ef); simpl; lia|destruct (g x); simpl; lia].
Qed.

Lemma unv_decreases e vis n : In n (map fst e) -> memb n vis = false -> unv e (n :: vis) < unv e vis.
Proof.
  intros Hin Hn. unfold unv. apply (filter_strict _ _ _ n); [|exact Hin| |].
  - intros x Hx. unfold memb in *. simpl in Hx. destruct (N.eqb x n); simpl in Hx; [discriminate|exact Hx].
  - unfold memb. simpl. rewrite N.eqb_refl. reflexivity.
  - rewrite Hn. reflexivity.
Qed.

(** the resolver terminates with a value on every declaration graph, cyclic ones included *)
Lemma resolve_g_total e M : maxsize e <= M ->
  forall fuel vis t, size t <= M -> size t + unv e vis * S M < fuel -> exists r, resolve_g fuel e vis t = Some r.
Proof.
  intros HM. induction fuel as [|f IH]; intros vis t Hs Hf; [lia|]. destruct t; cbn [resolve_g size] in *; eauto.
  - destruct (IH vis t) as [r E]; [lia|lia|]. rewrite E. cbn. eauto.
  - destruct (IH vis t) as [r E]; [lia|lia|]. rewrite E. cbn. eauto.
  - destruct (IH vis t) as [r' E]; [lia|lia|]. rewrite E.
    assert (Hps : forall p, In p ps -> size p <= M /\ size p + unv e vis * S M < f) by (intros p Hp; pose proof (in_size_le p ps Hp); lia).
    clear Hs Hf E. induction ps as [|p l IHl]; [eauto|].
    destruct (Hps p (or_introl eq_refl)) as [A B]. destruct (IH vis p A B) as [p' Ep]. rewrite Ep.
    destruct IHl as [x Ex]; [intros q Hq; apply Hps; right; exact Hq|].
    (* the accumulated value is always a TFun *)
    assert (exists ps', x = TFun r' ps') as [ps' ->].
    { clear - Ex. revert x Ex. induction l as [|a l IHl]; intros x Ex; [inversion Ex; eauto|].
      destruct (resolve_g f e vis a); [|discriminate]. 
      match type of Ex with (match ?g with _ => _ end) = _ => destruct g as [y|] eqn:Eg end; [|discriminate].
      destruct y; try discriminate. inversion Ex. eauto. }
    rewrite Ex. eauto.
  - destruct (IH vis t) as [r E]; [lia|lia|]. rewrite E. cbn. eauto.
  - destruct (glookup e n) as [t'|] eqn:El; [|eauto]. destruct (memb n vis) eqn:Em; [eauto|].
    destruct (glookup_size _ _ _ El) as [A B]. pose proof (unv_decreases e vis n B Em) as D.
    apply IH; [lia|]. assert (size t' + unv e (n :: vis) * S M < S M + unv e (n :: vis) * S M) by lia.
    assert (S M + unv e (n :: vis) * S M <= unv e vis * S M) by (replace (S M + unv e (n :: vis) * S M) with (S (unv e (n :: vis)) * S M) by lia; apply Nat.mul_le_mono_r; lia).
    lia.
Qed.

Lemma unv_le e vis : unv e vis <= length e.
Proof. unfold unv. etransitivity; [apply filter_length_le|]. rewrite map_length. lia. Qed.
