HOOKS = {
    "guard": "PSYCHEC_VERIF",
    "enable": "harness/Makefile compiles /repo's sources with -DPSYCHEC_VERIF into /verif/.cache/build-<flavour>/; "
              "so far no source change in /repo is needed: harness translation units reach non-public members "
              "through an access override local to the harness (harness/access.h)",
    "baseline_off_cmd": "cmake --build /repo/_build && cd /repo/_build && ./test-suite",
    "source_commits": [],
    "add_only": True,
}
ENGINES = [
    {"name": "coq", "path": "coq/", "serves_properties": ["C20"],
     "kind_free_text": "Coq 8.16.1 development: models, specifications, proofs; Properties_<id>.v hold the property theorems"},
    {"name": "modelrun", "path": "ocaml/driver.ml", "serves_properties": ["C20"],
     "kind_free_text": "models extracted with ExtrOcamlBasic and run on the same requests as the implementation"},
    {"name": "psyverif", "path": "harness/", "serves_properties": ["C20"],
     "kind_free_text": "C++ correspondence harness compiled from /repo's working tree"},
]
NOTES = ("All checks: bin/check <id>; exit 1 + VIOLATION line on a violation not listed in known_findings.json; "
         "KNOWN-FINDING lines for listed ones.  See DESIGN.md.")
NOT_APPLICABLE = {}
CHECKS = {
    "C20": {
        "text": "Refinement theorem in Coq, for histories of any length with arbitrary branching: the model of VersionedMap "
                "(transcribed from the header) shows after every operation exactly the snapshot of the current revision, "
                "applyRevision(r) restores snapshot r for every existing r including 0, insertions create revision cnt+1 and "
                "change no other snapshot.  The hand-written model is tied to the header by running both on all valid histories "
                "of 5 (quick) / 6 (thorough) operations and on long random branching histories.",
        "design_ref": "DESIGN.md section 6, C20",
        "note": "Trusted: Coq kernel; the hand transcription coq/C20Model.v (unordered_map as association list observed via lookup; "
                "32-bit revision counter not modelled); extraction (ExtrOcamlBasic only) and the harness. Theorems closed under the global context.",
        "technique": "Coq refinement proof (invariant by induction over operation histories) + model/implementation correspondence",
    },
}
