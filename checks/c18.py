# C18 — Equal spellings share one lexeme object; different spellings never do.
import itertools, json, os, sys
from lib import pv


def h32(w):
    h = 0
    for c in w:
        sc = c if c < 128 else c - 256
        h = ((h << 4) + sc) & 0xffffffff
        h ^= (h & 0xf0000000) >> 23
        h &= 0x0fffffff
    return h


def impl_line(ws):
    return "table " + " ".join(w.hex() if w else "-" for w in ws)


def model_line(ws):
    return " ".join(str(len(w)) + ("" if not w else " " + " ".join(str(b) for b in w)) for w in ws)


def reference(ws):
    first, out = {}, []
    for w in ws:
        out.append(first.setdefault(w, len(first)))
    return out


def split_answer(nums):
    i = nums.index(-1)
    return nums[:i], nums[i + 1], nums[i + 3:]


def run(chk, only=None):
    chk.coverage["trusted_base"] = pv.TRUSTED_COMMON + [
        "hand-written model coq/C18Model.v of common/text/TextElementTable.h and TextElement (a chain through next_ is a list of element indices; an object's identity is its index in elements_); "
        "tied by correspondence on results AND on every bucket's chain after each history",
        "int arithmetic of count_*5 / bucketCount_*3 modelled unbounded: fewer than 2^28 elements assumed"]
    chk.assumptions = ["words contain no NUL byte (what the lexer hands over: C01/C05; the model covers NUL words too and agrees with the implementation on them, and C18_identity_with_NUL_refuted shows the hypothesis is needed)",
                       "fewer than 2^28 distinct lexemes per table"]
    res = chk.prove(["Properties_C18.v"], extra_targets=["Entry_C18.vo"])
    proof_ok = all(ok for ok, _ in res.values())
    pv.build_model("C18")
    quick = chk.tier == "quick"
    rng = chk.rng
    hs = []
    alpha = [b"a", b"b", b"ab", b"ba", b"abc"]
    L = 5 if quick else 6
    for n in range(1, L + 1):
        hs += [list(t) for t in itertools.product(alpha, repeat=n)]
    # growth / rehash thresholds: n distinct words, each looked up again afterwards, for every n up to 200
    for n in list(range(1, 70)) + [95, 96, 97, 98, 99, 100, 190, 191, 192, 193, 194, 195, 196, 197, 198, 199, 200]:
        ws = [("w%d" % i).encode() for i in range(n)]
        hs.append(ws + ws[::-1])
    # collisions modulo 4, 8, 16, ... computed with the hash
    pool = [bytes([97 + (i % 26), 97 + (i // 26 % 26), 97 + (i // 676 % 26)]) for i in range(17576)]
    for m in (4, 8, 16, 32, 64, 128, 256, 1024):
        col = [w for w in pool if h32(w) % m == 1][:max(8, m)]
        rng.shuffle(col)
        hs.append(col + col)
    # differ only in length / last byte / high bytes
    base = b"identifier_with_a_long_common_prefix_"
    hs.append([base + bytes([c]) for c in range(1, 256)] + [base[:k] for k in range(1, len(base))] + [base + bytes([c]) for c in range(255, 0, -1)])
    hs.append([bytes([c]) for c in range(1, 256)] * 2)
    hs.append([bytes([0xc3, c]) for c in range(0x80, 0xc0)] + [bytes([0xe2, 0x82, c]) for c in range(0x80, 0xc0)] * 2)
    # random histories
    for _ in range(200 if quick else 2000):
        k = rng.randint(1, 40)
        voc = [bytes(rng.choice(b"abcxyz_$\xc3\xa9\x80\xff") for _ in range(rng.randint(1, 6))) for _ in range(k)]
        hs.append([rng.choice(voc) for _ in range(rng.randint(1, 120))])
    # large: many distinct words (every growth and rehash step up to 2^15 / 2^17 buckets), then every word again
    mid_n = 2500 if quick else 7000          # with the model (bucket chains compared): up to 8192 / 16384 buckets
    mid = [("id%x" % (i * 2654435761 % (1 << 32))).encode() for i in range(mid_n)]
    hs.append(mid + mid[::7] + mid[-300:])
    big_n = 40000 if quick else 400000       # implementation against the first-occurrence reference only (the model is quadratic)
    big = [("id%x" % (i * 2654435761 % (1 << 32))).encode() for i in range(big_n)]
    bigh = big + big[::7] + big[-3000:]
    nulhs = [[b"a\0b", b"a\0c", b"a\0b", b"a", b"\0", b"\0\0", b"", b"a\0"], [b"", b"", b"x", b""],
             [bytes([rng.choice([0, 97, 98]) for _ in range(rng.randint(0, 4))]) for _ in range(60)]]
    if only:
        hs, nulhs, bigh = only, [], None
    allh = hs + nulhs
    impl = pv.run_impl([impl_line(h) for h in allh], shards=pv.NCPU, limit=120)
    model = pv.run_model("C18", [model_line(h) for h in allh], shards=pv.NCPU)
    bad_spec, bad_model = [], []
    for k, (h, ia, mo) in enumerate(zip(allh, impl, model)):
        try:
            inums = [int(x) for x in ia.split()]
            ires, icount, ichains = split_answer(inums)
        except Exception:
            bad_spec.append((h, ia[:200], "crash")); continue
        mres, mcount, mchains = split_answer(mo)
        if k < len(hs) and ires != reference(h):
            bad_spec.append((h, ires, "identity"))
        if (ires, icount, ichains) != (mres, mcount, mchains):
            bad_model.append((h, "results" if ires != mres else "count" if icount != mcount else "chains"))
    if bigh is not None:
        ia = pv.run_impl([impl_line(bigh)], limit=300)[0]
        try:
            ires, icount, _ = split_answer([int(x) for x in ia.split()])
            if ires != reference(bigh) or icount != big_n:
                bad_spec.append((bigh, ires, "identity"))
        except Exception:
            bad_spec.append((bigh, ia[:200], "crash"))
    # (b) lexeme identity on generated sources
    srcs = []
    for _ in range(60 if quick else 600):
        names = ["v%d" % rng.randint(0, 30) for _ in range(rng.randint(5, 60))]
        lits = [rng.choice(["10", "010", "0x10", "1.5", "1.5f", "'a'", "L'a'", '"s"', 'L"s"', '"t"', "10u", "1e3"]) for _ in range(20)]
        toks = names + lits
        rng.shuffle(toks)
        srcs.append((" %s " % rng.choice(["+", ";", ",", "*"])).join(toks).encode())
    limpl = pv.run_impl(["lexemes 2:1:0 " + s.hex() for s in srcs], shards=pv.NCPU) if not only else []
    bad_lex = []
    for s, a in zip(srcs, limpl):
        byid, bytext = {}, {}
        for item in a.split()[1:]:
            kind, lid, text = item.split(":")
            if lid == "-1":
                continue
            if byid.setdefault(lid, text) != text or bytext.setdefault(text, lid) != lid:
                bad_lex.append((s, item)); break
    chk.coverage["evaluations"] = len(allh) + len(srcs)
    chk.coverage["distinct_nontrivial"] = len({tuple(h) for h in hs if len(set(h)) < len(h) and len(set(h)) > 2})
    chk.coverage["rule"] = ("all histories of 1..%d calls over a 5-word alphabet; n distinct words then looked up again for n = 1..69, 95..100, 190..200; sets colliding modulo 4..1024 "
                            "(computed with the hash); words differing only in length or last byte, bytes >= 0x80; random histories; one history of %d distinct words (implementation vs reference) and one of %d with the model; NUL-containing words "
                            "(model vs implementation only); results AND every bucket chain compared with the model, results with the first-occurrence reference; lexeme identity vs text on %d generated sources. "
                            "non-trivial = some word repeated among more than two distinct words" % (L, big_n, mid_n, len(srcs)))
    chk.coverage["samples"] = [impl_line(hs[3000])[:200], impl_line(hs[-1][:12])[:300]] if not only else [impl_line(hs[0])[:300]]
    chk.coverage["distribution"] = {"histories": len(allh), "max_distinct": big_n, "model_disagreements": len(bad_model), "sources": len(srcs)}
    if bad_spec:
        bad_spec.sort(key=lambda x: len(x[0]))
        h, got, why = bad_spec[0]
        small = h if len(h) < 400 else None
        path_words = os.path.join(pv.ROOT, "replays", "C18-history.txt")
        os.makedirs(os.path.dirname(path_words), exist_ok=True)
        open(path_words, "w").write(impl_line(h) + "\n")
        chk.report("identity", {"request_file": path_words, "request": impl_line(small) if small else None, "history_length": len(h),
                                "distinct_words": len(set(h)), "why": why, "count_failing": len(bad_spec),
                                "first_difference": next(((i, a, b) for i, (a, b) in enumerate(zip(got, reference(h))) if a != b), None) if why == "identity" else str(got)},
                   found=True, what="two equal spellings got different objects, or two different spellings the same object")
    if bad_lex:
        s, item = bad_lex[0]
        chk.report("lexeme-identity", {"request": "lexemes 2:1:0 " + s.hex(), "text": s.decode("latin-1"), "token": item}, found=True)
    if bad_model and not bad_spec:
        h, what = bad_model[0]
        chk.report("model-correspondence", {"unchecked": "correspondence C18Model vs TextElementTable (%s differ)" % what,
                                            "request": impl_line(h)[:2000], "count": len(bad_model)}, found=False)
    if not proof_ok and not bad_spec:
        for f, (ok, out) in res.items():
            if not ok:
                chk.report("proof-" + f, {"unchecked": f + " (theorems: %s)" % ", ".join(pv.theorem_names(f)), "coq_output": out[-3000:]}, found=False)


def replay(chk, path):
    r = json.load(open(path))
    line = r.get("request") or (open(r["request_file"]).read().strip() if r.get("request_file") else None)
    if not line:
        return run(chk)
    ws = [bytes.fromhex(x) if x != "-" else b"" for x in line.split()[1:]]
    run(chk, only=[ws])
