Require Import ExtrOcamlBasic.
From PV Require Import Entry_C12.
Extraction "model.ml" run.
