// decls <phase> <opts> <hex text> -> for every declarator node (pre-order) that has a declaration symbol:
//   "<symkind>:<name>=<type>" ; then " |" and the diagnostics.  phase: b = bind only, a = all four phases
#include "sema.h"
using namespace pvh;

namespace {
struct DeclWalker : SyntaxVisitor {
    const SemanticModel* sema; std::ostringstream out;
    DeclWalker(const SyntaxTree* t, const SemanticModel* s) : SyntaxVisitor(t), sema(s) {}
    bool preVisit(const SyntaxNode* n) override {
        if (auto d = n->asDeclarator()) {
            auto sym = sema->declarationBy(d);
            if (sym) {
                out << " " << (int)sym->kind() << ":";
                const Type* ty = nullptr; const Identifier* id = nullptr;
                if (auto f = sym->asFunctionDeclaration()) { ty = f->type(); id = f->name(); }
                else if (auto o = sym->asObjectDeclaration()) { ty = o->type(); id = o->name(); }
                else if (auto m = sym->asFieldDeclaration()) { ty = m->type(); id = m->name(); }
                else if (auto t = sym->asTypedefDeclaration()) { ty = t->synonymizedType(); id = t->introducedSynonymType() ? t->introducedSynonymType()->typedefName() : nullptr; }
                out << (id ? id->valueText() : "?") << "=" << typestr(ty);
            }
        }
        return true;
    }
};
}

HANDLER(decls)
{
    std::string ph, o, h; in >> ph >> o >> h;
    auto tree = parse(unhex(h), makeOpts(o));
    std::string syn = tree->diagnostics().empty() ? "" : " SYNTAX";
    Compiled c;
    c.comp = Compilation::create("verif");
    c.tree = tree.get();
    c.comp->addSyntaxTree(std::move(tree));
    if (ph == "b") c.comp->bindDeclarations(c.tree);
    else c.comp->computeSemanticModel(c.tree);
    c.sema = c.comp->semanticModel(c.tree);
    if (!c.sema) return "NOSEMA";
    DeclWalker w(c.tree, c.sema);
    w.visit(c.tree->rootNode());
    return "OK" + syn + w.out.str() + " |" + diagstr(c.tree);
}
