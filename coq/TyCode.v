(** Prefix code of type terms shared by the C12 and C02 request decoders.  Types in prefix code: 0 k = basic, 1 = void, 2 = error, 3 t = pointer, 4 t = array,
    5 n r p1..pn = function, 6 q t = qualified, 7 n = typedef name, 8 n = tag.
    Request: [k; name1; ty1; ...; namek; tyk (most recent declaration first); ty] -> the resolved type in the same code, or [-1] *)
From Coq Require Import ZArith List Bool NArith.
From PV Require Import C12Model.
Import ListNotations.
Local Open Scope Z_scope.

Fixpoint dec (fuel : nat) (l : list Z) : option (ty * list Z) :=
  match fuel with
  | O => None
  | S f =>
      match l with
      | 0 :: k :: r => Some (TBasic (Z.to_N k), r)
      | 1 :: r => Some (TVoid, r)
      | 2 :: r => Some (TErr, r)
      | 3 :: r => match dec f r with Some (t, r') => Some (TPtr t, r') | None => None end
      | 4 :: r => match dec f r with Some (t, r') => Some (TArr t, r') | None => None end
      | 5 :: n :: r =>
          match dec f r with
          | Some (rt, r') =>
              match (fix args (k : nat) (l : list Z) : option (list ty * list Z) :=
                       match k with
                       | O => Some ([], l)
                       | S k' => match dec f l with
                                 | Some (p, l') => match args k' l' with Some (ps, l'') => Some (p :: ps, l'') | None => None end
                                 | None => None
                                 end
                       end) (Z.to_nat n) r' with
              | Some (ps, r'') => Some (TFun rt ps, r'')
              | None => None
              end
          | None => None
          end
      | 6 :: q :: r => match dec f r with Some (t, r') => Some (TQual (Z.to_N q) t, r') | None => None end
      | 7 :: n :: r => Some (TName (Z.to_N n), r)
      | 8 :: n :: r => Some (TTag (Z.to_N n), r)
      | _ => None
      end
  end.

Fixpoint enc (t : ty) : list Z :=
  match t with
  | TBasic k => [0; Z.of_N k] | TVoid => [1] | TErr => [2]
  | TPtr u => 3 :: enc u | TArr u => 4 :: enc u
  | TFun r ps => 5 :: Z.of_nat (length ps) :: enc r ++ flat_map enc ps
  | TQual q u => 6 :: Z.of_N q :: enc u
  | TName n => [7; Z.of_N n] | TTag n => [8; Z.of_N n]
  end.

Fixpoint dec_env (k : nat) (l : list Z) : option (env * list Z) :=
  match k with
  | O => Some ([], l)
  | S k' => match l with
            | n :: r => match dec (length r) r with
                        | Some (t, r') => match dec_env k' r' with Some (e, r'') => Some ((Z.to_N n, t) :: e, r'') | None => None end
                        | None => None
                        end
            | [] => None
            end
  end.

