(** C17 — the oracle: which spelling is a keyword of which kind under which
    gate.  Every row is justified by a citation (standard clause or the
    documentation comment of the switch in LanguageExtensions.h /
    MacroTranslations.h), never adjusted to the implementation.  Rows marked
    "frozen" have no such oracle; their pinned gate is recorded as data.
    Written by hand (initial text produced once by a script); DESIGN.md App. A. *)
From Coq Require Import List NArith String Ascii Bool.
From PV Require Import KwDefs.
From PV.gen Require Import Gen_SyntaxKind Gen_Keywords.
Import ListNotations.
Local Open Scope string_scope.

Definition W (s : string) : word := map N_of_ascii (list_ascii_of_string s).
Definition mk (s : string) (k : N) (g : gate) : row := {| r_word := W s; r_kind := k; r_gate := g |}.

Definition C99 := GStd 1.
Definition C11 := GStd 2.
Definition ALT := GOpt O_extGNU_AlternateKeywords.
Definition ASM := GOpt O_extGNU_Asm.
Definition ATTR := GOpt O_extGNU_AttributeSpecifiers.

Definition kw_oracle : list row := [
  mk "auto" K_Keyword_auto GTrue  (* C89 6.1.1 *);
  mk "break" K_Keyword_break GTrue  (* C89 6.1.1 *);
  mk "case" K_Keyword_case GTrue  (* C89 6.1.1 *);
  mk "char" K_Keyword_char GTrue  (* C89 6.1.1 *);
  mk "const" K_Keyword_const GTrue  (* C89 6.1.1 *);
  mk "continue" K_Keyword_continue GTrue  (* C89 6.1.1 *);
  mk "default" K_Keyword_default GTrue  (* C89 6.1.1 *);
  mk "do" K_Keyword_do GTrue  (* C89 6.1.1 *);
  mk "double" K_Keyword_double GTrue  (* C89 6.1.1 *);
  mk "else" K_Keyword_else GTrue  (* C89 6.1.1 *);
  mk "enum" K_Keyword_enum GTrue  (* C89 6.1.1 *);
  mk "extern" K_Keyword_extern GTrue  (* C89 6.1.1 *);
  mk "float" K_Keyword_float GTrue  (* C89 6.1.1 *);
  mk "for" K_Keyword_for GTrue  (* C89 6.1.1 *);
  mk "goto" K_Keyword_goto GTrue  (* C89 6.1.1 *);
  mk "if" K_Keyword_if GTrue  (* C89 6.1.1 *);
  mk "int" K_Keyword_int GTrue  (* C89 6.1.1 *);
  mk "long" K_Keyword_long GTrue  (* C89 6.1.1 *);
  mk "register" K_Keyword_register GTrue  (* C89 6.1.1 *);
  mk "return" K_Keyword_return GTrue  (* C89 6.1.1 *);
  mk "short" K_Keyword_short GTrue  (* C89 6.1.1 *);
  mk "signed" K_Keyword_signed GTrue  (* C89 6.1.1 *);
  mk "sizeof" K_Keyword_sizeof GTrue  (* C89 6.1.1 *);
  mk "static" K_Keyword_static GTrue  (* C89 6.1.1 *);
  mk "struct" K_Keyword_struct GTrue  (* C89 6.1.1 *);
  mk "switch" K_Keyword_switch GTrue  (* C89 6.1.1 *);
  mk "typedef" K_Keyword_typedef GTrue  (* C89 6.1.1 *);
  mk "union" K_Keyword_union GTrue  (* C89 6.1.1 *);
  mk "unsigned" K_Keyword_unsigned GTrue  (* C89 6.1.1 *);
  mk "void" K_Keyword_void GTrue  (* C89 6.1.1 *);
  mk "volatile" K_Keyword_volatile GTrue  (* C89 6.1.1 *);
  mk "while" K_Keyword_while GTrue  (* C89 6.1.1 *);
  mk "inline" K_Keyword_inline C99  (* C99 6.4.1 *);
  mk "restrict" K_Keyword_restrict C99  (* C99 6.4.1 *);
  mk "_Bool" K_Keyword__Bool C99  (* C99 6.4.1 *);
  mk "_Complex" K_Keyword__Complex C99  (* C99 6.4.1 *);
  mk "__func__" K_Keyword___func__ C99  (* C99 6.4.2.2 *);
  mk "_Alignas" K_Keyword__Alignas C11  (* C11 6.4.1 *);
  mk "_Alignof" K_Keyword__Alignof C11  (* C11 6.4.1 *);
  mk "_Atomic" K_Keyword__Atomic C11  (* C11 6.4.1 *);
  mk "_Generic" K_Keyword__Generic C11  (* C11 6.4.1 *);
  mk "_Noreturn" K_Keyword__Noreturn C11  (* C11 6.4.1 *);
  mk "_Static_assert" K_Keyword__Static_assert C11  (* C11 6.4.1 *);
  mk "_Thread_local" K_Keyword__Thread_local C11  (* C11 6.4.1 *);
  mk "bool" K_KeywordAlias_Bool (GOpt O_Translate_bool_AsKeyword)  (* MacroTranslations.h Translate_bool (frozen: NativeBooleans' comment does not name the word) *);
  mk "true" K_Keyword_Ext_true (GOpt O_nativeBooleans)  (* LanguageExtensions.h NativeBooleans *);
  mk "false" K_Keyword_Ext_false (GOpt O_nativeBooleans)  (* LanguageExtensions.h NativeBooleans *);
  mk "alignas" K_Keyword__Alignas (GAnd C11 (GOpt O_Translate_alignas_AsKeyword))  (* MacroTranslations.h 7.15 (header of C11) *);
  mk "alignof" K_Keyword__Alignof (GAnd C11 (GOpt O_Translate_alignof_AsKeyword))  (* MacroTranslations.h 7.15 (header of C11) *);
  mk "va_arg" K_Keyword_MacroStd_va_arg (GOpt O_Translate_va_arg_AsKeyword)  (* MacroTranslations.h 7.16 *);
  mk "offsetof" K_Keyword_MacroStd_offsetof (GOpt O_Translate_offsetof_AsKeyword)  (* MacroTranslations.h 7.19 *);
  mk "thread_local" K_Keyword__Thread_local (GOpt O_Translate_thread_local_AsKeyword)  (* MacroTranslations.h 7.26 *);
  mk "static_assert" K_Keyword__Static_assert (GOpt O_Translate_static_assert_AsKeyword)  (* MacroTranslations.h 7.2 *);
  mk "complex" K_Keyword__Complex (GOpt O_Translate_complex_AsKeyword)  (* MacroTranslations.h 7.3 *);
  mk "NULL" K_Keyword_Ext_NULL (GOpt O_NULLAsBuiltin)  (* LanguageExtensions.h NULLAsBuiltin *);
  mk "nullptr" K_Keyword_Ext_nullptr (GOpt O_CPP_nullptr)  (* LanguageExtensions.h CPP_nullptr *);
  mk "wchar_t" K_Keyword_Ext_wchar_t (GOpt O_extC_wchar_t_Keyword)  (* LanguageExtensions.h C_wchar_t_Keyword *);
  mk "char16_t" K_Keyword_Ext_char16_t (GOpt O_extC_char16_t_Keyword)  (* LanguageExtensions.h C_char16_t_Keyword *);
  mk "char32_t" K_Keyword_Ext_char32_t (GOpt O_extC_char32_t_Keyword)  (* LanguageExtensions.h C_char32_t_Keyword *);
  mk "asm" K_KeywordAlias_asm ASM  (* LanguageExtensions.h GNU_Asm; C11 J.5.10 *);
  mk "__asm" K_KeywordAlias___asm (GOr ASM ALT)  (* GNU_Asm / GCC Alternate Keywords *);
  mk "__asm__" K_Keyword_ExtGNU___asm__ (GOr ASM ALT)  (* GNU_Asm / GCC Alternate Keywords *);
  mk "__const" K_KeywordAlias___const ALT  (* GCC Alternate Keywords (LanguageExtensions.h GNU_AlternateKeywords) *);
  mk "__const__" K_KeywordAlias___const__ ALT  (* GCC Alternate Keywords (LanguageExtensions.h GNU_AlternateKeywords) *);
  mk "__inline" K_KeywordAlias___inline ALT  (* GCC Alternate Keywords (LanguageExtensions.h GNU_AlternateKeywords) *);
  mk "__inline__" K_KeywordAlias___inline__ ALT  (* GCC Alternate Keywords (LanguageExtensions.h GNU_AlternateKeywords) *);
  mk "__restrict" K_KeywordAlias___restrict ALT  (* GCC Alternate Keywords (LanguageExtensions.h GNU_AlternateKeywords) *);
  mk "__restrict__" K_KeywordAlias___restrict__ ALT  (* GCC Alternate Keywords (LanguageExtensions.h GNU_AlternateKeywords) *);
  mk "__signed" K_KeywordAlias___signed ALT  (* GCC Alternate Keywords (LanguageExtensions.h GNU_AlternateKeywords) *);
  mk "__signed__" K_KeywordAlias___signed__ ALT  (* GCC Alternate Keywords (LanguageExtensions.h GNU_AlternateKeywords) *);
  mk "__volatile" K_KeywordAlias___volatile ALT  (* GCC Alternate Keywords (LanguageExtensions.h GNU_AlternateKeywords) *);
  mk "__volatile__" K_KeywordAlias___volatile__ ALT  (* GCC Alternate Keywords (LanguageExtensions.h GNU_AlternateKeywords) *);
  mk "__typeof" K_KeywordAlias___typeof ALT  (* GCC Alternate Keywords (LanguageExtensions.h GNU_AlternateKeywords) *);
  mk "__typeof__" K_Keyword_ExtGNU___typeof__ ALT  (* GCC Alternate Keywords (LanguageExtensions.h GNU_AlternateKeywords) *);
  mk "__alignof" K_KeywordAlias___alignof ALT  (* GCC Alternate Keywords (LanguageExtensions.h GNU_AlternateKeywords) *);
  mk "__alignof__" K_KeywordAlias___alignof__ ALT  (* GCC Alternate Keywords (LanguageExtensions.h GNU_AlternateKeywords) *);
  mk "__alignas" K_KeywordAlias___alignas ALT  (* GCC Alternate Keywords (LanguageExtensions.h GNU_AlternateKeywords) *);
  mk "__extension__" K_Keyword_ExtGNU___extension__ ALT  (* GCC Alternate Keywords (LanguageExtensions.h GNU_AlternateKeywords) *);
  mk "__attribute" K_KeywordAlias___attribute (GOr ATTR ALT)  (* GNU_AttributeSpecifiers / Alternate Keywords *);
  mk "__attribute__" K_Keyword_ExtGNU___attribute__ (GOr ATTR ALT)  (* GNU_AttributeSpecifiers / Alternate Keywords *);
  mk "__complex__" K_Keyword_ExtGNU___complex__ (GOpt O_extGNU_Complex)  (* LanguageExtensions.h GNU_Complex *);
  mk "__real__" K_Keyword_ExtGNU___real__ (GOpt O_extGNU_Complex)  (* LanguageExtensions.h GNU_Complex *);
  mk "__imag__" K_Keyword_ExtGNU___imag__ (GOpt O_extGNU_Complex)  (* LanguageExtensions.h GNU_Complex *);
  mk "__FUNCTION__" K_Keyword_ExtGNU___FUNCTION__ (GOpt O_extGNU_FunctionNames)  (* LanguageExtensions.h GNU_FunctionNames *);
  mk "__PRETTY_FUNCTION__" K_Keyword_ExtGNU___PRETTY_FUNCTION__ (GOpt O_extGNU_FunctionNames)  (* LanguageExtensions.h GNU_FunctionNames *);
  mk "__builtin_va_arg" K_Keyword_ExtGNU___builtin_va_arg (GOpt O_extGNU_InternalBuiltins)  (* LanguageExtensions.h GNU_InternalBuiltins *);
  mk "__builtin_offsetof" K_Keyword_ExtGNU___builtin_offsetof (GOpt O_extGNU_InternalBuiltins)  (* LanguageExtensions.h GNU_InternalBuiltins *);
  mk "__builtin_choose_expr" K_Keyword_ExtGNU___builtin_choose_expr (GOpt O_extGNU_InternalBuiltins)  (* LanguageExtensions.h GNU_InternalBuiltins *);
  mk "__builtin_tgmath" K_Keyword_ExtGNU___builtin_tgmath (GOpt O_extGNU_InternalBuiltins)  (* LanguageExtensions.h GNU_InternalBuiltins *);
  mk "_Template" K_Keyword_ExtPSY__Template (GOpt O_extPSY_Generics)  (* LanguageExtensions.h PSY_Generics *);
  mk "_Forall" K_Keyword_ExtPSY__Forall (GOpt O_extPSY_Generics)  (* LanguageExtensions.h PSY_Generics *);
  mk "_Exists" K_Keyword_ExtPSY__Exists (GOpt O_extPSY_Generics)  (* LanguageExtensions.h PSY_Generics *);
  mk "typeof" K_KeywordAlias_typeof GTrue  (* frozen: no standard (before C23) and no documented switch names the word; pinned gate recorded *);
  mk "__thread" K_Keyword_ExtGNU___thread ALT  (* frozen: no documented switch names the word; pinned gate recorded *);
  mk "__printf__" K_Keyword_ExtGNU___printf__ ALT  (* frozen: no documented switch names the word; pinned gate recorded *);
  mk "__scanf__" K_Keyword_ExtGNU___scanf__ ALT  (* frozen: no documented switch names the word; pinned gate recorded *);
  mk "__strftime__" K_Keyword_ExtGNU___strftime__ ALT  (* frozen: no documented switch names the word; pinned gate recorded *);
  mk "__strfmon__" K_Keyword_ExtGNU___strfmon__ ALT  (* frozen: no documented switch names the word; pinned gate recorded *)
].

(** <iso646.h> operator names: consulted only when keyword recognition is off
    and Translate_operatorNames is on (the property's last sentence). *)
Definition opname_oracle : list row := [
  mk "or" K_OperatorName_ORToken GTrue;
  mk "and" K_OperatorName_ANDToken GTrue;
  mk "not" K_OperatorName_NOTToken GTrue;
  mk "xor" K_OperatorName_XORToken GTrue;
  mk "bitor" K_OperatorName_BITORToken GTrue;
  mk "compl" K_OperatorName_COMPLToken GTrue;
  mk "or_eq" K_OperatorName_OREQToken GTrue;
  mk "and_eq" K_OperatorName_ANDEQToken GTrue;
  mk "bitand" K_OperatorName_BITANDToken GTrue;
  mk "not_eq" K_OperatorName_NOTEQToken GTrue;
  mk "xor_eq" K_OperatorName_XOREQToken GTrue
].
