(** C18 — invariant of the chained table and the identity theorem, for ANY hash function. *)
From Coq Require Import List Arith NArith Bool Lia ZifyN ZifyNat.
From PV Require Import C18Model.
Import ListNotations.

Definition nul_free (w : word) : Prop := Forall (fun c => c <> 0%N) w.

Lemma upto0_nul_free w : nul_free w -> upto0 w = w.
Proof.
  induction w as [|c w IH]; intros H; [reflexivity|]. inversion H as [|? ? Hc Hw]; subst. cbn.
  destruct (N.eqb c 0) eqn:E; [apply N.eqb_eq in E; congruence|]. rewrite IH; auto.
Qed.
Lemma store_nul_free w : nul_free w -> store w = w.
Proof. intros H. unfold store. rewrite upto0_nul_free by exact H. rewrite Nat.sub_diag. cbn. apply app_nil_r. Qed.

Lemma strncmp_eq_iff a b : nul_free a -> length a = length b -> (strncmp_eq a b = true <-> a = b).
Proof.
  revert b; induction a as [|x a IH]; intros [|y b] Ha Hl; cbn in *; try discriminate; [tauto|].
  inversion Ha as [|? ? Hx Ha']; subst.
  destruct (N.eqb x y) eqn:E.
  - apply N.eqb_eq in E; subst y. destruct (N.eqb x 0) eqn:E0; [apply N.eqb_eq in E0; congruence|].
    rewrite IH by (auto; lia). split; intros H; [f_equal; exact H | inversion H; reflexivity].
  - split; [discriminate|]. intros H. inversion H; subst. rewrite N.eqb_refl in E. discriminate.
Qed.
Lemma match_elem_iff e w : nul_free e -> (match_elem e w = true <-> e = w).
Proof.
  intros He. unfold match_elem. split.
  - intros H. apply andb_true_iff in H as [H1 H2]. apply Nat.eqb_eq in H1. apply strncmp_eq_iff in H2; auto.
  - intros ->. rewrite Nat.eqb_refl. cbn. apply strncmp_eq_iff; auto.
Qed.

Lemma find_first_some p l i : find_first p l = Some i -> In i l /\ p i = true.
Proof.
  induction l as [|j l IH]; cbn; [discriminate|]. destruct (p j) eqn:E; intros H.
  - inversion H; subst. auto.
  - destruct (IH H). auto.
Qed.
Lemma find_first_none p l : find_first p l = None -> forall i, In i l -> p i = false.
Proof.
  induction l as [|j l IH]; cbn; [tauto|]. destruct (p j) eqn:E; [discriminate|].
  intros H i [->|Hi]; auto.
Qed.

Section Proofs.
Variable hash : word -> N.
Notation find := (find hash).
Notation find_or_insert := (find_or_insert hash).
Notation run := (run_table hash).
Notation rehash_buckets := (rehash_buckets hash).

Definition bucket_of (t : tbl) (w : word) : list nat := nth (bidx (hash w) (length (buckets t))) (buckets t) [].

Lemma bidx_lt h bc : 0 < bc -> bidx h bc < bc.
Proof.
  intros H. unfold bidx. assert (N.of_nat bc <> 0%N) by lia.
  pose proof (N.mod_lt h (N.of_nat bc) H0). lia.
Qed.

Record Inv (t : tbl) : Prop := {
  inv_alloc : buckets t = [] -> elems t = [];
  inv_nodup : NoDup (elems t);
  inv_nul : Forall nul_free (elems t);
  inv_in : forall i, i < length (elems t) -> In i (bucket_of t (nth i (elems t) []));
  inv_valid : forall b i, In i (nth b (buckets t) []) -> i < length (elems t)
}.

Lemma Inv_empty : Inv empty.
Proof. constructor; cbn; intros; try constructor; try lia; auto. destruct b; contradiction. Qed.

Lemma find_sound t w i : Inv t -> nul_free w -> find t w = Some i -> i < length (elems t) /\ nth i (elems t) [] = w.
Proof.
  intros HI Hw. unfold find. destruct (buckets t) as [|b0 bs] eqn:Eb; [discriminate|].
  intros H. apply find_first_some in H as [Hin Hm]. rewrite <- Eb in Hin.
  assert (Hlt : i < length (elems t)) by (eapply inv_valid; eauto).
  split; [exact Hlt|]. apply match_elem_iff in Hm; [exact Hm|].
  pose proof (inv_nul t HI) as Hn. rewrite Forall_forall in Hn. apply Hn. apply nth_In. exact Hlt.
Qed.

Lemma find_complete t i : Inv t -> i < length (elems t) -> find t (nth i (elems t) []) = Some i.
Proof.
  intros HI Hi. unfold find. destruct (buckets t) as [|b0 bs] eqn:Eb.
  - rewrite (inv_alloc t HI Eb) in Hi. cbn in Hi. lia.
  - rewrite <- Eb. pose proof (inv_in t HI i Hi) as Hin. unfold bucket_of in Hin.
    set (w := nth i (elems t) []) in *.
    assert (Hnw : nul_free w).
    { pose proof (inv_nul t HI) as Hn. rewrite Forall_forall in Hn. apply Hn. apply nth_In. exact Hi. }
    destruct (find_first (fun j => match_elem (nth j (elems t) []) w) (nth (bidx (hash w) (length (buckets t))) (buckets t) [])) as [j|] eqn:E.
    + apply find_first_some in E as [Hj Hm].
      assert (Hjl : j < length (elems t)) by (eapply inv_valid; eauto).
      apply match_elem_iff in Hm.
      2:{ pose proof (inv_nul t HI) as Hn. rewrite Forall_forall in Hn. apply Hn. apply nth_In. exact Hjl. }
      f_equal. pose proof (inv_nodup t HI) as Hnd. rewrite (NoDup_nth (elems t) []) in Hnd. apply Hnd; auto.
    + pose proof (find_first_none _ _ E i Hin) as Hf. change (match_elem w w = false) in Hf.
      assert (match_elem w w = true) by (apply match_elem_iff; auto). congruence.
Qed.

Lemma find_none_notin t w : Inv t -> find t w = None -> ~ In w (elems t).
Proof.
  intros HI Hf Hin. apply (In_nth _ _ []) in Hin as [i [Hi Hw]].
  subst w. pose proof (find_complete t i HI Hi) as Hc. unfold word in *. congruence.
Qed.

(* ---- bucket updates ---- *)
Lemma cons_at_length h i bs : length (cons_at h i bs) = length bs.
Proof. revert h; induction bs as [|b bs IH]; intros [|h]; cbn; auto. Qed.
Lemma cons_at_nth h i bs b : nth b (cons_at h i bs) [] = if (b =? h) && (h <? length bs) then i :: nth b bs [] else nth b bs [].
Proof.
  revert h b; induction bs as [|c bs IH]; intros h b; cbn.
  - destruct b, h; cbn; rewrite ?andb_false_r; reflexivity.
  - destruct h, b; cbn; try reflexivity. rewrite IH. reflexivity.
Qed.
Lemma cons_at_incl h i bs b j : In j (nth b bs []) -> In j (nth b (cons_at h i bs) []).
Proof. rewrite cons_at_nth. destruct ((b =? h) && (h <? length bs)); cbn; auto. Qed.
Lemma cons_at_new h i bs : h < length bs -> In i (nth h (cons_at h i bs) []).
Proof. intros H. rewrite cons_at_nth, Nat.eqb_refl. apply Nat.ltb_lt in H. rewrite H. cbn. auto. Qed.
Lemma cons_at_only h i bs b j : In j (nth b (cons_at h i bs) []) -> j = i \/ In j (nth b bs []).
Proof. rewrite cons_at_nth. destruct ((b =? h) && (h <? length bs)); cbn; intros H; [destruct H; auto | auto]. Qed.

Lemma rehash_fold (hf : nat -> nat) bc l bs0 :
  (forall i, hf i < bc) -> length bs0 = bc ->
  let bs := fold_left (fun bs i => cons_at (hf i) i bs) l bs0 in
  length bs = bc /\
  (forall i, In i l -> In i (nth (hf i) bs [])) /\
  (forall b j, In j (nth b bs0 []) -> In j (nth b bs [])) /\
  (forall b j, In j (nth b bs []) -> In j l \/ In j (nth b bs0 [])).
Proof.
  intros Hbc. revert bs0. induction l as [|k l IH]; intros bs0 Hl; cbn [fold_left].
  - repeat split; auto. intros i [].
  - assert (Hl' : length (cons_at (hf k) k bs0) = bc) by (rewrite cons_at_length; exact Hl).
    destruct (IH _ Hl') as (A & B & C & D). repeat split; auto.
    + intros i [->|Hi]; [|auto]. apply C. apply cons_at_new. rewrite Hl. apply Hbc.
    + intros b j Hj. apply C. apply cons_at_incl. exact Hj.
    + intros b j Hj. destruct (D b j Hj) as [H|H]; [left; right; exact H|].
      apply cons_at_only in H as [->|H]; [left; left; reflexivity | right; exact H].
Qed.

Lemma nth_repeat_nil b n : nth b (repeat (@nil nat) n) [] = [].
Proof. revert b; induction n; intros [|b]; cbn; auto. Qed.

Lemma NoDup_snoc (A : Type) (l : list A) (x : A) : NoDup l -> ~ In x l -> NoDup (l ++ [x]).
Proof.
  induction l as [|y l IH]; cbn; intros Hn Hx; [constructor; [tauto|constructor]|].
  inversion Hn as [|? ? Hy Hl]; subst. constructor.
  - rewrite in_app_iff. cbn. intros [H|[H|[]]]; [tauto|subst; tauto].
  - apply IH; tauto.
Qed.

Lemma nth_snoc_old (l : list word) w i : i < length l -> nth i (l ++ [w]) [] = nth i l [].
Proof. intros H. apply app_nth1. exact H. Qed.
Lemma nth_snoc_new (l : list word) w : nth (length l) (l ++ [w]) [] = w.
Proof. rewrite app_nth2 by lia. rewrite Nat.sub_diag. reflexivity. Qed.

Lemma Inv_step t w : Inv t -> nul_free w -> Inv (fst (find_or_insert t w)).
Proof.
  intros HI Hw. unfold find_or_insert. destruct (find t w) as [i|] eqn:Ef; [exact HI|].
  pose proof (find_none_notin t w HI Ef) as Hnotin. rewrite (store_nul_free w Hw).
  set (n := length (elems t)). set (es := elems t ++ [w]).
  assert (Hes : length es = S n) by (unfold es; rewrite app_length; cbn; lia).
  assert (Hnd : NoDup es) by (apply NoDup_snoc; [apply (inv_nodup t HI) | exact Hnotin]).
  assert (Hnul : Forall nul_free es) by (apply Forall_app; split; [apply (inv_nul t HI) | constructor; [exact Hw|constructor]]).
  destruct ((length (buckets t) =? 0) || (length (buckets t) * 3 <=? n * 5)) eqn:Ec; cbn [fst].
  - (* rehash *)
    set (bc := if length (buckets t) =? 0 then 4 else 2 * length (buckets t)).
    assert (Hbc : 0 < bc) by (unfold bc; destruct (length (buckets t) =? 0) eqn:E0; [lia|apply Nat.eqb_neq in E0; lia]).
    destruct (rehash_fold (fun i => bidx (hash (nth i es [])) bc) bc (seq 0 (length es)) (repeat [] bc) (fun i => bidx_lt _ bc Hbc) (repeat_length _ _)) as (A & B & C & D).
    fold (rehash_buckets es bc) in A, B, C, D.
    constructor; cbn [elems buckets].
    + intros Hb. rewrite Hb in A. cbn in A. lia.
    + exact Hnd.
    + exact Hnul.
    + intros i Hi. unfold bucket_of. cbn [buckets elems]. rewrite A. apply B. apply in_seq. lia.
    + intros b j Hj. destruct (D b j Hj) as [H|H]; [apply in_seq in H; lia|]. rewrite nth_repeat_nil in H. destruct H.
  - (* link at the head of the chain *)
    apply orb_false_iff in Ec as [E0 _]. apply Nat.eqb_neq in E0.
    set (bc := length (buckets t)) in *.
    assert (Hh : bidx (hash w) bc < bc) by (apply bidx_lt; lia).
    constructor; cbn [elems buckets].
    + intros Hb. exfalso. apply E0. unfold bc. rewrite <- (cons_at_length (bidx (hash w) bc) n (buckets t)). rewrite Hb. reflexivity.
    + exact Hnd.
    + exact Hnul.
    + intros i Hi. unfold bucket_of. cbn [buckets elems]. rewrite cons_at_length. fold bc.
      rewrite Hes in Hi. assert (Hcase : i < n \/ i = n) by lia. destruct Hcase as [Hlt| ->].
      * unfold es. rewrite nth_snoc_old by exact Hlt. apply cons_at_incl. apply (inv_in t HI i Hlt).
      * unfold es, n. rewrite nth_snoc_new. apply cons_at_new. exact Hh.
    + intros b j Hj. rewrite Hes. apply cons_at_only in Hj as [->|Hj]; [lia|]. pose proof (inv_valid t HI b j Hj). fold n in H. lia.
Qed.

Lemma foi_result t w : Inv t -> nul_free w ->
  let (t', i) := find_or_insert t w in
  nth_error (elems t') i = Some w /\ exists suf, elems t' = elems t ++ suf.
Proof.
  intros HI Hw. unfold find_or_insert. destruct (find t w) as [i|] eqn:Ef.
  - destruct (find_sound t w i HI Hw Ef) as [Hlt Hn]. split; [|exists []; rewrite app_nil_r; reflexivity].
    rewrite <- Hn. apply nth_error_nth'. exact Hlt.
  - rewrite (store_nul_free w Hw).
    destruct ((length (buckets t) =? 0) || (length (buckets t) * 3 <=? length (elems t) * 5)); cbn [elems];
      (split; [rewrite nth_error_app2 by lia; rewrite Nat.sub_diag; reflexivity | exists [w]; reflexivity]).
Qed.

(** every history: invariant, elements only appended, each result designates the word's element *)
Lemma run_spec ws : forall t, Inv t -> Forall nul_free ws ->
  let (t', rs) := run t ws in
  Inv t' /\ (exists suf, elems t' = elems t ++ suf) /\ Forall2 (fun w r => nth_error (elems t') r = Some w) ws rs.
Proof.
  induction ws as [|w ws IH]; intros t HI Hn; cbn [run_table].
  - split; [exact HI|]. split; [exists []; rewrite app_nil_r; reflexivity | constructor].
  - inversion Hn as [|? ? Hw Hws]; subst.
    pose proof (Inv_step t w HI Hw) as HI1. pose proof (foi_result t w HI Hw) as Hr.
    destruct (find_or_insert t w) as [t1 i]. cbn [fst] in HI1. destruct Hr as [Hi [suf1 Hs1]].
    specialize (IH t1 HI1 Hws). destruct (run t1 ws) as [t2 rs]. destruct IH as (HI2 & [suf2 Hs2] & HF).
    split; [exact HI2|]. split; [exists (suf1 ++ suf2); rewrite Hs2, Hs1, app_assoc; reflexivity |].
    constructor; [|exact HF]. rewrite Hs2. rewrite nth_error_app1; [exact Hi|]. apply nth_error_Some. congruence.
Qed.

Theorem identity ws : Forall nul_free ws ->
  let rs := snd (run empty ws) in
  (length rs = length ws) /\ (forall i j, i < length ws -> j < length ws -> (nth i rs 0 = nth j rs 0 <-> nth i ws [] = nth j ws [])).
Proof.
  intros Hn. pose proof (run_spec ws empty Inv_empty Hn) as H. destruct (run empty ws) as [t rs]. cbn [snd].
  destruct H as (HI & _ & HF). assert (Hlen : length rs = length ws) by (clear -HF; induction HF; cbn; congruence).
  split; [exact Hlen|]. intros i j Hi Hj.
  assert (Hget : forall k, k < length ws -> nth_error (elems t) (nth k rs 0) = Some (nth k ws [])).
  { clear -HF. induction HF as [|w r ws' rs' Hwr HF IH]; intros k Hk; cbn in Hk; [lia|]. destruct k; cbn; [exact Hwr|apply IH; lia]. }
  pose proof (Hget i Hi) as Gi. pose proof (Hget j Hj) as Gj. split.
  - intros E. rewrite E in Gi. congruence.
  - intros E. rewrite E in Gi. pose proof (inv_nodup t HI) as Hnd. rewrite NoDup_nth_error in Hnd.
    apply Hnd; [apply nth_error_Some; congruence | congruence].
Qed.
End Proofs.
