// C20: VersionedMap<int,int> histories.
#include <map>
#include <cstdint>
#include "VersionedMap.h"
#include "handlers.h"

HANDLER(vmap)
{
    psy::VersionedMap<long, long> m;
    std::string op, out;
    while (in >> op) {
        if (op == "i") { long k, v; in >> k >> v; m.insertOrAssign(k, v); }
        else if (op == "a") { unsigned r; in >> r; m.applyRevision(r); }
        std::map<long, long> sorted(m.begin(), m.end());
        out += std::to_string(m.revision());
        for (auto& kv : sorted) out += " " + std::to_string(kv.first) + ":" + std::to_string(kv.second);
        out += " |";
    }
    return out;
}
