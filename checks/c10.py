# C10 — Identifiers resolve to the innermost visible declaration of their name space.
import json, os, sys
from lib import pv

OPTS = "2:1:0"


class Gen:
    def __init__(self, rng, late_ok):
        self.rng, self.late_ok = rng, late_ok
        self.ids = 0
        self.text = []
        self.pos = 0
        self.uses = {}          # uid -> byte offset
        self.decls = {}         # id -> byte offset

    def emit(self, s):
        self.text.append(s); self.pos += len(s)

    def name(self):
        return self.rng.randint(1, 5)

    def new_id(self):
        self.ids += 1
        return self.ids

    def items(self, depth, top, n):
        out = []
        for _ in range(n):
            r = self.rng.random()
            if top:
                k = "decl" if r < 0.35 else "tag" if r < 0.45 else "field" if r < 0.55 else "enum" if r < 0.62 else "fun"
            else:
                k = ("decl" if r < 0.25 else "use" if r < 0.6 else "block" if r < 0.78 else "tag" if r < 0.84 else "field" if r < 0.9 else "enum" if r < 0.95 else "use")
                if depth <= 0 and k == "block":
                    k = "use"
            if k == "decl":
                nm, i = self.name(), self.new_id()
                self.emit("int "); self.decls[i] = self.pos; self.emit("n%d; " % nm)
                out.append([0, 0, nm, i])
            elif k == "tag":
                nm, i = self.name(), self.new_id()
                self.emit("struct n%d; " % nm)
                out.append([0, 1, nm, i])
            elif k == "field":
                nm, i = self.name(), self.new_id()
                self.emit("struct { int "); self.decls[i] = self.pos; self.emit("n%d; } f%d; " % (nm, i))
                out.append([0, 2, nm, i])
                j = self.new_id()
                out.append([0, 0, 100 + i, j])      # the struct object itself: a distinct ordinary name
            elif k == "enum":
                nm, i = self.name(), self.new_id()
                self.emit("enum { "); self.decls[i] = self.pos; self.emit("n%d }; " % nm)
                out.append([1, nm, i])
            elif k == "use":
                nm, u = self.name(), self.new_id()
                self.uses[u] = self.pos; self.emit("n%d; " % nm)
                out.append([2, nm, u])
            elif k == "block":
                self.emit("{ ")
                b = self.items(depth - 1, False, self.rng.randint(0, 5))
                self.emit("} ")
                out.append([3, len(b)] + [x for it in b for x in it])
            elif k == "fun":
                nm, i = self.name(), self.new_id()
                self.emit("void "); self.decls[i] = self.pos; self.emit("n%d(" % nm)
                ps = []
                np_ = self.rng.randint(0, 3)
                for q in range(np_):
                    pn, pi = self.name(), self.new_id()
                    self.emit(("" if q == 0 else ", ") + "int "); self.decls[pi] = self.pos; self.emit("n%d" % pn)
                    ps += [pn, pi]
                if np_ == 0:
                    self.emit("void")
                self.emit(") { ")
                b = self.items(depth, False, self.rng.randint(1, 7))
                self.emit("} ")
                out.append([4, nm, i, np_] + ps + [len(b)] + [x for it in b for x in it])
        return out


def run(chk, only=None):
    chk.coverage["trusted_base"] = pv.TRUSTED_COMMON + [
        "hand-written functional model coq/C10Model.v of the RESULT of the binder's scope protocol (push/pop/stash, addDeclaration first-wins, encloseScope, prototype scope morphing into the body block) "
        "and of Scope::searchForDeclaration; the stack protocol itself is not modelled step by step: tied by comparing the declaration found for every identifier use on generated programs",
        "specification: C11 6.2.1/6.2.3 as positional scoping (c_resolve)"]
    chk.assumptions = ["uses are ordinary identifiers in expressions (what SemanticModel::scopeOf covers); tag and member look-ups are exercised only as decoys in other name spaces"]
    res = chk.prove(["Properties_C10.v"], extra_targets=["Entry_C10.vo"])
    proof_ok = all(ok for ok, _ in res.values())
    pv.build_model("C10")
    quick = chk.tier == "quick"
    rng = chk.rng
    progs = []
    for _ in range(800 if quick else 10000):
        g = Gen(rng, True)
        items = g.items(rng.randint(1, 4), True, rng.randint(1, 6))
        progs.append((g, items, "".join(g.text)))
    if only:
        progs = only
    impl = pv.run_impl(["resolve %s %s" % (OPTS, p[2].encode().hex()) for p in progs], shards=pv.NCPU)
    model = pv.run_model("C10", [" ".join(map(str, [len(p[1])] + [x for it in p[1] for x in it])) for p in progs], shards=pv.NCPU)
    bad, kf_enum, kf_late, bad_model, n_uses, skipped = [], [], [], [], 0, 0
    for (g, items, text), ia, mo in zip(progs, impl, model):
        if not ia.startswith("OK") or " SYNTAX" in ia:
            if ia.startswith("CRASH"):
                bad.append((text, "crash", ia[:100]))
            else:
                skipped += 1
            continue
        found = {}
        for it in ia.split()[1:]:
            pos, _, rest = it.partition(":")
            nm, _, d = rest.partition("=")
            found[int(pos)] = d
        byte_to_id = {v: k for k, v in g.decls.items()}
        enum_ids = set()

        def collect_enums(its):
            for it in its:
                if it[0] == 1:
                    enum_ids.add(it[2])
        # enumerator ids: scan the flat encoding
        def scan(flat, k):
            i = 0
            while k > 0:
                t = flat[i]
                if t == 0:
                    i += 4
                elif t == 1:
                    enum_ids.add(flat[i + 2]); i += 3
                elif t == 2:
                    i += 3
                elif t == 3:
                    m = flat[i + 1]; i += 2; i += scan(flat[i:], m)
                elif t == 4:
                    np_ = flat[i + 3]; i += 4 + 2 * np_; m = flat[i]; i += 1; i += scan(flat[i:], m)
                k -= 1
            return i
        scan([x for it in items for x in it], len(items))
        for k in range(0, len(mo), 3):
            uid, mi, sp = mo[k:k + 3]
            n_uses += 1
            upos = g.uses[uid]
            d = found.get(upos)
            if d is None:
                bad.append((text, "use-not-reported", upos)); continue
            got = -1 if d == "none" else byte_to_id.get(int(d), -2) if d.isdigit() else -3
            if got == sp:
                if mi != got:
                    bad_model.append((text, upos, got, mi))
                continue
            # the implementation differs from C11
            if got == mi:
                (kf_enum if sp in enum_ids or (got in enum_ids) else kf_late).append((text, upos, got, sp))
            else:
                bad.append((text, "resolution", {"use_at_byte": upos, "implementation_decl_at": g.decls.get(got, got), "c11_decl_at": g.decls.get(sp, sp), "model": mi}))
    chk.coverage["evaluations"] = len(progs)
    chk.coverage["distinct_nontrivial"] = len({p[2] for p in progs if p[2].count("{") >= 3})
    chk.coverage["rule"] = ("%d random programs over 5 names reused across scopes and name spaces: file-scope objects, tags, struct fields, enumerators, function definitions with 0..3 parameters, "
                            "blocks nested to depth 4, uses at every level (%d uses); for every use the declaration found through scopeOf(use)->searchForDeclaration compared with C11 positional scoping "
                            "and with the frame model. non-trivial = at least three scopes" % (len(progs), n_uses))
    chk.coverage["samples"] = [progs[i][2][:200] for i in (0, 5)] if not only else [progs[0][2][:300]]
    chk.coverage["distribution"] = {"programs": len(progs), "uses": n_uses, "parser_rejected": skipped, "known_enum": len(kf_enum), "known_late": len(kf_late), "model_disagreements": len(bad_model)}
    if kf_enum:
        t, upos, got, sp = min(kf_enum, key=lambda x: len(x[0]))
        chk.report("enumerator-not-ordinary", {"request": "resolve %s %s" % (OPTS, t.encode().hex()), "text": t, "use_at_byte": upos, "count": len(kf_enum)}, found=True)
    if kf_late:
        t, upos, got, sp = min(kf_late, key=lambda x: len(x[0]))
        chk.report("late-declaration-in-scope", {"request": "resolve %s %s" % (OPTS, t.encode().hex()), "text": t, "use_at_byte": upos, "count": len(kf_late)}, found=True)
    if bad:
        bad.sort(key=lambda x: len(x[0]))
        t, why, det = bad[0]
        chk.report("resolve:" + why, {"request": "resolve %s %s" % (OPTS, t.encode().hex()), "text": t, "why": why, "detail": det, "count_failing": len(bad)}, found=True,
                   what="an identifier resolves to a declaration other than the innermost visible one of its name space")
    if bad_model and not bad:
        t, upos, got, mi = bad_model[0]
        chk.report("model-correspondence", {"unchecked": "correspondence C10Model vs the binder's scopes", "text": t, "use_at_byte": upos, "implementation": got, "model": mi, "count": len(bad_model)}, found=False)
    if not proof_ok and not bad:
        for f, (ok, out) in res.items():
            if not ok:
                chk.report("proof-" + f, {"unchecked": f + " (theorems: %s)" % ", ".join(pv.theorem_names(f)), "coq_output": out[-3000:]}, found=False)


def replay(chk, path):
    r = json.load(open(path))
    if r.get("request"):
        print("text:", r.get("text"))
        print("implementation:", pv.run_impl([r["request"]])[0][:1500])
    run(chk)
