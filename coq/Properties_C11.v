(** C11 — Well-typed programs produce no error diagnostics.  PARTIAL: the theorems are the two
    laws every use of type compatibility in the checker relies on, for the model of
    TypeChecker::typesAreCompatible over type terms (typedef names resolved on either side as C12
    proves): with qualifiers respected it is reflexive on every error-free type and symmetric on
    every pair; with qualifiers ignored the same laws are kernel-evaluated over an enumerated
    family (a bounded check, labelled as such).  That well-typed programs get no error diagnostic is
    decided by differential testing against gcc. *)
From Coq Require Import List NArith Bool Arith Lia.
From PV Require Import C12Model C12Proofs C11Model C11Proofs.
Import ListNotations.

Theorem C11_compatibility_symmetric : forall d v t1 t2, compat d v false t1 t2 = compat d v false t2 t1.
Proof.
  intros d v t1 t2. unfold compat. replace (size (den d t2) + size (den d t1)) with (size (den d t1) + size (den d t2)) by lia. apply compat_sym_noq.
Qed.

Theorem C11_compatibility_reflexive : forall d v t, clean (den d t) = true -> compat d v false t t = true.
Proof. intros d v t Hc. unfold compat. apply compat_refl_noq; [exact Hc|lia]. Qed.

(** bounded check with qualifiers ignored: every type / pair of types of nesting depth <= 2 over
    {int, char, void, struct} x {pointer, array, const, const volatile, function of one parameter} *)
Definition base : list ty := [TBasic 5; TBasic 0; TVoid; TTag 1]%N.
Definition grow (l : list ty) : list ty :=
  l ++ flat_map (fun t => [TPtr t; TArr t; TQual 1 t; TQual 3 t]) l ++ flat_map (fun r => map (fun p => TFun r [p]) base) l.
Definition family : list ty := grow (grow base).
Lemma C11_ignoring_qualifiers_bounded :
  forallb (fun t => compat_tf 40 false true t t && compat_tf 40 true true t t) family = true /\
  forallb (fun a => forallb (fun b => Bool.eqb (compat_tf 40 false true a b) (compat_tf 40 false true b a) &&
                                      Bool.eqb (compat_tf 40 true true a b) (compat_tf 40 true true b a)) family) family = true /\
  Nat.leb 100 (length family) = true.
Proof. vm_compute. repeat split; reflexivity. Qed.

(** Non-vacuity: typedef const int CI; typedef CI *P;  —  P vs const int * ; int * vs const int * (only with qualifiers ignored) *)
Example C11_nonvacuous :
  let d := denv [(2, TPtr (TName 1)); (1, TQual 1 (TBasic 5))]%N in
  compat d false false (TName 2) (TPtr (TQual 1 (TBasic 5))) = true /\
  compat d false false (TPtr (TBasic 5)) (TName 2) = false /\
  compat d false true (TPtr (TBasic 5)) (TName 2) = true /\
  compat d true false (TPtr TVoid) (TName 2) = true.
Proof. vm_compute. repeat split; reflexivity. Qed.

Print Assumptions C11_compatibility_symmetric.
Print Assumptions C11_compatibility_reflexive.
