# C07 — A declarator yields exactly the C type it spells.
import json, os, re, sys
from lib import pv

OPTS = "2:1:%x" % (1 << 21)
BASES = [("int", "B5", 5), ("char", "B0", 0), ("unsigned long", "B8", 8), ("double", "B13", 13), ("void", "V", 100), ("struct s", "G0:s", 101), ("T", "T:T", 102),
         ("_Bool", "B11", 11), ("enum e", "G2:e", 103)]
QS = ["const", "volatile", "restrict", "_Atomic"]
PRE = "typedef int T; struct s; enum e;\n"


# ---- declarators as the parser nests them: ("id", n) | ("abs",) | ("ptr", [q], d) | ("arr", d) | ("fun", d, [(base, d)], variadic) | ("par", d)
def gen_decl(rng, depth, name, abstract=False, counter=None):
    if depth == 0 or rng.random() < 0.25:
        return ("abs",) if abstract else ("id", name)
    k = rng.random()
    if k < 0.35:
        qs = [q for q in range(4) if rng.random() < 0.2]
        rng.shuffle(qs)
        return ("ptr", qs, gen_decl(rng, depth - 1, name, abstract, counter))
    inner = gen_decl(rng, depth - 1, name, abstract, counter)
    if inner[0] == "ptr":
        inner = ("par", inner)
    if k < 0.6:
        return ("arr", inner)
    if k < 0.9:
        ps = []
        for _ in range(rng.choice([0, 1, 1, 2, 3])):
            counter[0] += 1
            pd = gen_decl(rng, max(0, depth - 2), counter[0], abstract=rng.random() < 0.4, counter=counter)
            b = rng.randrange(len(BASES))
            # `T (x)` / `(T)` are typedef-name ambiguities the parser resolves by guessing (C04/C09's business): keep T away from them
            while BASES[b][0] == "void" or (BASES[b][0] == "T" and ("v" not in text(pd) or text(pd).lstrip().startswith("("))):
                b = rng.randrange(len(BASES))
            ps.append(((b, rng.random() < 0.2), pd))
        return ("fun", inner, ps, bool(ps) and rng.random() < 0.25)
    return ("par", inner) if inner[0] != "abs" else inner


def text(d):
    k = d[0]
    if k == "id":
        return "v%d" % d[1]
    if k == "abs":
        return ""
    if k == "ptr":
        return "* " + " ".join(QS[q] for q in d[1]) + " " + text(d[2])
    if k == "arr":
        return text(d[1]) + "[2]"
    if k == "fun":
        ps = ", ".join(base_text(b) + " " + text(pd) for b, pd in d[2])
        if d[3]:
            ps += ", ..."
        if not d[2]:
            ps = "void" if False else ""
        return text(d[1]) + "(" + ps + ")"
    if k == "par":
        return "(" + text(d[1]) + ")"


def base_text(b):
    return ("const " if b[1] else "") + BASES[b[0]][0]


def enc_base(b):
    e = [0, BASES[b[0]][2]]
    return [4, 1, 0, 0, 0] + e if b[1] else e


def enc_decl(d):
    k = d[0]
    if k == "id":
        return [0, d[1]]
    if k == "abs":
        return [1]
    if k == "ptr":
        return [2, len(d[1])] + list(d[1]) + enc_decl(d[2])
    if k == "arr":
        return [3] + enc_decl(d[1])
    if k == "fun":
        out = [4, 1 if d[3] else 0, len(d[2])]
        for b, pd in d[2]:
            out += enc_base(b) + enc_decl(pd)
        return out + enc_decl(d[1])
    return [5] + enc_decl(d[1])


def dec_type(nums, i=0):
    """model encoding -> typestr as the harness prints it (parameter list form dropped)"""
    t = nums[i]
    if t == 0:
        n = nums[i + 1]
        s = {100: "V", 101: "G0:s", 102: "T:T", 103: "G2:e"}.get(n, "B%d" % n)
        return s, i + 2
    if t == 1:
        inner, j = dec_type(nums, i + 3)
        return "P" + ("a" if nums[i + 1] else "") + ("f" if nums[i + 2] else "") + "(" + inner + ")", j
    if t == 2:
        inner, j = dec_type(nums, i + 1)
        return "A(" + inner + ")", j
    if t == 3:
        v, np_ = nums[i + 1], nums[i + 2]
        r, j = dec_type(nums, i + 3)
        ps = []
        for _ in range(np_):
            p, j = dec_type(nums, j)
            ps.append(p)
        return "F(" + r + ";" + ",".join(ps) + (";..." if v else ";") + ")", j
    if t == 4:
        inner, j = dec_type(nums, i + 5)
        q = "Q" + ("c" if nums[i + 1] else "") + ("v" if nums[i + 2] else "") + ("r" if nums[i + 3] else "") + ("a" if nums[i + 4] else "")
        return q + "(" + inner + ")", j
    raise ValueError(nums[i:i + 6])


def norm_impl(ty):
    """drop the parameterListForm digit the harness prints at the end of every function type"""
    return re.sub(r";(\.\.\.)?\d\)", lambda m: ";" + (m.group(1) or "") + ")", ty)


def symbols(ans):
    out = {}
    if not ans.startswith("OK"):
        return None
    body = ans.partition(" |")[0]
    for item in body.split()[1:]:
        if item == "SYNTAX":
            return None
        k, _, rest = item.partition(":")
        name, _, ty = rest.partition("=")
        out.setdefault(name, (int(k), norm_impl(ty)))
    return out


def run(chk, only=None):
    chk.coverage["trusted_base"] = pv.TRUSTED_COMMON + [
        "hand-written model coq/C07Model.v of the declarator part of the binder (types as values: a FunctionType completed after being captured by derived types is modelled as built complete); "
        "tied by comparing the bound symbol's type for generated declarators in five contexts",
        "specification: C11 6.7.6 / 6.7.6.3p7-8 as the recursive function ctype_of over the declarator as the parser nests it; that the parser nests it that way is checked by the same comparison (text -> type)"]
    chk.assumptions = ["the specifier type is non-derived (a basic, void, tag or typedef-name type, possibly qualified): what declaration specifiers produce"]
    res = chk.prove(["Properties_C07.v"], extra_targets=["Entry_C07.vo"])
    proof_ok = all(ok for ok, _ in res.values())
    pv.build_model("C07")
    quick = chk.tier == "quick"
    rng = chk.rng
    cases = []          # (context, base, [decl], text)
    N = 1500 if quick else 20000
    for i in range(N):
        ctx = rng.choice(["var", "var", "block", "field", "param", "typedef"])
        b = (rng.randrange(len(BASES)), rng.random() < 0.2)
        counter = [10]
        nd = 1 if ctx == "param" else rng.choice([1, 1, 2, 3])
        ds = []
        for j in range(nd):
            d = gen_decl(rng, rng.randint(0, 6 if not quick else 5), j + 1, abstract=False, counter=counter)
            ds.append(d)
        # a variable / field / typedef of type void or an incomplete struct is still bound with that type: fine for the binder
        if BASES[b[0]][0] == "T" and text(ds[0]).lstrip().startswith("("):
            b = (0, b[1])
        body = base_text(b) + " " + ", ".join(text(d) for d in ds)
        if ctx == "var":
            t = PRE + body + ";"
        elif ctx == "block":
            t = PRE + "void g0(void) { " + body + "; }"
        elif ctx == "field":
            t = PRE + "struct w { " + body + "; };"
        elif ctx == "param":
            t = PRE + "void g0(" + body + ");"
        else:
            t = PRE + "typedef " + body + ";"
        cases.append((ctx, b, ds, t))
    if only:
        cases = only
    impl = pv.run_impl(["decls b %s %s" % (OPTS, c[3].encode().hex()) for c in cases], shards=pv.NCPU)
    mreqs = []
    for ctx, b, ds, t in cases:
        r = [1 if ctx == "param" else 0] + enc_base(b) + [len(ds)]
        for d in ds:
            r += enc_decl(d)
        mreqs.append(" ".join(map(str, r)))
    model = pv.run_model("C07", mreqs, shards=pv.NCPU)
    bad, bad_model, skipped, unbound = [], [], 0, 0
    for c, ia, mo in zip(cases, impl, model):
        syms = symbols(ia) if not ia.startswith("CRASH") else None
        if syms is None:
            if ia.startswith("CRASH"):
                bad.append((c, "crash", ia[:100]))
            else:
                skipped += 1
            continue
        # split the model answer per declarator
        chunks, cur = [], []
        for z in mo:
            if z == -8:
                chunks.append(cur); cur = []
            else:
                cur.append(z)
        for d, ch in zip(c[2], chunks):
            k = ch.index(-7)
            mpart, spart = ch[:k], ch[k + 1:]
            sname, (sty, _) = spart[0], dec_type(spart, 1)
            if mpart[0] == -1 or mpart != spart:
                bad_model.append((c, "model differs from specification", (mpart[:12], spart[:12])))
            name = "v%d" % sname if sname else ""
            got = syms.get(name)
            if got is None:
                # abstract parameter: the symbol is nameless
                got = syms.get("", None) if not name else None
            if got is None:
                unbound += 1; continue          # the parser read the text differently (typedef-name ambiguities in the generated text): not a typing matter
            if got[1] != sty:
                bad.append((c, "type", {"declarator": text(d), "name": name, "implementation": got[1], "c11": sty}))
    chk.coverage["evaluations"] = len(cases)
    chk.coverage["distinct_nontrivial"] = len({c[3] for c in cases if c[3].count("*") + c[3].count("[") + c[3].count("(") >= 3})
    chk.coverage["rule"] = ("%d random declarations: specifier type from %d bases (optionally const), 1..3 declarators nested to depth %d from pointers (any qualifier subset and order), arrays, "
                            "functions (0..3 named/abstract parameters with their own nested declarators, variadic), redundant parentheses, in file, block, field, parameter and typedef context; "
                            "the bound symbol's type compared with ctype_of (and the model with ctype_of). non-trivial = at least three derivations in the text; %d skipped because the parser rejected the text"
                            % (len(cases), len(BASES), 5 if quick else 6, skipped))
    chk.coverage["samples"] = [cases[i][3][len(PRE):] for i in (0, 7, 42)] if not only else [cases[0][3]]
    chk.coverage["distribution"] = {"cases": len(cases), "parser_rejected": skipped, "symbol_not_found_other_reading": unbound, "model_vs_spec": len(bad_model),
                                    "by_context": {k: sum(1 for c in cases if c[0] == k) for k in ("var", "block", "field", "param", "typedef")}}
    if bad:
        bad.sort(key=lambda x: len(x[0][3]))
        c, why, det = bad[0]
        chk.report("decl:" + c[3][len(PRE):][:60], {"request": "decls b %s %s" % (OPTS, c[3].encode().hex()), "text": c[3], "context": c[0], "why": why, "detail": det,
                                                      "count_failing": len(bad), "others": [x[0][3][len(PRE):] for x in bad[1:6]]}, found=True,
                   what="a declarator is bound with a type other than the one C11 6.7.6 spells")
    if bad_model and not bad:
        c, why, det = bad_model[0]
        chk.report("model-vs-spec", {"unchecked": "extracted run_declarator vs ctype_of (the proved theorem says they agree: decoder or generator problem)", "text": c[3], "detail": str(det)}, found=False)
    if not proof_ok and not bad:
        for f, (ok, out) in res.items():
            if not ok:
                chk.report("proof-" + f, {"unchecked": f + " (theorems: %s)" % ", ".join(pv.theorem_names(f)), "coq_output": out[-3000:]}, found=False)


def replay(chk, path):
    r = json.load(open(path))
    if r.get("request"):
        print("text:", r.get("text"))
        print("implementation:", pv.run_impl([r["request"]])[0][:1500])
    run(chk)
