(** C06 — the SHAPE of the tree the precedence-climbing loop builds, for every token string and
    every fuel: each operator node's left operand binds at least as tightly as the node (more
    tightly, if the operator is right-associative) and its right operand binds more tightly (at
    least as tightly, if right-associative).  Together with [lossless] (the in-order token string of
    the tree is the input) this is what "respects precedence and associativity" means. *)
From Coq Require Import List ZArith Bool Lia.
From PV Require Import C06Model.
Import ListNotations.
Local Open Scope Z_scope.

Section Shape.
Variable prec : Z -> Z.
Variable rassoc : Z -> bool.
Variable isnary : Z -> bool.
Variables ATOM LPAREN RPAREN QUESTION COLON : Z.
Variables P_SEQ P_ASSIGN : Z.
Variable BIG : Z.

(** what the tables must satisfy (discharged for the regenerated tables over every token kind) *)
Hypothesis Hnary : forall k, 0 < prec k -> isnary k = true.
Hypothesis Hsame : forall k1 k2, prec k1 = prec k2 -> 0 < prec k1 -> rassoc k1 = rassoc k2.
Hypothesis Hbig : forall k, prec k < BIG.

Notation climb := (climb prec rassoc isnary ATOM LPAREN RPAREN QUESTION COLON P_SEQ P_ASSIGN).
Notation primary := (primary prec rassoc isnary ATOM LPAREN RPAREN QUESTION COLON P_SEQ P_ASSIGN).
Notation primary_full := (primary_full prec rassoc isnary ATOM LPAREN RPAREN QUESTION COLON P_SEQ P_ASSIGN).

(** the precedence of the operator at the root; primaries bind tighter than any operator *)
Definition rp (t : tree) : Z :=
  match t with Atom | Paren _ => BIG | Bin k _ _ => prec k | Cond _ _ _ => prec QUESTION end.

Definition left_ok (k : Z) (l : tree) : Prop := if rassoc k then prec k < rp l else prec k <= rp l.
Definition right_ok (k : Z) (r : tree) : Prop := if rassoc k then prec k <= rp r else prec k < rp r.

Fixpoint wf (t : tree) : Prop :=
  match t with
  | Atom => True
  | Paren e => wf e
  | Bin k l r => wf l /\ wf r /\ 0 < prec k /\ left_ok k l /\ right_ok k r
  | Cond c m e => wf c /\ (match m with Some x => wf x | None => True end) /\ wf e /\ 0 < prec QUESTION /\ left_ok QUESTION c /\ right_ok QUESTION e
  end.

(** [base] can be the left operand of whatever operator comes next *)
Definition base_ok (base : tree) (ts : list tok) : Prop :=
  match ts with k :: _ => 0 < prec k -> left_ok k base | [] => True end.
(** the loop stopped because the next token does not belong to it *)
Definition stops (cutoff : Z) (ts : list tok) : Prop :=
  match ts with k :: _ => ~ (cutoff <= prec k /\ 0 < prec k) | [] => True end.

Definition climb_sh (f : nat) : Prop :=
  forall base c ts t rest, climb f base c ts = OK t rest -> wf base -> base_ok base ts ->
    wf t /\ (c <= rp t \/ (t = base /\ rest = ts)) /\ stops c rest.
Definition primary_sh (f : nat) : Prop := forall ts t rest, primary f ts = OK t rest -> wf t /\ rp t = BIG.
Definition full_sh (f : nat) : Prop := forall ts t rest, primary_full f ts = OK t rest -> wf t.

(* one-step unfoldings *)
Lemma primary_S f ts : primary (S f) ts =
  match ts with
  | k :: ts1 =>
      if k =? ATOM then OK Atom ts1
      else if k =? LPAREN then
        match primary_full f ts1 with
        | OK e (c :: ts2) => if c =? RPAREN then OK (Paren e) ts2 else Fail
        | OK _ [] => Fail
        | r => r
        end
      else Fail
  | [] => Fail
  end.
Proof. reflexivity. Qed.
Lemma full_S f ts : primary_full (S f) ts = match primary f ts with OK b ts1 => climb f b P_SEQ ts1 | r => r end.
Proof. reflexivity. Qed.
Lemma climb_S f base cutoff ts : climb (S f) base cutoff ts =
  match ts with
  | k :: ts1 =>
      if (cutoff <=? prec k) && (0 <? prec k) then
        let after_mid :=
          if k =? QUESTION then
            match ts1 with
            | k1 :: ts2 =>
                if k1 =? COLON then Some (Some None, ts2)
                else match primary_full f ts1 with
                     | OK m (c :: ts3) => if c =? COLON then Some (Some (Some m), ts3) else None
                     | _ => None
                     end
            | [] => None
            end
          else Some (None, ts1) in
        match after_mid with
        | None => Fail
        | Some (mid, ts2) =>
            match primary f ts2 with
            | OK nxt ts3 =>
                match inner_loop prec rassoc isnary (climb f) f (prec k) nxt ts3 with
                | OK nxt' ts4 =>
                    let pa := match ts4 with k4 :: _ => prec k4 | [] => 0 end in
                    if (pa =? P_ASSIGN) && (pa <? prec k) then Fail
                    else
                      let node := match mid with
                                  | Some m => Cond base m nxt'
                                  | None => Bin k base nxt'
                                  end in
                      climb f node cutoff ts4
                | r => r
                end
            | r => r
            end
        end
      else OK base ts
  | [] => OK base ts
  end.
Proof. reflexivity. Qed.


(** the inner loop: everything it hangs under [next] binds tighter than [prev] (or as tightly, for a right-associative level) *)
Lemma inner_sh (rec : tree -> Z -> list tok -> res) :
  (forall b c ts t rest, rec b c ts = OK t rest -> wf b -> base_ok b ts -> wf t /\ (c <= rp t \/ (t = b /\ rest = ts)) /\ stops c rest) ->
  forall g prev next ts t rest, 0 < prev ->
    inner_loop prec rassoc isnary rec g prev next ts = OK t rest ->
    wf next -> prev <= rp next -> (forall kk, prec kk = prev -> right_ok kk next) -> base_ok next ts ->
    wf t /\ (forall kk, prec kk = prev -> right_ok kk t) /\
    match rest with k :: _ => 0 < prec k -> prec k <= prev /\ (prec k = prev -> rassoc k = false) | [] => True end.
Proof.
  intros Hrec. induction g as [|g IH]; intros prev next ts t rest Hprev H Hw Hle Hr Hb; cbn in H; [discriminate|].
  destruct ts as [|k ts'].
  { inversion H; subst. repeat split; auto. }
  destruct (((prev <? prec k) && isnary k) || ((prec k =? prev) && rassoc k)) eqn:Econd.
  - destruct (rec next (prec k) (k :: ts')) as [n' ts2| |] eqn:E; try discriminate.
    assert (Hpk : 0 < prec k).
    { apply orb_true_iff in Econd as [Ec|Ec]; apply andb_true_iff in Ec as [A _]; [apply Z.ltb_lt in A; lia|apply Z.eqb_eq in A; lia]. }
    destruct (Hrec _ _ _ _ _ E Hw Hb) as [Wn [Hrn Hst]].
    assert (Hge : prec k <= rp n').
    { destruct Hrn as [Hrn|[-> ->]]; [assumption|]. (* nothing consumed is impossible: the head token belongs to the loop *)
      exfalso. cbn [stops] in Hst. apply Hst. split; lia. }
    assert (Hpk2 : prev < prec k \/ (prec k = prev /\ rassoc k = true)).
    { apply orb_true_iff in Econd as [Ec|Ec]; apply andb_true_iff in Ec as [A B]; [left; apply Z.ltb_lt in A; exact A|right; apply Z.eqb_eq in A; split; assumption]. }
    apply (IH prev n' ts2 t rest Hprev H Wn).
    + destruct Hpk2 as [Hlt|[Heq _]]; lia.
    + intros kk Hkk. unfold right_ok. destruct Hpk2 as [Hlt|[Heq Hra]].
      * destruct (rassoc kk); lia.
      * rewrite (Hsame kk k) by lia. rewrite Hra. lia.
    + (* the next operator can take n' as its left operand: it binds more loosely than the level just closed *)
      unfold base_ok. destruct ts2 as [|k2 ts3]; [exact I|]. intros Hk2. cbn [stops] in Hst. unfold left_ok.
      assert (prec k2 < prec k) by lia. destruct (rassoc k2); lia.
  - inversion H; subst. split; [exact Hw|]. split; [exact Hr|]. intros Hk.
    apply orb_false_iff in Econd as [E1 E2]. rewrite (Hnary k Hk), andb_true_r in E1. apply Z.ltb_ge in E1.
    split; [exact E1|]. intros Heq. apply andb_false_iff in E2 as [E2|E2]; [apply Z.eqb_neq in E2; lia|exact E2].
Qed.

Theorem shape : forall f, climb_sh f /\ primary_sh f /\ full_sh f.
Proof.
  induction f as [|f (IHc & IHp & IHf)].
  { unfold climb_sh, primary_sh, full_sh. repeat split; intros; match goal with H : _ = OK _ _ |- _ => cbn in H; discriminate H end. }
  assert (Hp : primary_sh (S f)).
  { intros ts t rest H. rewrite primary_S in H. destruct ts as [|k ts1]; [discriminate|].
    destruct (k =? ATOM); [inversion H; subst; split; [exact I|reflexivity]|].
    destruct (k =? LPAREN); [|discriminate].
    destruct (primary_full f ts1) as [e r2| |] eqn:E3; try discriminate.
    destruct r2 as [|c r3]; [discriminate|]. destruct (c =? RPAREN); [|discriminate]. inversion H; subst.
    split; [cbn; apply (IHf _ _ _ E3)|reflexivity]. }
  assert (Hfu : full_sh (S f)).
  { intros ts t rest H. rewrite full_S in H. destruct (primary f ts) as [b ts1| |] eqn:E; try discriminate.
    destruct (IHp _ _ _ E) as [Wb Rb].
    apply (IHc _ _ _ _ _ H Wb). unfold base_ok. destruct ts1 as [|k ?]; [exact I|]. intros _. unfold left_ok. rewrite Rb. pose proof (Hbig k). destruct (rassoc k); lia. }
  split; [|split; [exact Hp|exact Hfu]].
  intros base c ts t rest H Wb Hb. rewrite climb_S in H. cbv zeta in H.
  destruct ts as [|k ts1].
  { inversion H; subst. split; [exact Wb|]. split; [right; split; reflexivity|exact I]. }
  destruct ((c <=? prec k) && (0 <? prec k)) eqn:Ego.
  2: { inversion H; subst. split; [exact Wb|]. split; [right; split; reflexivity|]. cbn [stops]. intros [A B'].
       apply andb_false_iff in Ego as [E|E]; [apply Z.leb_gt in E; lia|apply Z.ltb_ge in E; lia]. }
  apply andb_true_iff in Ego as [Ec Ek]. apply Z.leb_le in Ec. apply Z.ltb_lt in Ek.
  (* the part common to binary operators and both forms of the conditional *)
  assert (Tail : forall (mk : tree -> tree) tsx nxt ts3 nxt' ts4,
            (forall r, wf r -> right_ok k r -> wf (mk r)) -> (forall r, rp (mk r) = prec k) ->
            primary f tsx = OK nxt ts3 ->
            inner_loop prec rassoc isnary (climb f) f (prec k) nxt ts3 = OK nxt' ts4 ->
            climb f (mk nxt') c ts4 = OK t rest ->
            wf t /\ (c <= rp t \/ t = base /\ rest = k :: ts1) /\ stops c rest).
  { intros mk tsx nxt ts3 nxt' ts4 Hmk Hrp E1 E2 E3.
    destruct (IHp _ _ _ E1) as [Wn Rn].
    destruct (inner_sh (climb f) IHc f (prec k) nxt ts3 nxt' ts4 Ek E2 Wn) as [Wn' [Hr' Hex]].
    - rewrite Rn. pose proof (Hbig k). lia.
    - intros kk Hkk. unfold right_ok. rewrite Rn. pose proof (Hbig kk). destruct (rassoc kk); lia.
    - unfold base_ok. destruct ts3 as [|k3 ?]; [exact I|]. intros _. unfold left_ok. rewrite Rn. pose proof (Hbig k3). destruct (rassoc k3); lia.
    - assert (Wnode : wf (mk nxt')) by (apply Hmk; [exact Wn'|apply Hr'; reflexivity]).
      assert (Bnode : base_ok (mk nxt') ts4).
      { unfold base_ok. destruct ts4 as [|k4 ?]; [exact I|]. intros Hk4. destruct (Hex Hk4) as [A B']. unfold left_ok. rewrite Hrp.
        destruct (rassoc k4) eqn:Er; [|exact A]. destruct (Z.eq_dec (prec k4) (prec k)) as [Heq|Hne]; [specialize (B' Heq); congruence|lia]. }
      destruct (IHc _ _ _ _ _ E3 Wnode Bnode) as [Wt [Hrt Hst]]. split; [exact Wt|]. split; [|exact Hst].
      left. destruct Hrt as [Hrt|[-> _]]; [exact Hrt|rewrite Hrp; exact Ec]. }
  assert (Hleft : left_ok k base) by (apply Hb; exact Ek).
  destruct (k =? QUESTION) eqn:EQ.
  - apply Z.eqb_eq in EQ. subst k.
    destruct ts1 as [|k1 ts2]; [discriminate|].
    destruct (k1 =? COLON) eqn:EC.
    + destruct (primary f ts2) as [nxt ts3| |] eqn:E1; try discriminate.
      destruct (inner_loop prec rassoc isnary (climb f) f (prec QUESTION) nxt ts3) as [nxt' ts4| |] eqn:E2; try discriminate.
      destruct ((match ts4 with k4 :: _ => prec k4 | [] => 0 end =? P_ASSIGN) && (match ts4 with k4 :: _ => prec k4 | [] => 0 end <? prec QUESTION)); [discriminate|].
      apply (Tail (fun r => Cond base None r) ts2 nxt ts3 nxt' ts4); try assumption; [|reflexivity].
      intros r Wr Rr. cbn [wf]. repeat split; assumption.
    + destruct (primary_full f (k1 :: ts2)) as [m r0| |] eqn:E0; try discriminate.
      destruct r0 as [|c2 ts3]; [discriminate|]. destruct (c2 =? COLON); [|discriminate].
      destruct (primary f ts3) as [nxt ts4| |] eqn:E1; try discriminate.
      destruct (inner_loop prec rassoc isnary (climb f) f (prec QUESTION) nxt ts4) as [nxt' ts5| |] eqn:E2; try discriminate.
      destruct ((match ts5 with k4 :: _ => prec k4 | [] => 0 end =? P_ASSIGN) && (match ts5 with k4 :: _ => prec k4 | [] => 0 end <? prec QUESTION)); [discriminate|].
      apply (Tail (fun r => Cond base (Some m) r) ts3 nxt ts4 nxt' ts5); try assumption; [|reflexivity].
      intros r Wr Rr. cbn [wf]. pose proof (IHf _ _ _ E0) as Wm. repeat split; assumption.
  - destruct (primary f ts1) as [nxt ts3| |] eqn:E1; try discriminate.
    destruct (inner_loop prec rassoc isnary (climb f) f (prec k) nxt ts3) as [nxt' ts4| |] eqn:E2; try discriminate.
    destruct ((match ts4 with k4 :: _ => prec k4 | [] => 0 end =? P_ASSIGN) && (match ts4 with k4 :: _ => prec k4 | [] => 0 end <? prec k)); [discriminate|].
    apply (Tail (fun r => Bin k base r) ts1 nxt ts3 nxt' ts4); try assumption; [|reflexivity].
    intros r Wr Rr. cbn [wf]. repeat split; assumption.
Qed.
End Shape.
