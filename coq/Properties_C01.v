(** C01 — Syntax analysis is total and memory-safe on arbitrary bytes.  PARTIAL: the theorems
    cover the two cursors (bytes, tokens) and the nesting counter, for every text and every token
    vector; the grammar productions that drive them are explored under sanitizers, not proved. *)
From Coq Require Import List NArith Bool Arith Lia.
From PV Require Import C01Model C01Proofs.
From PV.gen Require Import Gen_Recover.
Import ListNotations.

(** Lexer::yyinput_CORE, for EVERY text (any bytes: embedded NULs, truncated or invalid UTF-8) and
    every cursor position holding a non-NUL byte (the lexer's loops test yychar_ first): every
    read is inside the NUL-terminated buffer, the cursor strictly advances and never passes the
    terminating NUL. *)
Theorem C01_lexer_cursor_in_bounds : forall (text : list N) (pos : nat) (b : N),
  byte_at text pos = Some b -> b <> 0%N ->
  exists p, advance text pos = Some p /\ pos < p <= length text.
Proof. exact advance_safe. Qed.

(** hence scanning any text from its start with repeated yyinput() terminates at a NUL inside the
    buffer, visiting strictly increasing in-bounds positions *)
Theorem C01_lexer_scan_total : forall (text : list N),
  exists l, scan text (S (length text)) 0 = Some l /\ Forall (fun p => 0 < p <= length text) l.
Proof. intros text. apply scan_safe; lia. Qed.

(** the four recovery loops as regenerated from Parser.cpp on this run: every one stops at
    EndOfFile, and no kind is both a stop and a consume-and-stop label *)
Definition tables_ok (t : list N * list N) : bool :=
  mem EOF_kind (fst t) && negb (mem EOF_kind (snd t)) && forallb (fun k => negb (mem k (fst t))) (snd t).
Lemma C01_recovery_tables : forallb tables_ok recover_tables = true /\ length recover_tables = 4.
Proof. vm_compute. split; reflexivity. Qed.

(** for EVERY token vector that ends with EndOfFile and every in-range cursor: each recovery loop
    returns with the cursor in range, having moved forward only over tokens that are not its stop
    tokens; it never reads tokenAt() out of range and never passes EndOfFile *)
Theorem C01_recovery_cursor_safe : forall t toks cur, In t recover_tables ->
  ends_with EOF_kind toks -> cur < length toks ->
  exists cur', ignore_loop (fst t) (snd t) toks (length toks) cur = Some cur' /\ cur <= cur' < length toks /\
    (forall i k, cur <= i < cur' - 1 -> nth_error toks i = Some k -> mem k (fst t) = false /\ mem k (snd t) = false).
Proof.
  intros t toks cur Ht He Hc. destruct C01_recovery_tables as [T _]. rewrite forallb_forall in T. specialize (T t Ht).
  unfold tables_ok in T. apply andb_true_iff in T as [T _]. apply andb_true_iff in T as [T _].
  apply (ignore_loop_safe EOF_kind); [exact T|exact He|exact Hc|lia].
Qed.

Theorem C01_skipTo_safe : forall k toks cur, ends_with EOF_kind toks -> cur < length toks ->
  exists cur', skip_to EOF_kind k toks cur = Some cur' /\ cur <= cur' < length toks.
Proof.
  intros k toks cur He Hc. unfold skip_to.
  destruct (ignore_loop_safe EOF_kind [k; EOF_kind] [] toks) with (fuel := S (length toks)) (cur := cur) as [c [E [H _]]];
    [unfold mem; cbn [existsb]; rewrite N.eqb_refl; destruct (N.eqb EOF_kind k); reflexivity|exact He|exact Hc|lia|]. exists c. split; assumption.
Qed.

Theorem C01_match_safe : forall k toks cur, ends_with EOF_kind toks -> k <> EOF_kind -> cur < length toks ->
  exists cur', match_tok EOF_kind k toks cur = Some cur' /\ cur <= cur' < length toks.
Proof. intros. apply match_safe; assumption. Qed.

(** backtracking lands in range wherever the cursor ran to (even past the end) *)
Theorem C01_backtrack_in_range : forall toks ref cur, 0 < length toks -> ref < length toks ->
  backtrack toks ref cur < length toks.
Proof. intros. apply backtrack_safe; try assumption. destruct (Nat.eq_dec cur ref); auto. Qed.

(** the exact side condition under which a k-token look-ahead is a read inside the vector *)
Theorem C01_peek_in_bounds : forall toks cur la, ends_with EOF_kind toks -> cur < length toks -> 1 <= la ->
  (forall j, j < la - 1 -> exists k, nth_error toks (cur + j) = Some k /\ k <> EOF_kind) ->
  exists k, peek toks cur la = Some k.
Proof. intros. eapply peek_safe; eassumption. Qed.

(** the statement-nesting counter: whatever the sequence of constructions and destructions, the
    counter never exceeds limit+1, and nesting up to the limit never raises the declared error *)
Theorem C01_depth_bounded : forall evs,
  match depth_run MAX_DEPTH_OF_STMTS 0 evs with Some d => d <= S MAX_DEPTH_OF_STMTS | None => True end.
Proof. intros. apply depth_bounded. lia. Qed.
Theorem C01_depth_no_spurious_error : forall evs, nesting evs 0 <= S MAX_DEPTH_OF_STMTS ->
  exists d, depth_run MAX_DEPTH_OF_STMTS 0 evs = Some d.
Proof. intros. apply depth_no_throw. assumption. Qed.

(** the member loop of a struct/union/enum specifier, with ANY member parser that stays in range, never
    moves back and moves forward when it succeeds, and the recovery table of ignoreMemberDeclaration as
    regenerated on this run: it terminates on every token vector (the termination argument — twice the
    distance to the end — is what the pinned tree lacked: see C01_member_loop_unguarded_diverges) *)
Theorem C01_member_loop_terminates : forall close_brace toks parse_member cur,
  close_brace <> EOF_kind -> ends_with EOF_kind toks ->
  (forall c, c < length toks -> c <= snd (parse_member c) < length toks /\ (fst (parse_member c) = true -> c < snd (parse_member c))) ->
  cur < length toks ->
  exists r, member_loop true EOF_kind close_brace ignoreMemberDeclaration_ret ignoreMemberDeclaration_cret toks parse_member (S (2 * length toks)) cur = Some r.
Proof.
  intros cb toks pm cur Hcb He Hpm Hc. apply member_loop_terminates; try assumption; [|lia].
  destruct C01_recovery_tables as [T _]. vm_compute in T. vm_compute. reflexivity.
Qed.

Theorem C01_member_loop_unguarded_diverges :
  exists eof close_brace ret cret toks pm, mem eof ret = true /\ ends_with eof toks /\
    forall fuel, member_loop false eof close_brace ret cret toks pm fuel 1 = None.
Proof. exact member_loop_unguarded_diverges. Qed.

(** Non-vacuity: "int x = \xf0" (a lead byte of a 4-byte sequence at the very end), and a vector. *)
Example C01_nonvacuous :
  scan [105; 110; 116; 32; 240]%N 6 0 = Some [1; 2; 3; 4; 5] /\
  advance [240; 159]%N 0 = Some 2 /\
  ends_with EOF_kind [0; 47; 6; 29; 0]%N /\
  ignore_loop ignoreDeclarator_ret ignoreDeclarator_cret [0; 47; 89; 29; 6; 0]%N 6 2 = Some 4.
Proof. split; [vm_compute; reflexivity|]. split; [vm_compute; reflexivity|]. split; [split; [reflexivity|cbn; lia]|vm_compute; reflexivity]. Qed.

Print Assumptions C01_lexer_cursor_in_bounds.
Print Assumptions C01_lexer_scan_total.
Print Assumptions C01_recovery_cursor_safe.
Print Assumptions C01_skipTo_safe.
Print Assumptions C01_match_safe.
Print Assumptions C01_backtrack_in_range.
Print Assumptions C01_peek_in_bounds.
Print Assumptions C01_depth_bounded.
Print Assumptions C01_depth_no_spurious_error.
Print Assumptions C01_member_loop_terminates.
Print Assumptions C01_member_loop_unguarded_diverges.
