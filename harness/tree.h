// generic structural dump of a syntax tree through childNodesAndTokens() and the lists' next links
#ifndef PSYVERIF_TREE_H
#define PSYVERIF_TREE_H
#include "sema.h"
#include "C/syntax/SyntaxNodeList.h"
#include "C/syntax/SyntaxHolder.h"
namespace pvh {

struct ListEntry { const SyntaxNode* node; unsigned delim; };

template <class L, bool Sep>
bool entries(const SyntaxNodeList* l, std::vector<ListEntry>& out)
{
    auto p = dynamic_cast<const L*>(l);
    if (!p) return false;
    int guard = 0;
    for (auto it = p; it && guard < 10000000; it = it->next, ++guard) {
        ListEntry e;
        e.node = it->value;
        e.delim = 0;
        if constexpr (Sep) e.delim = it->delimTkIdx_;
        out.push_back(e);
    }
    return true;
}

// returns false when the list's dynamic type is none of the known instantiations
inline bool listEntries(const SyntaxNodeList* l, std::vector<ListEntry>& out)
{
    return entries<DeclarationListSyntax, false>(l, out)
        || entries<EnumeratorListSyntax, true>(l, out)
        || entries<ParameterDeclarationListSyntax, true>(l, out)
        || entries<SpecifierListSyntax, false>(l, out)
        || entries<ExtGNU_AttributeListSyntax, true>(l, out)
        || entries<DeclaratorListSyntax, true>(l, out)
        || entries<DeclaratorSuffixListSyntax, false>(l, out)
        || entries<DesignatorListSyntax, false>(l, out)
        || entries<InitializerListSyntax, true>(l, out)
        || entries<ExpressionListSyntax, true>(l, out)
        || entries<GenericAssociationListSyntax, true>(l, out)
        || entries<StatementListSyntax, false>(l, out)
        || entries<ExtGNU_AsmOperandListSyntax, true>(l, out)
        || entries<ExtKR_ParameterDeclarationListSyntax, false>(l, out);
}

inline void dumpNode(const SyntaxNode* n, std::ostream& out, int depth = 0)
{
    if (!n) { out << " ~"; return; }
    if (depth > 3000) { out << " DEEP"; return; }
    out << " (K" << (unsigned)n->kind();
    for (auto& h : n->childNodesAndTokens()) {
        switch (h.variant()) {
            case SyntaxHolder::Variant::Token: out << " t" << h.tokenIndex(); break;
            case SyntaxHolder::Variant::Node: dumpNode(h.node(), out, depth + 1); break;
            case SyntaxHolder::Variant::NodeList: {
                if (!h.nodeList()) { out << " []"; break; }
                std::vector<ListEntry> es;
                if (!listEntries(h.nodeList(), es)) { out << " [UNKNOWN-LIST]"; break; }
                out << " [";
                for (auto& e : es) { dumpNode(e.node, out, depth + 1); if (e.delim) out << " d" << e.delim; }
                out << " ]";
                break;
            }
        }
    }
    out << ")";
}

inline SyntaxTree::SyntaxCategory catOf(int c)
{
    return c == 1 ? SyntaxTree::SyntaxCategory::Declarations : c == 2 ? SyntaxTree::SyntaxCategory::Expressions
         : c == 3 ? SyntaxTree::SyntaxCategory::Statements : SyntaxTree::SyntaxCategory::Any;
}
}
#endif
