# C20 — VersionedMap restores exactly the contents of any earlier revision.
import itertools, json
from lib import pv

KEYS, VALS = (1, 2, 3), (10, 20)


def histories(length):
    """all valid histories of exactly `length` ops (prefix-closed enumeration), as tuples of ops"""
    out = []

    def rec(prefix, cnt):
        if len(prefix) == length:
            out.append(tuple(prefix))
            return
        for k in KEYS:
            for v in VALS:
                prefix.append(("i", k, v)); rec(prefix, cnt + 1); prefix.pop()
        for r in range(cnt + 1):
            prefix.append(("a", r)); rec(prefix, cnt); prefix.pop()
    rec([], 0)
    return out


def impl_line(h):
    return "vmap " + " ".join(" ".join(map(str, op)) for op in h)


def model_line(h):
    return " ".join("0 %d %d" % (op[1], op[2]) if op[0] == "i" else "1 %d" % op[1] for op in h)


def parse_impl(ans):
    res = []
    for part in ans.split("|"):
        part = part.split()
        if not part:
            continue
        res.append((int(part[0]), {int(a.split(":")[0]): int(a.split(":")[1]) for a in part[1:]}))
    return res


def parse_model(nums):
    """-> list of ((cur, map), (scur, smap)) per op"""
    res, i = [], 0

    def rd():
        nonlocal i
        cur, n = nums[i], nums[i + 1]
        i += 2
        m = {}
        for _ in range(n):
            k, v = nums[i], nums[i + 1]
            i += 2
            m.setdefault(k, v)   # newest binding first: first occurrence wins
        return (cur, m)
    while i < len(nums):
        a = rd(); b = rd()
        res.append((a, b))
    return res


def nontrivial(h):
    """a switch followed later by an insertion (a branch) and then another switch"""
    seen_a, seen_branch = False, False
    for op in h:
        if op[0] == "a":
            if seen_branch:
                return True
            seen_a = True
        elif seen_a:
            seen_branch = True
    return False


def shrink(h, fails):
    h = list(h)
    changed = True
    while changed:
        changed = False
        for i in range(len(h)):
            cand = h[:i] + h[i + 1:]
            # keep validity: an apply must name an existing revision
            cnt, ok = 0, True
            for op in cand:
                if op[0] == "i":
                    cnt += 1
                elif op[1] > cnt:
                    ok = False
            if ok and cand and fails(cand):
                h = cand
                changed = True
                break
    return h


def compare(chk, hs, check_spec=True):
    impl = pv.run_impl([impl_line(h) for h in hs], shards=pv.NCPU)
    model = pv.run_model("C20", [model_line(h) for h in hs], shards=pv.NCPU)
    bad_spec, bad_model = [], []
    for h, ia, ma in zip(hs, impl, model):
        if ia.startswith(("CRASH", "EXC", "ERR")):
            bad_spec.append((h, ia))
            continue
        it, mt = parse_impl(ia), parse_model(ma)
        if check_spec and [x for x in it] != [m[1] for m in mt]:
            bad_spec.append((h, ia))
        elif [x for x in it] != [m[0] for m in mt]:
            bad_model.append((h, ia))
    return bad_spec, bad_model


def run(chk):
    chk.coverage["trusted_base"] = pv.TRUSTED_COMMON + [
        "hand-written model coq/C20Model.v of data-structures/VersionedMap.h (std::unordered_map abstracted to an association list observed through lookup; uint32_t revisions as nat, no wrap-around at 2^32 revisions)",
        "section variables K, V (any types) and keqb (any function) in the theorems"]
    chk.assumptions = ["revisions < 2^32", "KeyT/ValueT copy and equality behave as values"]
    res = chk.prove(["Properties_C20.v"], extra_targets=["C20Pinned.vo"])
    proof_ok = all(ok for ok, _ in res.values())

    quick = chk.tier == "quick"
    L = 5 if quick else 6
    hs = histories(L)
    # random long histories, branching heavily
    rnd = []
    for _ in range(300 if quick else 3000):
        n = chk.rng.randint(6, 200)
        h, cnt = [], 0
        for _ in range(n):
            if chk.rng.random() < 0.6 or cnt == 0:
                h.append(("i", chk.rng.randint(1, 6), chk.rng.randint(1, 50))); cnt += 1
            else:
                h.append(("a", chk.rng.choice([0, cnt, chk.rng.randint(0, cnt), chk.rng.randint(0, cnt)])))
        rnd.append(tuple(h))
    # corpus first
    corpus = [(("i", 1, 10), ("i", 2, 20), ("a", 1), ("i", 3, 30), ("a", 3)),
              (("i", 1, 10), ("a", 0)),
              (("i", 1, 10), ("i", 1, 20), ("a", 1), ("a", 2), ("a", 0), ("i", 2, 10), ("a", 2), ("a", 3))]
    allh = corpus + hs + rnd
    bad_spec, bad_model = compare(chk, allh)
    # invalid switches (outside the property's domain): model vs implementation only
    inv = []
    for _ in range(200):
        # a valid prefix, one switch to a revision that does not exist, then valid switches only (an insertion
        # after an invalid switch records a parent link to a future revision and the real walk may then cycle:
        # outside the property's domain and not safe to run)
        h, cnt = [], 0
        for _ in range(chk.rng.randint(1, 10)):
            if chk.rng.random() < 0.6 or cnt == 0:
                h.append(("i", chk.rng.randint(1, 3), chk.rng.randint(1, 3))); cnt += 1
            else:
                h.append(("a", chk.rng.randint(0, cnt)))
        h.append(("a", cnt + chk.rng.randint(1, 3)))
        for _ in range(chk.rng.randint(0, 3)):
            h.append(("a", chk.rng.randint(0, cnt)))
        inv.append(tuple(h))
    _, bad_model2 = compare(chk, inv, check_spec=False)
    bad_model += bad_model2

    chk.coverage["evaluations"] = len(allh) + len(inv)
    chk.coverage["distinct_nontrivial"] = len({h for h in allh if nontrivial(h)})
    chk.coverage["exhaustive"] = True
    chk.coverage["rule"] = ("all valid histories of exactly %d operations over keys %s x values %s with switches to every existing revision "
                            "(each covers all its prefixes), %d random histories of length 6..200, %d histories with switches to non-existent "
                            "revisions (model vs implementation only); non-trivial = a switch, a later insertion (branch) and a later switch"
                            % (L, KEYS, VALS, len(rnd), len(inv)))
    chk.coverage["samples"] = [impl_line(h) for h in (corpus[0], hs[len(hs) // 2], rnd[0][:12])]
    chk.coverage["lengths"] = {"exhaustive_len": L, "exhaustive_count": len(hs), "random": len(rnd),
                               "max_random_len": max(len(h) for h in rnd)}

    if bad_spec:
        h, ia = bad_spec[0]

        def fails(c):
            b, _ = compare(chk, [tuple(c)])
            return bool(b)
        m = shrink(h, fails)
        spec = pv.run_model("C20", [model_line(m)])[0]
        chk.report("history-violates-snapshot-spec", {
            "request": impl_line(m), "implementation": pv.run_impl([impl_line(m)])[0],
            "specification": [{"revision": s[1][0], "contents": s[1][1]} for s in parse_model(spec)],
            "count_failing": len(bad_spec)}, found=True,
            what="applyRevision/insertOrAssign history whose visible contents differ from the snapshot of the current revision")
    elif bad_model:
        h, ia = bad_model[0]
        chk.report("model-correspondence", {"unchecked": "correspondence C20Model.vstep vs VersionedMap", "request": impl_line(h),
                                            "implementation": ia, "model": pv.run_model("C20", [model_line(h)])[0]}, found=False)
    if not proof_ok:
        for f, (ok, out) in res.items():
            if not ok:
                chk.report("proof-" + f, {"unchecked": f + " (theorems: %s)" % ", ".join(pv.theorem_names(f)),
                                          "coq_output": out[-3000:]}, found=False)


def replay(chk, path):
    r = json.load(open(path))
    req = r.get("request")
    if not req:
        print("replay file names no input:", r.get("unchecked"))
        return run(chk)
    ops = req.split()[1:]
    h, i = [], 0
    while i < len(ops):
        if ops[i] == "i":
            h.append(("i", int(ops[i + 1]), int(ops[i + 2]))); i += 3
        else:
            h.append(("a", int(ops[i + 1]))); i += 2
    bad_spec, bad_model = compare(chk, [tuple(h)])
    chk.coverage.update({"evaluations": 1, "distinct_nontrivial": 1, "samples": [req], "rule": "replay"})
    print("implementation:", pv.run_impl([req])[0])
    if bad_spec:
        chk.report("history-violates-snapshot-spec", {"request": req}, found=True)
