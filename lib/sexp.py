# parser for the harness' tree dump: "(K<kind> item ...)" items: t<idx> | d<idx> | ~ | [ ... ] | nested node
def parse_dump(s):
    """-> nested structure: node = ("N", kind, [children]); token = ("t", idx); list = ("L", [entries]); null = None; delimiter = ("d", idx)"""
    toks = s.replace("(", " ( ").replace(")", " ) ").replace("[", " [ ").replace("]", " ] ").split()
    pos = 0

    def item():
        nonlocal pos
        t = toks[pos]
        if t == "(":
            pos += 1
            kind = int(toks[pos][1:]); pos += 1
            ch = []
            while toks[pos] != ")":
                ch.append(item())
            pos += 1
            return ("N", kind, ch)
        if t == "[":
            pos += 1
            es = []
            while toks[pos] != "]":
                es.append(item())
            pos += 1
            return ("L", es)
        pos += 1
        if t == "~":
            return None
        if t[0] in "td" and t[1:].isdigit():
            return (t[0], int(t[1:]))
        return ("?", t)
    out = item()
    return out


def split_answer(ans):
    """'OK n FULL|EARLY <dump> | diags' -> (ntokens, full?, dump string, [diag ids])"""
    head, _, diags = ans.partition(" |")
    parts = head.split(None, 3)
    if parts[0] != "OK":
        return None
    return int(parts[1]), parts[2] == "FULL", parts[3] if len(parts) > 3 else "~", [d.split(":")[1] for d in diags.split()]


def preorder_kinds(node):
    """node kinds in pre-order, -1 for a null node child, tokens and delimiters dropped, lists flattened"""
    out = []

    def go(x):
        if x is None:
            out.append(-1)
        elif x[0] == "N":
            out.append(x[1])
            for c in x[2]:
                go(c)
        elif x[0] == "L":
            for c in x[1]:
                go(c)
    go(node)
    return out
