(** C05 — proofs about LexModel against LexSpec: every sub-lexer consumes exactly the spelling of a valid token of
    its class and answers its kind, whatever follows the token (subject to the class's boundary condition). *)
From Coq Require Import List NArith Bool Arith Lia.
From PV Require Import C01Model PunctDefs LexModel LexSpec.
From PV.gen Require Import Gen_SyntaxKind.
Import ListNotations.
Local Open Scope N_scope.

(* ------------------------------------------------------------------ bytes below 128 *)
Lemma lt128_not_mb b : b < 128 -> is_mb b = false.
Proof.
  intros H. unfold is_mb. destruct (N.eq_dec b 0) as [->|Hz]; [reflexivity|].
  apply N.bits_above_log2. apply N.log2_lt_pow2; [lia|]. exact H.
Qed.

Lemma leb_lt128 a b : (b <=? a) = true -> a < 128 -> is_mb b = false.
Proof. intros H Ha. apply lt128_not_mb. apply N.leb_le in H. lia. Qed.

Ltac range_mb :=
  match goal with
  | |- is_mb ?b = false =>
      apply lt128_not_mb;
      repeat match goal with
             | H : _ && _ = true |- _ => apply andb_true_iff in H; destruct H
             | H : _ || _ = true |- _ => apply orb_true_iff in H; destruct H
             | H : (_ <=? _) = true |- _ => apply N.leb_le in H
             | H : (_ =? _) = true |- _ => apply N.eqb_eq in H
             end; lia
  end.

Lemma isdigit_ascii b : isdigit b = true -> is_mb b = false.
Proof. unfold isdigit. intros H. range_mb. Qed.
Lemma isxdigit_ascii b : isxdigit b = true -> is_mb b = false.
Proof. unfold isxdigit, isdigit. intros H. range_mb. Qed.
Lemma isoct_ascii b : isoct b = true -> is_mb b = false.
Proof. unfold isoct. intros H. range_mb. Qed.
Lemma isalnum__ascii b : isalnum_ b = true -> is_mb b = false.
Proof. unfold isalnum_, isalnum, isalpha, isupper, islower, isdigit. intros H. range_mb. Qed.
Lemma isspace_ascii b : isspace b = true -> is_mb b = false.
Proof. unfold isspace. intros H. range_mb. Qed.

Lemma adv_cons c r : is_mb c = false -> adv (c :: r) = r.
Proof. intros H. unfold adv. rewrite H. reflexivity. Qed.

(* ------------------------------------------------------------------ runs of a class *)
Lemma skipw_run (p : N -> bool) (Hp : forall b, p b = true -> is_mb b = false) :
  forall ds rest fuel, all p ds -> p (ahead rest) = false -> (length ds <= fuel)%nat -> skipw p fuel (ds ++ rest) = rest.
Proof.
  induction ds as [|d ds IH]; intros rest fuel Hds Hr Hf.
  - cbn [app]. destruct fuel as [|f]; cbn [skipw]; [reflexivity|]. rewrite Hr. reflexivity.
  - inversion Hds as [|? ? Hd Hds']; subst. destruct fuel as [|f]; [cbn in Hf; lia|].
    cbn [app skipw ahead]. rewrite Hd. rewrite (adv_cons d _ (Hp d Hd)). apply IH; [assumption|assumption|cbn in Hf; lia].
Qed.

Lemma sw_run (p : N -> bool) (Hp : forall b, p b = true -> is_mb b = false) ds rest :
  all p ds -> p (ahead rest) = false -> sw p (ds ++ rest) = rest.
Proof. intros H1 H2. unfold sw. apply skipw_run; try assumption. rewrite app_length. lia. Qed.

Lemma sw_stop (p : N -> bool) s : p (ahead s) = false -> sw p s = s.
Proof. intros H. unfold sw. destruct (length s); cbn [skipw]; [reflexivity|]. rewrite H. reflexivity. Qed.

(* ------------------------------------------------------------------ what a byte that cannot continue a number is not *)
Lemma na_neq r c : isalnum_ r = false -> isalnum_ c = true -> (r =? c) = false.
Proof. intros Hr Hc. destruct (N.eqb_spec r c) as [->|]; [congruence|reflexivity]. Qed.

Lemma na_in2 r c d : isalnum_ r = false -> isalnum_ c = true -> isalnum_ d = true -> in2 r c d = false.
Proof. intros Hr Hc Hd. unfold in2. rewrite (na_neq r c Hr Hc), (na_neq r d Hr Hd). reflexivity. Qed.

Lemma na_isdigit r : isalnum_ r = false -> isdigit r = false.
Proof. unfold isalnum_, isalnum. intros H. apply orb_false_iff in H as [H _]. apply orb_false_iff in H as [_ H]. exact H. Qed.
Lemma isxdigit_alnum b : isxdigit b = true -> isalnum_ b = true.
Proof.
  unfold isxdigit, isalnum_, isalnum, isalpha, isupper, islower. intros H.
  apply orb_true_iff in H as [H|H]; [apply orb_true_iff in H as [H|H]|].
  - rewrite H. rewrite orb_true_r. reflexivity.
  - apply andb_true_iff in H as [H1 H2]. apply N.leb_le in H1, H2.
    assert (E : ((97 <=? b) && (b <=? 122)) = true) by (apply andb_true_iff; split; apply N.leb_le; lia). rewrite E. rewrite !orb_true_r. reflexivity.
  - apply andb_true_iff in H as [H1 H2]. apply N.leb_le in H1, H2.
    assert (E : ((65 <=? b) && (b <=? 90)) = true) by (apply andb_true_iff; split; apply N.leb_le; lia). rewrite E. reflexivity.
Qed.
Lemma na_isxdigit r : isalnum_ r = false -> isxdigit r = false.
Proof. intros H. destruct (isxdigit r) eqn:E; [|reflexivity]. apply isxdigit_alnum in E. congruence. Qed.
Lemma isoct_digit b : isoct b = true -> isdigit b = true.
Proof. unfold isoct, isdigit. intros H. apply andb_true_iff in H as [H1 H2]. apply N.leb_le in H1, H2. apply andb_true_iff; split; apply N.leb_le; lia. Qed.
Lemma na_isoct r : isalnum_ r = false -> isoct r = false.
Proof. intros H. destruct (isoct r) eqn:E; [|reflexivity]. apply isoct_digit in E. rewrite (na_isdigit r H) in E. discriminate. Qed.

(** rewrite every test the numeric sub-lexers make on a boundary byte *)
Ltac bound r H :=
  repeat first
    [ rewrite (na_isdigit r H) | rewrite (na_isxdigit r H) | rewrite (na_isoct r H) | rewrite H
    | match goal with
      | |- context [in2 r ?c ?d] => rewrite (na_in2 r c d H eq_refl eq_refl)
      | |- context [r =? ?c] => rewrite (na_neq r c H eq_refl)
      end ].

(* ------------------------------------------------------------------ 6.4.4.1: the suffix and the end of an integer constant *)
Lemma finish_boundary k rest : isalnum_ (ahead rest) = false -> finish k rest = (k, rest).
Proof. intros H. unfold finish. rewrite H. reflexivity. Qed.

(** unfolding equations of lexIntegerSuffix at each letter it knows *)
Lemma isfx_u n s : int_suffix (S n) (117 :: s) = if in2 (ahead s) 108 76 then int_suffix n s else s.
Proof. reflexivity. Qed.
Lemma isfx_U n s : int_suffix (S n) (85 :: s) = if in2 (ahead s) 108 76 then int_suffix n s else s.
Proof. reflexivity. Qed.
Lemma isfx_l n s : int_suffix (S n) (108 :: s) =
  let s2 := if ahead s =? 108 then adv s else s in if in2 (ahead s2) 117 85 then int_suffix n s2 else s2.
Proof. reflexivity. Qed.
Lemma isfx_L n s : int_suffix (S n) (76 :: s) =
  let s2 := if ahead s =? 76 then adv s else s in if in2 (ahead s2) 117 85 then int_suffix n s2 else s2.
Proof. reflexivity. Qed.
Lemma isfx_stop n s : isalnum_ (ahead s) = false -> int_suffix n s = s.
Proof.
  intros H. destruct n as [|n]; [reflexivity|]. cbn [int_suffix].
  rewrite (na_in2 _ 117 85 H eq_refl eq_refl), (na_neq _ 108 H eq_refl), (na_neq _ 76 H eq_refl). reflexivity.
Qed.
Lemma isfx_0 s : int_suffix 0 s = s.
Proof. reflexivity. Qed.

Lemma int_suffix_consumes suf rest : In suf int_suffixes -> isalnum_ (ahead rest) = false -> int_suffix 2 (suf ++ rest) = rest.
Proof.
  intros Hs Hb.
  assert (Hul : in2 (ahead rest) 108 76 = false) by (apply na_in2; [exact Hb|reflexivity|reflexivity]).
  assert (Huu : in2 (ahead rest) 117 85 = false) by (apply na_in2; [exact Hb|reflexivity|reflexivity]).
  assert (Hl : (ahead rest =? 108) = false) by (apply na_neq; [exact Hb|reflexivity]).
  assert (HL : (ahead rest =? 76) = false) by (apply na_neq; [exact Hb|reflexivity]).
  cbn in Hs.
  repeat (destruct Hs as [<-|Hs];
          [ cbn [app];
            repeat first [ rewrite isfx_u | rewrite isfx_U | rewrite isfx_l | rewrite isfx_L | rewrite isfx_0
                         | progress cbn [ahead] | rewrite adv_cons by reflexivity
                         | rewrite Hul | rewrite Huu | rewrite Hl | rewrite HL
                         | progress cbv beta zeta
                         | progress change (in2 108 108 76) with true | progress change (in2 76 108 76) with true
                         | progress change (in2 117 117 85) with true | progress change (in2 85 117 85) with true
                         | progress change (108 =? 108) with true | progress change (76 =? 76) with true
                         | progress change (in2 108 117 85) with false | progress change (in2 76 117 85) with false
                         | progress change (76 =? 108) with false | progress change (108 =? 76) with false
                         | progress change (117 =? 108) with false | progress change (117 =? 76) with false
                         | progress change (85 =? 108) with false | progress change (85 =? 76) with false ];
            first [ reflexivity | apply isfx_stop; exact Hb ] | ]).
  contradiction.
Qed.

Lemma int_tail_suffix suf rest : In suf int_suffixes -> num_boundary rest -> int_tail (suf ++ rest) = (K_IntegerConstantToken, rest).
Proof.
  intros Hs [Hb _]. unfold int_tail.
  assert (Hij : forall s, In s int_suffixes -> in2 (ahead (s ++ rest)) 105 106 = false).
  { intros s Hin. cbn in Hin.
    repeat (destruct Hin as [<-|Hin]; [first [reflexivity | cbn [app]; apply na_in2; [exact Hb|reflexivity|reflexivity]]|]). contradiction. }
  rewrite (Hij suf Hs). rewrite (int_suffix_consumes suf rest Hs Hb).
  rewrite (na_in2 _ 105 106 Hb eq_refl eq_refl). apply finish_boundary. exact Hb.
Qed.

(* ------------------------------------------------------------------ 6.4.4.1: integer constants *)
Definition stop_facts (c : N) : Prop :=
  (c =? 46) = false /\ in2 c 101 69 = false /\ isdigit c = false /\ isxdigit c = false /\ isoct c = false /\
  in2 c 120 88 = false /\ in2 c 98 66 = false /\ in2 c 112 80 = false.

Lemma boundary_stop rest : num_boundary rest -> stop_facts (ahead rest).
Proof.
  intros [Hb Hd]. unfold stop_facts. repeat split;
    first [ apply N.eqb_neq; exact Hd | apply na_in2; [exact Hb|reflexivity|reflexivity] | apply na_isdigit; exact Hb
          | apply na_isxdigit; exact Hb | apply na_isoct; exact Hb ].
Qed.

Lemma suffix_head_stop suf rest : In suf int_suffixes -> num_boundary rest -> stop_facts (ahead (suf ++ rest)).
Proof.
  intros Hs Hb. cbn in Hs.
  repeat (destruct Hs as [<-|Hs]; [first [ cbn [app]; apply boundary_stop; exact Hb | cbn [app ahead]; unfold stop_facts; repeat split; reflexivity ]|]).
  contradiction.
Qed.

Lemma digit_facts d : isdigit d = true -> (d =? 0) = false /\ (d =? 46) = false /\ in2 d 101 69 = false.
Proof.
  unfold isdigit, in2. intros H. apply andb_true_iff in H as [H1 H2]. apply N.leb_le in H1, H2.
  repeat split; try apply orb_false_iff; repeat split; apply N.eqb_neq; lia.
Qed.

Lemma num_loop_int ds suf rest : all isdigit ds -> In suf int_suffixes -> num_boundary rest ->
  forall fuel, (length ds <= fuel)%nat -> num_loop fuel (ds ++ suf ++ rest) = (K_IntegerConstantToken, rest).
Proof.
  intros Hds Hs Hb. induction ds as [|d ds IH]; intros fuel Hf.
  - cbn [app]. destruct (suffix_head_stop suf rest Hs Hb) as (S1 & S2 & S3 & _).
    destruct fuel as [|f]; cbn [num_loop]; [apply int_tail_suffix; assumption|].
    rewrite S1, S2, S3. cbn [negb]. destruct (ahead (suf ++ rest) =? 0); apply int_tail_suffix; assumption.
  - inversion Hds as [|? ? Hd Hds']; subst. destruct fuel as [|f]; [cbn in Hf; lia|].
    destruct (digit_facts d Hd) as (D1 & D2 & D3).
    cbn [app num_loop ahead]. rewrite D1, D2, D3, Hd. cbn [negb]. rewrite (adv_cons d _ (isdigit_ascii d Hd)).
    apply IH; [assumption|cbn in Hf; lia].
Qed.

Lemma in2_elim x c d : in2 x c d = true -> x = c \/ x = d.
Proof. unfold in2. intros H. apply orb_true_iff in H as [H|H]; apply N.eqb_eq in H; auto. Qed.

Theorem number_int body suf rest : int_body body -> In suf int_suffixes -> num_boundary rest ->
  forall c0 tl, c0 :: tl = body ++ suf ++ rest -> number c0 tl = (K_IntegerConstantToken, rest).
Proof.
  intros Hbody Hs Hb c0 tl E.
  destruct (suffix_head_stop suf rest Hs Hb) as (S1 & S2 & S3 & S4 & S5 & S6 & S7 & S8).
  destruct Hbody as [d ds Hd Hds | ds Hds | x h hs Hx Hhs]; cbn [app] in E; inversion E; subst c0 tl; clear E.
  - (* decimal *)
    unfold number. assert (E48 : (d =? 48) = false).
    { unfold nonzero_digit in Hd. apply andb_true_iff in Hd as [H1 _]. apply N.leb_le in H1. apply N.eqb_neq. lia. }
    rewrite E48. cbn [andb]. apply num_loop_int; try assumption. rewrite app_length. lia.
  - (* octal *)
    unfold number. change (48 =? 48) with true. cbn [andb].
    destruct ds as [|o ds'].
    + cbn [app]. assert (L : num_loop (length (suf ++ rest)) (suf ++ rest) = (K_IntegerConstantToken, rest)).
      { apply (num_loop_int [] suf rest); [constructor|assumption|assumption|cbn; lia]. }
      destruct (ahead (suf ++ rest) =? 0); cbn [negb]; [exact L|]. rewrite S6, S7, S5. exact L.
    + inversion Hds as [|? ? Ho Hds']; subst.
      assert (Od : isdigit o = true) by (apply isoct_digit; exact Ho).
      destruct (digit_facts o Od) as (D1 & _ & _).
      cbn [app ahead]. rewrite D1. cbn [negb].
      assert (X1 : in2 o 120 88 = false).
      { unfold isoct in Ho. apply andb_true_iff in Ho as [H1 H2]. apply N.leb_le in H1, H2. unfold in2. apply orb_false_iff; split; apply N.eqb_neq; lia. }
      assert (X2 : in2 o 98 66 = false).
      { unfold isoct in Ho. apply andb_true_iff in Ho as [H1 H2]. apply N.leb_le in H1, H2. unfold in2. apply orb_false_iff; split; apply N.eqb_neq; lia. }
      rewrite X1, X2, Ho. rewrite (adv_cons o _ (isoct_ascii o Ho)).
      rewrite (sw_run isoct isoct_ascii ds' (suf ++ rest) Hds' S5).
      cbv zeta. rewrite S3, S1, S2. cbn [negb andb]. apply int_tail_suffix; assumption.
  - (* hexadecimal *)
    unfold number. change (48 =? 48) with true. cbn [andb ahead].
    assert (X0 : (x =? 0) = false) by (destruct (in2_elim _ _ _ Hx) as [->| ->]; reflexivity).
    assert (Xmb : is_mb x = false) by (destruct (in2_elim _ _ _ Hx) as [->| ->]; reflexivity).
    rewrite X0, Hx. cbn [negb]. rewrite (adv_cons x _ Xmb).
    change (h :: hs ++ suf ++ rest) with ((h :: hs) ++ suf ++ rest).
    rewrite (sw_run isxdigit isxdigit_ascii (h :: hs) (suf ++ rest) Hhs S4).
    cbv zeta. rewrite S1, S8. apply int_tail_suffix; assumption.
Qed.

(* ------------------------------------------------------------------ 6.4.4.2: floating constants *)
Lemma float_tail_suffix suf rest : In suf float_suffixes -> num_boundary rest -> float_tail (suf ++ rest) = (K_FloatingConstantToken, rest).
Proof.
  intros Hs [Hb _]. unfold float_tail.
  assert (Hij : in2 (ahead rest) 105 106 = false) by (apply na_in2; [exact Hb|reflexivity|reflexivity]).
  assert (Hfs : float_suffix rest = rest).
  { unfold float_suffix. rewrite (na_neq _ 102 Hb eq_refl), (na_neq _ 108 Hb eq_refl), (na_neq _ 70 Hb eq_refl), (na_neq _ 76 Hb eq_refl). reflexivity. }
  cbn in Hs. destruct Hs as [<-|Hs].
  { cbn [app]. rewrite Hij, Hfs, Hij. apply finish_boundary. exact Hb. }
  assert (Hl : forall c, In c [102; 108; 70; 76] -> float_suffix (c :: rest) = rest /\ in2 c 105 106 = false).
  { intros c Hc. cbn in Hc. repeat (destruct Hc as [<-|Hc]; [split; [unfold float_suffix; cbn [ahead]; apply adv_cons|]; reflexivity|]). contradiction. }
  repeat (destruct Hs as [<-|Hs];
          [ cbn [app ahead];
            match goal with |- context [float_suffix (?c :: rest)] =>
              destruct (Hl c ltac:(cbn; tauto)) as [E1 E2]; rewrite E2, E1, Hij; apply finish_boundary; exact Hb end | ]).
  contradiction.
Qed.

Definition fstop (c : N) : Prop := isdigit c = false /\ in2 c 101 69 = false.
Lemma float_suffix_head_stop suf rest : In suf float_suffixes -> num_boundary rest -> fstop (ahead (suf ++ rest)).
Proof.
  intros Hs [Hb _]. cbn in Hs.
  destruct Hs as [<-|Hs]; [cbn [app]; split; [apply na_isdigit; exact Hb | apply na_in2; [exact Hb|reflexivity|reflexivity]]|].
  repeat (destruct Hs as [<-|Hs]; [split; reflexivity|]). contradiction.
Qed.

Lemma sign_digits sg d s : (sg = [] \/ sg = [43] \/ sg = [45]) -> isdigit d = true -> sign (sg ++ d :: s) = d :: s.
Proof.
  intros Hsg Hd. unfold sign. destruct Hsg as [->|[->| ->]]; cbn [app ahead].
  - assert (E : in2 d 43 45 = false).
    { unfold isdigit in Hd. apply andb_true_iff in Hd as [H1 H2]. apply N.leb_le in H1, H2. unfold in2. apply orb_false_iff; split; apply N.eqb_neq; lia. }
    rewrite E. reflexivity.
  - change (in2 43 43 45) with true. cbv iota. apply adv_cons. reflexivity.
  - change (in2 45 43 45) with true. cbv iota. apply adv_cons. reflexivity.
Qed.

Lemma exp_part_consumes ex s : exponent 101 69 ex -> isdigit (ahead s) = false -> exp_part (ex ++ s) = s.
Proof.
  intros [e sg d ds He Hsg Hds] Hs. unfold exp_part. cbn [app ahead]. rewrite He.
  assert (Emb : is_mb e = false) by (destruct (in2_elim _ _ _ He) as [->| ->]; reflexivity).
  rewrite (adv_cons e _ Emb). rewrite <- app_assoc. cbn [app].
  inversion Hds as [|? ? Hd Hds']; subst. rewrite (sign_digits sg d _ Hsg Hd).
  unfold digit_seq. change (d :: ds ++ s) with ((d :: ds) ++ s). apply sw_run; [exact isdigit_ascii|exact Hds|exact Hs].
Qed.
Lemma bin_exp_part_consumes ex s : exponent 112 80 ex -> isdigit (ahead s) = false -> bin_exp_part (ex ++ s) = s.
Proof.
  intros [e sg d ds He Hsg Hds] Hs. unfold bin_exp_part. cbn [app ahead]. rewrite He.
  assert (Emb : is_mb e = false) by (destruct (in2_elim _ _ _ He) as [->| ->]; reflexivity).
  rewrite (adv_cons e _ Emb). rewrite <- app_assoc. cbn [app].
  inversion Hds as [|? ? Hd Hds']; subst. rewrite (sign_digits sg d _ Hsg Hd).
  unfold digit_seq. change (d :: ds ++ s) with ((d :: ds) ++ s). apply sw_run; [exact isdigit_ascii|exact Hds|exact Hs].
Qed.

Lemma exponent_head c1 c2 ex s : exponent c1 c2 ex -> in2 (ahead (ex ++ s)) c1 c2 = true.
Proof. intros [e sg d ds He _ _]. cbn [app ahead]. exact He. Qed.

(** after the digits of the fraction: exponent-part_opt floating-suffix_opt *)
Lemma at_exponent_tail ex suf rest : opt (exponent 101 69) ex -> In suf float_suffixes -> num_boundary rest ->
  at_exponent (ex ++ suf ++ rest) = (K_FloatingConstantToken, rest).
Proof.
  intros Hex Hs Hb. unfold at_exponent. destruct (float_suffix_head_stop suf rest Hs Hb) as [F1 F2].
  destruct Hex as [->|Hex].
  - cbn [app]. unfold exp_part. rewrite F2. apply float_tail_suffix; assumption.
  - rewrite (exp_part_consumes ex _ Hex F1). apply float_tail_suffix; assumption.
Qed.

Lemma at_period_tail ds2 ex suf rest : all isdigit ds2 -> opt (exponent 101 69) ex -> In suf float_suffixes -> num_boundary rest ->
  at_period (ds2 ++ ex ++ suf ++ rest) = (K_FloatingConstantToken, rest).
Proof.
  intros Hds Hex Hs Hb. unfold at_period, digit_seq.
  assert (Hstop : isdigit (ahead (ex ++ suf ++ rest)) = false).
  { destruct Hex as [->|Hex]; [cbn [app]; apply (float_suffix_head_stop suf rest Hs Hb)|].
    pose proof (exponent_head _ _ ex (suf ++ rest) Hex) as He. destruct (in2_elim _ _ _ He) as [E|E]; rewrite E; reflexivity. }
  rewrite (sw_run isdigit isdigit_ascii ds2 _ Hds Hstop). apply at_exponent_tail; assumption.
Qed.

(** the digit loop up to the period or the exponent *)
Lemma num_loop_frac ds s : all isdigit ds -> forall fuel, (length ds < fuel)%nat -> num_loop fuel (ds ++ 46 :: s) = at_period s.
Proof.
  intros Hds. induction ds as [|d ds IH]; intros fuel Hf.
  - destruct fuel as [|f]; [lia|]. cbn [app num_loop ahead]. change (46 =? 0) with false. change (46 =? 46) with true. cbv iota.
    rewrite adv_cons by reflexivity. reflexivity.
  - inversion Hds as [|? ? Hd Hds']; subst. destruct fuel as [|f]; [cbn in Hf; lia|].
    destruct (digit_facts d Hd) as (D1 & D2 & D3).
    cbn [app num_loop ahead]. rewrite D1, D2, D3, Hd. cbn [negb]. rewrite (adv_cons d _ (isdigit_ascii d Hd)). apply IH; [assumption|cbn in Hf; lia].
Qed.
Lemma num_loop_exp ds s : all isdigit ds -> in2 (ahead s) 101 69 = true -> forall fuel, (length ds < fuel)%nat -> num_loop fuel (ds ++ s) = at_exponent s.
Proof.
  intros Hds He. induction ds as [|d ds IH]; intros fuel Hf.
  - destruct fuel as [|f]; [lia|]. cbn [app num_loop]. rewrite He.
    destruct (in2_elim _ _ _ He) as [E|E]; rewrite E; reflexivity.
  - inversion Hds as [|? ? Hd Hds']; subst. destruct fuel as [|f]; [cbn in Hf; lia|].
    destruct (digit_facts d Hd) as (D1 & D2 & D3).
    cbn [app num_loop ahead]. rewrite D1, D2, D3, Hd. cbn [negb]. rewrite (adv_cons d _ (isdigit_ascii d Hd)). apply IH; [assumption|cbn in Hf; lia].
Qed.

(** the octal run at the start of a constant that begins with 0 leaves digits *)
Lemma skipw_isoct_digits ds s : all isdigit ds -> isoct (ahead s) = false ->
  forall fuel, (length ds <= fuel)%nat -> exists ds', skipw isoct fuel (ds ++ s) = ds' ++ s /\ all isdigit ds' /\ (length ds' <= length ds)%nat.
Proof.
  intros Hds Hs. induction ds as [|d ds IH]; intros fuel Hf.
  - exists []. cbn [app]. split; [|split; [constructor|lia]]. destruct fuel; cbn [skipw]; [reflexivity|]. rewrite Hs. reflexivity.
  - inversion Hds as [|? ? Hd Hds']; subst. destruct fuel as [|f]; [cbn in Hf; lia|].
    cbn [app skipw ahead]. destruct (isoct d) eqn:Eo.
    + rewrite (adv_cons d _ (isdigit_ascii d Hd)). destruct (IH Hds' f ltac:(cbn in Hf; lia)) as [ds' [E [A L]]].
      exists ds'. split; [exact E|split; [exact A|cbn; lia]].
    + exists (d :: ds). split; [reflexivity|split; [exact Hds|lia]].
Qed.

(** a decimal floating constant that starts with a digit, from the first digit on: [k] tells how the digit loop ends *)
Lemma number_decimal d ds1 s : all isdigit (d :: ds1) ->
  (ahead s = 46 \/ in2 (ahead s) 101 69 = true) ->
  number d (ds1 ++ s) = num_loop (S (length (ds1 ++ s))) (ds1 ++ s).
Proof.
  intros Hds Hs. inversion Hds as [|? ? Hd Hds1]; subst.
  assert (Hs_o : isoct (ahead s) = false) by (destruct Hs as [E|E]; [rewrite E; reflexivity|destruct (in2_elim _ _ _ E) as [E'|E']; rewrite E'; reflexivity]).
  assert (Hs_x : in2 (ahead s) 120 88 = false /\ in2 (ahead s) 98 66 = false)
    by (destruct Hs as [E|E]; [rewrite E; split; reflexivity|destruct (in2_elim _ _ _ E) as [E'|E']; rewrite E'; split; reflexivity]).
  (* one more unit of fuel changes nothing: the loop ends at the period / exponent *)
  assert (Fuel : forall t, all isdigit t -> forall f1 f2, (length t < f1)%nat -> (length t < f2)%nat -> num_loop f1 (t ++ s) = num_loop f2 (t ++ s)).
  { intros t Ht f1 f2 L1 L2. destruct Hs as [E|E].
    - destruct s as [|c s']; [discriminate E|]. cbn [ahead] in E. subst c. rewrite !num_loop_frac by assumption. reflexivity.
    - rewrite !num_loop_exp by assumption. reflexivity. }
  assert (Len : (length ds1 < length (ds1 ++ s))%nat).
  { rewrite app_length. destruct s; [destruct Hs as [E|E]; [discriminate E|discriminate E]|cbn; lia]. }
  unfold number. destruct (d =? 48) eqn:E48; cbn [andb]; [|apply Fuel; [assumption|exact Len|lia]].
  destruct (ahead (ds1 ++ s) =? 0) eqn:E0; cbn [negb]; [apply Fuel; [assumption|exact Len|lia]|].
  destruct ds1 as [|o ds1'].
  - cbn [app] in *. destruct Hs_x as [X1 X2]. rewrite X1, X2, Hs_o. apply Fuel with (t := []); [constructor|cbn; destruct s; [discriminate|cbn; lia]|cbn; lia].
  - inversion Hds1 as [|? ? Ho Hds1']; subst. cbn [app ahead].
    assert (X1 : in2 o 120 88 = false /\ in2 o 98 66 = false).
    { unfold isdigit in Ho. apply andb_true_iff in Ho as [H1 H2]. apply N.leb_le in H1, H2. unfold in2. split; apply orb_false_iff; split; apply N.eqb_neq; lia. }
    destruct X1 as [X1 X2]. rewrite X1, X2. destruct (isoct o) eqn:Eo; [|apply (Fuel (o :: ds1')); [assumption|exact Len|cbn in Len |- *; lia]].
    rewrite (adv_cons o _ (isdigit_ascii o Ho)). unfold sw.
    destruct (skipw_isoct_digits ds1' s Hds1' Hs_o (length (ds1' ++ s)) ltac:(rewrite app_length; lia)) as [ds' [E [A L]]].
    rewrite E. cbv zeta.
    assert (C : (negb (isdigit (ahead (ds' ++ s))) && negb (ahead (ds' ++ s) =? 46) && negb (in2 (ahead (ds' ++ s)) 101 69)) = false).
    { destruct ds' as [|x ds'']; cbn [app ahead].
      - destruct Hs as [E'|E']; [rewrite E'; reflexivity|rewrite E'; cbn [negb]; rewrite !andb_false_r; reflexivity].
      - inversion A; subst. match goal with H : isdigit x = true |- _ => rewrite H end. reflexivity. }
    rewrite C.
    (* the loop over what the octal run left equals the loop over all the digits *)
    assert (Lds' : (length ds' < length (ds' ++ s))%nat) by (rewrite app_length; destruct s; [destruct Hs as [E'|E']; discriminate E'|cbn; lia]).
    destruct Hs as [E'|E'].
    + destruct s as [|c s']; [discriminate E'|]. cbn [ahead] in E'. subst c.
      rewrite (num_loop_frac ds' s' A _ Lds'). rewrite (num_loop_frac (o :: ds1') s' Hds1); [reflexivity|cbn; rewrite app_length; cbn; lia].
    + rewrite (num_loop_exp ds' s A E' _ Lds'). rewrite (num_loop_exp (o :: ds1') s Hds1 E'); [reflexivity|cbn; rewrite app_length; destruct s; [discriminate E'|cbn; lia]].
Qed.

Lemma exponent_not_xdigit ex s : exponent 112 80 ex -> isxdigit (ahead (ex ++ s)) = false.
Proof. intros H. pose proof (exponent_head _ _ ex s H) as He. destruct (in2_elim _ _ _ He) as [E|E]; rewrite E; reflexivity. Qed.

Theorem number_float w rest : float_const w -> num_boundary rest ->
  forall c0 tl, w = c0 :: tl -> c0 <> 46 -> number c0 (tl ++ rest) = (K_FloatingConstantToken, rest).
Proof.
  intros Hw Hb c0 tl E Hc0.
  destruct Hw as [d ds1 ds2 ex suf Hds1 Hds2 Hex Hs | d ds2 ex suf Hds Hex Hs | d ds1 ex suf Hds1 Hex Hs
                 | x hs1 hs2 ex suf Hx Hh1 Hh2 Hne Hex Hs | x h hs ex suf Hx Hhs Hex Hs].
  - (* d ds1 . ds2 ex suf *)
    cbn [app] in E. inversion E; subst c0 tl; clear E.
    replace ((ds1 ++ 46 :: ds2 ++ ex ++ suf) ++ rest) with (ds1 ++ 46 :: (ds2 ++ ex ++ suf ++ rest))
      by (rewrite <- !app_assoc; cbn [app]; rewrite <- !app_assoc; reflexivity).
    rewrite (number_decimal d ds1 (46 :: (ds2 ++ ex ++ suf ++ rest)) Hds1 (or_introl eq_refl)).
    inversion Hds1; subst. rewrite num_loop_frac; [apply at_period_tail; assumption|assumption|rewrite app_length; cbn; lia].
  - (* . d ds2 *) cbn [app] in E. inversion E. congruence.
  - (* d ds1 ex suf *)
    cbn [app] in E. inversion E; subst c0 tl; clear E.
    replace ((ds1 ++ ex ++ suf) ++ rest) with (ds1 ++ (ex ++ suf ++ rest)) by (rewrite <- !app_assoc; reflexivity).
    pose proof (exponent_head _ _ ex (suf ++ rest) Hex) as He.
    rewrite (number_decimal d ds1 _ Hds1 (or_intror He)).
    inversion Hds1; subst. rewrite num_loop_exp; [apply at_exponent_tail; [right; exact Hex|assumption|assumption]|assumption|exact He|].
    rewrite app_length. destruct ex; [inversion Hex|cbn; lia].
  - (* 0 x hs1 . hs2 ex suf *)
    inversion E; subst c0 tl; clear E.
    replace ((x :: hs1 ++ 46 :: hs2 ++ ex ++ suf) ++ rest) with (x :: hs1 ++ 46 :: (hs2 ++ ex ++ suf ++ rest))
      by (cbn [app]; rewrite <- !app_assoc; cbn [app]; rewrite <- !app_assoc; reflexivity).
    unfold number. change (48 =? 48) with true. cbn [andb ahead].
    assert (X0 : (x =? 0) = false) by (destruct (in2_elim _ _ _ Hx) as [->| ->]; reflexivity).
    assert (Xmb : is_mb x = false) by (destruct (in2_elim _ _ _ Hx) as [->| ->]; reflexivity).
    rewrite X0, Hx. cbn [negb]. rewrite (adv_cons x _ Xmb).
    rewrite (sw_run isxdigit isxdigit_ascii hs1 (46 :: (hs2 ++ ex ++ suf ++ rest)) Hh1 eq_refl). cbv zeta. cbn [ahead]. change (46 =? 46) with true. cbv iota.
    rewrite adv_cons by reflexivity.
    rewrite (sw_run isxdigit isxdigit_ascii hs2 _ Hh2 (exponent_not_xdigit ex _ Hex)).
    rewrite (bin_exp_part_consumes ex _ Hex (proj1 (float_suffix_head_stop suf rest Hs Hb))).
    apply float_tail_suffix; assumption.
  - (* 0 x h hs ex suf *)
    inversion E; subst c0 tl; clear E.
    replace ((x :: (h :: hs) ++ ex ++ suf) ++ rest) with (x :: (h :: hs) ++ (ex ++ suf ++ rest))
      by (cbn [app]; rewrite <- !app_assoc; reflexivity).
    unfold number. change (48 =? 48) with true. cbn [andb ahead app].
    assert (X0 : (x =? 0) = false) by (destruct (in2_elim _ _ _ Hx) as [->| ->]; reflexivity).
    assert (Xmb : is_mb x = false) by (destruct (in2_elim _ _ _ Hx) as [->| ->]; reflexivity).
    rewrite X0, Hx. cbn [negb]. rewrite (adv_cons x _ Xmb).
    assert (EQ : (hs ++ ex ++ suf) ++ rest = hs ++ ex ++ suf ++ rest) by (rewrite <- !app_assoc; reflexivity). rewrite EQ.
    change (h :: hs ++ ex ++ suf ++ rest) with ((h :: hs) ++ ex ++ suf ++ rest).
    rewrite (sw_run isxdigit isxdigit_ascii (h :: hs) _ Hhs (exponent_not_xdigit ex _ Hex)). cbv zeta.
    pose proof (exponent_head _ _ ex (suf ++ rest) Hex) as He.
    assert (N46 : (ahead (ex ++ suf ++ rest) =? 46) = false) by (destruct (in2_elim _ _ _ He) as [E'|E']; rewrite E'; reflexivity).
    rewrite N46, He.
    rewrite (bin_exp_part_consumes ex _ Hex (proj1 (float_suffix_head_stop suf rest Hs Hb))).
    apply float_tail_suffix; assumption.
Qed.

(** a floating constant that starts with the period: the switch hands the text after the period to this sub-lexer *)
Theorem period_float d ds2 ex suf rest : all isdigit (d :: ds2) -> opt (exponent 101 69) ex -> In suf float_suffixes -> num_boundary rest ->
  at_period (((d :: ds2) ++ ex ++ suf) ++ rest) = (K_FloatingConstantToken, rest).
Proof.
  intros Hds Hex Hs Hb. replace (((d :: ds2) ++ ex ++ suf) ++ rest) with ((d :: ds2) ++ ex ++ suf ++ rest) by (rewrite <- !app_assoc; reflexivity).
  apply at_period_tail; assumption.
Qed.

(* ------------------------------------------------------------------ 6.4.2.1: identifiers *)
Lemma isalnum__idc b : isalnum_ b = true -> isidc b = true.
Proof. unfold isalnum_, isidc. intros H. apply orb_true_iff in H as [H|H]; rewrite H; rewrite ?orb_true_r; reflexivity. Qed.

Lemma ident_run l rest : all isalnum_ l -> isidc (ahead rest) = false -> ident (l ++ rest) = (K_IdentifierToken, rest).
Proof.
  intros Hl Hr. unfold ident. f_equal.
  assert (Hp : forall b, (fun b => isalnum_ b) b = true -> is_mb b = false) by (intros b; apply isalnum__ascii).
  (* sw over isidc: every byte of l satisfies it and is ASCII *)
  unfold sw. assert (G : forall l fuel, all isalnum_ l -> (length l <= fuel)%nat -> skipw isidc fuel (l ++ rest) = rest).
  { clear l Hl. induction l as [|b l IH]; intros fuel Hl Hf.
    - cbn [app]. destruct fuel; cbn [skipw]; [reflexivity|]. rewrite Hr. reflexivity.
    - inversion Hl; subst. destruct fuel as [|f]; [cbn in Hf; lia|]. cbn [app skipw ahead].
      rewrite (isalnum__idc b) by assumption. rewrite (adv_cons b _ (isalnum__ascii b ltac:(assumption))). apply IH; [assumption|cbn in Hf; lia]. }
  apply G; [exact Hl|rewrite app_length; lia].
Qed.

Lemma alnum_not_quote b : isalnum_ b = true -> (b =? 34) = false /\ (b =? 39) = false.
Proof. intros H. split; (destruct (N.eqb_spec b 34) as [->|]; [discriminate H|]) || idtac; destruct (N.eqb_spec b 39) as [->|]; try discriminate H; try reflexivity;
       destruct (N.eqb_spec b 34) as [->|]; try discriminate H; reflexivity. Qed.

Lemma idc_stop_neq rest c : isidc (ahead rest) = false -> isidc c = true -> (ahead rest =? c) = false.
Proof. intros H Hc. destruct (N.eqb_spec (ahead rest) c) as [E|]; [rewrite E in H; congruence|reflexivity]. Qed.

Theorem word_ident w rest : ident_spelling w -> ident_boundary w rest ->
  forall c cs, w = c :: cs -> word c (cs ++ rest) = (K_IdentifierToken, rest).
Proof.
  intros Hw [Hr Hq] c cs E. destruct Hw as [c' cs' Hc Hcs]. inversion E; subst c' cs'; clear E.
  unfold word. destruct ((c =? 76) || (c =? 117) || (c =? 85) || (c =? 82)) eqn:P.
  2:{ assert (A : (isalpha c || (c =? 95) || (c =? 36) || is_mb c) = true).
      { unfold isnondigit in Hc. apply orb_true_iff in Hc as [H|H]; rewrite H; rewrite ?orb_true_r; reflexivity. }
      rewrite A. apply ident_run; assumption. }
  (* words that begin with a letter that can prefix a literal *)
  assert (R82 : (ahead rest =? 82) = false) by (apply idc_stop_neq; [exact Hr|reflexivity]).
  assert (R56 : (ahead rest =? 56) = false) by (apply idc_stop_neq; [exact Hr|reflexivity]).
  assert (Pc : c = 76 \/ c = 117 \/ c = 85 \/ c = 82).
  { repeat (apply orb_true_iff in P as [P|P]); apply N.eqb_eq in P; auto. }
  destruct cs as [|x cs1].
  - (* the word is the letter alone *)
    assert (W : In [c] literal_prefix_words) by (destruct Pc as [->|[->|[->| ->]]]; cbn; tauto).
    destruct (Hq W) as [Q1 Q2]. apply N.eqb_neq in Q1, Q2. cbn [app]. rewrite Q1, Q2, R82, R56. rewrite !andb_false_r.
    apply (ident_run [] rest); [constructor|exact Hr].
  - inversion Hcs as [|? ? Hx Hcs1]; subst. destruct (alnum_not_quote x Hx) as [X34 X39].
    cbn [app ahead]. rewrite X34, X39.
    destruct (negb (c =? 82) && (x =? 82)) eqn:T1.
    + (* c R ... *)
      apply andb_true_iff in T1 as [T1a T1b]. apply N.eqb_eq in T1b. subst x.
      rewrite adv_cons by reflexivity.
      destruct cs1 as [|y cs2].
      * assert (W : In [c; 82] literal_prefix_words).
        { destruct Pc as [->|[->|[->| ->]]]; cbn; try tauto. discriminate T1a. }
        destruct (Hq W) as [Q1 _]. apply N.eqb_neq in Q1. cbn [app]. rewrite Q1. apply (ident_run [] rest); [constructor|exact Hr].
      * inversion Hcs1; subst. cbn [app ahead]. rewrite (proj1 (alnum_not_quote y ltac:(assumption))). apply (ident_run (y :: cs2)); assumption.
    + destruct ((c =? 117) && (x =? 56)) eqn:T2.
      * apply andb_true_iff in T2 as [T2a T2b]. apply N.eqb_eq in T2a, T2b. subst c x.
        rewrite adv_cons by reflexivity.
        destruct cs1 as [|y cs2].
        -- assert (W : In [117; 56] literal_prefix_words) by (cbn; tauto).
           destruct (Hq W) as [Q1 Q2]. apply N.eqb_neq in Q1, Q2. cbn [app]. cbv zeta. rewrite Q1, Q2, R82. apply (ident_run [] rest); [constructor|exact Hr].
        -- inversion Hcs1 as [|? ? Hy Hcs2]; subst. destruct (alnum_not_quote y Hy) as [Y34 Y39]. cbn [app ahead]. cbv zeta. rewrite Y34, Y39.
           destruct (y =? 82) eqn:Y82.
           ++ apply N.eqb_eq in Y82. subst y. rewrite adv_cons by reflexivity.
              destruct cs2 as [|z cs3].
              ** assert (W : In [117; 56; 82] literal_prefix_words) by (cbn; tauto).
                 destruct (Hq W) as [Q1 _]. apply N.eqb_neq in Q1. cbn [app]. rewrite Q1. apply (ident_run [] rest); [constructor|exact Hr].
              ** inversion Hcs2; subst. cbn [app ahead]. rewrite (proj1 (alnum_not_quote z ltac:(assumption))). apply (ident_run (z :: cs3)); assumption.
           ++ apply (ident_run (y :: cs2)); assumption.
      * apply (ident_run (x :: cs1)); assumption.
Qed.

(* ------------------------------------------------------------------ 6.4.4.4 / 6.4.5: character constants and string literals *)
Lemma escape_facts e : escape_start e = true -> (e =? 0) = false /\ isspace e = false /\ is_mb e = false.
Proof.
  unfold escape_start. intros H.
  repeat (apply orb_true_iff in H as [H|H]);
    try (apply N.eqb_eq in H; subst e; repeat split; reflexivity).
  unfold isoct in H. apply andb_true_iff in H as [H1 H2]. apply N.leb_le in H1, H2. repeat split.
  - apply N.eqb_neq. lia.
  - unfold isspace. apply orb_false_iff; split; [apply N.eqb_neq; lia|]. apply andb_false_iff. right. apply N.leb_gt. lia.
  - apply lt128_not_mb. lia.
Qed.

Lemma backslash_escape e s : escape_start e = true -> backslash (92 :: e :: s) = s.
Proof.
  intros He. destruct (escape_facts e He) as (E0 & Esp & Emb). unfold backslash.
  rewrite adv_cons by reflexivity. cbn [ahead]. rewrite E0, Esp. cbn [negb andb]. apply adv_cons. exact Emb.
Qed.

Lemma until_quote_body q body : (q = 34 \/ q = 39) -> qchars q body ->
  forall rest fuel, (length body <= fuel)%nat -> until_quote fuel q (body ++ q :: rest) = q :: rest.
Proof.
  intros Hq Hb. induction Hb as [|b r Hbq Hb92 Hb10 Hb0 Hmb Hr IH|e r He Hr IH]; intros rest fuel Hf.
  - cbn [app]. destruct fuel as [|f]; cbn [until_quote]; [reflexivity|]. cbn [ahead]. rewrite N.eqb_refl. rewrite orb_true_r. reflexivity.
  - destruct fuel as [|f]; [cbn in Hf; lia|]. cbn [app until_quote ahead].
    apply N.eqb_neq in Hbq, Hb92, Hb10, Hb0. rewrite Hb0, Hbq, Hb10, Hb92. cbn [orb]. rewrite (adv_cons b _ Hmb). apply IH. cbn in Hf; lia.
  - destruct fuel as [|f]; [cbn in Hf; lia|]. cbn [app until_quote ahead].
    assert (Q92 : (92 =? q) = false) by (destruct Hq as [->| ->]; reflexivity).
    change (92 =? 0) with false. change (92 =? 10) with false. rewrite Q92. cbn [orb]. change (92 =? 92) with true. cbv iota.
    change (92 :: e :: r ++ q :: rest) with (92 :: e :: (r ++ q :: rest)). rewrite (backslash_escape e _ He). apply IH. cbn in Hf; lia.
Qed.

Theorem quoted_literal q body rest : (q = 34 \/ q = 39) -> qchars q body -> quoted q (body ++ q :: rest) = rest.
Proof.
  intros Hq Hb. unfold quoted. rewrite (until_quote_body q body Hq Hb rest); [|rewrite app_length; lia].
  cbn [ahead]. rewrite N.eqb_refl. apply adv_cons. destruct Hq as [->| ->]; reflexivity.
Qed.

(** the prefixed forms through the default case of the switch: L'c' u'c' U'c' and L"s" u"s" U"s" u8"s" *)
Ltac prefix_step :=
  repeat first
    [ rewrite adv_cons by reflexivity
    | progress cbn [ahead app]
    | progress cbv zeta
    | match goal with
      | |- context [?a =? ?b] => is_ground a; is_ground b; let v := eval vm_compute in (a =? b) in change (a =? b) with v
      end
    | progress cbn [orb andb negb]
    | progress cbv iota ].

Theorem word_char_prefixed p body rest : In p [76; 117; 85] -> qchars 39 body ->
  word p (39 :: body ++ 39 :: rest) = (chr_kind p, rest).
Proof.
  intros Hp Hb. cbn in Hp. unfold word.
  repeat (destruct Hp as [<-|Hp]; [prefix_step; rewrite (quoted_literal 39 body rest (or_intror eq_refl) Hb); reflexivity|]). contradiction.
Qed.

Theorem word_string_prefixed p body rest : In p [76; 117; 85] -> qchars 34 body ->
  word p (34 :: body ++ 34 :: rest) = (str_kind p, rest).
Proof.
  intros Hp Hb. cbn in Hp. unfold word.
  repeat (destruct Hp as [<-|Hp]; [prefix_step; rewrite (quoted_literal 34 body rest (or_introl eq_refl) Hb); reflexivity|]). contradiction.
Qed.

Theorem word_string_u8 body rest : qchars 34 body -> word 117 (56 :: 34 :: body ++ 34 :: rest) = (str_kind 56, rest).
Proof.
  intros Hb. unfold word. prefix_step. rewrite (quoted_literal 34 body rest (or_introl eq_refl) Hb). reflexivity.
Qed.

(* ------------------------------------------------------------------ 6.4.9: comments *)
Lemma plain_ascii_facts b : plain_ascii b = true -> (b =? 0) = false /\ is_mb b = false.
Proof. unfold plain_ascii. intros H. apply andb_true_iff in H as [H1 H2]. apply negb_true_iff in H1, H2. auto. Qed.

Lemma ahead_app_one (b : list N) x y t : ahead (b ++ x :: y :: t) = ahead (b ++ [x]).
Proof. destruct b; reflexivity. Qed.

Lemma block_loop_scan b t : all plain_ascii b -> no_close (b ++ [42]) = true ->
  forall fuel, (length b + 2 <= fuel)%nat -> block_loop fuel (b ++ 42 :: 47 :: t) = 47 :: t.
Proof.
  intros Hb. induction b as [|c b IH]; intros Hn fuel Hf.
  - destruct fuel as [|[|f]]; try (cbn in Hf; lia). cbn [app block_loop ahead]. change (42 =? 0) with false. change (negb (42 =? 42)) with false. cbv iota.
    rewrite adv_cons by reflexivity. cbn [ahead]. reflexivity.
  - inversion Hb as [|? ? Hc Hb']; subst. destruct (plain_ascii_facts c Hc) as [C0 Cmb].
    cbn [app no_close] in Hn. apply andb_true_iff in Hn as [Hn1 Hn2].
    destruct fuel as [|f]; [cbn in Hf; lia|]. cbn [app block_loop ahead]. rewrite C0.
    rewrite (adv_cons c _ Cmb). destruct (c =? 42) eqn:E42; cbn [negb].
    + rewrite ahead_app_one. cbn [andb] in Hn1. apply negb_true_iff in Hn1. rewrite Hn1. apply IH; [assumption|assumption|cbn in Hf; lia].
    + apply IH; [assumption|assumption|cbn in Hf; lia].
Qed.

Lemma no_close_tl c l : no_close (c :: l) = true -> no_close l = true.
Proof. cbn [no_close]. intros H. apply andb_true_iff in H as [_ H]. exact H. Qed.

Lemma sw_isdot_suffix b x : all plain_ascii b -> no_close (b ++ [42]) = true -> isdot (ahead x) = false ->
  forall fuel, (length b <= fuel)%nat -> exists b', skipw isdot fuel (b ++ x) = b' ++ x /\ all plain_ascii b' /\ no_close (b' ++ [42]) = true /\ (length b' <= length b)%nat.
Proof.
  intros Hb. induction b as [|c b IH]; intros Hn Hx fuel Hf.
  - exists []. cbn [app]. repeat split; try assumption; try constructor. destruct fuel; cbn [skipw]; [reflexivity|]. rewrite Hx. reflexivity.
  - inversion Hb as [|? ? Hc Hb']; subst. destruct fuel as [|f]; [cbn in Hf; lia|]. cbn [app skipw ahead].
    destruct (isdot c) eqn:Ed.
    + rewrite (adv_cons c _ (proj2 (plain_ascii_facts c Hc))).
      destruct (IH Hb' (no_close_tl _ _ Hn) Hx f ltac:(cbn in Hf; lia)) as [b' [E [A [N L]]]].
      exists b'. repeat split; try assumption. cbn; lia.
    + exists (c :: b). repeat split; try assumption. lia.
Qed.

Theorem block_comment_scan body t : all plain_ascii body -> no_close (body ++ [42]) = true ->
  snd (block_comment_at (body ++ 42 :: 47 :: t)) = t.
Proof.
  intros Hb Hn. unfold block_comment_at. cbv zeta. cbn [snd].
  (* whatever the opening bytes, the scan resumes on a suffix of the body that is still free of the closing pair *)
  assert (Fin : forall b', all plain_ascii b' -> no_close (b' ++ [42]) = true ->
            (let s6 := block_loop (length (b' ++ 42 :: 47 :: t)) (b' ++ 42 :: 47 :: t) in if ahead s6 =? 0 then s6 else adv s6) = t).
  { intros b' A N. cbv zeta. rewrite (block_loop_scan b' t A N); [|rewrite app_length; cbn; lia]. cbn [ahead]. change (47 =? 0) with false. cbv iota. apply adv_cons. reflexivity. }
  destruct body as [|c body'].
  - (* the comment is "/**/": closed at once *)
    cbn [app ahead]. change (in2 42 42 33) with true. change (42 =? 42) with true. rewrite adv_cons by reflexivity. cbn [ahead andb]. change (47 =? 47) with true. cbv iota.
    change (47 =? 0) with false. cbv iota. apply adv_cons. reflexivity.
  - inversion Hb as [|? ? Hc Hb']; subst. destruct (plain_ascii_facts c Hc) as [C0 Cmb].
    pose proof (no_close_tl _ _ Hn) as Hn'.
    cbn [app ahead]. rewrite (adv_cons c _ Cmb).
    destruct (in2 c 42 33) eqn:E1.
    + (* doc-comment opening: the second byte is an asterisk or an exclamation mark *)
      assert (NC : ((c =? 42) && (ahead (body' ++ 42 :: 47 :: t) =? 47)) = false).
      { cbn [app no_close] in Hn. apply andb_true_iff in Hn as [Hn1 _]. apply negb_true_iff in Hn1. rewrite ahead_app_one. exact Hn1. }
      cbn [andb]. rewrite NC. cbv iota.
      destruct (ahead (body' ++ 42 :: 47 :: t) =? 60) eqn:E60.
      * destruct body' as [|x body'']; [cbn in E60; discriminate E60|]. cbn [app ahead] in E60. apply N.eqb_eq in E60. subst x.
        inversion Hb' as [|? ? Hx Hb'']; subst. cbn [app]. rewrite adv_cons by reflexivity. apply Fin; [assumption|exact (no_close_tl _ _ Hn')].
      * apply Fin; assumption.
    + cbn [andb]. cbv iota. destruct (c =? 46) eqn:E46.
      * apply N.eqb_eq in E46. subst c. unfold sw.
        change (46 :: body' ++ 42 :: 47 :: t) with ((46 :: body') ++ 42 :: 47 :: t).
        destruct (sw_isdot_suffix (46 :: body') (42 :: 47 :: t) Hb Hn eq_refl (length ((46 :: body') ++ 42 :: 47 :: t)) ltac:(rewrite app_length; lia)) as [b' [E [A [N L]]]].
        rewrite E. apply Fin; assumption.
      * change (c :: body' ++ 42 :: 47 :: t) with ((c :: body') ++ 42 :: 47 :: t). apply Fin; assumption.
Qed.

Lemma line_scan b t : all plain_ascii b -> all (fun c => negb (c =? 10) && negb (c =? 92)) b ->
  forall fuel, (length b <= fuel)%nat -> line_comment fuel (b ++ 10 :: t) = 10 :: t.
Proof.
  intros Hb Hc. induction b as [|c b IH]; intros fuel Hf.
  - cbn [app]. destruct fuel; cbn [line_comment]; [reflexivity|]. cbn [ahead]. change (10 =? 10) with true. rewrite orb_true_r. reflexivity.
  - inversion Hb as [|? ? Hp Hb']; inversion Hc as [|? ? Hq Hc']; subst. destruct (plain_ascii_facts c Hp) as [C0 Cmb].
    apply andb_true_iff in Hq as [Q1 Q2]. apply negb_true_iff in Q1, Q2.
    destruct fuel as [|f]; [cbn in Hf; lia|]. cbn [app line_comment ahead]. rewrite C0, Q1, Q2. cbn [orb]. rewrite (adv_cons c _ Cmb). apply IH; [assumption|assumption|cbn in Hf; lia].
Qed.

Theorem line_comment_scan body t : all plain_ascii body -> all (fun c => negb (c =? 10) && negb (c =? 92)) body ->
  snd (line_comment_at (body ++ 10 :: t)) = 10 :: t.
Proof.
  intros Hb Hc. unfold line_comment_at. cbv zeta. cbn [snd].
  destruct (in2 (ahead (body ++ 10 :: t)) 47 33) eqn:E.
  - destruct body as [|c body']; [cbn in E; discriminate E|]. inversion Hb; inversion Hc; subst.
    cbn [app]. rewrite (adv_cons c _ (proj2 (plain_ascii_facts c ltac:(assumption)))). apply line_scan; [assumption|assumption|rewrite app_length; lia].
  - apply line_scan; [assumption|assumption|rewrite app_length; lia].
Qed.
