# C05 — Tokenisation follows the C11 lexical grammar.
import itertools, json, os, sys
from lib import pv
sys.path.insert(0, os.path.join(pv.ROOT, "gen"))
import reflex

OPTS = "2:1:200000:0:2"      # C11, keyword recognition, _Bool translation on, comments discarded


def kinds():
    sys.path.insert(0, os.path.join(pv.ROOT, "translate"))
    from common import enum_values
    return dict(enum_values("C/syntax/SyntaxKind.h", "SyntaxKind"))


KEYWORDS = ("auto break case char const continue default do double else enum extern float for goto if inline int long register "
            "restrict return short signed sizeof static struct switch typedef union unsigned void volatile while _Alignas _Alignof "
            "_Atomic _Bool _Complex _Generic _Noreturn _Static_assert _Thread_local").split()


def gen_identifier(rng):
    start = "abcxyzABCXYZ_$"
    cont = start + "0123456789"
    uni = ["é", "λ", "中", "\U0001f600"]
    n = rng.randint(1, 8)
    s = rng.choice(start) if rng.random() < 0.85 else rng.choice(uni)
    for _ in range(n - 1):
        s += rng.choice(uni) if rng.random() < 0.1 else rng.choice(cont)
    if s in KEYWORDS or s in ("L", "u", "U", "u8", "R", "LR", "uR", "UR", "u8R"):
        s += "_"
    return s.encode("utf-8")


def gen_int(rng):
    base = rng.choice("doxX")
    if base == "d":
        body = rng.choice("123456789") + "".join(rng.choice("0123456789") for _ in range(rng.randint(0, 12)))
    elif base == "o":
        body = "0" + "".join(rng.choice("01234567") for _ in range(rng.randint(0, 10)))
    else:
        body = "0" + base + "".join(rng.choice("0123456789abcdefABCDEF") for _ in range(rng.randint(1, 10)))
    suf = rng.choice(["", "", "u", "U", "l", "L", "ll", "LL", "ul", "uL", "Ul", "UL", "ull", "uLL", "Ull", "ULL", "lu", "lU", "Lu", "LU", "llu", "llU", "LLu", "LLU"])
    return (body + suf).encode()


def gen_float(rng):
    d = lambda a, b: "".join(rng.choice("0123456789") for _ in range(rng.randint(a, b)))
    h = lambda a, b: "".join(rng.choice("0123456789abcdefABCDEF") for _ in range(rng.randint(a, b)))
    exp = lambda c: rng.choice(c) + rng.choice(["", "+", "-"]) + d(1, 3)
    form = rng.randint(0, 6)
    if form == 0:
        body = d(1, 4) + "." + d(0, 4) + (exp("eE") if rng.random() < 0.5 else "")
    elif form == 1:
        body = "." + d(1, 4) + (exp("eE") if rng.random() < 0.5 else "")
    elif form == 2:
        body = d(1, 5) + exp("eE")
    elif form == 3:
        body = "0" + rng.choice("xX") + h(1, 4) + exp("pP")
    elif form == 4:
        body = "0" + rng.choice("xX") + h(1, 4) + "." + h(0, 3) + exp("pP")
    elif form == 5:
        body = "0" + rng.choice("xX") + "." + h(1, 3) + exp("pP")
    else:
        body = d(1, 3) + "." + exp("eE")
    return (body + rng.choice(["", "", "f", "F", "l", "L"])).encode()


ESCAPES = ["\\n", "\\t", "\\\\", "\\'", "\\\"", "\\?", "\\a", "\\b", "\\f", "\\r", "\\v", "\\0", "\\7", "\\12", "\\377", "\\x1", "\\xff", "\\x0aB", "\\u00e9", "\\U0001F600"]


def gen_char(rng):
    body = rng.choice(ESCAPES + ["a", "Z", "0", " ", "\"", "u", "L", "U", "8", "f", "/", "*"]) if rng.random() < 0.9 else rng.choice(["ab", "é", "a\\n"])
    if body == "\\\"" and rng.random() < 0.5:
        body = "\""
    return (rng.choice(["", "", "L", "u", "U"]) + "'" + body + "'").encode("utf-8")


def gen_str(rng):
    body = "".join(rng.choice(ESCAPES + list("abc xyz019 'uULRf8/*?%:<>.") + ["é", "\U0001f600", "//", "/*", "*/"]) for _ in range(rng.randint(0, 8)))
    return (rng.choice(["", "", "L", "u", "U", "u8"]) + '"' + body + '"').encode("utf-8")


SEPS = [b"", b"", b" ", b"\t", b"\n", b"\r\n", b"  \n  ", b"\v", b"\f", b"/**/", b"/* c * / \n */", b"// x\n", b"// a \\\n b\n", b"\\\n", b" \\\n ", b"/* \" ' */", b"//'\n"]


def expect(tokens, text, SK):
    """reference tokens -> [(set of admissible kinds or predicate name, start, end)]"""
    out = []
    for cls, s, e in tokens:
        sp = text[s:e]
        if cls == "id":
            out.append(("id", s, e))
        elif cls == "int":
            out.append(({SK["IntegerConstantToken"]}, s, e))
        elif cls == "float":
            out.append(({SK["FloatingConstantToken"]}, s, e))
        elif cls[0] == "char":
            out.append(({SK["CharacterConstant" + ("_" + cls[1] + "_" if cls[1] else "") + "Token"]}, s, e))
        elif cls[0] == "str":
            out.append(({SK["StringLiteral" + ("_" + cls[1] + "_" if cls[1] else "") + "Token"]}, s, e))
        else:
            name = reflex.PUNCT.get(cls[1]) or reflex.PUNCT_EXTRA[cls[1]]
            out.append(({SK[name]}, s, e))
    return out


def parse_answer(a):
    parts = a.split(" | ")
    n = int(parts[0])
    toks = []
    for p in parts[1:]:
        f = p.split()
        toks.append((int(f[0]), int(f[1]), int(f[2]), int(f[3]), int(f[4]), int(f[5]), bytes.fromhex(f[6][1:])))
    return n, toks


def compare(text, exp, ans, SK, NAME, kwset):
    """returns (why, detail) or None"""
    n, toks = ans
    if n != len(toks) or n < 2:
        return ("token-count-field", (n, len(toks)))
    if toks[0][0] != SK["EndOfFile"] and toks[0][0] != 0:
        return ("no-marker-token", toks[0])
    real = toks[1:]
    eofs = [t for t in real if t[0] == SK["EndOfFile"]]
    if len(eofs) != 1 or real[-1][0] != SK["EndOfFile"]:
        return ("not-exactly-one-final-EOF", len(eofs))
    if real[-1][1] != len(text) or real[-1][2] != len(text):
        return ("EOF-extent", (real[-1][1], real[-1][2], len(text)))
    real = real[:-1]
    if len(real) != len(exp):
        return ("token-count", (len(real), len(exp), [(NAME.get(t[0], t[0]), t[1], t[2]) for t in real][:12], [(s, e) for _, s, e in exp][:12]))
    prev_end = 0
    for i, (t, (want, s, e)) in enumerate(zip(real, exp)):
        k, bs, be, cs, ce, fl, vt = t
        sp = text[s:e]
        if (bs, be) != (s, e):
            return ("byte-extent", (i, sp, (bs, be), (s, e)))
        if bs < prev_end or be <= bs:
            return ("extents-not-increasing", (i, bs, be, prev_end))
        prev_end = be
        if want == "id":
            nm = NAME.get(k, "")
            if k != SK["IdentifierToken"] and not nm.startswith("Keyword"):
                return ("kind", (i, sp, nm))
            w = sp.decode("utf-8", "replace")
            if k != SK["IdentifierToken"] and w not in kwset:
                return ("kind:identifier-as-keyword", (i, sp, nm))
            if k == SK["IdentifierToken"] and w in KEYWORDS:
                return ("kind:keyword-as-identifier", (i, sp, nm))
        elif k not in want:
            return ("kind", (i, sp, NAME.get(k, k), [NAME[x] for x in want]))
        if vt != sp:
            return ("spelling", (i, sp, vt))
        try:
            wcs = reflex.utf16_units(text[:s]); wce = wcs + reflex.utf16_units(sp)
            if (cs, ce) != (wcs, wce):
                return ("char-extent", (i, sp, (cs, ce), (wcs, wce)))
        except UnicodeDecodeError:
            pass
    return None


def run(chk, only=None):
    chk.coverage["trusted_base"] = pv.TRUSTED_COMMON + [
        "translate/punct.py: the punctuator cases of the switch of Lexer::yylex_CORE that consist of kind assignments, yyinput() and tests yychar_ == 'c' -> decision statements "
        "(validated on every run: the extracted statement interpreter vs the compiled lexer on every first byte x every continuation of up to 2/3 bytes over the punctuator alphabet)",
        "the table coq/PunctSpec.v (6.4.6p1, digraphs p3)",
        "coq/LexModel.v: Lexer::yylex (white-space loop, switch, every sub-lexer: numeric constants, identifiers and literal prefixes, quoted literals and escapes, raw strings, comments) and the token loop "
        "of Lexer::lex (directives, expansion markers) transcribed BY HAND, with the punctuator cases taken from the regenerated programs; tied by correspondence on every run: the whole token vector "
        "(kind, byte extent, UTF-16 extent, line flags) of the extracted model vs the compiled lexer on generated token texts, the repository's test texts and byte soup, comments discarded and kept",
        "coq/LexSpec.v: the lexical grammar of C11 6.4 for integer constants, floating constants, identifiers, character constants, string literals, comments and white space over the BASIC source "
        "character set (ASCII); extended characters (UTF-8) in identifiers, literals and comments, keyword recognition (C17), raw string literals and the directive loop are correspondence only",
        "the independently written tokenizer gen/reflex.py as second oracle for texts of valid tokens"]
    chk.assumptions = ["the source text is made of valid C tokens (reference tokenizer accepts it); trigraphs are outside the property (phase 1) and '??' is excluded from the theorem"]
    terr = None
    try:
        sys.path.insert(0, os.path.join(pv.ROOT, "translate"))
        import punct
        punct.generate()
    except Exception as e:
        terr = "%s: %s" % (type(e).__name__, e)
    res = chk.prove(["Properties_C05.v", "Properties_C05_Tokens.v"], extra_targets=["Entry_C05.vo", "Entry_LEX.vo"])
    proof_ok = all(ok for ok, _ in res.values()) and terr is None
    if terr is not None:
        chk.coverage["discharged"] = 0
    SK = kinds()
    NAME = {}
    for k, v in SK.items():
        if not k.startswith(("STARTof", "ENDof")):
            NAME.setdefault(v, k)
    quick = chk.tier == "quick"
    rng = chk.rng
    bad, bad_tv = [], []
    dist = {}

    # ---- (1) translation validation of the regenerated punctuator statements
    tv_n = 0
    if terr is None:
        try:
            pv.build_model("C05")
            alpha = sorted({c for p in list(reflex.PUNCT) + list(reflex.PUNCT_EXTRA) for c in p}) + [ord("a"), ord(" "), ord("1"), 0xc3]
            firsts = list(range(1, 256))
            conts = [()] + [(a,) for a in alpha] + [(a, b) for a in alpha for b in alpha]
            if not quick:
                conts += [(a, b, c) for a in alpha for b in alpha for c in alpha]
            mreq, ireq, meta = [], [], []
            for c in firsts:
                if c in (0x22, 0x27, 0x5c, 0x0a) or chr(c).isspace():
                    continue
                cs = conts if chr(c) in "[](){}.->+&*~!/%<=^|?:;,#" else conts[:1 + len(alpha)]
                for r in cs:
                    mreq.append(" ".join(map(str, (c,) + r)))
                    ireq.append("lex %s %s" % (OPTS, (b"a " + bytes((c,) + r)).hex()))
                    meta.append((c,) + r)
            mo = pv.run_model("C05", mreq, shards=pv.NCPU)
            im = pv.run_impl(ireq, shards=pv.NCPU)
            for m, a, b in zip(meta, mo, im):
                if not a or a[0] == 0:
                    continue           # no translated case for this first byte
                tv_n += 1
                try:
                    n, toks = parse_answer(b)
                    t = toks[2]
                    got = (t[0], t[2] - t[1] - 1)
                except Exception:
                    bad_tv.append((m, a, b[:200])); continue
                if m[0] == 63 and len(m) > 1 and m[1] == 63:
                    continue           # trigraph territory
                if m[0] == 46 and len(m) > 1 and 48 <= m[1] <= 57:
                    continue           # a period that starts a floating constant: the case hands over to a sub-lexer
                if (a[1], a[2]) != got or a[3] != 0:
                    bad_tv.append((m, a, got))
        except Exception as e:
            terr = "model runner: %s" % e
    dist["translation_validation_cases"] = tv_n

    # ---- (2) the implementation against the reference tokenizer
    puncts = sorted(reflex.PUNCT) + sorted(reflex.PUNCT_EXTRA)
    texts = []
    if only:
        texts = [bytes.fromhex(only)]
    else:
        for p in puncts:
            texts.append(p)
        for p, q in itertools.product(puncts, repeat=2):          # exhaustively all ordered pairs, with no and with every separator
            for sep in (b"", b" ", b"\n", b"/**/", b"\\\n") if quick else SEPS:
                texts.append(b"a " + p + sep + q + b" b")
        dist["punctuator_pairs"] = len(puncts) ** 2
        if not quick:
            for p, q, r in itertools.product(puncts, repeat=3):
                texts.append(b"a " + p + q + r)
        gens = [("id", gen_identifier), ("int", gen_int), ("float", gen_float), ("char", gen_char), ("str", gen_str),
                ("kw", lambda r: r.choice(KEYWORDS).encode()), ("punct", lambda r: r.choice(puncts))]
        # every punctuator next to every other class, both orders, no separator
        for p in puncts:
            for name, g in gens[:6]:
                for _ in range(2 if quick else 6):
                    x = g(rng)
                    texts.append(b"a " + p + x); texts.append(b"a " + x + p + b" b")
        # constants and literals alone and next to each other with separators
        for name, g in gens[:5]:
            for _ in range(600 if quick else 6000):
                texts.append(g(rng))
        for _ in range(6000 if quick else 80000):
            n = rng.randint(2, 12)
            parts = []
            for i in range(n):
                parts.append(rng.choice(gens)[1](rng))
                parts.append(rng.choice(SEPS))
            texts.append(b"".join(parts))
    # texts that are known to be lexed differently from C11 (each is a finding of its own, identified by that text: see known_findings.json)
    PROBES = {b"x = R\"abc\" y ;": "kind:raw-string-prefix", b"x = u8'a' ;": "kind:u8-character-constant",
              b"s = \"" + b"a" * 70000 + b"\" ;": "byte-extent:token-longer-than-65535-bytes", b"a // n \\\\\nb\nc": "splice:after-escaped-backslash"}
    if not only:
        texts += list(PROBES)
    reqs, exps, kept = [], [], []
    rejected = 0
    for t in texts:
        if b"??" in t or b"\0" in t:
            rejected += 1; continue
        # a '#' first on a line starts a directive (the lexer drops the line): keep '#' off the line start
        ref = reflex.tokenize(t, percent_colon2=True)
        if ref is None:
            rejected += 1; continue
        line_start = True
        skip = False
        pos = 0
        for cls, s, e in ref:
            gap = t[pos:s]
            if b"\n" in gap.replace(b"\\\n", b""):
                line_start = True
            if line_start and isinstance(cls, tuple) and cls[0] == "p" and cls[1] in (b"#", b"%:", b"##", b"%:%:"):
                skip = True; break
            line_start = False
            pos = e
        if skip:
            rejected += 1; continue
        reqs.append("lex %s %s" % (OPTS, t.hex() if t else "-")); exps.append(expect(ref, t, SK)); kept.append(t)
        for cls, s, e in ref:
            c = cls if isinstance(cls, str) else cls[0]
            dist["tok_" + c] = dist.get("tok_" + c, 0) + 1
    dist["texts"] = len(kept)
    dist["texts_rejected_by_reference_or_directive"] = rejected
    impl = pv.run_impl(reqs, shards=pv.NCPU)
    kwset = set(KEYWORDS)
    crashes = 0
    for t, e, a in zip(kept, exps, impl):
        if a.startswith("CRASH"):
            crashes += 1
            bad.append((t, "crash", a[:200])); continue
        try:
            ans = parse_answer(a)
        except Exception as ex:
            bad.append((t, "unparsable-answer", a[:200])); continue
        r = compare(t, e, ans, SK, NAME, kwset)
        if r:
            bad.append((t, r[0], r[1]))
    # ---- (3) the hand-written model of yylex and Lexer::lex (coq/LexModel.v, what Properties_C05_Tokens.v is about) against the compiled lexer:
    #          the whole token vector (kind, byte extent, UTF-16 extent, line flags) on the kept texts, on the corpus and on byte soup, comments discarded and kept
    lex_n, bad_lex = 0, []
    try:
        pv.build_model("LEX")
        kwlo, kwhi = SK["STARTof_KeywordOrPunctuatorToken"] if "STARTof_KeywordOrPunctuatorToken" in SK else 0, 0
        sys.path.insert(0, os.path.join(pv.ROOT, "gen"))
        import corpus as _corpus
        ltexts = list(kept) + [t_.encode("utf-8", "replace") for _c, t_ in rng.sample(_corpus.test_snippets(), 300 if quick else 1400)]
        soup = b"(){}[];,*&=+-<>?:.#\"'\\/ \n\tintxyTuLRUe8f01279%^|~!_$\xc3\xa9\xe4\xb8\xad\xf0\x9f\x98\x80\x80\xff"
        pieces = [b"#", b"# ", b"expansion", b"begin", b"end", b"line", b"~", b"1", b"2,3", b"4:5", b"\n", b"\\\n", b" ", b"R\"", b"(", b")", b"x(", b")x\"", b"\"", b"u8", b"u", b"L", b"U", b"R", b"'",
                  b"/*", b"*/", b"//", b"/**", b"/*!", b"/*!<", b"/*.", b"...", b"*", b"/", b"\\", b"a", b"0x", b"1e", b"+", b"-", b".", b"p", b"f", b"i", b"j", b"ull", b"LL", b"%:", b"%:%:", b"??", b"??(",
                  b"\t", b"\r", b"\xc3\xa9", b"\xf0\x9f", b"int", b"08", b"0b1", b"1.5e+3L", b"0x1.8p-2f", b"'\\''", b"\"\\\"\""]
        for _ in range(1500 if quick else 30000):
            ltexts.append(bytes(rng.choice(soup) for _ in range(rng.randint(0, 25))))
        for _ in range(3000 if quick else 60000):
            ltexts.append(b"".join(rng.choice(pieces) for _ in range(rng.randint(1, 12))))
        ltexts = [t_ for t_ in ltexts if b"\0" not in t_ and len(t_) <= 4000]
        kwkinds = {v for k_, v in SK.items() if k_.startswith("Keyword_") or k_.startswith("OperatorName_")}
        for keepc in (0, 1):
            li = pv.run_impl(["lex 2:0:0:%d:2 %s" % (keepc, t_.hex() or "-") for t_ in ltexts], shards=pv.NCPU)
            lm = pv.run_model("LEX", ["%d %s" % (keepc, " ".join(str(b_) for b_ in t_)) for t_ in ltexts], shards=pv.NCPU)
            lex_n += len(ltexts)
            for t_, a_, m_ in zip(ltexts, li, lm):
                if a_.startswith(("CRASH", "EXC")):
                    bad.append((t_, "crash", a_[:200])); continue
                ia = []
                for p_ in a_.split(" | ")[2:]:
                    f_ = p_.split()
                    ia.append((int(f_[0]), int(f_[1]), int(f_[2]), int(f_[3]), int(f_[4]), (int(f_[5]) & 7) if int(f_[0]) != 0 else 0))
                ma = [tuple(m_[i_:i_ + 6]) for i_ in range(0, len(m_), 6)]
                ma = [x_ if x_[0] != 0 else x_[:5] + (0,) for x_ in ma]
                if ia != ma:
                    k_ = next((i_ for i_ in range(min(len(ia), len(ma))) if ia[i_] != ma[i_]), min(len(ia), len(ma)))
                    bad_lex.append((t_, keepc, ia[k_:k_ + 1], ma[k_:k_ + 1]))
        dist["lexmodel_cases"] = lex_n
    except Exception as e:
        if terr is None:
            terr = "lexer model runner: %s: %s" % (type(e).__name__, e)
    chk.coverage["evaluations"] = len(reqs) + tv_n + lex_n
    chk.coverage["distinct_nontrivial"] = len({t for t, e in zip(kept, exps) if len(e) >= 2})
    chk.coverage["exhaustive"] = False
    chk.coverage["rule"] = ("(1) every first byte x every continuation of up to %d bytes over the punctuator alphabet + {a, space, 1, 0xc3}: extracted statement interpreter vs compiled lexer (kind, size). "
                            "(2) texts = every punctuator alone; all %d ordered pairs of punctuators with no separator and with each of %d separators%s; every punctuator adjacent to generated identifiers "
                            "(incl. UTF-8, $), keywords, integer/floating constants over all bases/suffixes/exponents, character constants and string literals with every prefix and escape; random sequences of "
                            "2-12 such tokens joined by random separators (white space, comments, splices, none).  Expected tokens come from gen/reflex.py (longest match, 6.4); texts it rejects are skipped. "
                            "Per token: kind, byte extent, UTF-16 extent, spelling; extents increasing; one final EOF at the end of the text. non-trivial = at least two tokens"
                            % (2 if quick else 3, len(puncts) ** 2, 5 if quick else len(SEPS), "" if quick else "; all ordered triples without separator"))
    chk.coverage["samples"] = [t.decode("utf-8", "replace") for t in (kept[60:61] + kept[-3:])] if kept else []
    chk.coverage["distribution"] = dist
    seen = set()
    bad.sort(key=lambda x: len(x[0]))
    for t, why, det in bad:
        key = why
        if t in PROBES:
            key = PROBES[t]
        elif why == "spelling" and det[1] in (b"<:", b":>", b"<%", b"%>", b"%:", b"%:%:"):
            key = "spelling:digraph"
        elif why.startswith("kind") or why in ("byte-extent", "spelling"):
            # identify by the first offending token
            key = why + ":" + det[1].decode("utf-8", "replace")[:24]
        if key in seen:
            continue
        seen.add(key)
        chk.report(key, {"text_hex": t.hex(), "text": t.decode("utf-8", "replace"), "options": OPTS, "why": why, "detail": str(det),
                         "count_same_kind_of_failure": sum(1 for b in bad if b[1] == why)}, found=True,
                   what="token sequence differs from the C11 lexical grammar's")
        if len(seen) > 10:
            break
    if bad_lex and not bad:
        bad_lex.sort(key=lambda x: len(x[0]))
        t_, keepc, ia_, ma_ = bad_lex[0]
        chk.report("lexer-model-correspondence", {"unchecked": "coq/LexModel.v (the model Properties_C05_Tokens.v is about) vs the compiled Lexer::lex", "text_hex": t_.hex(), "text": t_.decode("latin-1"),
                                                  "comments_kept": keepc, "implementation_token": str(ia_), "model_token": str(ma_), "count": len(bad_lex)}, found=False)
    if bad_tv and not bad:
        m, a, got = bad_tv[0]
        chk.report("translation-validation", {"unchecked": "translate/punct.py statements vs compiled yylex_CORE", "bytes": list(m), "model": a, "implementation": str(got), "count": len(bad_tv)}, found=False)
    if terr is not None and not bad:
        chk.report("translator", {"unchecked": "translate/punct.py / model runner: " + terr}, found=False)
    if not proof_ok and terr is None and not bad:
        for f, (ok, out) in res.items():
            if not ok:
                chk.report("proof-" + f, {"unchecked": f + " (theorems: %s)" % ", ".join(pv.theorem_names(f)), "coq_output": out[-3000:]}, found=False)


def replay(chk, path):
    r = json.load(open(path))
    if r.get("text_hex") is not None:
        print("implementation:", pv.run_impl(["lex %s %s" % (r.get("options", OPTS), r["text_hex"] or "-")])[0][:1500])
        return run(chk, only=r["text_hex"])
    run(chk)
